/* C06 harness: event and timer registrations.  Modes:
 *   1 ARGS     timer argument oracle: what reaches timerfd_create/timerfd_settime (link-time observation)
 *   2 VALID    validation oracle: which registrations are refused, and that refused ones leave no kernel trace
 *   3 HISTORY  add/enable/disable/delete/make-ready/close histories on the owning thread (or from outside)
 *              with an online shadow-state monitor: a callback contradicting the shadow state is a violation
 *              at the moment it happens. */
#include "tpmon.h"
#include <sys/socket.h>
#include <sys/wait.h>
#include <signal.h>

enum { EV_TFD_CREATE = 1, EV_TFD_SETTIME, EV_EPOLL_CTL, EV_RC, EV_VIOL, EV_FIRE, EV_STEP, EV_NOTE, EV_TIMEOUT };
enum { V_FIRE_UNREGISTERED = 1, V_FIRE_DISABLED, V_FIRE_ONESHOT_TWICE, V_FIRE_DISPATCH_NOT_REENABLED, V_FIRE_NO_CONDITION,
       V_WRONG_EVENT_KIND, V_EOF_FLAG_MISSING, V_EOF_FLAG_SPURIOUS, V_MISSING_FIRE, V_WRONG_THREAD, V_OP_FAILED, V_ERROR_FLAG_SPURIOUS,
       V_PROC_FLAGS, V_FD_LEAK, V_ERROR_FLAG_MISSING, V_ERROR_CODE, V_REFUSED_BUT_INSTALLED };

int __real_timerfd_create(int clockid, int flags);
int __real_timerfd_settime(int fd, int flags, const struct itimerspec *n, struct itimerspec *o);
int __real_epoll_ctl(int ep, int op, int fd, struct epoll_event *e);
static int g_observe;

int __wrap_timerfd_create(int clockid, int flags) {
	int r = __real_timerfd_create(clockid, flags);
	if (__atomic_load_n(&g_observe, __ATOMIC_RELAXED)) TM_LOG(EV_TFD_CREATE, 0, (uint64_t)clockid, (uint64_t)flags, r);
	return r;
}
int __wrap_timerfd_settime(int fd, int flags, const struct itimerspec *n, struct itimerspec *o) {
	int r, e;
	if (__atomic_load_n(&g_observe, __ATOMIC_RELAXED)) {
		TM_LOG(EV_TFD_SETTIME, (uint16_t)flags, (uint64_t)n->it_value.tv_sec, (uint64_t)n->it_value.tv_nsec, 0);
		TM_LOG(EV_TFD_SETTIME, 1000, (uint64_t)n->it_interval.tv_sec, (uint64_t)n->it_interval.tv_nsec, 0);
	}
	r = __real_timerfd_settime(fd, flags, n, o); e = errno;
	if (__atomic_load_n(&g_observe, __ATOMIC_RELAXED)) TM_LOG(EV_TFD_SETTIME, 2000, 0, 0, r ? e : 0);
	errno = e;
	return r;
}
int __wrap_epoll_ctl(int ep, int op, int fd, struct epoll_event *e) {
	if (__atomic_load_n(&g_observe, __ATOMIC_RELAXED)) TM_LOG(EV_EPOLL_CTL, (uint16_t)op, (uint64_t)fd, e ? e->events : 0, 0);
	return __real_epoll_ctl(ep, op, fd, e);
}

static tp_p g_tp; static int g_first_fd;
static void dummy_cb(tp_event_p ev, tp_udata_p u) { (void)ev; (void)u; }
static void on_start(tpt_p tpt) { if (tpt_get_current() == tpt) tm_tid = (uint32_t)tpt_get_num(tpt); }

/* ------------------------------------------------------------------ HISTORY mode */
#define MAXID 8
enum { K_READ = 0, K_WRITE = 1, K_TIMER = 2, K_PROC = 3 };
typedef struct {
	tp_udata_t u;           /* must be first: callbacks get a pointer to it */
	int kind, fdr, fdw;     /* pipe (read end registered) or socketpair */
	int registered, enabled, flags /* TP_F_ONESHOT / DISPATCH */, fired_since_enable;
	long pending;           /* bytes in the pipe not yet consumed */
	int peer_closed, is_sock, peer_reset, poisoned;
	unsigned long fired, expected_min;
	pid_t child;
	unsigned timer_ms;
} ident_t;
static ident_t g_id[MAXID];
#define MAXKIDS 24
static pid_t g_kid[MAXKIDS]; static int g_kid_ctl[MAXKIDS]; static unsigned g_kid_next, g_kids;
/* Children are forked before the pool exists, so they inherit none of its descriptors
 * (a forked copy of a timerfd would keep its epoll registration alive after close()). */
static void prefork_kids(void) {
	unsigned i, j;
	for (i = 0; i < MAXKIDS; i++) {
		int p[2]; pid_t pid; char c;
		if (pipe(p)) break;
		pid = fork();
		if (pid == 0) { for (j = 0; j < i; j++) close(g_kid_ctl[j]); close(p[1]); (void)!read(p[0], &c, 1); _exit(7); }
		close(p[0]); g_kid[i] = pid; g_kid_ctl[i] = p[1]; g_kids = i + 1;
	}
}
static tpt_p g_owner, g_reg /* where events are registered: the owner or the pool virtual thread */; static int g_fd_base;
static volatile uint64_t g_steps_done, g_viol;

static void viol(int what, int id, int64_t detail) { TM_LOG(EV_VIOL, (uint16_t)what, (uint64_t)id, (id >= 0 && id < MAXID) ? (((uint64_t)g_id[id].kind << 8) | (uint64_t)g_id[id].flags) : 0xffff, detail); __atomic_add_fetch(&g_viol, 1, __ATOMIC_RELAXED); }

static void ev_cb(tp_event_p ev, tp_udata_p u) {
	ident_t *d = (ident_t *)u; int id = (int)(d - g_id);
	if (tpt_get_current() != g_owner) viol(V_WRONG_THREAD, id, 0);
	TM_LOG(EV_FIRE, (uint16_t)ev->event, (uint64_t)id, ((uint64_t)ev->flags << 32) | ev->fflags, (int64_t)ev->data);
	d->fired++;
	if (!d->registered) { viol(V_FIRE_UNREGISTERED, id, 0); return; }
	if (!d->enabled) { viol(V_FIRE_DISABLED, id, 0); return; }
	if ((d->flags & TP_F_ONESHOT) && d->fired_since_enable >= 1) viol(V_FIRE_ONESHOT_TWICE, id, 0);
	if ((d->flags & TP_F_DISPATCH) && d->fired_since_enable >= 1) viol(V_FIRE_DISPATCH_NOT_REENABLED, id, 0);
	d->fired_since_enable++;
	if ((int)ev->event != d->kind) viol(V_WRONG_EVENT_KIND, id, ev->event);
	switch (d->kind) {
	case K_READ:
		if (d->pending <= 0 && !d->peer_closed) viol(V_FIRE_NO_CONDITION, id, 0);
		if (d->peer_closed && !(ev->flags & TP_F_EOF)) viol(V_EOF_FLAG_MISSING, id, ev->flags);
		if (!d->peer_closed && (ev->flags & TP_F_EOF)) viol(V_EOF_FLAG_SPURIOUS, id, ev->flags);
		if (d->peer_reset) { /* peer closed with our data unread: the kernel reports hang-up AND error (ECONNRESET) together */
			if (!(ev->flags & TP_F_ERROR)) viol(V_ERROR_FLAG_MISSING, id, ev->flags);
			else if (ev->fflags != ECONNRESET && ev->fflags != EPIPE) viol(V_ERROR_CODE, id, ev->fflags);
			d->peer_reset = 0; /* SO_ERROR is consumed by the first report */
		} else if ((ev->flags & TP_F_ERROR)) viol(V_ERROR_FLAG_SPURIOUS, id, ev->fflags);
		if (d->pending > 0) { char c; if (1 == read(d->fdr, &c, 1)) d->pending--; }
		else if (d->peer_closed) { /* EOF keeps firing on a persistent event: stop it ourselves */
			if (!(d->flags & (TP_F_ONESHOT | TP_F_DISPATCH))) { tpt_ev_enable_args1(0, TP_EV_READ, &d->u); d->enabled = 0; }
		}
		break;
	case K_WRITE:
		if ((ev->flags & TP_F_EOF) && !d->peer_closed) viol(V_EOF_FLAG_SPURIOUS, id, ev->flags);
		/* persistent write readiness fires continuously: throttle by disabling after a few */
		if (!(d->flags & (TP_F_ONESHOT | TP_F_DISPATCH)) && d->fired_since_enable >= 3) { tpt_ev_enable_args1(0, TP_EV_WRITE, &d->u); d->enabled = 0; }
		break;
	case K_TIMER:
		if (!(d->flags & (TP_F_ONESHOT | TP_F_DISPATCH)) && d->fired_since_enable >= 3) {
			tp_event_t e = { TP_EV_TIMER, 0, TP_FF_T_MSEC, d->timer_ms };
			tpt_ev_enable(0, &e, &d->u); d->enabled = 0;
		}
		break;
	case K_PROC:
		if (ev->fflags != TP_FF_P_EXIT) viol(V_PROC_FLAGS, id, ev->fflags);
		break;
	}
	if (d->flags & TP_F_ONESHOT) { d->registered = 0; d->enabled = 0; }
	if (d->kind == K_PROC) { d->registered = 0; d->enabled = 0; }
	if (d->flags & TP_F_DISPATCH) d->enabled = 0;
}

enum { H_ADD = 1, H_ENABLE, H_DISABLE, H_DELETE, H_READY, H_CLOSE_PEER, H_SPIN, H_CHECK, H_ENABLE_NEWFLAGS, H_POISON, H_ADD_REFUSED_TIMER, H_REOPEN };
typedef struct { uint8_t op, id, kind, flags; uint32_t arg; } hstep_t;
static hstep_t *g_prog; static unsigned g_nprog, g_pc; static int g_external;
static unsigned g_spin_left; static uint64_t g_check_deadline;

static void open_ident(ident_t *d, int kind, int is_sock) {
	int fd[2] = {-1, -1};
	if (d->fdr > 0) { close(d->fdr); if (d->fdw > 0 && d->fdw != d->fdr) close(d->fdw); }
	d->fdr = d->fdw = -1; d->pending = 0; d->peer_closed = 0; d->is_sock = is_sock; d->peer_reset = 0; d->poisoned = 0;
	if (kind == K_READ || kind == K_WRITE) {
		if (is_sock) socketpair(AF_UNIX, SOCK_STREAM | SOCK_NONBLOCK, 0, fd); else pipe2(fd, O_NONBLOCK);
		if (kind == K_READ) { d->fdr = fd[0]; d->fdw = fd[1]; }
		else { d->fdr = fd[1]; d->fdw = fd[0]; } /* registered end is the writable one */
	}
}

static int expected_ok(ident_t *d) {
	/* what must have happened by now for events that are registered+enabled and whose condition holds */
	if (!d->registered || !d->enabled) return 1;
	switch (d->kind) {
	case K_READ: return d->pending == 0 && !d->peer_closed; /* all bytes consumed (persistent); one-shot/dispatch get disabled by firing */
	case K_WRITE: return 0;   /* writable end: must fire (then it disables itself or is oneshot/dispatch) */
	case K_TIMER: return 0;   /* must fire until it disables itself */
	case K_PROC: return 0;
	}
	return 1;
}

static void step_cb(tpt_p tpt, void *udata);
static void post_step(void) { if (tpt_msg_send(g_owner, NULL, 0, step_cb, NULL)) viol(V_OP_FAILED, 99, errno); }

static void do_op(hstep_t *s) {
	ident_t *d = &g_id[s->id % MAXID]; int rc = 0; tp_event_t e;
	TM_LOG(EV_STEP, s->op, s->id, ((uint64_t)s->kind << 8) | s->flags, s->arg);
	switch (s->op) {
	case H_ADD:
		if (d->registered) break;
		if (d->kind == K_TIMER && d->u.tpdata) break; /* a disabled one-shot timer object still owns its timerfd */
		memset(&d->u, 0, sizeof(d->u));
		d->kind = s->kind; d->flags = s->flags; d->u.cb_func = ev_cb; d->fired_since_enable = 0;
		if (d->kind == K_READ || d->kind == K_WRITE) { open_ident(d, d->kind, (int)(s->arg & 1)); d->u.ident = (uintptr_t)d->fdr; rc = tpt_ev_add_args(g_reg, (uint16_t)d->kind, (uint16_t)d->flags, 0, 0, &d->u); }
		else if (d->kind == K_TIMER) { d->timer_ms = 1 + (s->arg % 4);
			/* a timer's identifier is only a label: with bit 3 set the labels are small integers from the number of the pool's first
			 * descriptor (its virtual thread's epoll) upwards, so one of them collides with that number */
			d->u.ident = (g_external & 8) ? (uintptr_t)(g_first_fd + (int)(s->id % MAXID)) : (uintptr_t)d; rc = tpt_ev_add_args(g_reg, TP_EV_TIMER, (uint16_t)d->flags, TP_FF_T_MSEC, d->timer_ms, &d->u); }
		else {
			if (g_kid_next >= g_kids) break;
			d->child = g_kid[g_kid_next]; d->u.ident = (uintptr_t)d->child; d->flags = 0;
			rc = tpt_ev_add_args(g_reg, TP_EV_PROC, 0, TP_FF_P_EXIT, 0, &d->u);
			close(g_kid_ctl[g_kid_next]); g_kid_ctl[g_kid_next] = -1; g_kid_next++; /* let it exit now */
		}
		if (rc) viol(V_OP_FAILED, s->id, rc); else { d->registered = 1; d->enabled = 1; }
		break;
	case H_ADD_REFUSED_TIMER: /* a timer the kernel cannot take (seconds >= 2^63): a refused registration must leave nothing installed */
		if (d->registered || d->u.tpdata) break;
		memset(&d->u, 0, sizeof(d->u));
		d->kind = K_TIMER; d->flags = s->flags; d->u.cb_func = ev_cb; d->u.ident = (uintptr_t)d; d->fired_since_enable = 0; d->timer_ms = 1 + (s->arg % 4);
		rc = tpt_ev_add_args(g_reg, TP_EV_TIMER, (uint16_t)d->flags, TP_FF_T_SEC, ((uint64_t)1 << 63) + s->arg, &d->u);
		if (rc == 0) { tpt_ev_del_args1(TP_EV_TIMER, &d->u); break; } /* accepting it is not judged here */
		if (s->arg & 1) { /* probe: there is nothing to delete */
			if (0 == tpt_ev_del_args1(TP_EV_TIMER, &d->u)) viol(V_REFUSED_BUT_INSTALLED, s->id, rc);
			memset(&d->u, 0, sizeof(d->u));
		}
		break;
	case H_REOPEN: { /* the application closed the registered descriptor without deleting the event (the kernel forgets the
		* registration by itself), the next descriptor it opens gets the same number, and it is registered through the same
		* tp_udata: a well-formed registration that must be accepted and fire.  Only done when no event of the old
		* descriptor can be in flight (disabled, or an enabled read end with nothing to report). */
		int old, t;
		if (!d->registered || (d->kind != K_READ && d->kind != K_WRITE)) break;
		if (d->enabled && !(d->kind == K_READ && d->pending == 0 && !d->peer_closed)) break;
		old = d->fdr;
		open_ident(d, d->kind, d->is_sock);
		if (d->fdr < 0 || d->fdw < 0) { viol(V_OP_FAILED, s->id, errno); d->registered = d->enabled = 0; break; }
		if (d->fdw == old) { t = fcntl(d->fdw, F_DUPFD_CLOEXEC, old + 1); if (t < 0) break; d->fdw = t; /* number "old" is re-pointed below */ }
		if (d->fdr != old) { if (dup2(d->fdr, old) < 0) break; close(d->fdr); d->fdr = old; }
		rc = tpt_ev_add_args(g_reg, (uint16_t)d->kind, (uint16_t)d->flags, 0, 0, &d->u);
		if (rc) { viol(V_OP_FAILED, s->id, rc); d->registered = d->enabled = 0; }
		else { d->registered = 1; d->enabled = 1; d->fired_since_enable = 0; }
		break; }
	case H_ENABLE:
		if (!d->registered || d->kind == K_PROC) break;
		e.event = (uint16_t)d->kind; e.flags = (uint16_t)d->flags; e.fflags = d->kind == K_TIMER ? TP_FF_T_MSEC : 0; e.data = d->kind == K_TIMER ? d->timer_ms : 0;
		rc = tpt_ev_enable(1, &e, &d->u);
		if (rc) viol(V_OP_FAILED, s->id, rc); else { d->enabled = 1; d->fired_since_enable = 0; }
		break;
	case H_ENABLE_NEWFLAGS: /* enable with other flags than the registration had: the new flags must govern from now on */
		if (!d->registered || (d->kind != K_READ && d->kind != K_WRITE)) break;
		e.event = (uint16_t)d->kind; e.flags = (uint16_t)(s->flags & 3); if (e.flags == 3) e.flags = 0; e.fflags = 0; e.data = 0;
		rc = tpt_ev_enable(1, &e, &d->u);
		if (rc) viol(V_OP_FAILED, s->id, rc); else { d->enabled = 1; d->fired_since_enable = 0; d->flags = e.flags; }
		break;
	case H_POISON: /* leave unread data in the peer's receive queue: closing the peer then resets the connection */
		if (d->kind != K_READ || !d->is_sock || d->fdw < 0 || d->peer_closed || d->poisoned) break;
		if (4 == write(d->fdr, "zzzz", 4)) d->poisoned = 1;
		break;
	case H_DISABLE:
		if (!d->registered || d->kind == K_PROC) break;
		e.event = (uint16_t)d->kind; e.flags = (uint16_t)d->flags; e.fflags = d->kind == K_TIMER ? TP_FF_T_MSEC : 0; e.data = d->kind == K_TIMER ? d->timer_ms : 0;
		rc = tpt_ev_enable(0, &e, &d->u);
		if (rc) viol(V_OP_FAILED, s->id, rc); else d->enabled = 0;
		break;
	case H_DELETE:
		if (!d->registered) break;
		rc = tpt_ev_del_args1((uint16_t)d->kind, &d->u);
		if (rc) viol(V_OP_FAILED, s->id, rc);
		d->registered = 0; d->enabled = 0;
		d->child = 0;
		break;
	case H_READY:
		if (d->kind != K_READ || d->fdw < 0 || d->peer_closed) break;
		{ unsigned n = 1 + (s->arg % 5), i; for (i = 0; i < n; i++) if (1 == write(d->fdw, "x", 1)) d->pending++; }
		break;
	case H_CLOSE_PEER:
		if ((d->kind != K_READ && d->kind != K_WRITE) || d->fdw < 0 || d->peer_closed) break;
		if (d->kind == K_READ && d->is_sock && (s->arg & 1)) { shutdown(d->fdw, SHUT_WR); d->peer_closed = 1; break; } /* half close: RDHUP only */
		close(d->fdw); d->fdw = -1; d->peer_closed = 1;
		if (d->poisoned) d->peer_reset = 1;
		break;
	default: break;
	}
}

static void step_cb(tpt_p tpt, void *udata) {
	(void)tpt; (void)udata;
	if (g_spin_left) { g_spin_left--; post_step(); return; }
	if (g_check_deadline) {
		int i, ok = 1;
		for (i = 0; i < MAXID; i++) if (!expected_ok(&g_id[i])) ok = 0;
		if (!ok && tm_now() < g_check_deadline) { struct timespec ts = {0, 100000}; nanosleep(&ts, NULL); post_step(); return; }
		if (!ok) for (i = 0; i < MAXID; i++) if (!expected_ok(&g_id[i])) viol(V_MISSING_FIRE, i, g_id[i].kind);
		g_check_deadline = 0;
	}
	while (g_pc < g_nprog) {
		hstep_t *s = &g_prog[g_pc++];
		if (s->op == H_SPIN) { g_spin_left = s->arg % 8; post_step(); return; }
		if (s->op == H_CHECK) { g_check_deadline = tm_now() + 10000000000ull; post_step(); return; }
		if (!g_external) { do_op(s); post_step(); return; }
		do_op(s); post_step(); return;
	}
	__atomic_store_n(&g_steps_done, 1, __ATOMIC_RELEASE);
}

int main(void) {
	size_t len; uint8_t *c; vout_t o = {0}; vin_t in; tp_settings_t s; int rc; unsigned mode, i, n;
	uint64_t seed;
	vdrv_case_secs = 60; vdrv_init(); tm_watchdog(90);
	c = vdrv_next_case(&len); if (!c) return 0;
	in.p = c; in.n = len; in.o = 0; in.bad = 0;
	seed = vin_u64(&in); mode = vin_u8(&in);
	tm_scn_seed = seed; tm_tid = 999;
	if (mode == 3) {
		g_external = vin_u8(&in);
		/* bit 2: the exit status of the watched children cannot be collected (SIGCHLD ignored, waitpid() fails with ECHILD):
		 * the process event must be delivered all the same */
		if (g_external & 4) signal(SIGCHLD, SIG_IGN);
		prefork_kids();
	}
	tp_settings_def(&s); s.threads_max = (mode == 3 && (g_external & 2)) ? 1 : 2; s.flags = 0; s.tpt_on_start = on_start;
	{ int probe = dup(1); if (probe >= 0) close(probe); g_first_fd = probe; } /* the number the pool's first descriptor will get */
	rc = tp_create(&s, &g_tp); if (rc) { fprintf(stderr, "tp_create rc=%d\n", rc); return 3; }
	vout_u32(&o, 0xC06C06); vout_u8(&o, (uint8_t)mode);

	if (mode == 1) { /* ARGS: list of (flags u16, fflags u32, data u64) timer registrations; nothing runs, pool threads not started */
		tpt_p tpt = tp_thread_get(g_tp, 0);
		n = vin_u32(&in);
		__atomic_store_n(&g_observe, 1, __ATOMIC_RELAXED);
		for (i = 0; i < n && !in.bad; i++) {
			tp_udata_t u; uint16_t fl = vin_u16(&in); uint32_t ff = vin_u32(&in); uint64_t data = vin_u64(&in);
			memset(&u, 0, sizeof(u)); u.cb_func = dummy_cb; u.ident = (uintptr_t)&u;
			TM_LOG(EV_STEP, fl, i, ff, (int64_t)data);
			rc = tpt_ev_add_args(tpt, TP_EV_TIMER, fl, ff, data, &u);
			TM_LOG(EV_RC, 0, i, 0, rc);
			if (rc == 0) tpt_ev_del_args1(TP_EV_TIMER, &u);
		}
	} else if (mode == 2) { /* VALID: (event u16, flags u16, fflags u32, data u64, ident_sel u8, cb_null u8, tpt_null u8) */
		tpt_p tpt = tp_thread_get(g_tp, 0); int pfd[2];
		pipe2(pfd, O_NONBLOCK);
		n = vin_u32(&in);
		__atomic_store_n(&g_observe, 1, __ATOMIC_RELAXED);
		for (i = 0; i < n && !in.bad; i++) {
			tp_udata_t u; uint16_t evk = vin_u16(&in), fl = vin_u16(&in); uint32_t ff = vin_u32(&in); uint64_t data = vin_u64(&in);
			unsigned isel = vin_u8(&in), cbn = vin_u8(&in), tptn = vin_u8(&in);
			memset(&u, 0, sizeof(u)); u.cb_func = cbn ? NULL : dummy_cb;
			switch (isel) { case 0: u.ident = (uintptr_t)(evk == TP_EV_WRITE ? pfd[1] : pfd[0]); break; case 1: u.ident = (uintptr_t)-1; break;
			                case 2: u.ident = (uintptr_t)getdtablesize(); break; default: u.ident = (uintptr_t)getdtablesize() + 1000; break; }
			if (evk == TP_EV_TIMER && isel == 0) u.ident = (uintptr_t)&u;
			if (evk == TP_EV_PROC && isel == 0) u.ident = (uintptr_t)getpid();
			TM_LOG(EV_STEP, evk, i, ((uint64_t)fl << 32) | ff, (int64_t)data);
			if (cbn == 2) { /* two steps: a plain valid registration first, then ENABLE with the flags / filter flags under test */
				u.cb_func = dummy_cb;
				rc = tpt_ev_add_args(tpt, evk, 0, evk == TP_EV_TIMER ? TP_FF_T_MSEC : 0, evk == TP_EV_TIMER ? 100000 : 0, &u);
				if (rc) { TM_LOG(EV_RC, 0, i, 1, rc); continue; }
				rc = tpt_ev_enable_args(1, evk, fl, ff, data, &u);
				TM_LOG(EV_RC, 0, i, 2, rc);
				tpt_ev_del_args1(evk, &u);
				continue;
			}
			rc = tpt_ev_add_args(tptn ? NULL : tpt, evk, fl, ff, data, &u);
			TM_LOG(EV_RC, 0, i, 0, rc);
			if (rc == 0) {
				if (u.tpt) tpt_ev_del_args1(evk, &u);
			}
		}
	} else { /* HISTORY */
		g_nprog = vin_u16(&in);
		g_prog = calloc(g_nprog ? g_nprog : 1, sizeof(hstep_t));
		for (i = 0; i < g_nprog && !in.bad; i++) { g_prog[i].op = vin_u8(&in); g_prog[i].id = vin_u8(&in); g_prog[i].kind = vin_u8(&in); g_prog[i].flags = vin_u8(&in); g_prog[i].arg = vin_u32(&in); }
		g_owner = tp_thread_get(g_tp, 0);
		/* bit 1: register everything on the pool virtual thread; the pool then has a single worker, which is the
		 * thread that runs every callback, so the shadow state stays owned by one thread */
		g_reg = (g_external & 2) ? tp_thread_get_pvt(g_tp) : g_owner;
		__atomic_store_n(&g_observe, 1, __ATOMIC_RELAXED);
		g_fd_base = tm_fd_count();
		tp_threads_create(g_tp, 0);
		tpt_msg_send(g_owner, NULL, 0, step_cb, NULL);
		{ uint64_t t0 = tm_now(); while (!__atomic_load_n(&g_steps_done, __ATOMIC_ACQUIRE)) { struct timespec ts = {0, 500000}; nanosleep(&ts, NULL); if (tm_now() - t0 > 60000000000ull) { TM_LOG(EV_TIMEOUT, 0, g_pc, 0, 0); break; } } }
	}
	if (in.bad) { fprintf(stderr, "bad case\n"); return 3; }
	__atomic_store_n(&g_observe, 0, __ATOMIC_RELAXED);
	if (mode == 3 && __atomic_load_n(&g_steps_done, __ATOMIC_ACQUIRE)) {
		/* every identifier was deleted by the history's epilogue: after closing our own descriptors
		 * the process must hold exactly what it held when the history started */
		int now;
		for (i = 0; i < MAXID; i++) { if (g_id[i].fdr >= 0 && g_id[i].fdr != 0) close(g_id[i].fdr); if (g_id[i].fdw > 0 && g_id[i].fdw != g_id[i].fdr) close(g_id[i].fdw); g_id[i].fdr = g_id[i].fdw = -1; }
		now = tm_fd_count() + (int)g_kid_next; /* control pipes of children that were told to exit are closed by design */
		for (i = 0; i < 100 && now != g_fd_base; i++) { /* a leak persists; a descriptor held briefly by the runtime does not */
			struct timespec ts = {0, 2000000}; nanosleep(&ts, NULL);
			now = tm_fd_count() + (int)g_kid_next;
		}
		if (now != g_fd_base) { tm_tid = 999; viol(V_FD_LEAK, -1, ((int64_t)g_fd_base << 32) | (uint32_t)now); }
	}
	tp_shutdown(g_tp); tp_shutdown_wait(g_tp); tp_destroy(g_tp);
	for (i = 0; i < g_kids; i++) { if (g_kid_ctl[i] >= 0) close(g_kid_ctl[i]); }
	for (i = 0; i < g_kids; i++) waitpid(g_kid[i], NULL, 0);
	vout_u64(&o, __atomic_load_n(&g_viol, __ATOMIC_RELAXED));
	tm_dump(&o); vout_flush(&o);
	return 0;
}
