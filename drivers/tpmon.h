/* Shared monitor machinery for the thread-pool harnesses (C05, C06, C10, C11, C16):
 * per-thread event log (owner-written, merged after quiescence), seeded
 * scheduling-point perturbation, link-time syscall interposers for observation
 * and fault injection.  No global synchronising atomics are used on the hot
 * path (relaxed only), so the monitor does not hide races from TSan. */
#ifndef TPMON_H
#define TPMON_H

#include "vdrv.h"
#include <pthread.h>
#include <sched.h>
#include <time.h>
#include <semaphore.h>
#include <fcntl.h>
#include <dirent.h>
#include <sys/epoll.h>
#include <sys/timerfd.h>
#include "threadpool/threadpool.h"
#include "threadpool/threadpool_msg_sys.h"
#include "utils/verif_hooks.h"

/* ------------------------------------------------------------------ event log */
typedef struct { uint64_t ts; uint32_t tid; uint16_t kind; uint16_t aux; uint64_t a, b; int64_t c; } tm_ev_t; /* 40 bytes */

typedef struct { tm_ev_t *ev; size_t n; size_t cap; uint32_t tid; } tm_buf_t;

#define TM_MAX_BUFS 512
static tm_buf_t tm_bufs[TM_MAX_BUFS];
static size_t tm_nbufs;
static __thread tm_buf_t *tm_tbuf;
static __thread uint32_t tm_tid = 0xffffffffu;
static __thread uint64_t tm_rng;

static inline uint64_t tm_now(void) {
	struct timespec ts;
	clock_gettime(CLOCK_MONOTONIC, &ts);
	return (uint64_t)ts.tv_sec * 1000000000ull + (uint64_t)ts.tv_nsec;
}

static tm_buf_t *tm_buf_get(void) {
	if (!tm_tbuf) {
		size_t i = __atomic_fetch_add(&tm_nbufs, 1, __ATOMIC_RELAXED);
		if (i >= TM_MAX_BUFS) { fprintf(stderr, "tpmon: too many threads\n"); _exit(99); }
		tm_tbuf = &tm_bufs[i];
		tm_tbuf->cap = 4096;
		tm_tbuf->ev = malloc(tm_tbuf->cap * sizeof(tm_ev_t));
		tm_tbuf->n = 0;
		tm_tbuf->tid = tm_tid;
	}
	return tm_tbuf;
}

static void TM_LOG(uint16_t kind, uint16_t aux, uint64_t a, uint64_t b, int64_t c) {
	tm_buf_t *bf = tm_buf_get();
	size_t n = bf->n;
	tm_ev_t *e;
	if (n == bf->cap) {
		bf->cap *= 2;
		bf->ev = realloc(bf->ev, bf->cap * sizeof(tm_ev_t));
	}
	e = &bf->ev[n];
	e->ts = tm_now(); e->tid = tm_tid; e->kind = kind; e->aux = aux; e->a = a; e->b = b; e->c = c;
	__atomic_store_n(&bf->n, n + 1, __ATOMIC_RELEASE);
}

/* Append all logs (per-thread order preserved; thread blocks concatenated) to an observation. */
static void tm_dump(vout_t *o) {
	size_t i, nb = __atomic_load_n(&tm_nbufs, __ATOMIC_ACQUIRE), total = 0;
	for (i = 0; i < nb; i++) total += __atomic_load_n(&tm_bufs[i].n, __ATOMIC_ACQUIRE);
	vout_u32(o, (uint32_t)total);
	for (i = 0; i < nb; i++) {
		size_t n = __atomic_load_n(&tm_bufs[i].n, __ATOMIC_ACQUIRE);
		vout_raw(o, tm_bufs[i].ev, n * sizeof(tm_ev_t));
	}
}

static void tm_reset(void) {
	/* Only call when no other thread is alive. Buffers of dead threads are dropped. */
	size_t i, nb = tm_nbufs;
	for (i = 0; i < nb; i++) { free(tm_bufs[i].ev); memset(&tm_bufs[i], 0, sizeof(tm_bufs[i])); }
	tm_nbufs = 0;
	tm_tbuf = NULL;
}

/* ------------------------------------------------------------------ PRNG */
static inline uint64_t tm_splitmix(uint64_t *s) {
	uint64_t z = (*s += 0x9E3779B97F4A7C15ull);
	z = (z ^ (z >> 30)) * 0xBF58476D1CE4E5B9ull;
	z = (z ^ (z >> 27)) * 0x94D049BB133111EBull;
	return z ^ (z >> 31);
}
static uint64_t tm_scn_seed;
static inline uint64_t tm_rand(void) {
	if (tm_rng == 0) tm_rng = tm_scn_seed ^ (0x1234567ull * (tm_tid + 1)) ^ 0xabcdefull;
	return tm_splitmix(&tm_rng);
}

/* ------------------------------------------------------------------ scheduling points */
static unsigned tm_perturb_permille;      /* probability (per mille) that a point perturbs */
static unsigned tm_sleep_max_us = 2000;
static uint64_t tm_point_mask = ~0ull;     /* which point ids are perturbed */
static uint64_t tm_point_visits[LCB_VP__COUNT + 1];
static uint64_t tm_point_perturbed[LCB_VP__COUNT + 1];

void liblcb_verif_point(int id) {
	uint64_t r;
	if (id < 0 || id > LCB_VP__COUNT) return;
	__atomic_fetch_add(&tm_point_visits[id], 1, __ATOMIC_RELAXED);
	if (!tm_perturb_permille || !((tm_point_mask >> id) & 1)) return;
	r = tm_rand();
	if ((r % 1000) >= tm_perturb_permille) return;
	__atomic_fetch_add(&tm_point_perturbed[id], 1, __ATOMIC_RELAXED);
	r >>= 10;
	if ((r & 3) == 0) {
		struct timespec ts; ts.tv_sec = 0; ts.tv_nsec = (long)(((r >> 2) % (tm_sleep_max_us + 1)) * 1000);
		nanosleep(&ts, NULL);
	} else {
		sched_yield();
	}
}

static void tm_points_dump(vout_t *o) {
	int i;
	vout_u32(o, LCB_VP__COUNT + 1);
	for (i = 0; i <= LCB_VP__COUNT; i++) { vout_u64(o, __atomic_load_n(&tm_point_visits[i], __ATOMIC_RELAXED)); vout_u64(o, __atomic_load_n(&tm_point_perturbed[i], __ATOMIC_RELAXED)); }
}
static void tm_points_reset(void) { memset(tm_point_visits, 0, sizeof(tm_point_visits)); memset(tm_point_perturbed, 0, sizeof(tm_point_perturbed)); }

/* ------------------------------------------------------------------ process resources */
static int tm_count_dir(const char *path) {
	DIR *d = opendir(path); struct dirent *e; int n = 0;
	if (!d) return -1;
	while ((e = readdir(d))) if (e->d_name[0] != '.') n++;
	closedir(d);
	return n - 0;
}
static int tm_fd_count(void) { int n = tm_count_dir("/proc/self/fd"); return n > 0 ? n - 1 : n; /* minus the dirfd itself */ }
/* Minimum over a short settle period: a descriptor held briefly by a runtime thread vanishes, a leak persists. */
static int tm_fd_count_settled(void) {
	int best = tm_fd_count(), i;
	for (i = 0; i < 25; i++) {
		struct timespec ts = {0, 2000000}; int n;
		nanosleep(&ts, NULL);
		n = tm_fd_count();
		if (n < best) { best = n; i = 0; }
	}
	return best;
}
static int tm_task_count_raw(void) { return tm_count_dir("/proc/self/task"); }
/* A joined thread's /proc entry can linger for a moment: take the minimum seen over a short settle period. */
static int tm_task_count(void) {
	int best = tm_task_count_raw(), i;
	for (i = 0; i < 40; i++) {
		struct timespec ts = {0, 1000000}; int n;
		nanosleep(&ts, NULL);
		n = tm_task_count_raw();
		if (n < best) { best = n; i = 0; }
	}
	return best;
}

/* wall-clock watchdog for deadlocks (a blocked process burns no CPU, so the per-case CPU alarm cannot see it) */
static void tm_on_wall_alarm(int sig) {
	static const char m[] = "\nVERIF-HANG wall-clock watchdog (process blocked)\n";
	(void)sig; (void)!write(2, m, sizeof(m) - 1); _exit(97);
}
static void tm_watchdog(unsigned secs) { signal(SIGALRM, tm_on_wall_alarm); alarm(secs); }

/* bounded wait on a relaxed counter: returns 0 when *ctr >= want, -1 on watchdog */
static int tm_wait_ge(volatile uint64_t *ctr, uint64_t want, unsigned watchdog_ms) {
	uint64_t t0 = tm_now();
	while (__atomic_load_n(ctr, __ATOMIC_RELAXED) < want) {
		struct timespec ts = {0, 200000};
		nanosleep(&ts, NULL);
		if (tm_now() - t0 > (uint64_t)watchdog_ms * 1000000ull) return -1;
	}
	return 0;
}

#endif
