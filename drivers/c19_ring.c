/* C19 driver: packet ring buffer histories.
 *
 * One protocol case = one step (writer step or reader call) on a ring that persists between
 * cases; a history starts with OP_NEW.  After a (re)start steps are ignored (observation
 * {0xFF}) until the next OP_NEW.
 *
 * Writer: every committed block gets a sequence number (1, 2, ...).  Byte i of block s is
 * byte (i & 7) of the little-endian 64-bit word (s << 24 | i >> 3), i.e. every 8 bytes carry
 * (block sequence, offset).  A shadow array remembers for every ring byte which block/offset
 * was stored there last (0 = never committed / leading offset junk), so every region handed
 * to a reader decodes to runs (block, offset, length); the memory content is compared with
 * the stamp as well (content_ok).
 *
 * The ring storage is mmap'ed (no ASan red zones): every region returned by r_buf_wbuf_get
 * and every iovec returned by r_buf_data_get is range-checked here against
 * [r_buf->buf, r_buf->buf + r_buf->size) BEFORE it is touched.  The reader's iovec array is
 * an exact-size heap block (ASan sees an overrun of the array itself).
 *
 * Mapping fence: the driver is linked with --wrap=mmap/--wrap=munmap, so every mapping the
 * library makes (ring storage, block table) is placed between two PROT_NONE guard pages of
 * its own.  A store or load of the library just outside either mapping (one block-table
 * entry too many, ring byte size+k) then faults at once instead of landing silently in
 * whatever the kernel happened to map next to it (normally the other of the two mappings).
 */
#include "vdrv.h"
#include "utils/ring_buffer.h"
#include <sys/mman.h>

void *__real_mmap(void *addr, size_t len, int prot, int flags, int fd, off_t off);
int __real_munmap(void *addr, size_t len);
#define FENCE_MAX 16
static struct { uint8_t *user; size_t len; } g_fence[FENCE_MAX];
static size_t g_fence_maps = 0, g_fence_unmaps = 0;

void *__wrap_mmap(void *addr, size_t len, int prot, int flags, int fd, off_t off) {
	size_t pg = (size_t)sysconf(_SC_PAGESIZE), rlen = (len + pg - 1) & ~(pg - 1), i;
	uint8_t *res, *u;
	if (addr != NULL || (flags & MAP_FIXED) || len == 0)
		return __real_mmap(addr, len, prot, flags, fd, off);
#ifdef MAP_HUGETLB
	if (flags & MAP_HUGETLB) { errno = ENOMEM; return MAP_FAILED; }   /* no huge pages here: the library retries without */
#endif
	for (i = 0; i < FENCE_MAX && g_fence[i].user; i++) ;
	if (i == FENCE_MAX) return __real_mmap(addr, len, prot, flags, fd, off);
	res = __real_mmap(NULL, rlen + 2 * pg, PROT_NONE, MAP_PRIVATE | MAP_ANONYMOUS, -1, 0);
	if (res == MAP_FAILED) return MAP_FAILED;
	u = __real_mmap(res + pg, len, prot, flags | MAP_FIXED, fd, off);
	if (u == MAP_FAILED) { int e = errno; __real_munmap(res, rlen + 2 * pg); errno = e; return MAP_FAILED; }
	g_fence[i].user = u; g_fence[i].len = rlen;
	g_fence_maps++;
	return u;
}

int __wrap_munmap(void *addr, size_t len) {
	size_t pg = (size_t)sysconf(_SC_PAGESIZE), i;
	for (i = 0; i < FENCE_MAX; i++) {
		if (g_fence[i].user && g_fence[i].user == (uint8_t *)addr) {
			size_t rlen = g_fence[i].len;
			g_fence[i].user = NULL;
			g_fence_unmaps++;
			(void)len;
			return __real_munmap((uint8_t *)addr - pg, rlen + 2 * pg);
		}
	}
	return __real_munmap(addr, len);
}

enum { OP_NEW = 0, OP_WRITE = 1, OP_RINIT = 2, OP_READ = 3, OP_FREE = 4 };
#define MAX_READERS 8
#define SENTINEL ((size_t)0xA5A5A5A5A5A5A5A5ull)

typedef struct { size_t start; size_t len; } blk_t;

static r_buf_p g_rb = NULL;
static int g_synced = 0;
static r_buf_rpos_t g_rpos[MAX_READERS];
static uint8_t g_rinit[MAX_READERS];
static uint32_t *g_shadow = NULL;      /* per ring byte: block id (0 = junk) */
static blk_t *g_blk = NULL;            /* block id -> ring offset of its first data byte, length */
static size_t g_blk_cnt = 0, g_blk_cap = 0, g_mbs = 1;

static inline uint8_t stamp(uint64_t id, size_t off) {
	uint64_t w = (id << 24) | (uint64_t)(off >> 3);
	return (uint8_t)(w >> (8 * (off & 7)));
}

static void ring_drop(void) {
	if (g_rb) r_buf_free(g_rb);
	g_rb = NULL;
	free(g_shadow); g_shadow = NULL;
	free(g_blk); g_blk = NULL; g_blk_cnt = g_blk_cap = 0;
	memset(g_rinit, 0, sizeof(g_rinit));
}

static void out_state(vout_t *o) {
	vout_u64(o, g_rb->round_num); vout_u64(o, g_rb->iov_index); vout_u64(o, g_rb->iov_index_max);
	vout_u64(o, g_rb->wpos); vout_u32(o, g_rb->flags);
}

static int region_ok(const uint8_t *p, size_t n) {
	uintptr_t b = (uintptr_t)g_rb->buf, e = b + g_rb->size, x = (uintptr_t)p;
	if (x < b || x > e) return 0;
	if (n > (size_t)(e - x)) return 0;
	return 1;
}

int main(void) {
	size_t len;
	uint8_t *c;
	vout_t o = {0};

	vdrv_init();
	while ((c = vdrv_next_case(&len))) {
		vin_t in = { c, len, 0, 0 };
		uint8_t op = vin_u8(&in);

		if (op == OP_NEW) {
			uint64_t size = vin_u64(&in), mbs = vin_u64(&in);
			uint8_t preset = vin_u8(&in); uint64_t round0 = vin_u64(&in);
			ring_drop();
			g_rb = r_buf_alloc((uintptr_t)-1, (size_t)size, (size_t)mbs);
			g_synced = 1; g_mbs = (size_t)mbs;
			vout_u8(&o, op);
			vout_u8(&o, g_rb != NULL);
			if (g_rb) {
				if (preset) g_rb->round_num = (size_t)round0;   /* public struct: cross the counter wrap */
				g_shadow = calloc(g_rb->size, sizeof(uint32_t));
				g_blk_cap = 1024; g_blk = calloc(g_blk_cap, sizeof(blk_t)); g_blk_cnt = 1;
				vout_u64(&o, g_rb->size); vout_u64(&o, g_rb->iov_count);
				vout_u8(&o, region_ok(g_rb->buf, g_rb->size) && g_rb->buf_max == g_rb->buf + g_rb->size);
				{	/* both library mappings of this ring are fenced? */
					size_t i, f = 0;
					for (i = 0; i < FENCE_MAX; i++)
						if (g_fence[i].user == (uint8_t *)g_rb->buf || g_fence[i].user == (uint8_t *)g_rb->iov) f++;
					vout_u8(&o, (uint8_t)f);
				}
			}
			vout_flush(&o); free(c);
			continue;
		}
		if (!g_synced || g_rb == NULL) {
			vout_u8(&o, 0xFF);
			vout_flush(&o); free(c);
			continue;
		}
		vout_u8(&o, op);
		switch (op) {
		case OP_WRITE: {
			uint64_t minsz = vin_u64(&in), want = vin_u64(&in), offs = vin_u64(&in);
			uint8_t mode = vin_u8(&in), rd = vin_u8(&in);
			uint8_t *ptr = (uint8_t *)(uintptr_t)SENTINEL;
			size_t avail = r_buf_wbuf_get(g_rb, (size_t)minsz, &ptr);
			size_t bsz = 0; int rc = -1; uint64_t id = 0; int rok = 1;
			vout_u64(&o, avail);
			if (avail == 0) {          /* nothing handed out */
				vout_i64(&o, -1); vout_u8(&o, 1); vout_u64(&o, 0); vout_u64(&o, 0); vout_i32(&o, -1); vout_u64(&o, 0);
				out_state(&o);
				break;
			}
			rok = region_ok(ptr, avail);
			vout_i64(&o, rok ? (int64_t)(ptr - g_rb->buf) : (int64_t)-2);
			vout_u8(&o, (uint8_t)rok);
			if (!rok || mode == 2) {   /* outside the ring: do not touch; mode 2: writer had nothing to write */
				vout_u64(&o, 0); vout_u64(&o, 0); vout_i32(&o, -1); vout_u64(&o, 0);
				out_state(&o);
				break;
			}
			bsz = (size_t)want < avail ? (size_t)want : avail;
			if (mode == 4) {
				/* deliberately invalid commit (too small / offset >= size): nothing is written to memory */
				rc = r_buf_wbuf_set(g_rb, (size_t)offs, bsz);
				vout_u64(&o, bsz); vout_u64(&o, offs); vout_i32(&o, rc); vout_u64(&o, 0);
				out_state(&o);
				break;
			}
			if (offs >= bsz) offs = 0;
			/* keep the commit valid after clipping to the region: data part >= min_block_size */
			if (bsz >= g_mbs && offs > bsz - g_mbs) offs = bsz - g_mbs;
			{
				size_t i, p0 = (size_t)(ptr - g_rb->buf), dlen = bsz - (size_t)offs;
				id = g_blk_cnt;
				/* the writer fills the part it is going to commit, then commits */
				for (i = 0; i < (size_t)offs; i++) { ptr[i] = 0xEE; g_shadow[p0 + i] = 0; }
				for (i = 0; i < dlen; i++) { ptr[offs + i] = stamp(id, i); g_shadow[p0 + offs + i] = 0; }
				if (mode == 0) {
					rc = r_buf_wbuf_set(g_rb, (size_t)offs, bsz);
				} else {
					r_buf_rpos_p rp = NULL;
					if (mode == 3 && rd < MAX_READERS) { rp = &g_rpos[rd]; }
					rc = r_buf_wbuf_set2(g_rb, ptr + offs, dlen, rp);
					if (rc == 0 && rp) g_rinit[rd] = 1;
				}
				if (rc == 0) {
					if (g_blk_cnt == g_blk_cap) { g_blk_cap *= 2; g_blk = realloc(g_blk, g_blk_cap * sizeof(blk_t)); }
					g_blk[g_blk_cnt].start = p0 + (size_t)offs; g_blk[g_blk_cnt].len = dlen; g_blk_cnt++;
					for (i = 0; i < dlen; i++) g_shadow[p0 + offs + i] = (uint32_t)id;
				} else id = 0;
			}
			vout_u64(&o, bsz); vout_u64(&o, offs); vout_i32(&o, rc); vout_u64(&o, id);
			out_state(&o);
			break; }
		case OP_RINIT: {
			uint8_t rd = vin_u8(&in); uint64_t depth = vin_u64(&in);
			int rc;
			if (rd >= MAX_READERS) rd = 0;
			rc = r_buf_rpos_init(g_rb, &g_rpos[rd], (size_t)depth);
			g_rinit[rd] = (rc == 0);
			vout_i32(&o, rc);
			vout_u64(&o, g_rpos[rd].iov_index); vout_u64(&o, g_rpos[rd].iov_off); vout_u64(&o, g_rpos[rd].round_num);
			out_state(&o);
			break; }
		case OP_READ: {
			uint8_t rd = vin_u8(&in); uint64_t dsz = vin_u64(&in); uint32_t icnt = vin_u32(&in);
			uint8_t with_avail = vin_u8(&in); uint16_t frac = vin_u16(&in); uint8_t split = vin_u8(&in);
			size_t avail = 0, adrop = SENTINEL, drop = SENTINEL, sret = SENTINEL, n, k, total = 0, inc = 0;
			iovec_p iov;
			size_t pos_runs, nruns = 0; uint32_t tmp; uint8_t allok = 1;
			if (rd >= MAX_READERS) rd = 0;
			if (!g_rinit[rd]) { vout_u8(&o, 0); break; }
			if (icnt == 0xFFFFFFFFu) icnt = (uint32_t)g_rb->iov_count + 2;   /* "full" iovec array */
			vout_u8(&o, 1);
			/* white-box lag information (evidence only) */
			vout_u64(&o, g_rb->round_num - g_rpos[rd].round_num);
			vout_u8(&o, g_rpos[rd].iov_index > g_rb->iov_index ? 2 : g_rpos[rd].iov_index == g_rb->iov_index ? 1 : 0);
			vout_u8(&o, with_avail);
			if (with_avail) {
				avail = r_buf_data_avail_size(g_rb, &g_rpos[rd], &adrop);
				vout_u64(&o, avail); vout_u64(&o, adrop);
			}
			iov = (iovec_p)vx_alloc(sizeof(iovec_t) * icnt, 0xA5);
			n = r_buf_data_get(g_rb, &g_rpos[rd], (size_t)dsz, iov, icnt, &drop, &sret);
			vout_u64(&o, n); vout_u64(&o, drop); vout_u64(&o, sret);
			pos_runs = o.n; vout_u32(&o, 0);
			if (n > icnt) { allok = 0; n = icnt; }
			for (k = 0; k < n; k++) {
				uint8_t *b = iov[k].iov_base; size_t l = iov[k].iov_len, i, p;
				if (!region_ok(b, l)) { allok = 0; continue; }
				total += l;
				p = (size_t)(b - g_rb->buf);
				i = 0;
				while (i < l) {
					uint32_t id = g_shadow[p + i];
					size_t off = id ? (p + i) - g_blk[id].start : 0, j = i; uint8_t cok = 1;
					while (j < l && g_shadow[p + j] == id) {
						if (id && b[j] != stamp(id, off + (j - i))) cok = 0;
						j++;
					}
					vout_u64(&o, id); vout_u64(&o, off); vout_u64(&o, j - i); vout_u8(&o, cok); vout_u32(&o, (uint32_t)k);
					nruns++;
					i = j;
				}
			}
			tmp = (uint32_t)nruns; memcpy(o.p + pos_runs, &tmp, 4);
			vout_u8(&o, allok);
			vout_u64(&o, total);
			/* advance by a fraction of the bytes actually present in the iovecs */
			if (frac && total) {
				inc = (total * frac) / 256;
				if (inc > total) inc = total;
				if (inc) {
					if (split && inc > 1) {
						r_buf_rpos_inc(g_rb, &g_rpos[rd], inc / 2);
						r_buf_rpos_inc(g_rb, &g_rpos[rd], inc - inc / 2);
					} else {
						r_buf_rpos_inc(g_rb, &g_rpos[rd], inc);
					}
				}
			}
			vout_u64(&o, inc);
			vx_free((uint8_t *)iov, sizeof(iovec_t) * icnt);
			break; }
		case OP_FREE:
			ring_drop();
			g_synced = 0;
			break;
		default:
			vout_u8(&o, 0xFE);
			break;
		}
		vout_flush(&o);
		free(c);
	}
	ring_drop();
	return 0;
}
