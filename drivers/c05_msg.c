/* C05 harness: one scenario per process.  Real thread pool + message system,
 * concurrent senders, seeded perturbation at the guarded scheduling points,
 * link-time fault injection on the queue write()/read().  Emits the merged
 * client-boundary event log; the offline checker (verif/props/c05.py) decides. */
#include "tpmon.h"

enum { EV_SEND_CALL = 1, EV_SEND_RET, EV_CB, EV_WRITE, EV_READ, EV_HOOK_START, EV_HOOK_STOP,
       EV_PHASE, EV_BADARG, EV_TIMEOUT, EV_GATE };

#define QMAGIC 0xffddaa00ul

typedef struct { uint64_t id; uint32_t dst; uint32_t flags; } rec_t;

static tp_p g_tp;
static size_t g_pool;
static rec_t *g_recs; static size_t g_nrecs; static rec_t g_late[64];
static volatile uint64_t g_cb_count, g_ok_sends, g_senders_done, g_barrier_cnt, g_ok_sends_late, g_late_cb;
static sem_t g_gate_sem; static volatile uint64_t g_gate_in;

/* ---- fault injection state */
static int g_wfault_kind; static uint8_t *g_wfault_pos; static size_t g_wfault_max;
static int g_rfault_kind; static uint8_t *g_rfault_pos; static size_t g_rfault_max;
static volatile uint64_t g_qwrites, g_qreads, g_winj, g_rinj;
static int g_armed;
static __thread int t_inject; /* faults are injected only into sends made by the scenario senders */

ssize_t __real_write(int fd, const void *buf, size_t n);
ssize_t __real_read(int fd, void *buf, size_t n);

ssize_t __wrap_write(int fd, const void *buf, size_t n) {
	if (t_inject && __atomic_load_n(&g_armed, __ATOMIC_RELAXED) && n == 32 && *(const size_t *)buf == QMAGIC) {
		uint64_t k = __atomic_add_fetch(&g_qwrites, 1, __ATOMIC_RELAXED);
		ssize_t r; int e;
		if (g_wfault_kind && k < g_wfault_max && g_wfault_pos[k]) {
			static const int errs[] = {0, EAGAIN, EPIPE, EBADF};
			__atomic_add_fetch(&g_winj, 1, __ATOMIC_RELAXED);
			TM_LOG(EV_WRITE, 1, k, (uint64_t)fd, errs[g_wfault_kind]);
			errno = errs[g_wfault_kind];
			return -1;
		}
		r = __real_write(fd, buf, n); e = errno;
		TM_LOG(EV_WRITE, 0, k, (uint64_t)fd, r == 32 ? 0 : (r < 0 ? e : -1000 - r));
		errno = e;
		return r;
	}
	return __real_write(fd, buf, n);
}

ssize_t __wrap_read(int fd, void *buf, size_t n) {
	if (__atomic_load_n(&g_armed, __ATOMIC_RELAXED) && n == 32 * 1024) {
		uint64_t k = __atomic_add_fetch(&g_qreads, 1, __ATOMIC_RELAXED);
		if (g_rfault_kind && k < g_rfault_max && g_rfault_pos[k]) {
			static const int errs[] = {0, EINTR, EAGAIN};
			__atomic_add_fetch(&g_rinj, 1, __ATOMIC_RELAXED);
			TM_LOG(EV_READ, 1, k, (uint64_t)fd, errs[g_rfault_kind]);
			errno = errs[g_rfault_kind];
			return -1;
		}
	}
	return __real_read(fd, buf, n);
}

/* ---- hooks and callbacks */
static void on_start(tpt_p tpt) {
	size_t num = tpt_get_num(tpt);
	if (tpt_get_current() == tpt) { tm_tid = (uint32_t)num; }
	TM_LOG(EV_HOOK_START, 0, num, 0, 0);
}
static sem_t g_stop_gate; static int g_park_in_stop; static volatile uint64_t g_in_stop;
static void on_stop(tpt_p tpt) {
	TM_LOG(EV_HOOK_STOP, 0, tpt_get_num(tpt), 0, 0);
	if (g_park_in_stop && tpt_get_current() == tpt) { /* worker (not the virtual thread): stay in STOPING until released */
		__atomic_add_fetch(&g_in_stop, 1, __ATOMIC_RELEASE);
		sem_wait(&g_stop_gate);
	}
}

static void msg_cb(tpt_p tpt, void *udata) {
	rec_t *r = udata;
	if (r >= g_late && r < g_late + 64) { TM_LOG(EV_CB, (uint16_t)(tpt == tp_thread_get_pvt(g_tp)), r->id, tpt_get_num(tpt), 0); __atomic_add_fetch(&g_late_cb, 1, __ATOMIC_RELAXED); return; }
	if (r < g_recs || r >= g_recs + g_nrecs || ((uintptr_t)r - (uintptr_t)g_recs) % sizeof(rec_t)) {
		TM_LOG(EV_BADARG, 0, (uint64_t)(uintptr_t)udata, 0, 0);
		return;
	}
	TM_LOG(EV_CB, (uint16_t)(tpt == tp_thread_get_pvt(g_tp)), r->id, tpt_get_num(tpt), 0);
	__atomic_add_fetch(&g_cb_count, 1, __ATOMIC_RELAXED);
}

static void gate_cb(tpt_p tpt, void *udata) {
	(void)udata;
	TM_LOG(EV_GATE, 0, tpt_get_num(tpt), 0, 0);
	__atomic_add_fetch(&g_gate_in, 1, __ATOMIC_RELEASE);
	while (sem_wait(&g_gate_sem) == -1 && errno == EINTR) ;
	TM_LOG(EV_GATE, 1, tpt_get_num(tpt), 0, 0);
}

static void barrier_cb(tpt_p tpt, void *udata) { (void)tpt; (void)udata; __atomic_add_fetch(&g_barrier_cnt, 1, __ATOMIC_RELAXED); }

/* ---- sender */
typedef struct {
	uint32_t idx; uint32_t nmsgs; rec_t *recs; int is_pool; tpt_p self;
	uint8_t flags_fixed, flags_rand, dst_mode, dst_k, pass_src;
	int never_started0;
} sender_t;

static void sender_run(sender_t *s) {
	uint32_t m;
	for (m = 0; m < s->nmsgs; m++) {
		rec_t *r = &s->recs[m];
		uint64_t rnd = tm_rand();
		uint32_t dst; tpt_p d; int rc;
		uint32_t flags = s->flags_fixed | ((uint32_t)(rnd >> 8) & s->flags_rand);
		switch (s->dst_mode) {
		default:
		case 0: dst = (uint32_t)((rnd >> 16) % g_pool); break;
		case 1: dst = (uint32_t)((rnd >> 16) % (s->dst_k ? s->dst_k : 1)); break;
		case 2: dst = (uint32_t)g_pool; break; /* pvt */
		case 3: dst = (uint32_t)((rnd >> 16) % (g_pool + 1)); break;
		case 4: dst = s->dst_k; break; /* fixed destination */
		}
		r->id = ((uint64_t)(s->idx + 1) << 32) | m;
		r->dst = dst; r->flags = flags;
		d = (dst == g_pool) ? tp_thread_get_pvt(g_tp) : tp_thread_get(g_tp, dst);
		TM_LOG(EV_SEND_CALL, (uint16_t)flags, r->id, dst, 0);
		t_inject = 1;
		rc = tpt_msg_send(d, (s->pass_src && s->is_pool) ? s->self : NULL, flags, msg_cb, r);
		t_inject = 0;
		TM_LOG(EV_SEND_RET, 0, r->id, dst, rc);
		if (rc == 0) __atomic_add_fetch(&g_ok_sends, 1, __ATOMIC_RELAXED);
	}
	__atomic_add_fetch(&g_senders_done, 1, __ATOMIC_RELAXED);
}

static void *ext_sender(void *arg) {
	sender_t *s = arg;
	tm_tid = 1000 + s->idx;
	sender_run(s);
	return NULL;
}
static void pool_sender_cb(tpt_p tpt, void *udata) { sender_t *s = udata; s->self = tpt; sender_run(s); }

/* sender that races tp_shutdown(): every destination, plain flags */
static void *race_sender(void *arg) {
	unsigned k; (void)arg;
	tm_tid = 1900;
	for (k = 0; k < 60; k++) {
		rec_t *r = &g_late[k]; int lrc; uint64_t rnd = tm_rand();
		uint32_t dst = (uint32_t)((rnd >> 16) % (g_pool + 1));
		r->id = ((uint64_t)0xdd << 32) | k; r->dst = dst; r->flags = 0;
		TM_LOG(EV_SEND_CALL, 0, r->id, dst, 2 /* shutdown may be under way: a refusal is legitimate */);
		lrc = tpt_msg_send(dst == g_pool ? tp_thread_get_pvt(g_tp) : tp_thread_get(g_tp, dst), NULL, 0, msg_cb, r);
		TM_LOG(EV_SEND_RET, 0, r->id, dst, lrc);
		if (lrc == 0) __atomic_add_fetch(&g_ok_sends_late, 1, __ATOMIC_RELAXED);
	}
	return NULL;
}

int main(void) {
	size_t len; uint8_t *c; vout_t o = {0}; vin_t in;
	uint64_t seed; unsigned pool, start_mode, n_ext, n_pool, nmsgs, flags_fixed, flags_rand, dst_mode, dst_k, pass_src;
	unsigned gate, gate_dst, wkind, rkind, nw, nr, i, bind, shutdown_behind_gate = 0;
	tp_settings_t s; sender_t *snd; pthread_t *thr; int rc, timeout = 0, fd0, fd1, task0, task1;
	size_t nsend;

	vdrv_case_secs = 120;
	vdrv_init(); tm_watchdog(150);
	c = vdrv_next_case(&len);
	if (!c) return 0;
	in.p = c; in.n = len; in.o = 0; in.bad = 0;
	seed = vin_u64(&in); pool = vin_u8(&in); start_mode = vin_u8(&in); n_ext = vin_u8(&in); n_pool = vin_u8(&in);
	nmsgs = vin_u32(&in); flags_fixed = vin_u8(&in); flags_rand = vin_u8(&in); dst_mode = vin_u8(&in); dst_k = vin_u8(&in);
	pass_src = vin_u8(&in); bind = vin_u8(&in);
	tm_perturb_permille = vin_u16(&in); tm_sleep_max_us = vin_u16(&in); tm_point_mask = vin_u64(&in);
	gate = vin_u8(&in); gate_dst = vin_u8(&in); g_park_in_stop = vin_u8(&in); shutdown_behind_gate = vin_u8(&in);
	wkind = vin_u8(&in); nw = vin_u16(&in);
	g_wfault_max = 1u << 20; g_wfault_pos = calloc(g_wfault_max, 1);
	for (i = 0; i < nw; i++) { uint32_t k = vin_u32(&in); if (k < g_wfault_max) g_wfault_pos[k] = 1; }
	rkind = vin_u8(&in); nr = vin_u16(&in);
	g_rfault_max = 1u << 20; g_rfault_pos = calloc(g_rfault_max, 1);
	for (i = 0; i < nr; i++) { uint32_t k = vin_u32(&in); if (k < g_rfault_max) g_rfault_pos[k] = 1; }
	if (in.bad) { fprintf(stderr, "bad case\n"); return 3; }
	g_wfault_kind = (int)wkind; g_rfault_kind = (int)rkind;
	tm_scn_seed = seed; tm_tid = 999; g_pool = pool;
	sem_init(&g_gate_sem, 0, 0); sem_init(&g_stop_gate, 0, 0);

	fd0 = tm_fd_count(); task0 = tm_task_count();
	tp_settings_def(&s);
	s.threads_max = pool; s.flags = bind ? TP_S_F_BIND2CPU : 0;
	s.tpt_on_start = on_start; s.tpt_on_stop = on_stop;
	rc = tp_create(&s, &g_tp);
	if (rc) { fprintf(stderr, "tp_create rc=%d\n", rc); return 3; }
	TM_LOG(EV_PHASE, 1, 0, 0, 0);

	nsend = n_ext + n_pool;
	g_nrecs = nsend * (size_t)nmsgs; g_recs = calloc(g_nrecs ? g_nrecs : 1, sizeof(rec_t));
	snd = calloc(nsend ? nsend : 1, sizeof(sender_t)); thr = calloc(n_ext ? n_ext : 1, sizeof(pthread_t));
	for (i = 0; i < nsend; i++) {
		snd[i].idx = i; snd[i].nmsgs = nmsgs; snd[i].recs = g_recs + (size_t)i * nmsgs; snd[i].is_pool = (i >= n_ext);
		snd[i].flags_fixed = (uint8_t)flags_fixed; snd[i].flags_rand = (uint8_t)flags_rand; snd[i].dst_mode = (uint8_t)dst_mode;
		snd[i].dst_k = (uint8_t)dst_k; snd[i].pass_src = (uint8_t)pass_src;
	}

	__atomic_store_n(&g_armed, 1, __ATOMIC_RELAXED);
	rc = tp_threads_create(g_tp, start_mode == 1);
	if (rc) { fprintf(stderr, "tp_threads_create rc=%d\n", rc); return 3; }
	if (start_mode != 2) { /* wait until every started thread ran its start hook (is RUNNING) */
		__atomic_store_n(&g_barrier_cnt, 0, __ATOMIC_RELAXED);
		for (i = (start_mode == 1); i < pool; i++) tpt_msg_send(tp_thread_get(g_tp, i), NULL, 0, barrier_cb, NULL);
		if (tm_wait_ge(&g_barrier_cnt, pool - (start_mode == 1), 30000)) timeout = 1;
	}
	TM_LOG(EV_PHASE, 2, 0, 0, 0);
	if (gate) tpt_msg_send(tp_thread_get(g_tp, gate_dst), NULL, 0, gate_cb, NULL);
	if (gate && shutdown_behind_gate == 3) /* every worker is gated: nobody reads the virtual thread's queue */
		for (i = 0; i < pool; i++) if (i != gate_dst) tpt_msg_send(tp_thread_get(g_tp, i), NULL, 0, gate_cb, NULL);

	/* pool senders: thread (pool-1-j) for j < n_pool, so that thread 0 (possibly never started) and the gated one are avoided by the generator */
	for (i = 0; i < n_pool; i++) {
		unsigned t = pool - 1 - i;
		tpt_msg_send(tp_thread_get(g_tp, t), NULL, 0, pool_sender_cb, &snd[n_ext + i]);
	}
	for (i = 0; i < n_ext; i++) pthread_create(&thr[i], NULL, ext_sender, &snd[i]);
	for (i = 0; i < n_ext; i++) pthread_join(thr[i], NULL);
	if (tm_wait_ge(&g_senders_done, nsend, 60000)) timeout = 1;
	TM_LOG(EV_PHASE, 3, 0, 0, 0);
	if (shutdown_behind_gate == 6) {
		/* the workers were created a moment ago (STARTING counts as running, so sends are accepted) and the virtual thread
		 * accepts since tp_create(): shut down before the new threads have looked at the shutdown flag */
		unsigned k;
		for (k = 0; k < 40; k++) {
			rec_t *r = &g_late[k]; int lrc; uint32_t dst = k % ((uint32_t)pool + 1);
			r->id = ((uint64_t)0xdd << 32) | k; r->dst = dst; r->flags = 0;
			TM_LOG(EV_SEND_CALL, 0, r->id, dst, 0);
			lrc = tpt_msg_send(dst == pool ? tp_thread_get_pvt(g_tp) : tp_thread_get(g_tp, dst), NULL, 0, msg_cb, r);
			TM_LOG(EV_SEND_RET, 0, r->id, dst, lrc);
			if (lrc == 0) __atomic_add_fetch(&g_ok_sends_late, 1, __ATOMIC_RELAXED);
		}
		tp_shutdown(g_tp);
		tm_wait_ge(&g_late_cb, __atomic_load_n(&g_ok_sends_late, __ATOMIC_RELAXED), 5000);
		TM_LOG(EV_PHASE, 4, 0, 0, 0);
		tp_shutdown_wait(g_tp);
		rc = tp_destroy(g_tp);
		TM_LOG(EV_PHASE, 5, 0, 0, rc);
		goto dump;
	}
	if (shutdown_behind_gate == 4) {
		pthread_t lt; struct timespec ts = {0, (long)(tm_rand() % 400000)};
		pthread_create(&lt, NULL, race_sender, NULL);
		nanosleep(&ts, NULL);
		tp_shutdown(g_tp);
		pthread_join(lt, NULL);
		tm_wait_ge(&g_late_cb, __atomic_load_n(&g_ok_sends_late, __ATOMIC_RELAXED), 5000);
		TM_LOG(EV_PHASE, 4, 0, 0, 0);
		tp_shutdown_wait(g_tp);
		rc = tp_destroy(g_tp);
		TM_LOG(EV_PHASE, 5, 0, 0, rc);
		goto dump;
	}
	if (gate && shutdown_behind_gate >= 2) {
		/* 2: the stop message is read in one batch together with a second gate message in front of it, so the worker
		 *    is still RUNNING (blocked in the second gate) after its last read: sends made now are accepted (rc 0)
		 *    and sit in the queue behind the batch that contains the stop message.
		 * 3: (pool of one) messages accepted by the shared virtual thread are still queued when the shutdown starts.
		 * 4: a sender thread races tp_shutdown() (perturbed between its running test and its queue write).
		 * 5: shutdown while the gated worker's queue is full (filled to EAGAIN by the scenario senders). */
		unsigned k, mode = shutdown_behind_gate;
		tpt_p d0 = tp_thread_get(g_tp, gate_dst), dv = tp_thread_get_pvt(g_tp);
		if (tm_wait_ge(&g_gate_in, 1, 30000)) timeout = 1;
		#define LATE_SEND(k_, dst_, tp_) do { rec_t *r = &g_late[k_]; int lrc; \
			r->id = ((uint64_t)0xdd << 32) | (k_); r->dst = (dst_); r->flags = 0; \
			TM_LOG(EV_SEND_CALL, 0, r->id, (dst_), 0); \
			lrc = tpt_msg_send((tp_), NULL, 0, msg_cb, r); \
			TM_LOG(EV_SEND_RET, 0, r->id, (dst_), lrc); \
			if (lrc == 0) __atomic_add_fetch(&g_ok_sends_late, 1, __ATOMIC_RELAXED); } while (0)
		if (mode == 2 && !timeout) {
			tpt_msg_send(d0, NULL, 0, gate_cb, NULL);
			tp_shutdown(g_tp);
			for (k = 0; k < 20; k++) LATE_SEND(k, gate_dst, d0);
			sem_post(&g_gate_sem);
			if (tm_wait_ge(&g_gate_in, 2, 30000)) timeout = 1;
			for (k = 20; k < 40; k++) LATE_SEND(k, gate_dst, d0);
			sem_post(&g_gate_sem);
		} else if (mode == 3 && !timeout) {
			if (tm_wait_ge(&g_gate_in, pool, 30000)) timeout = 1;
			for (k = 0; k < 40; k++) LATE_SEND(k, (uint32_t)pool, dv);
			tp_shutdown(g_tp);
			for (k = 0; k < pool; k++) sem_post(&g_gate_sem);
			if (g_park_in_stop) { /* the workers leave their loops together: all are inside the stop hook before one goes on */
				if (tm_wait_ge(&g_in_stop, pool, 30000)) timeout = 1;
				for (k = 0; k < pool; k++) sem_post(&g_stop_gate);
			}
		} else if (mode == 5 && !timeout) {
			/* the scenario senders have filled the gated worker's queue until EAGAIN: the stop message does not fit, the
			 * worker is stopped directly and must still deliver everything that was accepted (more than one read batch) */
			tp_shutdown(g_tp);
			sem_post(&g_gate_sem);
			tm_wait_ge(&g_cb_count, __atomic_load_n(&g_ok_sends, __ATOMIC_RELAXED), 5000);
		} else {
			sem_post(&g_gate_sem);
		}
		if (timeout) TM_LOG(EV_TIMEOUT, 0, 0, 0, 0);
		tm_wait_ge(&g_late_cb, __atomic_load_n(&g_ok_sends_late, __ATOMIC_RELAXED), 5000);
		TM_LOG(EV_PHASE, 4, 0, 0, 0);
		tp_shutdown(g_tp);
		tp_shutdown_wait(g_tp);
		rc = tp_destroy(g_tp);
		TM_LOG(EV_PHASE, 5, 0, 0, rc);
		goto dump;
	}
	if (gate && shutdown_behind_gate) {
		/* the gated worker is still RUNNING and has not read its queue: request the shutdown now, then queue more
		 * messages behind the stop message.  They are accepted (rc 0), so they must still be delivered. */
		unsigned k;
		tp_shutdown(g_tp);
		for (k = 0; k < 40; k++) {
			rec_t *r = &g_late[k]; int lrc;
			r->id = ((uint64_t)0xdd << 32) | k; r->dst = gate_dst; r->flags = 0;
			TM_LOG(EV_SEND_CALL, 0, r->id, gate_dst, 0);
			lrc = tpt_msg_send(tp_thread_get(g_tp, gate_dst), NULL, 0, msg_cb, r);
			TM_LOG(EV_SEND_RET, 0, r->id, gate_dst, lrc);
			if (lrc == 0) __atomic_add_fetch(&g_ok_sends_late, 1, __ATOMIC_RELAXED);
		}
		sem_post(&g_gate_sem);
		/* bounded wait: the gated worker drains its queue (one read batch) and then stops */
		tm_wait_ge(&g_late_cb, __atomic_load_n(&g_ok_sends_late, __ATOMIC_RELAXED), 5000);
		TM_LOG(EV_PHASE, 4, 0, 0, 0);
		tp_shutdown_wait(g_tp);
		rc = tp_destroy(g_tp);
		TM_LOG(EV_PHASE, 5, 0, 0, rc);
		goto dump;
	}
	if (gate) sem_post(&g_gate_sem);
	/* quiescence: every accepted message has run (bounded progress), then a grace round for duplicates */
	if (tm_wait_ge(&g_cb_count, __atomic_load_n(&g_ok_sends, __ATOMIC_RELAXED), 60000)) timeout = 1;
	__atomic_store_n(&g_barrier_cnt, 0, __ATOMIC_RELAXED);
	{
		unsigned want = 0;
		for (i = (start_mode == 1); i < pool; i++) if (0 == tpt_msg_send(tp_thread_get(g_tp, i), NULL, 0, barrier_cb, NULL)) want++;
		if (tm_wait_ge(&g_barrier_cnt, want, 30000)) timeout = 1;
	}
	{ struct timespec ts = {0, 3000000}; nanosleep(&ts, NULL); }
	if (timeout) TM_LOG(EV_TIMEOUT, 0, __atomic_load_n(&g_cb_count, __ATOMIC_RELAXED), __atomic_load_n(&g_ok_sends, __ATOMIC_RELAXED), 0);
	TM_LOG(EV_PHASE, 4, 0, 0, 0);
	__atomic_store_n(&g_armed, 0, __ATOMIC_RELAXED);
	tp_shutdown(g_tp);
	if (g_park_in_stop) {
		/* every started worker is now parked inside its stop hook (state STOPING, queue no longer read):
		 * a send to it must be refused, or run directly when FORCE is given - never accepted into the dead queue */
		unsigned nstarted = pool - (start_mode == 1), k;
		if (tm_wait_ge(&g_in_stop, nstarted, 30000)) timeout = 1;
		for (k = 0; k < 64 && !timeout; k++) {
			rec_t *r = &g_late[k]; uint64_t rnd = tm_rand(); int lrc;
			uint32_t dst = (uint32_t)((rnd >> 16) % (pool + 1)), fl = (uint32_t)(rnd >> 8) & 7;
			r->id = ((uint64_t)0xee << 32) | k; r->dst = dst; r->flags = fl;
			TM_LOG(EV_SEND_CALL, (uint16_t)fl, r->id, dst, 1 /* destination known to be stopping */);
			lrc = tpt_msg_send(dst == pool ? tp_thread_get_pvt(g_tp) : tp_thread_get(g_tp, dst), NULL, fl, msg_cb, r);
			TM_LOG(EV_SEND_RET, 0, r->id, dst, lrc);
		}
		for (k = 0; k < nstarted; k++) sem_post(&g_stop_gate);
	}
	tp_shutdown_wait(g_tp);
	rc = tp_destroy(g_tp);
	TM_LOG(EV_PHASE, 5, 0, 0, rc);
dump:
	{ struct timespec ts = {0, 2000000}; nanosleep(&ts, NULL); }
	fd1 = tm_fd_count(); task1 = tm_task_count();

	vout_u32(&o, 0xC05C05);
	vout_i32(&o, timeout);
	vout_u64(&o, __atomic_load_n(&g_qwrites, __ATOMIC_RELAXED)); vout_u64(&o, __atomic_load_n(&g_winj, __ATOMIC_RELAXED)); vout_u64(&o, __atomic_load_n(&g_qreads, __ATOMIC_RELAXED)); vout_u64(&o, __atomic_load_n(&g_rinj, __ATOMIC_RELAXED));
	vout_i32(&o, fd0); vout_i32(&o, fd1); vout_i32(&o, task0); vout_i32(&o, task1);
	tm_points_dump(&o);
	tm_dump(&o);
	vout_flush(&o);
	free(o.p); free(g_recs); free(snd); free(thr); free(c); free(g_wfault_pos); free(g_rfault_pos);
	return 0;
}
