/* C01 driver: multi-precision arithmetic of include/math/big_num.h.
 *
 * Built once per variant with -DBN_DIGIT_BIT_CNT=8|16|32|64|128 [-DBN_CC_MULL_DIV]
 * -DBN_BIT_LEN=256|2048.  Two modes:
 *   (no args)  case protocol (vdrv.h): every case is executed twice with two
 *              different junk patterns in all dead storage; both observations are
 *              written, the Python side demands that they are identical and
 *              compares the first with the integer oracle.
 *   exh ...    exhaustive small-operand enumeration against native arithmetic
 *              (meant for the 8-bit digit builds).
 */
#include <sys/param.h>
#include <errno.h>
#include "vdrv.h"
#include "math/big_num.h"

#if defined(__has_feature)
#  if __has_feature(memory_sanitizer)
#    include <sanitizer/msan_interface.h>
#    define C01_MSAN 1
#  endif
#endif

#define MAXOPS 4
#define NOSLOT 255

enum {
	OP_ADD = 1, OP_SUB, OP_ADD_DIGIT, OP_SUB_DIGIT, OP_MULT, OP_MULT_DIGIT, OP_SQUARE,
	OP_EXP_DIGIT, OP_DIV, OP_LSHIFT, OP_RSHIFT, OP_AND, OP_OR, OP_XOR, OP_BIT_SET,
	OP_QUERY, OP_CMP, OP_GCD, OP_GCD_BIN, OP_SQRT, OP_MOD, OP_MOD_ADD, OP_MOD_SUB,
	OP_MOD_MULT, OP_MOD_MULT_DIGIT, OP_MOD_SQUARE, OP_MOD_EXP, OP_MOD_EXP_DIGIT,
	OP_MOD_INV, OP_MOD_DIV, OP_MOD_REDUCE, OP_MOD_SQRT, OP_LEGENDRE, OP_NAF, OP_JSF,
	OP_COMBO, OP_IMPORT, OP_EXPORT, OP_DIGIT, OP_INIT
};

typedef struct {
	uint8_t op, flags, nops, nslots;
	uint16_t cap[MAXOPS];
	const uint8_t *val[MAXOPS];
	size_t vlen[MAXOPS];
	uint8_t slot[MAXOPS];
	uint64_t x[3];
	const uint8_t *dg; size_t dglen;
	const uint8_t *buf; size_t buflen;
} bcase_t;

static void junk_fill(void *p, size_t n, uint8_t pat) {
	uint8_t *b = p; size_t i;
	for (i = 0; i < n; i++) b[i] = (uint8_t)(pat + (uint8_t)(i * 31u));
}
static int junk_same(const void *p, size_t off, size_t n, uint8_t pat) {
	const uint8_t *b = p; size_t i;
	for (i = off; i < off + n; i++) if (b[i] != (uint8_t)(pat + (uint8_t)(i * 31u))) return 0;
	return 1;
}

static bn_digit_t digit_from(const uint8_t *p, size_t n) {
	bn_digit_t d = 0; uint8_t tmp[16];
	memset(tmp, 0, sizeof(tmp));
	memcpy(tmp, p, n < 16 ? n : 16);
	memcpy(&d, tmp, sizeof(d));
	return d;
}
static void out_digit(vout_t *o, bn_digit_t d) {
	uint8_t tmp[16];
	memset(tmp, 0, sizeof(tmp));
	memcpy(tmp, &d, sizeof(d));
	vout_raw(o, tmp, 16);
}

/* Build operand: whole object junk, bn_init, value bytes placed by hand, digits set;
 * everything above `digits` keeps the junk pattern (or is MSan-poisoned). */
static int setup_bn(bn_p bn, unsigned capbits, const uint8_t *val, size_t vlen, uint8_t pat, int digit_junk) {
	size_t nd;
	junk_fill(bn, sizeof(*bn), pat);
	if (digit_junk) {
		/* dead digits hold small / extreme DIGIT values (0, 1, 2, 3, all-ones): fast paths that
		 * switch on a digit of a number that has no such digit then take a wrong turn */
		static const uint8_t small[5] = { 1, 2, 3, 0, 0xff };
		size_t i;
		for (i = 0; i < BN_MAX_DIGITS; i++) {
			uint8_t k = small[(pat + i) % 5];
			bn->num[i] = (0xff == k) ? BN_MAX_DIGIT : (bn_digit_t)k;
		}
	}
	if (0 != bn_init(bn, capbits))
		return (1);
	while (vlen > 0 && 0 == val[vlen - 1]) vlen--;
	nd = ((vlen + BN_DIGIT_SIZE - 1) / BN_DIGIT_SIZE);
	if (nd > bn->count)
		return (2);
	if (nd > 0) {
		bn->num[nd - 1] = 0;
		memcpy(bn->num, val, vlen);
	}
	bn->digits = nd;
#ifdef C01_MSAN
	__msan_poison(&bn->num[nd], (BN_MAX_DIGITS - nd) * BN_DIGIT_SIZE);
#endif
	return (0);
}

static void dump_bn(vout_t *o, bn_p bn, size_t pre_count, const bn_t *snap) {
	size_t d = bn->digits, c = bn->count, top;
	size_t hi = (pre_count > c ? pre_count : c);
	uint8_t fl = 0;
#ifdef C01_MSAN
	__msan_unpoison(bn, sizeof(*bn));
#endif
	if (hi > BN_MAX_DIGITS) hi = BN_MAX_DIGITS;
	if (hi < BN_MAX_DIGITS && 0 != memcmp(&bn->num[hi], &snap->num[hi], (BN_MAX_DIGITS - hi) * BN_DIGIT_SIZE))
		fl |= 1; /* wrote above capacity */
	vout_u32(o, (uint32_t)c);
	vout_u32(o, (uint32_t)d);
	vout_u8(o, fl);
	top = (d > BN_MAX_DIGITS ? BN_MAX_DIGITS : d);
	vout_blob(o, bn->num, top * BN_DIGIT_SIZE);
}

static int parse_case(vin_t *in, bcase_t *c) {
	size_t i;
	memset(c, 0, sizeof(*c));
	c->op = vin_u8(in);
	c->flags = vin_u8(in);
	c->nops = vin_u8(in);
	if (c->nops > MAXOPS) return (1);
	for (i = 0; i < c->nops; i++) {
		c->cap[i] = vin_u16(in);
		c->val[i] = vin_blob(in, &c->vlen[i]);
	}
	c->nslots = vin_u8(in);
	if (c->nslots > MAXOPS) return (1);
	for (i = 0; i < c->nslots; i++) c->slot[i] = vin_u8(in);
	for (i = 0; i < 3; i++) c->x[i] = vin_u64(in);
	c->dg = vin_blob(in, &c->dglen);
	c->buf = vin_blob(in, &c->buflen);
	return (in->bad);
}

#define F_NULL_CARRY	1
#define F_NULL_SIZERET	2
#define F_DIGIT_JUNK	4	/* second run: dead digits hold 0/1/2/3/all-ones digit values */

static void __attribute__((noinline))
run_once(const bcase_t *c, uint8_t pat, int digit_junk, vout_t *o) {
	bn_t *B[MAXOPS], *snap[MAXOPS];
	bn_p P[MAXOPS];
	size_t pre_count[MAXOPS];
	size_t i;
	int rc = 0, setup_err = 0;
	bn_digit_t carry, dg, *cptr;
	uint64_t s0 = 0, s1 = 0;
	uint8_t *obuf = NULL, *ibuf = NULL; size_t obuf_n = 0, ibuf_n = 0;
	size_t szret, *szptr, szret2;
	vout_t ex = {0};

	for (i = 0; i < MAXOPS; i++) { B[i] = NULL; snap[i] = NULL; P[i] = NULL; pre_count[i] = 0; }
	for (i = 0; i < c->nops; i++) {
		B[i] = malloc(sizeof(bn_t));
		setup_err |= setup_bn(B[i], c->cap[i], c->val[i], c->vlen[i], (uint8_t)(pat + 17 * i), digit_junk);
		snap[i] = malloc(sizeof(bn_t));
		memcpy(snap[i], B[i], sizeof(bn_t));
		pre_count[i] = B[i]->count;
	}
	for (i = 0; i < c->nslots; i++)
		P[i] = (c->slot[i] == NOSLOT || c->slot[i] >= c->nops) ? NULL : B[c->slot[i]];
	junk_fill(&carry, sizeof(carry), pat);
	junk_fill(&szret, sizeof(szret), pat);
	junk_fill(&szret2, sizeof(szret2), pat);
	cptr = (c->flags & F_NULL_CARRY) ? NULL : &carry;
	szptr = (c->flags & F_NULL_SIZERET) ? NULL : &szret;
	dg = digit_from(c->dg, c->dglen);

	if (setup_err) {
		vout_i32(o, -1000 - setup_err);
		goto done;
	}
	vdrv_dirty_stack(pat);

	switch (c->op) {
	case OP_ADD: rc = bn_add(P[0], P[1], cptr); break;
	case OP_SUB: rc = bn_sub(P[0], P[1], cptr); break;
	case OP_ADD_DIGIT: bn_add_digit(P[0], dg, cptr); break;
	case OP_SUB_DIGIT: bn_sub_digit(P[0], dg, cptr); break;
	case OP_MULT: rc = bn_mult(P[0], P[1]); break;
	case OP_MULT_DIGIT: rc = bn_mult_digit(P[0], dg); break;
	case OP_SQUARE: rc = bn_square(P[0]); break;
	case OP_EXP_DIGIT: rc = bn_exp_digit(P[0], dg); break;
	case OP_DIV: rc = bn_div(P[0], P[1], P[2]); break;
	case OP_LSHIFT: bn_l_shift(P[0], (size_t)c->x[0]); break;
	case OP_RSHIFT: bn_r_shift(P[0], (size_t)c->x[0]); break;
	case OP_AND: rc = bn_and(P[0], P[1]); break;
	case OP_OR: rc = bn_or(P[0], P[1]); break;
	case OP_XOR: rc = bn_xor(P[0], P[1]); break;
	case OP_BIT_SET: rc = bn_bit_set(P[0], (size_t)c->x[0], (int)c->x[1]); break;
	case OP_QUERY:
		vout_u8(&ex, (uint8_t)(0 != bn_is_bit_set(P[0], (size_t)c->x[0])));
		vout_u64(&ex, (uint64_t)bn_calc_bits(P[0]));
		vout_u64(&ex, (uint64_t)bn_ctz(P[0]));
		vout_u64(&ex, (uint64_t)(P[0]->digits ? bn_clz(P[0]) : 0));
		vout_u8(&ex, (uint8_t)(0 != bn_is_zero(P[0])));
		vout_u8(&ex, (uint8_t)(0 != bn_is_one(P[0])));
		vout_u8(&ex, (uint8_t)(0 != bn_is_even(P[0])));
		vout_u8(&ex, (uint8_t)(0 != bn_is_odd(P[0])));
		vout_u8(&ex, (uint8_t)(0 != bn_is_pow2(P[0])));
		break;
	case OP_CMP:
		s0 = (uint64_t)(int64_t)bn_cmp(P[0], P[1]);
		s1 = (uint64_t)(0 != bn_is_equal(P[0], P[1]));
		break;
	case OP_GCD: rc = bn_gcd(P[0], P[1], P[2]); break;
	case OP_GCD_BIN: rc = bn_gcd_bin(P[0], P[1], P[2]); break;
	case OP_SQRT: rc = bn_sqrt(P[0]); break;
	case OP_MOD: rc = bn_mod(P[0], P[1], NULL); break;
	case OP_MOD_ADD: rc = bn_mod_add(P[0], P[1], P[2], NULL); break;
	case OP_MOD_SUB: rc = bn_mod_sub(P[0], P[1], P[2], NULL); break;
	case OP_MOD_MULT: rc = bn_mod_mult(P[0], P[1], P[2], NULL); break;
	case OP_MOD_MULT_DIGIT: rc = bn_mod_mult_digit(P[0], dg, P[1], NULL); break;
	case OP_MOD_SQUARE: rc = bn_mod_square(P[0], P[1], NULL); break;
	case OP_MOD_EXP: rc = bn_mod_exp(P[0], P[1], P[2], NULL); break;
	case OP_MOD_EXP_DIGIT: rc = bn_mod_exp_digit(P[0], (size_t)c->x[0], P[1], NULL); break;
	case OP_MOD_INV:
		switch (c->x[0]) {
		case 0: rc = bn_mod_inv(P[0], P[1], NULL); break;
		case 1: rc = bn_mod_inv1(P[0], P[1], NULL); break;
		case 2: rc = bn_mod_inv2(P[0], P[1], NULL); break;
		default: rc = bn_mod_inv_mont(P[0], P[1], NULL); break;
		}
		break;
	case OP_MOD_DIV: rc = bn_mod_div(P[0], P[1], P[2], NULL); break;
	case OP_MOD_REDUCE: rc = bn_mod_reduce(P[0], P[1], NULL); break;
	case OP_MOD_SQRT: rc = bn_mod_sqrt(P[0], P[1], NULL); break;
	case OP_LEGENDRE: rc = bn_mod_legendre(P[0], P[1], NULL); break;
	case OP_NAF:
		obuf_n = (size_t)c->x[1];
		obuf = vx_alloc(obuf_n, pat);
		rc = bn_calc_naf(P[0], (size_t)c->x[0], obuf_n, (int8_t*)obuf, szptr);
		break;
	case OP_JSF:
		obuf_n = (size_t)c->x[0];
		obuf = vx_alloc(obuf_n, pat);
		rc = bn_calc_jsf(P[0], P[1], obuf_n, (int8_t*)obuf, szptr, &szret2);
		break;
	case OP_COMBO:
		out_digit(&ex, bn_combo_column_get(P[0], (size_t)c->x[0], (size_t)c->x[1], (size_t)c->x[2]));
		break;
	case OP_IMPORT:
		ibuf_n = c->buflen;
		ibuf = vx_dup(c->buf, ibuf_n);
		switch (c->x[0]) {
		case 0: rc = bn_import_be_bin(P[0], ibuf, ibuf_n); break;
		case 1: rc = bn_import_le_bin(P[0], ibuf, ibuf_n); break;
		case 2: rc = bn_import_be_hex(P[0], ibuf, ibuf_n); break;
		default: rc = bn_import_le_hex(P[0], ibuf, ibuf_n); break;
		}
		break;
	case OP_EXPORT:
		obuf_n = (size_t)c->x[2];
		obuf = vx_alloc(obuf_n, pat);
		switch (c->x[0]) {
		case 0: rc = bn_export_be_bin(P[0], (uint32_t)c->x[1], obuf, obuf_n, szptr); break;
		case 1: rc = bn_export_le_bin(P[0], (uint32_t)c->x[1], obuf, obuf_n, szptr); break;
		case 2: rc = bn_export_be_hex(P[0], (uint32_t)c->x[1], obuf, obuf_n, szptr); break;
		default: rc = bn_export_le_hex(P[0], (uint32_t)c->x[1], obuf, obuf_n, szptr); break;
		}
		break;
	case OP_INIT: {
		/* bn_init() on an object the driver owns together with the bytes behind it: a capacity
		 * that the array cannot hold must be refused; if it is accepted, two operations at full
		 * capacity show whether num[BN_MAX_DIGITS] is touched (canary), without leaving the block */
		struct init_box { bn_t b; uint8_t canary[64]; } *box = malloc(sizeof(struct init_box));
		size_t bits = (size_t)c->x[0], arr_end, nread;
		int r1 = -9, r2 = -9;
		uint64_t cnt0 = 0, dig0 = 0;
		junk_fill(box, sizeof(*box), pat);
		rc = bn_init(&box->b, bits);
#ifdef C01_MSAN
		__msan_unpoison(box, sizeof(*box));
#endif
		if (0 == rc) {
			cnt0 = box->b.count;
			dig0 = box->b.digits;
			if (cnt0 <= BN_MAX_DIGITS + 2) {
				r1 = bn_bit_set(&box->b, (bits - 1), 1);
				r2 = bn_add(&box->b, &box->b, cptr);
			}
		}
#ifdef C01_MSAN
		__msan_unpoison(box, sizeof(*box));
#endif
		arr_end = (size_t)((uint8_t*)&box->b.num[BN_MAX_DIGITS] - (uint8_t*)box);
		vout_u64(&ex, (uint64_t)BN_MAX_DIGITS);
		vout_u64(&ex, cnt0);
		vout_u64(&ex, dig0);
		vout_i32(&ex, r1);
		vout_i32(&ex, r2);
		vout_u64(&ex, (uint64_t)box->b.digits);
		vout_u8(&ex, (uint8_t)junk_same(box, arr_end, sizeof(*box) - arr_end, pat));
		nread = box->b.digits;
		if (nread > BN_MAX_DIGITS + 2) nread = BN_MAX_DIGITS + 2;
		if (0 != rc) nread = 0;
		vout_blob(&ex, (uint8_t*)box->b.num, nread * BN_DIGIT_SIZE);
		free(box);
		break; }
	case OP_DIGIT: {
		bn_digit_t a = digit_from(c->buf, c->buflen),
		    b = digit_from(c->buflen > 16 ? c->buf + 16 : c->buf, c->buflen > 16 ? c->buflen - 16 : 0),
		    d = digit_from(c->buflen > 32 ? c->buf + 32 : c->buf, c->buflen > 32 ? c->buflen - 32 : 0);
		bn_digit_t r0, r1, r2, r3;
		junk_fill(&r0, sizeof(r0), pat); junk_fill(&r1, sizeof(r1), pat);
		junk_fill(&r2, sizeof(r2), pat); junk_fill(&r3, sizeof(r3), pat);
		switch (c->x[0]) {
		case 0: bn_digit_mult(a, b, &r0, &r1); out_digit(&ex, r0); out_digit(&ex, r1); break;
		case 1: rc = bn_digit_div(a, b, d, &r0, &r1, &r2, &r3);
			out_digit(&ex, r0); out_digit(&ex, r1); out_digit(&ex, r2); out_digit(&ex, r3); break;
		case 2: out_digit(&ex, bn_digit_gcd(a, b)); break;
		case 3: out_digit(&ex, bn_digit_gcd_bin(a, b)); break;
		case 4: vout_u64(&ex, bn_digit_bits(a)); vout_u64(&ex, bn_digit_ctz(a));
			vout_u64(&ex, bn_digit_clz(a)); vout_u64(&ex, bn_digit_ffs(a)); break;
		case 5: rc = bn_digit_div__int_short(a, b, d, &r0); out_digit(&ex, r0); break;
		default: break;
		}
		break; }
	default:
		rc = -2000;
		break;
	}

	vout_i32(o, rc);
#ifdef C01_MSAN
	__msan_unpoison(&carry, sizeof(carry));
	__msan_unpoison(&szret, sizeof(szret));
	__msan_unpoison(&szret2, sizeof(szret2));
	if (obuf_n) __msan_unpoison(obuf, obuf_n);
#endif
	vout_u8(o, c->nops);
	for (i = 0; i < c->nops; i++)
		dump_bn(o, B[i], pre_count[i], snap[i]);
	/* carry: 16 bytes + flag "still the junk pattern" */
	vout_u8(o, (uint8_t)junk_same(&carry, 0, sizeof(carry), pat));
	out_digit(o, carry);
	vout_u8(o, (uint8_t)junk_same(&szret, 0, sizeof(szret), pat));
	vout_u64(o, (uint64_t)szret);
	vout_u8(o, (uint8_t)junk_same(&szret2, 0, sizeof(szret2), pat));
	vout_u64(o, (uint64_t)szret2);
	vout_u64(o, s0);
	vout_u64(o, s1);
	/* output buffer verbatim + the junk byte it was pre-filled with */
	vout_blob(o, obuf, obuf_n);
	vout_u8(o, pat);
	vout_blob(o, ex.p, ex.n);
done:
	free(ex.p);
	if (obuf) vx_free(obuf, obuf_n);
	if (ibuf) vx_free(ibuf, ibuf_n);
	for (i = 0; i < c->nops; i++) { free(B[i]); free(snap[i]); }
}

/* ------------------------------------------------------------------------- */
/* Exhaustive sub-domain (small operands, native reference arithmetic).       */

typedef unsigned __int128 u128;

static void set_small(bn_p bn, size_t count, u128 v, uint8_t pat) {
	size_t i, nd = 0;
	junk_fill(bn, sizeof(*bn), pat);
	bn->count = count;
	for (i = 0; i < count && i * BN_DIGIT_BITS < 128; i++) {
		bn_digit_t d = (bn_digit_t)(v >> (i * BN_DIGIT_BITS));
		if (0 != d) nd = i + 1;
	}
	for (i = 0; i < nd; i++)
		bn->num[i] = (bn_digit_t)(v >> (i * BN_DIGIT_BITS));
	bn->digits = nd;
}
/* returns 0 and value if structurally sound */
static int get_small(bn_p bn, u128 *v) {
	size_t i; u128 r = 0;
	if (bn->digits > bn->count || bn->digits * BN_DIGIT_BITS > 128) return (1);
	if (bn->digits > 0 && 0 == bn->num[bn->digits - 1]) return (2);
	for (i = 0; i < bn->digits; i++)
		r |= ((u128)bn->num[i]) << (i * BN_DIGIT_BITS);
	*v = r;
	return (0);
}
static u128 ngcd(u128 a, u128 b) { while (b) { u128 t = a % b; a = b; b = t; } return a; }

struct exh_stat { uint64_t n, errs, bad; int have; char first[256]; };

static void exh_fail(struct exh_stat *st, const char *what, u128 a, u128 b, unsigned cap, unsigned extra,
    int rc, u128 got, u128 want) {
	st->bad++;
	if (st->have) return;
	st->have = 1;
	snprintf(st->first, sizeof(st->first),
	    "%s a=%llu b=%llu cap_digits=%u extra=%u rc=%d got=%llu want=%llu",
	    what, (unsigned long long)a, (unsigned long long)b, cap, extra, rc,
	    (unsigned long long)got, (unsigned long long)want);
}

#define CAPMASK(cap) ((((u128)1) << ((cap) * BN_DIGIT_BITS)) - 1)
static unsigned ndig(u128 v) { unsigned n = 0; while (v) { n++; v >>= BN_DIGIT_BITS; } return n; }

static volatile unsigned long exh_cur_a, exh_cur_b;
static void exh_on_alarm(int sig) {
	char m[128]; int n;
	(void)sig;
	n = snprintf(m, sizeof(m), "\nVERIF-HANG exhaustive a=%lu b=%lu\n", exh_cur_a, exh_cur_b);
	(void)!write(2, m, (size_t)n);
	_exit(97);
}

static int exhaustive(int argc, char **argv) {
	/* exh <a_lo> <a_hi> <b_bits> <pat> : a in [a_lo,a_hi), b in [0, 2^b_bits) */
	unsigned long a_lo = strtoul(argv[2], NULL, 0), a_hi = strtoul(argv[3], NULL, 0);
	unsigned b_bits = (unsigned)strtoul(argv[4], NULL, 0);
	uint8_t pat = (uint8_t)strtoul(argv[5], NULL, 0);
	unsigned long b_hi = 1ul << b_bits, a, b;
	static struct exh_stat S[8];
	static const char *names[8] = { "add", "sub", "mult", "div", "cmp", "shift", "gcd", "gcd_bin" };
	bn_t *x = malloc(sizeof(bn_t)), *y = malloc(sizeof(bn_t)), *z = malloc(sizeof(bn_t));
	unsigned cap, k;
	u128 got, got2, want;
	int rc;
	bn_digit_t cr;
	(void)argc;

	memset(S, 0, sizeof(S));
	vdrv_case_secs = 6;
	signal(SIGVTALRM, exh_on_alarm);
	for (a = a_lo; a < a_hi; a++) {
		unsigned da = ndig(a);
		exh_cur_a = a;
		vdrv_arm(); /* CPU budget per value of a */
		vdrv_dirty_stack((uint8_t)(pat + a));
		for (b = 0; b < b_hi; b++) {
			unsigned db = ndig(b);
			uint8_t p2 = (uint8_t)(pat + 3 * a + 7 * b);
			exh_cur_b = b;
			/* add / sub with carry at tight and ample capacity */
			for (cap = (da > db ? da : db); cap <= 3; cap++) {
				if (0 == cap) continue;
				set_small(x, cap, a, p2); set_small(y, cap, b, (uint8_t)~p2);
				cr = (bn_digit_t)p2;
				rc = bn_add(x, y, &cr);
				S[0].n++;
				want = ((u128)a + b);
				if (rc != 0 || get_small(x, &got) || got != (want & CAPMASK(cap)) ||
				    cr != (bn_digit_t)(want >> (cap * BN_DIGIT_BITS)))
					exh_fail(&S[0], "add", a, b, cap, (unsigned)cr, rc, got, want);
				if (get_small(y, &got) || got != b) exh_fail(&S[0], "add:operand-changed", a, b, cap, 0, rc, got, b);
				set_small(x, cap, a, p2);
				cr = (bn_digit_t)p2;
				rc = bn_sub(x, y, &cr);
				S[1].n++;
				want = ((u128)a - b) & CAPMASK(cap);
				if (rc != 0 || get_small(x, &got) || got != want || cr != (bn_digit_t)(a < b))
					exh_fail(&S[1], "sub", a, b, cap, (unsigned)cr, rc, got, want);
			}
			/* mult: capacity from digits(a) to digits(a)+digits(b)+1 */
			for (cap = (da ? da : 1); cap <= da + db + 1; cap++) {
				set_small(x, cap, a, p2); set_small(y, (db ? db : 1), b, (uint8_t)~p2);
				rc = bn_mult(x, y);
				S[2].n++;
				want = (u128)a * b;
				if (rc != 0) {
					S[2].errs++;
					if (0 == a || 0 == b || da + db <= cap)
						exh_fail(&S[2], "mult:error-in-domain", a, b, cap, 0, rc, 0, want);
				} else if (get_small(x, &got) || got != want) {
					exh_fail(&S[2], "mult", a, b, cap, 0, rc, got, want);
				}
			}
			/* div: quotient in x, remainder in z; tight and ample numerator capacity */
			for (cap = (da ? da : 1); cap <= da + 1; cap++) {
				set_small(x, cap, a, p2); set_small(y, (db ? db : 1), b, (uint8_t)~p2);
				set_small(z, (db ? db : 1), 0x55, (uint8_t)(p2 + 1));
				rc = bn_div(x, y, z);
				S[3].n++;
				if (0 == b) {
					if (0 == rc) exh_fail(&S[3], "div:no-error-on-zero-divisor", a, b, cap, 0, rc, 0, 0);
					continue;
				}
				if (rc != 0) {
					S[3].errs++;
					if (cap > da || da == 0)
						exh_fail(&S[3], "div:error-in-domain", a, b, cap, 0, rc, 0, a / b);
					continue;
				}
				if (get_small(x, &got) || get_small(z, &got2) || got != a / b || got2 != a % b)
					exh_fail(&S[3], "div", a, b, cap, (unsigned)got2, rc, got, a / b);
				if (get_small(y, &got) || got != b) exh_fail(&S[3], "div:operand-changed", a, b, cap, 0, rc, got, b);
				/* remainder-only form: bn_div(a, d, a) */
				if (cap == da + 1) {
					set_small(x, cap, a, p2);
					rc = bn_div(x, y, x);
					S[3].n++;
					if (rc != 0 || get_small(x, &got) || got != a % b)
						exh_fail(&S[3], "div:alias-rem", a, b, cap, 0, rc, got, a % b);
				}
			}
			/* cmp */
			set_small(x, 3, a, p2); set_small(y, 2, b, (uint8_t)~p2);
			rc = bn_cmp(x, y);
			S[4].n++;
			if (rc != ((a > b) - (a < b))) exh_fail(&S[4], "cmp", a, b, 3, 0, rc, 0, 0);
			/* gcd (Euclid and binary), one spare digit */
			cap = (da > db ? da : db) + 1;
			set_small(x, cap, a, p2); set_small(y, cap, b, (uint8_t)~p2); set_small(z, cap, 0x33, p2);
			rc = bn_gcd(z, x, y);
			S[6].n++;
			want = ngcd(a, b);
			if (rc != 0 || get_small(z, &got) || got != want) exh_fail(&S[6], "gcd", a, b, cap, 0, rc, got, want);
			set_small(z, cap, 0x33, p2);
			rc = bn_gcd_bin(z, x, y);
			S[7].n++;
			if (rc != 0 || get_small(z, &got) || got != want) exh_fail(&S[7], "gcd_bin", a, b, cap, 0, rc, got, want);
		}
		/* shifts: every amount inside the safe domain, capacity 3 and 4 digits */
		for (cap = (da ? da : 1); cap <= 4; cap++) {
			for (k = 0; k <= cap * BN_DIGIT_BITS; k++) {
				set_small(x, cap, a, (uint8_t)(pat + k));
				bn_l_shift(x, k);
				S[5].n++;
				want = (k >= 128 ? 0 : (((u128)a) << k)) & CAPMASK(cap);
				if (get_small(x, &got) || got != want) exh_fail(&S[5], "l_shift", a, k, cap, 0, 0, got, want);
				if (k <= da * BN_DIGIT_BITS) {
					set_small(x, cap, a, (uint8_t)(pat + k));
					bn_r_shift(x, k);
					S[5].n++;
					want = (k >= 128 ? 0 : (((u128)a) >> k));
					if (get_small(x, &got) || got != want) exh_fail(&S[5], "r_shift", a, k, cap, 0, 0, got, want);
				}
			}
		}
	}
	for (k = 0; k < 8; k++)
		printf("%s %llu %llu %llu %s\n", names[k], (unsigned long long)S[k].n,
		    (unsigned long long)S[k].errs, (unsigned long long)S[k].bad, S[k].have ? S[k].first : "-");
	free(x); free(y); free(z);
	return (0);
}

int main(int argc, char **argv) {
	size_t len; uint8_t *cs;
	vout_t o = {0}, r = {0};

	if (argc >= 6 && 0 == strcmp(argv[1], "exh"))
		return exhaustive(argc, argv);
	if (argc >= 2 && 0 == strcmp(argv[1], "info")) {
		printf("%u %u %u %zu\n", (unsigned)BN_DIGIT_BIT_CNT,
#ifdef BN_CC_MULL_DIV
		    1u,
#else
		    0u,
#endif
		    (unsigned)BN_BIT_LEN, sizeof(bn_t));
		return (0);
	}
	vdrv_case_secs = 6; /* slowest legitimate case (8-bit portable digits under ASan) needs < 1 s */
	vdrv_init();
	while ((cs = vdrv_next_case(&len))) {
		vin_t in = { cs, len, 0, 0 };
		bcase_t c;
		uint8_t patA, patB;
		patA = vin_u8(&in);
		patB = vin_u8(&in);
		if (parse_case(&in, &c)) {
			vout_u8(&o, 0xEE);
			vout_flush(&o);
			free(cs);
			continue;
		}
		vout_u8(&o, 2);
		run_once(&c, patA, 0, &r);
		vout_blob(&o, r.p, r.n); r.n = 0;
		run_once(&c, patB, (c.flags & F_DIGIT_JUNK) ? 1 : 0, &r);
		vout_blob(&o, r.p, r.n); r.n = 0;
		vout_flush(&o);
		free(cs);
	}
	return (0);
}
