/* C18 driver: socket-address text and prefix arithmetic.
 * One case = one call (or one to_str -> from_str round trip).  Input socket addresses are
 * built with the library's own sa_init() in a heap block of exactly the family's sockaddr
 * size; every text input / output buffer is an exact-size heap block. */
#include "vdrv.h"
#include <sys/socket.h>
#include <sys/un.h>
#include <netinet/in.h>
#include <arpa/inet.h>
#include "net/socket_address.h"
#include "net/utils.h"

enum { OP_TOSTR = 1, OP_FROMSTR = 2, OP_RT = 3, OP_LEN2MASK = 4, OP_MASK2LEN = 5,
       OP_TRUNC_PREFLEN = 6, OP_TRUNC_MASK = 7, OP_IN_NET = 8 };

static sa_family_t fam_of(uint8_t f) { return f == 4 ? AF_INET : f == 6 ? AF_INET6 : f == 1 ? AF_UNIX : 0; }
static size_t sa_len_of(uint8_t f) {
	return f == 4 ? sizeof(struct sockaddr_in) : f == 6 ? sizeof(struct sockaddr_in6) : sizeof(struct sockaddr_un);
}

/* exact-size sockaddr built through the library API; *rc_init gets sa_init's result */
static struct sockaddr_storage *mk_sa(uint8_t f, const uint8_t *ab, size_t an, uint16_t port, int *rc_init) {
	size_t n = sa_len_of(f);
	struct sockaddr_storage *sa = (struct sockaddr_storage *)vx_alloc(n, 0xA5);
	if (f == 1) {
		char *path = malloc(an + 1);
		memcpy(path, ab, an); path[an] = 0;
		*rc_init = sa_init(sa, AF_UNIX, path, port);
		free(path);
	} else {
		uint8_t *a = vx_dup(ab, an);
		*rc_init = sa_init(sa, fam_of(f), a, port);
		vx_free(a, an);
	}
	return sa;
}

static void out_sa(vout_t *o, const struct sockaddr_storage *sa) {
	/* family as 4/6/1/0, address bytes, port (host order) read from the raw struct */
	if (sa->ss_family == AF_INET) {
		const struct sockaddr_in *s = (const void *)sa;
		vout_u8(o, 4); vout_blob(o, &s->sin_addr, 4); vout_u16(o, ntohs(s->sin_port));
	} else if (sa->ss_family == AF_INET6) {
		const struct sockaddr_in6 *s = (const void *)sa;
		vout_u8(o, 6); vout_blob(o, &s->sin6_addr, 16); vout_u16(o, ntohs(s->sin6_port));
	} else if (sa->ss_family == AF_UNIX) {
		const struct sockaddr_un *s = (const void *)sa;
		vout_u8(o, 1); vout_blob(o, s->sun_path, strnlen(s->sun_path, sizeof(s->sun_path))); vout_u16(o, 0);
	} else {
		vout_u8(o, 0); vout_blob(o, "", 0); vout_u16(o, 0);
	}
}

static int call_from(uint8_t which, struct sockaddr_storage *out, const char *t, size_t n, uint16_t *pl) {
	if (which == 0) return sa_addr_from_str(out, t, n);
	if (which == 1) return sa_addr_port_from_str(out, t, n);
	return str_net_to_ss(t, n, out, pl);
}

int main(void) {
	size_t len;
	uint8_t *c;
	vout_t o = {0};

	vdrv_init();
	while ((c = vdrv_next_case(&len))) {
		vin_t in = { c, len, 0, 0 };
		uint8_t op = vin_u8(&in);

		vdrv_dirty_stack((uint8_t)(op * 17 + len));
		vout_u8(&o, op);
		switch (op) {
		case OP_TOSTR: case OP_RT: {
			uint8_t which = vin_u8(&in), f = vin_u8(&in);
			size_t an; const uint8_t *ab = vin_blob(&in, &an);
			uint16_t port = vin_u16(&in);
			uint32_t bsz = (op == OP_TOSTR) ? vin_u32(&in) : (uint32_t)STR_ADDR_LEN;
			int rci, rc;
			struct sockaddr_storage *sa = mk_sa(f, ab, an, port, &rci);
			char *buf = (char *)vx_alloc(bsz, 0xA5);
			size_t ret = (size_t)0xDEADDEADu;
			rc = which ? sa_addr_port_to_str(sa, buf, bsz, &ret) : sa_addr_to_str(sa, buf, bsz, &ret);
			vout_i32(&o, rci);
			out_sa(&o, sa);            /* what sa_init built (cross-checks sa_init / port order) */
			vout_i32(&o, rc); vout_u64(&o, (uint64_t)ret);
			vout_blob(&o, buf, bsz);
			if (op == OP_RT) {
				size_t tl = strnlen(buf, bsz);
				int rc2 = -12345;
				struct sockaddr_storage *back = (struct sockaddr_storage *)vx_alloc(sizeof(*back), 0xA5);
				if (rc == 0 && tl > 0 && tl < bsz) {
					char *t = (char *)vx_dup((uint8_t *)buf, tl);
					rc2 = which ? sa_addr_port_from_str(back, t, tl) : sa_addr_from_str(back, t, tl);
					vx_free((uint8_t *)t, tl);
				}
				vout_i32(&o, rc2);
				if (rc2 == 0) out_sa(&o, back); else { vout_u8(&o, 0); vout_blob(&o, "", 0); vout_u16(&o, 0); }
				vx_free((uint8_t *)back, sizeof(*back));
			}
			vx_free((uint8_t *)buf, bsz);
			vx_free((uint8_t *)sa, sa_len_of(f));
			break; }
		case OP_FROMSTR: {
			uint8_t which = vin_u8(&in);
			size_t tn; const uint8_t *tb = vin_blob(&in, &tn);
			/* optional: `tail` decimal digits stored directly behind the text (the text is then a slice of a longer buffer);
			 * they are not part of the text and must not influence the result */
			size_t tail = (in.o < in.n) ? vin_u8(&in) : 0, i;
			char *t = (char *)vx_alloc(tn + tail, '7');
			uint16_t pl = 0xBEEF; uint32_t scope = 0, flow = 0;
			struct sockaddr_storage *out = (struct sockaddr_storage *)vx_alloc(sizeof(*out), 0xA5);
			int rc;
			if (tn) memcpy(t, tb, tn);
			for (i = 0; i < tail; i++) t[tn + i] = (char)('7' + (i % 3));
			rc = call_from(which, out, t, tn, &pl);
			vout_i32(&o, rc);
			if (rc == 0) out_sa(&o, out); else { vout_u8(&o, 0); vout_blob(&o, "", 0); vout_u16(&o, 0); }
			vout_u16(&o, pl);
			/* the result object was filled with 0xA5 before the call: what a parsed IPv6 address leaves in the fields the text does not set */
			if (rc == 0 && out->ss_family == AF_INET6) { const struct sockaddr_in6 *s6 = (const void *)out; scope = s6->sin6_scope_id; flow = s6->sin6_flowinfo; }
			vout_u32(&o, scope); vout_u32(&o, flow);
			vx_free((uint8_t *)out, sizeof(*out));
			vx_free((uint8_t *)t, tn + tail);
			break; }
		case OP_LEN2MASK: {
			uint8_t f = vin_u8(&in); uint64_t l = vin_u64(&in);
			size_t mn = f == 4 ? 4 : 16;
			uint8_t *m = vx_alloc(mn, 0xA5);
			int rc = f == 4 ? inet_len2mask((size_t)l, (struct in_addr *)m) : inet6_len2mask((size_t)l, (struct in6_addr *)m);
			int back = -1;
			if (rc == 0) back = f == 4 ? inet_mask2len((struct in_addr *)m) : inet6_mask2len((struct in6_addr *)m);
			vout_i32(&o, rc); vout_blob(&o, m, mn); vout_i32(&o, back);
			vx_free(m, mn);
			break; }
		case OP_MASK2LEN: {
			uint8_t f = vin_u8(&in); size_t mn; const uint8_t *mb = vin_blob(&in, &mn);
			uint8_t *m = vx_dup(mb, mn);
			int l = f == 4 ? inet_mask2len((struct in_addr *)m) : inet6_mask2len((struct in6_addr *)m);
			vout_i32(&o, l);
			vx_free(m, mn);
			break; }
		case OP_TRUNC_PREFLEN: {
			uint8_t f = vin_u8(&in);
			size_t an; const uint8_t *ab = vin_blob(&in, &an);
			uint16_t port = vin_u16(&in), pl = vin_u16(&in);
			int rci;
			struct sockaddr_storage *sa = mk_sa(f, ab, an, port, &rci);
			net_addr_truncate_preflen(sa, pl);
			out_sa(&o, sa);
			vx_free((uint8_t *)sa, sa_len_of(f));
			break; }
		case OP_TRUNC_MASK: case OP_IN_NET: {
			uint8_t f = vin_u8(&in);
			size_t nn, mn, an = 0; const uint8_t *nb = vin_blob(&in, &nn), *mb = vin_blob(&in, &mn), *ab = NULL;
			uint8_t *net, *mask, *addr = NULL;
			if (op == OP_IN_NET) ab = vin_blob(&in, &an);
			net = vx_dup(nb, nn); mask = vx_dup(mb, mn);
			if (op == OP_TRUNC_MASK) {
				net_addr_truncate_mask(fam_of(f), (uint32_t *)net, (uint32_t *)mask);
				vout_blob(&o, net, nn); vout_blob(&o, mask, mn);
			} else {
				int r;
				addr = vx_dup(ab, an);
				r = is_addr_in_net(fam_of(f), (const uint32_t *)net, (const uint32_t *)mask, (const uint32_t *)addr);
				vout_i32(&o, r);
				vx_free(addr, an);
			}
			vx_free(net, nn); vx_free(mask, mn);
			break; }
		default:
			vout_u8(&o, 0xFE);
			break;
		}
		vout_flush(&o);
		free(c);
	}
	return 0;
}
