/* Shared driver for C12 (memory safety / size contract / termination of the
 * utility codecs and containers) and C14 (codec inverse / standard conformance).
 *
 * One case = u8 op, u8 sub, u8 placement, then op specific fields (see each op).
 * placement: 0 = every output buffer is an exact-size heap block (ASan red zones
 * flush against both ends), 1 = the output buffer sits between two 64-byte
 * canary frames inside one allocation (canary decides, ASan is blind there).
 * Inputs are always exact-size heap copies.
 *
 * "Sized output" ops run the library function twice when it fails and reports a
 * required size R: the second call gets a buffer of exactly R bytes
 * (the function's own definition of "enough").
 */
#include "vdrv.h"
#include <errno.h>
#include <time.h>
#include <sys/types.h>

#include "utils/base64.h"
#include "utils/num2str.h"
#include "utils/str2num.h"
#include "utils/strh2num.h"
#include "utils/utf8.h"
#include "utils/asn1.h"
#include "utils/mem_utils.h"
#include "utils/buf_str.h"
#include "utils/xml.h"
#include "utils/ini.h"
#include "utils/bt_encode.h"
#include "math/crc32.h"
#include "proto/http.h"

enum {
	OP_B64_ENC = 1, OP_B64_DEC = 2, OP_HEX = 3, OP_NUM2STR = 4, OP_STR2NUM = 5,
	OP_UTF8 = 6, OP_ASN1 = 7, OP_MEM = 8, OP_REPLACE = 9, OP_XMLCODEC = 10,
	OP_XMLGET = 11, OP_INI = 12, OP_BT = 13, OP_ARGS = 14, OP_LINE = 15,
	OP_CRC = 16, OP_URLDEC = 17, OP_MISC = 18, OP_NUMRT = 19,
	OP_SELFTEST = 200 /* monitor liveness: deliberate 1-byte overflow / canary hit / busy loop in DRIVER code */
};

#define FRAME	64
#define CANARY	0xC5
#define FILL	0xAA
#define SENT	((size_t)0x5E5E5E5E5E5E5E5EULL)
#define BIG_R	((size_t)1 << 20)

typedef struct { uint8_t *base; uint8_t *p; size_t cap; int framed; } ob_t;

static ob_t ob_new(size_t cap, int framed) {
	ob_t o;
	o.cap = cap; o.framed = framed;
	if (framed) {
		o.base = malloc(cap + 2 * FRAME);
		memset(o.base, CANARY, cap + 2 * FRAME);
		o.p = o.base + FRAME;
		memset(o.p, FILL, cap);
	} else {
		o.p = vx_alloc(cap, FILL);
		o.base = o.p;
	}
	return o;
}
/* bit0: bytes before the buffer changed, bit1: bytes after it changed */
static unsigned ob_canary(const ob_t *o) {
	unsigned r = 0; size_t i;
	if (!o->framed) return 0;
	for (i = 0; i < FRAME; i++) {
		if (o->base[i] != CANARY) r |= 1;
		if (o->p[o->cap + i] != CANARY) r |= 2;
	}
	return r;
}
static void ob_free(ob_t *o) {
	if (o->framed) free(o->base); else vx_free(o->p, o->cap);
}

/* ------------------------------------------------------------------ */
/* sized-output helper                                                  */
/* ------------------------------------------------------------------ */
typedef struct {
	int fn; int aux; uint64_t v;
	const uint8_t *src; size_t n;
	const void **ra; const size_t *rac; const void **rb; const size_t *rbc; size_t rcnt; void *tmp;
} sctx_t;
typedef int (*sized_fn)(sctx_t *c, uint8_t *dst, size_t cap, size_t *ret);

/* distinct, never inlined call sites: a report's stack tells whether the first call (capacity from
 * the case) or the retry (capacity = the size the function reported) was running */
static int __attribute__((noinline)) sized_first_call(sized_fn fn, sctx_t *c, uint8_t *d, size_t cap, size_t *r) {
	int rc = fn(c, d, cap, r);
	__asm__ volatile("" ::: "memory");
	return rc;
}
static int __attribute__((noinline)) sized_second_call(sized_fn fn, sctx_t *c, uint8_t *d, size_t cap, size_t *r) {
	int rc = fn(c, d, cap, r);
	__asm__ volatile("" ::: "memory");
	return rc;
}

static void run_sized(vout_t *o, sized_fn fn, sctx_t *c, size_t cap, int framed, int want_ret) {
	ob_t b = ob_new(cap, framed);
	size_t ret = SENT;
	int rc = sized_first_call(fn, c, b.p, cap, want_ret ? &ret : NULL);
	vout_i32(o, rc); vout_u64(o, ret); vout_u8(o, (uint8_t)ob_canary(&b)); vout_blob(o, b.p, cap);
	ob_free(&b);
	if (rc != 0 && ret != SENT && ret != cap && ret <= BIG_R) {
		ob_t b2 = ob_new(ret, framed);
		size_t ret2 = SENT;
		int rc2 = sized_second_call(fn, c, b2.p, ret, &ret2);
		vout_u8(o, 1); vout_i32(o, rc2); vout_u64(o, ret2); vout_u8(o, (uint8_t)ob_canary(&b2));
		vout_blob(o, b2.p, ret);
		ob_free(&b2);
	} else {
		vout_u8(o, 0);
	}
}

static int f_b64enc(sctx_t *c, uint8_t *d, size_t cap, size_t *r) { return base64_encode(c->src, c->n, d, cap, r); }
static int f_b64dec(sctx_t *c, uint8_t *d, size_t cap, size_t *r) {
	if (c->fn == 0) return base64_decode(c->src, c->n, d, cap, r);
	return base64_decode_fmt(c->src, c->n, d, cap, r);
}
static int f_hex(sctx_t *c, uint8_t *d, size_t cap, size_t *r) {
	if (c->fn == 0) return cvt_bin2hex(c->src, c->n, c->aux, d, cap, r);
	return cvt_hex2bin(c->src, c->n, c->aux, d, cap, r);
}
static int f_num2str(sctx_t *c, uint8_t *d, size_t cap, size_t *r) {
	uint64_t v = c->v;
	switch (c->fn) {
	case 0: return u82str((uint8_t)v, (char *)d, cap, r);
	case 1: return u82ustr((uint8_t)v, d, cap, r);
	case 2: return u162str((uint16_t)v, (char *)d, cap, r);
	case 3: return u162ustr((uint16_t)v, d, cap, r);
	case 4: return u322str((uint32_t)v, (char *)d, cap, r);
	case 5: return u322ustr((uint32_t)v, d, cap, r);
	case 6: return u642str((uint64_t)v, (char *)d, cap, r);
	case 7: return u642ustr((uint64_t)v, d, cap, r);
	case 8: return usize2str((size_t)v, (char *)d, cap, r);
	case 9: return usize2ustr((size_t)v, d, cap, r);
	case 10: return s82str((int8_t)v, (char *)d, cap, r);
	case 11: return s82ustr((int8_t)v, d, cap, r);
	case 12: return s162str((int16_t)v, (char *)d, cap, r);
	case 13: return s162ustr((int16_t)v, d, cap, r);
	case 14: return s322str((int32_t)v, (char *)d, cap, r);
	case 15: return s322ustr((int32_t)v, d, cap, r);
	case 16: return s642str((int64_t)v, (char *)d, cap, r);
	case 17: return s642ustr((int64_t)v, d, cap, r);
	case 18: return ssize2str((ssize_t)v, (char *)d, cap, r);
	case 19: return ssize2ustr((ssize_t)v, d, cap, r);
	}
	return -1000;
}
/* base 0 = decimal (str2num.h), 1 = hex (strh2num.h); fn = type*2 + ustr */
static uint64_t call_str2num(int base, int fn, const uint8_t *s, size_t n) {
	const char *cs = (const char *)s;
	if (base == 0) switch (fn) {
	case 0: return str2u8(cs, n);
	case 1: return ustr2u8(s, n);
	case 2: return str2u16(cs, n);
	case 3: return ustr2u16(s, n);
	case 4: return str2u32(cs, n);
	case 5: return ustr2u32(s, n);
	case 6: return str2u64(cs, n);
	case 7: return ustr2u64(s, n);
	case 8: return str2usize(cs, n);
	case 9: return ustr2usize(s, n);
	case 10: return (uint64_t)(int64_t)str2s8(cs, n);
	case 11: return (uint64_t)(int64_t)ustr2s8(s, n);
	case 12: return (uint64_t)(int64_t)str2s16(cs, n);
	case 13: return (uint64_t)(int64_t)ustr2s16(s, n);
	case 14: return (uint64_t)(int64_t)str2s32(cs, n);
	case 15: return (uint64_t)(int64_t)ustr2s32(s, n);
	case 16: return (uint64_t)(int64_t)str2s64(cs, n);
	case 17: return (uint64_t)(int64_t)ustr2s64(s, n);
	case 18: return (uint64_t)(int64_t)str2ssize(cs, n);
	case 19: return (uint64_t)(int64_t)ustr2ssize(s, n);
	} else switch (fn) {
	case 0: return strh2u8(cs, n);
	case 1: return ustrh2u8(s, n);
	case 2: return strh2u16(cs, n);
	case 3: return ustrh2u16(s, n);
	case 4: return strh2u32(cs, n);
	case 5: return ustrh2u32(s, n);
	case 6: return strh2u64(cs, n);
	case 7: return ustrh2u64(s, n);
	case 8: return strh2usize(cs, n);
	case 9: return ustrh2usize(s, n);
	case 10: return (uint64_t)(int64_t)strh2s8(cs, n);
	case 11: return (uint64_t)(int64_t)ustrh2s8(s, n);
	case 12: return (uint64_t)(int64_t)strh2s16(cs, n);
	case 13: return (uint64_t)(int64_t)ustrh2s16(s, n);
	case 14: return (uint64_t)(int64_t)strh2s32(cs, n);
	case 15: return (uint64_t)(int64_t)ustrh2s32(s, n);
	case 16: return (uint64_t)(int64_t)strh2s64(cs, n);
	case 17: return (uint64_t)(int64_t)ustrh2s64(s, n);
	case 18: return (uint64_t)(int64_t)strh2ssize(cs, n);
	case 19: return (uint64_t)(int64_t)ustrh2ssize(s, n);
	}
	return 0xDEADDEADDEADDEADULL;
}
static int f_xml(sctx_t *c, uint8_t *d, size_t cap, size_t *r) {
	if (c->fn == 0) return xml_encode(c->src, c->n, d, cap, r);
	return xml_decode(c->src, c->n, d, cap, r);
}
static int f_replace(sctx_t *c, uint8_t *d, size_t cap, size_t *r) {
	size_t replaced = SENT;
	int rc = mem_replace_arr(c->src, c->n, c->rcnt, c->tmp, c->ra, c->rac, c->rb, c->rbc, d, cap, r, &replaced);
	c->v = replaced;
	return rc;
}

/* ------------------------------------------------------------------ */
/* ASN.1                                                                */
/* ------------------------------------------------------------------ */
static int asn_budget;
static void asn_walk(vout_t *o, const uint8_t *src, size_t n, int use_off, size_t start, int depth) {
	uint8_t *b = vx_dup(src, n);
	size_t off = start;
	int it;
	for (it = 0; it < 64 && asn_budget > 0; it++) {
		size_t hdr = SENT, tag = SENT, dsz = SENT, off_in = off;
		uint8_t cls = 0xEE, ps = 0xEE, *data = NULL;
		int rc;
		asn_budget--;
		rc = asn_parse(b, n, use_off ? &off : NULL, &hdr, &cls, &ps, &tag, &data, &dsz);
		vout_u8(o, 1); vout_u8(o, (uint8_t)depth); vout_u64(o, n); vout_u64(o, off_in);
		vout_i32(o, rc);
		if (rc != 0) break;
		vout_u64(o, off); vout_u64(o, hdr); vout_u8(o, cls); vout_u8(o, ps); vout_u64(o, tag);
		vout_i64(o, data ? (int64_t)(data - b) : -1); vout_u64(o, dsz);
		if (ps && data && depth < 6 && (size_t)(data - b) <= n && dsz <= n - (size_t)(data - b) && dsz > 0)
			asn_walk(o, data, dsz, 1, 0, depth + 1);
		if (!use_off) break;
	}
	vx_free(b, n);
}

/* ------------------------------------------------------------------ */
/* bencode tree walk (arithmetic only, never touches the spans)         */
/* ------------------------------------------------------------------ */
typedef struct { uint64_t nodes, maxdepth, span_out, strs, nums, lists, dicts; } btstat_t;
static void bt_walk(bt_en_node_p nd, const uint8_t *b, size_t n, btstat_t *st, uint64_t depth) {
	size_t i;
	if (!nd) return;
	st->nodes++;
	if (depth > st->maxdepth) st->maxdepth = depth;
	if (nd->raw < b || nd->raw > b + n || nd->raw_size > (size_t)((b + n) - nd->raw)) st->span_out++;
	switch (nd->type) {
	case BT_EN_TYPE_STR: st->strs++; break;
	case BT_EN_TYPE_NUM: st->nums++; break;
	case BT_EN_TYPE_LIST:
		st->lists++;
		for (i = 0; i < nd->val_count; i++) bt_walk(nd->val.l[i], b, n, st, depth + 1);
		break;
	case BT_EN_TYPE_DICT:
		st->dicts++;
		for (i = 0; i < nd->val_count; i++) {
			bt_walk(nd->val.d[i].key, b, n, st, depth + 1);
			bt_walk(nd->val.d[i].val, b, n, st, depth + 1);
		}
		break;
	}
}

static uint32_t touch(const uint8_t *p, size_t n) {
	uint32_t s = 0; size_t i;
	volatile const uint8_t *v = p;
	for (i = 0; i < n; i++) s = s * 31 + v[i];
	return s;
}

static int64_t rel(const void *p, const void *base) {
	if (!p) return -1;
	return (int64_t)((const uint8_t *)p - (const uint8_t *)base);
}

/* ------------------------------------------------------------------ */
static uint32_t crc_one(int var, const uint8_t *p, size_t n) {
	switch (var) {
	case 0: return crc32a(p, n);
	case 1: return crc32cksum(p, n);
	case 2: return crc32mpeg2(p, n);
	case 3: return crc32b(p, n);
	case 4: return crc32jamcrc(p, n);
	case 5: return crc32c(p, n);
	case 6: return crc32d(p, n);
	case 7: return crc32q(p, n);
	}
	return 0;
}
static uint32_t crc_upd(int var, uint32_t crc, const uint8_t *p, size_t n) {
	switch (var) {
	case 0: return crc32a_update(crc, p, n);
	case 1: return crc32cksum_update(crc, p, n);
	case 2: return crc32mpeg2_update(crc, p, n);
	case 3: return crc32b_update(crc, p, n);
	case 4: return crc32jamcrc_update(crc, p, n);
	case 5: return crc32c_update(crc, p, n);
	case 6: return crc32d_update(crc, p, n);
	case 7: return crc32q_update(crc, p, n);
	}
	return 0;
}

/* ------------------------------------------------------------------ */
#define MAXT 8

static void do_case(vin_t *in, vout_t *o) {
	int op = vin_u8(in), sub = vin_u8(in), framed = vin_u8(in) & 1;
	size_t n = 0, i;
	const uint8_t *src;
	sctx_t c;
	memset(&c, 0, sizeof(c));

	switch (op) {
	case OP_B64_ENC: case OP_B64_DEC: case OP_HEX: case OP_XMLCODEC: {
		/* u8 aux, u8 want_ret, blob src, u32 cap */
		int aux = vin_u8(in), want = vin_u8(in);
		uint8_t *s; size_t cap;
		src = vin_blob(in, &n); cap = vin_u32(in);
		if (in->bad) break;
		s = vx_dup(src, n);
		c.fn = sub; c.aux = aux; c.src = s; c.n = n;
		run_sized(o, op == OP_B64_ENC ? f_b64enc : op == OP_B64_DEC ? f_b64dec :
		    op == OP_HEX ? f_hex : f_xml, &c, cap, framed, want);
		vx_free(s, n);
		break;
	}
	case OP_NUM2STR: {
		/* u64 value, u32 cap */
		uint64_t v = vin_u64(in); size_t cap = vin_u32(in);
		if (in->bad) break;
		c.fn = sub; c.v = v;
		run_sized(o, f_num2str, &c, cap, framed, 1);
		break;
	}
	case OP_NUMRT: {
		/* C14 round trip: X2str(v) into an ample framed buffer, then str2X on exactly the produced text */
		uint64_t v = vin_u64(in); size_t ret = SENT; int rc; ob_t b;
		if (in->bad) break;
		b = ob_new(40, 1);
		c.fn = sub; c.v = v;
		rc = f_num2str(&c, b.p, 40, &ret);
		vout_i32(o, rc); vout_u64(o, ret); vout_u8(o, (uint8_t)ob_canary(&b)); vout_blob(o, b.p, 40);
		if (rc == 0 && ret <= 40) {
			uint8_t *t = vx_dup(b.p, ret);
			vout_u8(o, 1); vout_u64(o, call_str2num(0, sub, t, ret));
			vx_free(t, ret);
		} else vout_u8(o, 0);
		ob_free(&b);
		break;
	}
	case OP_STR2NUM: {
		/* u8 base, blob text */
		int base = vin_u8(in); uint8_t *s;
		src = vin_blob(in, &n);
		if (in->bad) break;
		s = vx_dup(src, n);
		vout_u64(o, call_str2num(base, sub, s, n));
		vx_free(s, n);
		break;
	}
	case OP_UTF8: {
		uint8_t *s; size_t cap, r; ob_t b;
		src = vin_blob(in, &n); cap = vin_u32(in);
		if (in->bad) break;
		s = vx_dup(src, n); b = ob_new(cap, framed);
		r = utf8_decode(s, n, b.p, cap);
		vout_u64(o, r); vout_u8(o, (uint8_t)ob_canary(&b)); vout_blob(o, b.p, cap);
		ob_free(&b); vx_free(s, n);
		break;
	}
	case OP_ASN1: {
		/* sub bit0: pass &offset; u64 start; blob */
		size_t start = (size_t)vin_u64(in);
		src = vin_blob(in, &n);
		if (in->bad) break;
		asn_budget = 300;
		asn_walk(o, src, n, sub & 1, start, 0);
		vout_u8(o, 0);
		break;
	}
	case OP_MEM: {
		/* u32 pre, u64 off, u8 ch, blob buf, blob what, blob chunks(u32 list) */
		size_t pre = vin_u32(in), off = (size_t)vin_u64(in), wn = 0, cn = 0;
		uint8_t ch = vin_u8(in);
		const uint8_t *w, *ck; uint8_t *alloc, *b, *wb; void *r = NULL;
		src = vin_blob(in, &n); w = vin_blob(in, &wn); ck = vin_blob(in, &cn);
		if (in->bad || pre > 4096) break;
		/* buffer at the END of an allocation of pre+n bytes (right red zone flush) */
		alloc = vx_alloc(pre + n, 0x11); b = alloc + pre;
		if (n) memcpy(b, src, n);
		wb = vx_dup(w, wn);
		switch (sub) {
		case 0: r = mem_chr(b, n, ch); break;
		case 1: r = mem_chr_off(off, b, n, ch); break;
		case 2: r = mem_chr_ptr(alloc + (off > pre + n ? pre + n : off), b, n, ch); break;
		case 3: r = mem_rchr(b, n, ch); break;
		case 4: r = mem_rchr_off(off, b, n, ch); break;
		case 5: r = mem_rchr_ptr(alloc + (off > pre + n ? pre + n : off), b, n, ch); break;
		case 6: r = mem_find(b, n, wb, wn); break;
		case 7: r = mem_find_off(off, b, n, wb, wn); break;
		case 8: r = mem_find_ptr(alloc + (off > pre + n ? pre + n : off), b, n, wb, wn); break;
		case 9: { /* mem_find_stream over chunks of buf */
			size_t state = 0, pos = 0, k, found = 0; int rc = -2;
			for (k = 0; k + 4 <= cn && pos < n; k += 4) {
				uint32_t l; size_t oe = SENT; uint8_t *cb;
				memcpy(&l, ck + k, 4);
				if (l > n - pos) l = (uint32_t)(n - pos);
				if (l == 0) continue;
				cb = vx_dup(b + pos, l);
				rc = mem_find_stream(cb, l, wb, wn, &state, &oe);
				vx_free(cb, l);
				vout_i32(o, rc); vout_u64(o, state); vout_u64(o, oe == SENT ? (uint64_t)-1 : pos + oe);
				if (rc == 0) found++;
				if (rc != 0 && rc != ENOENT) break;
				if (rc == 0) { pos += oe; } else pos += l;
				if (found > 64) break;
			}
			vout_i32(o, 12345);
			break;
		}
		case 10: case 11: { /* to_lower / to_upper into exact dst */
			ob_t d = ob_new(n, framed); size_t rr;
			rr = sub == 10 ? mem_to_lower(d.p, b, n) : mem_to_upper(d.p, b, n);
			vout_u64(o, rr); vout_u8(o, (uint8_t)ob_canary(&d)); vout_blob(o, d.p, n);
			ob_free(&d);
			break;
		}
		case 12: vout_i32(o, wn >= n ? mem_cmp(b, wb, n) : mem_cmp(b, wb, wn)); break;
		case 13: vout_i32(o, mem_cmpn(b, n, wb, wn)); break;
		case 14: vout_i32(o, wn >= n ? mem_cmpi(b, wb, n) : mem_cmpi(b, wb, wn)); break;
		case 15: vout_i32(o, mem_cmpin(b, n, wb, wn)); break;
		case 16: { /* mem_dup2 */
			size_t pad = off & 63; uint8_t *d = mem_dup2(b, n, pad);
			size_t asz = roundup2((n + pad), sizeof(void *));
			vout_u8(o, d != NULL);
			if (d) { vout_u32(o, touch(d, asz)); vout_u8(o, n == 0 || 0 == memcmp(d, b, n)); free(d); }
			break;
		}
		case 17: { /* realloc_items growth sequence */
			void *items = NULL; size_t allocated = 0, cnt, blk = (off & 15) + 1, isz = (ch & 15) + 1;
			int rc = 0;
			for (cnt = 0; cnt < (size_t)(pre & 255) && rc == 0; cnt++) {
				rc = realloc_items(&items, isz, &allocated, blk, cnt);
				if (rc == 0) memset((uint8_t *)items + cnt * isz, 0x77, isz); /* slot cnt must exist */
			}
			vout_i32(o, rc); vout_u64(o, allocated);
			if (items) { vout_u32(o, touch(items, allocated * isz)); free(items); }
			break;
		}
		}
		if (sub <= 8) { /* pointer results: report offset relative to buf, -1 = NULL */
			vout_i64(o, rel(r, b));
		}
		vx_free(wb, wn); vx_free(alloc, pre + n);
		break;
	}
	case OP_REPLACE: {
		/* u8 cnt, u8 use_tmp, blob src, cnt x (blob a, blob b), u32 cap */
		size_t cnt = vin_u8(in), cap; int use_tmp = vin_u8(in);
		uint8_t *s; void **ra, **rb; size_t *rac, *rbc; void *tmp = NULL;
		src = vin_blob(in, &n);
		if (in->bad) break;
		s = vx_dup(src, n);
		ra = (void **)vx_alloc(cnt * sizeof(void *), 0); rb = (void **)vx_alloc(cnt * sizeof(void *), 0);
		rac = (size_t *)vx_alloc(cnt * sizeof(size_t), 0); rbc = (size_t *)vx_alloc(cnt * sizeof(size_t), 0);
		for (i = 0; i < cnt; i++) {
			size_t an = 0, bn = 0; const uint8_t *a = vin_blob(in, &an), *b2;
			b2 = vin_blob(in, &bn);
			ra[i] = vx_dup(a, an); rac[i] = an; rb[i] = vx_dup(b2, bn); rbc[i] = bn;
		}
		cap = vin_u32(in);
		if (use_tmp) tmp = vx_alloc(cnt * sizeof(void *), 0);
		if (!in->bad) {
			c.src = s; c.n = n; c.rcnt = cnt; c.tmp = tmp;
			c.ra = (const void **)ra; c.rac = rac; c.rb = (const void **)rb; c.rbc = rbc;
			run_sized(o, f_replace, &c, cap, framed, 1);
			vout_u64(o, c.v);
		}
		for (i = 0; i < cnt; i++) { vx_free(ra[i], rac[i]); vx_free(rb[i], rbc[i]); }
		if (use_tmp) vx_free(tmp, cnt * sizeof(void *));
		vx_free((uint8_t *)ra, cnt * sizeof(void *)); vx_free((uint8_t *)rb, cnt * sizeof(void *));
		vx_free((uint8_t *)rac, cnt * sizeof(size_t)); vx_free((uint8_t *)rbc, cnt * sizeof(size_t));
		vx_free(s, n);
		break;
	}
	case OP_XMLGET: {
		/* u8 ntags, u8 np_mode(0 NULL,1 &np=NULL,2 &np=xml+np_off), u32 np_off, u8 iters, blob xml, ntags x blob */
		size_t nt = vin_u8(in); int npm = vin_u8(in); size_t npo = vin_u32(in); int iters = vin_u8(in), it;
		uint8_t *x, *tz[MAXT]; size_t tn[MAXT];
		const uint8_t **tag_arr; size_t *tag_cnt; const uint8_t **ret_ns; size_t *ret_ns_size;
		const uint8_t *np = NULL;
		src = vin_blob(in, &n);
		if (in->bad || nt < 1 || nt > MAXT) break;
		x = vx_dup(src, n);
		tag_arr = (const uint8_t **)vx_alloc(nt * sizeof(void *), 0);
		tag_cnt = (size_t *)vx_alloc(nt * sizeof(size_t), 0);
		ret_ns = (const uint8_t **)vx_alloc(nt * sizeof(void *), 0);
		ret_ns_size = (size_t *)vx_alloc(nt * sizeof(size_t), 0);
		for (i = 0; i < nt; i++) {
			size_t l = 0; const uint8_t *t = vin_blob(in, &l);
			tn[i] = l;
			if (sub >= 2) { /* varargs forms take C strings */
				tz[i] = malloc(l + 1); if (l) memcpy(tz[i], t, l); tz[i][l] = 0;
			} else tz[i] = vx_dup(t, l);
			tag_arr[i] = tz[i]; tag_cnt[i] = l;
		}
		if (!in->bad) {
			if (npm == 2) np = x + (npo > n ? n : npo);
			if (sub <= 2) for (it = 0; it < iters; it++) {
				const uint8_t *attr = (const uint8_t *)&c, *val = (const uint8_t *)&c;
				size_t asz = SENT, vsz = SENT; int rc;
				const uint8_t **npp = npm ? &np : NULL;
				if (sub == 0) rc = xml_get_val_arr(x, n, npp, nt, tag_arr, tag_cnt, &attr, &asz, &val, &vsz);
				else if (sub == 1) rc = xml_get_val_ns_arr(x, n, npp, nt, tag_arr, tag_cnt, ret_ns, ret_ns_size, &attr, &asz, &val, &vsz);
				else if (nt == 1) rc = xml_get_val_args(x, n, npp, &attr, &asz, &val, &vsz, tz[0], NULL);
				else if (nt == 2) rc = xml_get_val_args(x, n, npp, &attr, &asz, &val, &vsz, tz[0], tz[1], NULL);
				else rc = xml_get_val_args(x, n, npp, &attr, &asz, &val, &vsz, tz[0], tz[1], tz[2], NULL);
				vout_u8(o, 1); vout_i32(o, rc);
				if (rc != 0) break;
				vout_i64(o, npm ? rel(np, x) : -2);
				vout_i64(o, attr == (const uint8_t *)&c ? -3 : rel(attr, x)); vout_u64(o, asz);
				vout_i64(o, val == (const uint8_t *)&c ? -3 : rel(val, x)); vout_u64(o, vsz);
				if (sub == 1) for (i = 0; i < nt; i++) { vout_i64(o, rel(ret_ns[i], x)); vout_u64(o, ret_ns_size[i]); }
				/* the documented iteration ends when the cursor reaches the end of the data */
				if (!npm || np == NULL || np < x || np >= x + n) break;
			}
			vout_u8(o, 0);
			if (sub == 3) {
				size_t r;
				if (nt == 1) r = xml_calc_tag_count_args(x, n, tz[0], NULL);
				else if (nt == 2) r = xml_calc_tag_count_args(x, n, tz[0], tz[1], NULL);
				else r = xml_calc_tag_count_args(x, n, tz[0], tz[1], tz[2], NULL);
				vout_u64(o, r);
			} else if (sub >= 4 && sub <= 9) {
				int rc = -1; uint64_t v = 0; const uint8_t **npp = npm ? &np : NULL;
				const uint8_t *t1 = nt > 1 ? tz[1] : NULL;
				switch (sub) {
				case 4: { size_t r = 0; rc = xml_get_val_size_t_args(x, n, npp, &r, tz[0], t1, NULL); v = r; break; }
				case 5: { ssize_t r = 0; rc = xml_get_val_ssize_t_args(x, n, npp, &r, tz[0], t1, NULL); v = (uint64_t)r; break; }
				case 6: { uint32_t r = 0; rc = xml_get_val_uint32_args(x, n, npp, &r, tz[0], t1, NULL); v = r; break; }
				case 7: { int32_t r = 0; rc = xml_get_val_int32_args(x, n, npp, &r, tz[0], t1, NULL); v = (uint64_t)(int64_t)r; break; }
				case 8: { uint64_t r = 0; rc = xml_get_val_uint64_args(x, n, npp, &r, tz[0], t1, NULL); v = r; break; }
				case 9: { int64_t r = 0; rc = xml_get_val_int64_args(x, n, npp, &r, tz[0], t1, NULL); v = (uint64_t)r; break; }
				}
				vout_i32(o, rc); vout_u64(o, v);
			}
		}
		for (i = 0; i < nt; i++) { if (sub >= 2) free(tz[i]); else vx_free(tz[i], tn[i]); }
		vx_free((uint8_t *)tag_arr, nt * sizeof(void *)); vx_free((uint8_t *)tag_cnt, nt * sizeof(size_t));
		vx_free((uint8_t *)ret_ns, nt * sizeof(void *)); vx_free((uint8_t *)ret_ns_size, nt * sizeof(size_t));
		vx_free(x, n);
		break;
	}
	case OP_INI: {
		/* blob text, u8 nset, nset x (blob sect, blob name, blob val), u8 ncaps, ncaps x (u8 rel, i32 v) */
		uint8_t *t; ini_p ini = NULL; int rc; size_t nset, ncaps, req = SENT, so, vo, secs = 0, vals = 0;
		uint32_t sum = 0;
		src = vin_blob(in, &n);
		if (in->bad) break;
		t = vx_dup(src, n);
		rc = ini_create(&ini);
		vout_i32(o, rc);
		if (rc != 0) { vx_free(t, n); break; }
		rc = ini_buf_parse(ini, t, n);
		vx_free(t, n); /* the store must own its data: input released before any further use */
		vout_i32(o, rc);
		nset = vin_u8(in);
		for (i = 0; i < nset && !in->bad; i++) {
			size_t sn = 0, nn = 0, vn = 0; const uint8_t *s0 = vin_blob(in, &sn), *n0, *v0;
			uint8_t *s1, *n1, *v1; const uint8_t *gv = NULL; size_t gvs = SENT; int rc2;
			n0 = vin_blob(in, &nn); v0 = vin_blob(in, &vn);
			if (in->bad || sn == 0 || nn == 0) break;
			s1 = vx_dup(s0, sn); n1 = vx_dup(n0, nn); v1 = vx_dup(v0, vn);
			rc = ini_val_set(ini, s1, sn, n1, nn, v1, vn);
			rc2 = ini_val_get(ini, s1, sn, n1, nn, &gv, &gvs);
			vout_i32(o, rc); vout_i32(o, rc2);
			vout_u8(o, rc2 == 0 && gvs == vn && (vn == 0 || 0 == memcmp(gv, v1, vn)));
			vx_free(s1, sn); vx_free(n1, nn); vx_free(v1, vn);
		}
		/* walk everything the store exposes; spans are library-owned, ASan validates them */
		so = 0;
		while (secs < 100000) {
			const uint8_t *sname = NULL; size_t sns = 0;
			if (0 != ini_sect_enum(ini, &so, &sname, &sns)) break;
			secs++; sum += touch(sname, sns);
			vo = 0;
			while (vals < 1000000) {
				const uint8_t *vn = NULL, *vv = NULL; size_t vns = 0, vvs = 0;
				if (0 != ini_sect_val_enum(ini, so, &vo, &vn, &vns, &vv, &vvs)) break;
				vals++; sum += touch(vn, vns) + touch(vv, vvs);
				vo++;
			}
			so++;
		}
		vout_u64(o, secs); vout_u64(o, vals); vout_u32(o, sum);
		{ /* int helpers */
			ssize_t sv = 0; size_t uv = 0;
			rc = ini_val_set_int(ini, (const uint8_t *)"vrf", 3, (const uint8_t *)"i", 1, (ssize_t)-12345);
			vout_i32(o, rc);
			rc = ini_val_get_int(ini, (const uint8_t *)"vrf", 3, (const uint8_t *)"i", 1, &sv);
			vout_i32(o, rc); vout_i64(o, sv);
			rc = ini_val_set_uint(ini, (const uint8_t *)"vrf", 3, (const uint8_t *)"u", 1, (size_t)67891);
			vout_i32(o, rc);
			rc = ini_vali_get_uint(ini, (const uint8_t *)"VRF", 3, (const uint8_t *)"U", 1, &uv);
			vout_i32(o, rc); vout_u64(o, uv);
		}
		rc = ini_buf_calc_size(ini, &req);
		vout_i32(o, rc); vout_u64(o, req);
		ncaps = vin_u8(in);
		vout_u8(o, (uint8_t)ncaps);
		for (i = 0; i < ncaps && !in->bad; i++) {
			int isrel = vin_u8(in); int32_t v = vin_i32(in); size_t cap, ret = SENT; ob_t b;
			int64_t cc = isrel ? (int64_t)req + v : v;
			if (cc < 0) cc = 0;
			if (cc > (int64_t)(4 << 20)) cc = 4 << 20;
			cap = (size_t)cc;
			b = ob_new(cap, framed);
			rc = ini_buf_gen(ini, b.p, cap, &ret);
			vout_u64(o, cap); vout_i32(o, rc); vout_u64(o, ret); vout_u8(o, (uint8_t)ob_canary(&b));
			vout_u32(o, (rc == 0 && ret <= cap) ? touch(b.p, ret) : 0);
			ob_free(&b);
		}
		ini_destroy(ini);
		break;
	}
	case OP_BT: {
		/* blob buf, blob key */
		uint8_t *b, *k; size_t kn = 0, off = SENT; const uint8_t *k0; bt_en_node_p node = (bt_en_node_p)&c; int rc;
		btstat_t st; memset(&st, 0, sizeof(st));
		src = vin_blob(in, &n); k0 = vin_blob(in, &kn);
		if (in->bad) break;
		b = vx_dup(src, n); k = vx_dup(k0, kn);
		rc = bt_en_decode(b, n, &node, sub & 1 ? NULL : &off);
		vout_i32(o, rc); vout_u64(o, off);
		if (rc == 0 && node != NULL && node != (bt_en_node_p)&c) {
			bt_walk(node, b, n, &st, 1);
			vout_u8(o, 1);
			vout_u64(o, st.nodes); vout_u64(o, st.maxdepth); vout_u64(o, st.span_out);
			vout_u64(o, st.strs); vout_u64(o, st.nums); vout_u64(o, st.lists); vout_u64(o, st.dicts);
			if (node->type == BT_EN_TYPE_DICT && kn) {
				bt_en_node_p r = NULL; size_t cur = 0;
				vout_i32(o, bt_dict_find(node, &cur, k, kn, BT_EN_TYPE_ALL, &r));
			} else vout_i32(o, -99);
			bt_en_free(node);
		} else vout_u8(o, 0);
		vx_free(b, n); vx_free(k, kn);
		break;
	}
	case OP_ARGS: {
		/* u32 max_args, blob buf */
		size_t ma = vin_u32(in), r; ob_t b; char **args; size_t *asz;
		src = vin_blob(in, &n);
		if (in->bad || ma > 4096) break;
		b = ob_new(n, framed);
		if (n) memcpy(b.p, src, n);
		args = (char **)vx_alloc(ma * sizeof(char *), 0); asz = (size_t *)vx_alloc(ma * sizeof(size_t), 0);
		r = buf2args((char *)b.p, n, ma, args, asz);
		vout_u64(o, r); vout_u8(o, (uint8_t)ob_canary(&b));
		for (i = 0; i < r && i < ma; i++) { vout_i64(o, rel(args[i], b.p)); vout_u64(o, asz[i]); }
		vout_blob(o, b.p, n);
		vx_free((uint8_t *)args, ma * sizeof(char *)); vx_free((uint8_t *)asz, ma * sizeof(size_t));
		ob_free(&b);
		break;
	}
	case OP_LINE: {
		uint8_t *b;
		src = vin_blob(in, &n);
		if (in->bad) break;
		b = vx_dup(src, n);
		if (sub == 0) {
			const uint8_t *line = NULL; size_t ls = 0, cnt = 0; int rc;
			for (;;) {
				const uint8_t *nl = NULL; size_t nls = SENT;
				rc = buf_get_next_line(b, n, line, ls, &nl, &nls);
				if (rc != 0) break;
				if (cnt < 48) { vout_u8(o, 1); vout_i64(o, rel(nl, b)); vout_u64(o, nls); }
				cnt++;
				line = nl; ls = nls;
				if (cnt > n + 4) break; /* a line iterator cannot yield more lines than bytes+1 */
			}
			vout_u8(o, 0); vout_i32(o, rc); vout_u64(o, cnt);
		} else if (sub == 5) {
			/* continuation from a slice chosen by the caller (a line it trimmed itself), anywhere inside the buffer */
			uint32_t off = vin_u32(in), ls = vin_u32(in);
			const uint8_t *nl = NULL; size_t nls = SENT; int rc;
			if (in->bad || (size_t)off + ls > n) { vx_free(b, n); break; }
			rc = buf_get_next_line(b, n, b + off, ls, &nl, &nls);
			if (rc == 0) { vout_u8(o, 1); vout_i64(o, rel(nl, b)); vout_u64(o, nls); }
			vout_u8(o, 0); vout_i32(o, rc); vout_u64(o, rc == 0);
		} else {
			size_t r = 0;
			switch (sub) {
			case 1: r = calc_sptab_count((char *)b, n); break;
			case 2: r = calc_sptab_count_r((char *)b, n); break;
			case 3: r = calc_non_sptab_count((char *)b, n); break;
			case 4: r = calc_non_sptab_count_r((char *)b, n); break;
			}
			vout_u64(o, r);
		}
		vx_free(b, n);
		break;
	}
	case OP_CRC: {
		/* u8 align, blob data, blob chunk lens (u32 each) */
		size_t al = vin_u8(in) & 15, cn = 0, pos = 0, k; const uint8_t *ck; uint8_t *base, *p;
		uint32_t one, ch; int first = 1;
		src = vin_blob(in, &n); ck = vin_blob(in, &cn);
		if (in->bad) break;
		base = vx_alloc(al + n, 0); p = base + al;
		if (n) memcpy(p, src, n);
		one = crc_one(sub, p, n);
		ch = 0;
		for (k = 0; k + 4 <= cn; k += 4) {
			uint32_t l; memcpy(&l, ck + k, 4);
			if (l > n - pos) l = (uint32_t)(n - pos);
			if (first) { ch = crc_one(sub, p + pos, l); first = 0; }
			else ch = crc_upd(sub, ch, p + pos, l);
			pos += l;
		}
		if (first) ch = crc_one(sub, p, n);
		else if (pos < n) ch = crc_upd(sub, ch, p + pos, n - pos);
		vout_u32(o, one); vout_u32(o, ch);
		vx_free(base, al + n);
		break;
	}
	case OP_URLDEC: {
		uint8_t *s; size_t cap, r; ob_t b;
		src = vin_blob(in, &n); cap = vin_u32(in);
		if (in->bad) break;
		s = vx_dup(src, n); b = ob_new(cap, framed);
		r = http_url_decode(s, n, b.p, cap);
		vout_u64(o, r); vout_u8(o, (uint8_t)ob_canary(&b)); vout_blob(o, b.p, cap);
		ob_free(&b); vx_free(s, n);
		break;
	}
	case OP_MISC: {
		/* u64 v, u32 cap, blob a, blob b */
		uint64_t v = vin_u64(in); size_t cap = vin_u32(in), bn = 0; const uint8_t *b0; uint8_t *a, *b;
		src = vin_blob(in, &n); b0 = vin_blob(in, &bn);
		if (in->bad) break;
		a = vx_dup(src, n); b = vx_dup(b0, bn);
		switch (sub) {
		case 0: vout_u8(o, data_xor8(a, n)); break;
		case 1: memxorbuf(a, n, b, bn); vout_blob(o, a, n); break;
		case 2: {
			time_t t = (time_t)v; ob_t ob = ob_new(cap, framed); size_t r;
			r = fmt_as_uptime(&t, (char *)ob.p, cap);
			vout_u64(o, r); vout_u8(o, (uint8_t)ob_canary(&ob)); vout_blob(o, ob.p, cap);
			ob_free(&ob);
			break;
		}
		case 3: { uint32_t fl = (uint32_t)v; int rc = yn_set_flag32(a, n, 0x10, &fl); vout_i32(o, rc); vout_u32(o, fl); break; }
		}
		vx_free(a, n); vx_free(b, bn);
		break;
	}
	case OP_SELFTEST: {
		ob_t b = ob_new(8, sub == 1);
		volatile uint8_t *vp = b.p;
		if (sub == 0 || sub == 1) vp[8] = 1;		/* one past the end */
		if (sub == 2) { volatile uint64_t x = 0; for (;;) x++; }
		vout_u8(o, (uint8_t)ob_canary(&b));
		ob_free(&b);
		break;
	}
	default:
		vout_u8(o, 0xFF);
		break;
	}
	if (in->bad) { o->n = 0; vout_u8(o, 0xFE); }
}

int main(int argc, char **argv) {
	uint8_t *cs; size_t len;
	vout_t o; memset(&o, 0, sizeof(o));
	vdrv_case_secs = 3;
	if (argc > 1) vdrv_case_secs = atoi(argv[1]);
	vdrv_init();
	while ((cs = vdrv_next_case(&len))) {
		vin_t in; in.p = cs; in.n = len; in.o = 0; in.bad = 0;
		vdrv_dirty_stack((uint8_t)len);
		o.n = 0;
		vout_u8(&o, 0x4F); /* observation marker */
		do_case(&in, &o);
		vout_flush(&o);
		free(cs);
	}
	return 0;
}
