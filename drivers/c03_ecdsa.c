/* Driver for C03 (ECDSA / GOST R 34.10 sign + verify) and C09 (key encoding,
 * validation, derivation, Diffie-Hellman).  The library configuration
 * (BN_DIGIT_BIT_CNT, EC_USE_PROJECTIVE, EC_PF_*_ALGO, EC_DISABLE_PUB_KEY_CHK ...)
 * comes from -D flags exactly as tests/ecdsa/main.c sets it before inclusion.
 *
 * Case:  u8 op, u8 curve index (position in ec_curve_str[]), u8 flags (bit0 = little
 * endian entry points), u8 stack dirt pattern, u32 fault_k (0 = failpoint not armed),
 * then op specific fields.  Every byte-string parameter is handed to the library in a
 * heap block of exactly its length (vx_dup / vx_alloc).
 * Observation: i32 rc, u32 failpoint calls seen, u8 failpoint fired, blob function in
 * which it fired, then op specific fields.
 */
#include <sys/param.h>
#include <sys/types.h>
#include <inttypes.h>
#include <stdlib.h>
#include <stdio.h>
#include <unistd.h>
#include <string.h>
#include <errno.h>

#include "vdrv.h"
#include "crypto/dsa/ecdsa.h"

#define RC_SETUP	0x7fff0001 /* driver could not set the case up (not a library verdict) */

enum {
	OP_SIGN = 1, OP_VERIFY = 2, OP_VERIFY_PRIV = 3, OP_VERIFY_BN = 4, OP_KEYGEN = 5,
	OP_RECOVER = 6, OP_DH = 7, OP_EXPORT = 8, OP_IMPORT = 9, OP_INFO = 10,
	OP_SIGN_BN = 11, OP_KG_BN = 12, OP_DH_BN = 13, OP_IMPORT_DIRTY = 14
};

/* ---- failpoint: overrides the weak hook behind BN_RET_ON_ERR ---- */
static int f_active;
static uint32_t f_count, f_arm, f_fired;
static char f_func[64];

int
liblcb_verif_bn_fault(int err, const char *func) {
	if (!f_active)
		return (err);
	f_count ++;
	if (0 != f_arm && f_count == f_arm && 0 == err) {
		f_fired = 1;
		strncpy(f_func, func, sizeof(f_func) - 1);
		return (EOVERFLOW);
	}
	return (err);
}

#define NCURVES (sizeof(ec_curve_str) / sizeof(ec_curve_str[0]))
static ec_curve_t *g_curves[64];
static int g_curve_rc[64];

static ec_curve_p
get_curve(unsigned idx) {
	if (idx >= NCURVES || idx >= 64)
		return (NULL);
	if (NULL == g_curves[idx]) {
		int sv = f_active;
		f_active = 0;
		g_curves[idx] = malloc(sizeof(ec_curve_t));
		memset(g_curves[idx], 0xA7, sizeof(ec_curve_t));
		g_curve_rc[idx] = ecdsa_curve_from_str(&ec_curve_str[idx], g_curves[idx]);
		f_active = sv;
	}
	if (0 != g_curve_rc[idx])
		return (NULL);
	return (g_curves[idx]);
}

typedef struct { uint8_t *p; size_t n; } xb_t;

static xb_t
in_blob(vin_t *in) {
	xb_t b; size_t n; const uint8_t *p = vin_blob(in, &n);
	b.p = vx_dup(p, n); b.n = n;
	return (b);
}
static xb_t
out_buf(size_t cap) {
	xb_t b; b.p = vx_alloc(cap, 0xA5); b.n = cap;
	return (b);
}
static void xb_free(xb_t *b) { vx_free(b->p, b->n); b->p = NULL; }

static void
begin(uint32_t arm, uint8_t pat) {
	vdrv_dirty_stack(pat);
	f_count = 0; f_fired = 0; f_arm = arm; f_func[0] = 0; f_active = 1;
}
static void end(void) { f_active = 0; f_arm = 0; }

static void
head(vout_t *o, int rc) {
	vout_i32(o, rc); vout_u32(o, f_count); vout_u8(o, (uint8_t)f_fired);
	vout_blob(o, f_func, strlen(f_func));
}

/* big-endian integer blob -> bn of given capacity; returns 0 / error */
static int
bn_from_be(bn_p bn, size_t bits, const uint8_t *p, size_t n) {
	int e = bn_init(bn, bits);
	if (0 != e) return (e);
	if (0 == n) { bn_assign_zero(bn); return (0); }
	return (bn_import_be_bin(bn, p, n));
}
static void
out_bn(vout_t *o, bn_p bn) {
	static uint8_t tmp[(BN_BIT_LEN / 8) + 8];
	if (0 != bn_export_be_bin(bn, 0, tmp, (BN_BIT_LEN / 8), NULL)) {
		vout_blob(o, tmp, 0);
		return;
	}
	vout_blob(o, tmp, (BN_BIT_LEN / 8));
}

int
main(void) {
	size_t len; uint8_t *c; vout_t out = {0};
	static ec_point_t P, Q; /* static: objects are large with 2048-bit capacity */
	static bn_t be, br, bs, bd;

	vdrv_init();
	while (NULL != (c = vdrv_next_case(&len))) {
		vin_t in = { c, len, 0, 0 };
		uint8_t op = vin_u8(&in), ci = vin_u8(&in), fl = vin_u8(&in), pat = vin_u8(&in);
		uint32_t arm = vin_u32(&in);
		int le = (fl & 1), rc = RC_SETUP;
		ec_curve_p curve = get_curve(ci);

		f_count = 0; f_fired = 0; f_func[0] = 0;
		if (NULL == curve && OP_INFO != op) {
			head(&out, RC_SETUP); vout_flush(&out); free(c); continue;
		}
		switch (op) {
		case OP_INFO: {
			head(&out, (NULL == curve) ? RC_SETUP : 0);
			vout_u32(&out, (uint32_t)NCURVES);
			vout_u32(&out, BN_DIGIT_BITS); vout_u32(&out, BN_BIT_LEN);
			if (NULL != curve) {
				vout_u32(&out, (uint32_t)curve->m);
				vout_u32(&out, (uint32_t)EC_CURVE_CALC_BYTES(curve));
				vout_u32(&out, (uint32_t)(curve->p.count * BN_DIGIT_BITS));
				vout_u32(&out, curve->h); vout_u32(&out, curve->algo);
				out_bn(&out, &curve->p); out_bn(&out, &curve->n);
				vout_blob(&out, ec_curve_str[ci].name, strlen(ec_curve_str[ci].name));
			}
#ifdef EC_DISABLE_PUB_KEY_CHK
			vout_u8(&out, 1);
#else
			vout_u8(&out, 0);
#endif
			break;
		}
		case OP_SIGN: {
			xb_t h = in_blob(&in), d = in_blob(&in), k = in_blob(&in);
			uint32_t k_claim = vin_u32(&in), cap_r = vin_u32(&in), cap_s = vin_u32(&in);
			xb_t r = out_buf(cap_r), s = out_buf(cap_s);
			size_t ssz = (size_t)0xfffffffe;
			if (in.bad) goto bad;
			begin(arm, pat);
			rc = le ? ecdsa_sign_le(curve, h.p, h.n, d.p, d.n, k.p, k_claim, r.p, s.p, &ssz)
				: ecdsa_sign_be(curve, h.p, h.n, d.p, d.n, k.p, k_claim, r.p, s.p, &ssz);
			end();
			head(&out, rc); vout_u32(&out, (uint32_t)ssz);
			vout_blob(&out, r.p, r.n); vout_blob(&out, s.p, s.n);
			xb_free(&h); xb_free(&d); xb_free(&k); xb_free(&r); xb_free(&s);
			break;
		}
		case OP_VERIFY: {
			xb_t h = in_blob(&in), r = in_blob(&in), s = in_blob(&in);
			uint32_t ssz = vin_u32(&in);
			xb_t qx = in_blob(&in); uint8_t has_y = vin_u8(&in); xb_t qy = in_blob(&in);
			uint32_t qsz = vin_u32(&in);
			if (in.bad) goto bad;
			begin(arm, pat);
			rc = le ? ecdsa_verify_le(curve, h.p, h.n, r.p, s.p, ssz, qx.p, has_y ? qy.p : NULL, qsz)
				: ecdsa_verify_be(curve, h.p, h.n, r.p, s.p, ssz, qx.p, has_y ? qy.p : NULL, qsz);
			end();
			head(&out, rc);
			xb_free(&h); xb_free(&r); xb_free(&s); xb_free(&qx); xb_free(&qy);
			break;
		}
		case OP_VERIFY_PRIV: {
			xb_t h = in_blob(&in), r = in_blob(&in), s = in_blob(&in);
			uint32_t ssz = vin_u32(&in);
			xb_t d = in_blob(&in);
			if (in.bad) goto bad;
			begin(arm, pat);
			rc = le ? ecdsa_verify_priv_key_le(curve, h.p, h.n, r.p, s.p, ssz, d.p, d.n)
				: ecdsa_verify_priv_key_be(curve, h.p, h.n, r.p, s.p, ssz, d.p, d.n);
			end();
			head(&out, rc);
			xb_free(&h); xb_free(&r); xb_free(&s); xb_free(&d);
			break;
		}
		case OP_VERIFY_BN: {
			/* bn-level verifiers on caller-built objects: values are big-endian integers,
			 * nbits = capacity of hash/r/s/d objects (0: EC_CURVE_CALC_BITS_DBL),
			 * qbits = capacity of the point object (0: curve->m, as ecdsa_verify_be uses). */
			size_t n1, n2, n3, n4, n5;
			const uint8_t *ph = vin_blob(&in, &n1), *pr = vin_blob(&in, &n2), *ps = vin_blob(&in, &n3);
			const uint8_t *px = vin_blob(&in, &n4), *py = vin_blob(&in, &n5);
			uint8_t inf = vin_u8(&in), which = vin_u8(&in);
			uint32_t nbits = vin_u32(&in), qbits = vin_u32(&in);
			if (in.bad) goto bad;
			if (0 == nbits) nbits = (uint32_t)EC_CURVE_CALC_BITS_DBL(curve);
			if (0 == qbits) qbits = (uint32_t)curve->m;
			if (0 != bn_from_be(&be, nbits, ph, n1) || 0 != bn_from_be(&br, nbits, pr, n2) ||
			    0 != bn_from_be(&bs, nbits, ps, n3)) goto bad;
			if (0 == which) {
				if (0 != bn_from_be(&Q.x, qbits, px, n4) || 0 != bn_from_be(&Q.y, qbits, py, n5)) goto bad;
				Q.infinity = inf;
			} else {
				if (0 != bn_from_be(&bd, nbits, px, n4)) goto bad;
			}
			begin(arm, pat);
			rc = (0 == which) ? ecdsa_verify(curve, &be, &br, &bs, &Q)
				: ecdsa_verify_priv_key(curve, &be, &br, &bs, &bd);
			end();
			head(&out, rc);
			break;
		}
		case OP_KEYGEN: {
			xb_t k = in_blob(&in);
			uint32_t k_claim = vin_u32(&in);
			uint8_t compress = vin_u8(&in), has_y = vin_u8(&in);
			uint32_t cap_d = vin_u32(&in), cap_x = vin_u32(&in), cap_y = vin_u32(&in);
			xb_t d = out_buf(cap_d), qx = out_buf(cap_x), qy = out_buf(cap_y);
			size_t dsz = (size_t)0xfffffffe, qsz = (size_t)0xfffffffe;
			if (in.bad) goto bad;
			begin(arm, pat);
			rc = le ? ecdsa_key_gen_le(curve, k.p, k_claim, compress, d.p, &dsz, qx.p, has_y ? qy.p : NULL, &qsz)
				: ecdsa_key_gen_be(curve, k.p, k_claim, compress, d.p, &dsz, qx.p, has_y ? qy.p : NULL, &qsz);
			end();
			head(&out, rc); vout_u32(&out, (uint32_t)dsz); vout_u32(&out, (uint32_t)qsz);
			vout_blob(&out, d.p, d.n); vout_blob(&out, qx.p, qx.n); vout_blob(&out, qy.p, qy.n);
			xb_free(&k); xb_free(&d); xb_free(&qx); xb_free(&qy);
			break;
		}
		case OP_RECOVER: {
			xb_t d = in_blob(&in);
			uint8_t compress = vin_u8(&in), has_y = vin_u8(&in);
			uint32_t cap_x = vin_u32(&in), cap_y = vin_u32(&in);
			xb_t qx = out_buf(cap_x), qy = out_buf(cap_y);
			size_t qsz = (size_t)0xfffffffe;
			if (in.bad) goto bad;
			begin(arm, pat);
			rc = le ? ecdsa_recover_pub_key_from_priv_key_le(curve, d.p, d.n, compress, qx.p, has_y ? qy.p : NULL, &qsz)
				: ecdsa_recover_pub_key_from_priv_key_be(curve, d.p, d.n, compress, qx.p, has_y ? qy.p : NULL, &qsz);
			end();
			head(&out, rc); vout_u32(&out, (uint32_t)qsz);
			vout_blob(&out, qx.p, qx.n); vout_blob(&out, qy.p, qy.n);
			xb_free(&d); xb_free(&qx); xb_free(&qy);
			break;
		}
		case OP_DH: {
			uint8_t cof = vin_u8(&in);
			xb_t qx = in_blob(&in); uint8_t has_y = vin_u8(&in); xb_t qy = in_blob(&in);
			uint32_t qsz = vin_u32(&in);
			xb_t d = in_blob(&in);
			uint32_t cap = vin_u32(&in);
			xb_t sh = out_buf(cap);
			size_t shsz = (size_t)0xfffffffe;
			if (in.bad) goto bad;
			begin(arm, pat);
			rc = le ? ecdsa_dh_le(curve, cof, qx.p, has_y ? qy.p : NULL, qsz, d.p, d.n, sh.p, &shsz)
				: ecdsa_dh_be(curve, cof, qx.p, has_y ? qy.p : NULL, qsz, d.p, d.n, sh.p, &shsz);
			end();
			head(&out, rc); vout_u32(&out, (uint32_t)shsz); vout_blob(&out, sh.p, sh.n);
			xb_free(&qx); xb_free(&qy); xb_free(&d); xb_free(&sh);
			break;
		}
		case OP_EXPORT: {
			size_t n1, n2;
			const uint8_t *px = vin_blob(&in, &n1), *py = vin_blob(&in, &n2);
			uint8_t inf = vin_u8(&in), compress = vin_u8(&in), has_y = vin_u8(&in);
			uint32_t cap_x = vin_u32(&in), cap_y = vin_u32(&in);
			xb_t qx = out_buf(cap_x), qy = out_buf(cap_y);
			size_t qsz = (size_t)0xfffffffe;
			size_t bits = EC_CURVE_CALC_BITS_DBL(curve);
			if (in.bad) goto bad;
			if (0 != bn_from_be(&P.x, bits, px, n1) || 0 != bn_from_be(&P.y, bits, py, n2)) goto bad;
			P.infinity = inf;
			begin(arm, pat);
			rc = le ? ecdsa_pub_key_export_le(curve, compress, &P, qx.p, has_y ? qy.p : NULL, &qsz)
				: ecdsa_pub_key_export_be(curve, compress, &P, qx.p, has_y ? qy.p : NULL, &qsz);
			end();
			head(&out, rc); vout_u32(&out, (uint32_t)qsz);
			vout_blob(&out, qx.p, qx.n); vout_blob(&out, qy.p, qy.n);
			xb_free(&qx); xb_free(&qy);
			break;
		}
		case OP_IMPORT_DIRTY:
		case OP_IMPORT: {
			xb_t qx = in_blob(&in); uint8_t has_y = vin_u8(&in); xb_t qy = in_blob(&in);
			uint32_t qsz = vin_u32(&in);
			if (in.bad) goto bad;
			/* the library's own callers (ecdsa_verify_be, ecdsa_dh_be) size the object by curve->m */
			memset(&P, pat, sizeof(P));
			if (0 != ec_point_init(&P, curve->m)) goto bad;
			if (OP_IMPORT_DIRTY == op) { /* the caller's point object held O before: imported from the byte 00 */
				uint8_t zero = 0;
				if (0 != ecdsa_pub_key_import_be(curve, &zero, NULL, 1, &P) || 0 == P.infinity) goto bad;
			}
			begin(arm, pat);
			rc = le ? ecdsa_pub_key_import_le(curve, qx.p, has_y ? qy.p : NULL, qsz, &P)
				: ecdsa_pub_key_import_be(curve, qx.p, has_y ? qy.p : NULL, qsz, &P);
			end();
			head(&out, rc); vout_u8(&out, (uint8_t)(0 != P.infinity));
			if (0 == rc && 0 == P.infinity) {
				out_bn(&out, &P.x); out_bn(&out, &P.y);
			} else {
				vout_blob(&out, "", 0); vout_blob(&out, "", 0);
			}
			xb_free(&qx); xb_free(&qy);
			break;
		}
		case OP_SIGN_BN: {
			/* bn-level ecdsa_sign() on caller-owned objects.  alias bit0: sign_s is the rnd object,
			 * bit1: sign_r is the hash object (both permitted by the header comment).  The output
			 * objects live across the steps of one case, so step 2 finds the signature of step 1 in
			 * them; preload puts given numbers there before step 1.  After every successful step the
			 * result goes through ecdsa_verify() and ecdsa_verify_priv_key(). */
			static bn_t o_r, o_s, o_e, o_k, o_d, o_e2;
			size_t n1, n2, n3, n4, n5, bits = EC_CURVE_CALC_BITS_DBL(curve);
			const uint8_t *pd = vin_blob(&in, &n1), *px = vin_blob(&in, &n2), *py = vin_blob(&in, &n3);
			uint8_t alias = vin_u8(&in), preload = vin_u8(&in);
			const uint8_t *p4 = vin_blob(&in, &n4), *p5 = vin_blob(&in, &n5);
			uint8_t nsteps = vin_u8(&in), st;
			vout_t tmp = {0};
			int last = RC_SETUP;
			if (in.bad) goto bad;
			if (0 != bn_from_be(&o_d, bits, pd, n1) || 0 != bn_from_be(&Q.x, curve->m, px, n2) ||
			    0 != bn_from_be(&Q.y, curve->m, py, n3)) goto bad;
			Q.infinity = 0;
			if (preload) {
				if (0 != bn_from_be(&o_r, bits, p4, n4) || 0 != bn_from_be(&o_s, bits, p5, n5)) goto bad;
			} else {
				memset(&o_r, pat, sizeof(o_r)); memset(&o_s, pat, sizeof(o_s));
				if (0 != bn_init(&o_r, bits) || 0 != bn_init(&o_s, bits)) goto bad;
			}
			for (st = 0; st < nsteps; st ++) {
				size_t m1, m2;
				const uint8_t *pe = vin_blob(&in, &m1), *pk = vin_blob(&in, &m2);
				bn_p pr, ps;
				int v1 = RC_SETUP, v2 = RC_SETUP;
				if (in.bad) goto bad;
				if (0 != bn_from_be(&o_e, bits, pe, m1) || 0 != bn_from_be(&o_e2, bits, pe, m1) ||
				    0 != bn_from_be(&o_k, bits, pk, m2)) goto bad;
				pr = (alias & 2) ? &o_e : &o_r;
				ps = (alias & 1) ? &o_k : &o_s;
				begin(arm, pat);
				last = ecdsa_sign(curve, &o_e, &o_d, &o_k, pr, ps);
				end();
				vout_i32(&tmp, last);
				out_bn(&tmp, pr); out_bn(&tmp, ps); out_bn(&tmp, &o_k); out_bn(&tmp, &o_e);
				if (0 == last) {
					v1 = ecdsa_verify(curve, &o_e2, pr, ps, &Q);
					v2 = ecdsa_verify_priv_key(curve, &o_e2, pr, ps, &o_d);
				}
				vout_i32(&tmp, v1); vout_i32(&tmp, v2);
			}
			head(&out, last); vout_u8(&out, nsteps); vout_raw(&out, tmp.p, tmp.n);
			free(tmp.p);
			break;
		}
		case OP_KG_BN: {
			/* bn-level key generation / base point multiplication into a caller-owned point that is
			 * fresh (dirty 0), was imported from the byte 00 (1) or has the infinity flag set over stale
			 * coordinates (2); then what a caller does with the key: export, Diffie-Hellman. */
			static bn_t o_d, o_d2, o_sh;
			size_t n1, n2, n3, n4, bits = EC_CURVE_CALC_BITS_DBL(curve), bytes = EC_CURVE_CALC_BYTES(curve);
			uint8_t mode = vin_u8(&in), dirty = vin_u8(&in);
			const uint8_t *sx = vin_blob(&in, &n1), *sy = vin_blob(&in, &n2), *pd = vin_blob(&in, &n3);
			uint8_t cof = vin_u8(&in);
			const uint8_t *pd2 = vin_blob(&in, &n4);
			uint8_t zero = 0;
			xb_t ex = out_buf(1 + 2 * bytes);
			size_t esz = (size_t)0xfffffffe;
			int rc_e, rc_dh;
			if (in.bad) goto bad;
			memset(&P, pat, sizeof(P));
			if (0 != ec_point_init(&P, bits)) goto bad;
			if (1 == dirty) {
				if (0 != ecdsa_pub_key_import_be(curve, &zero, NULL, 1, &P)) goto bad;
			} else if (2 == dirty) {
				if (0 != bn_from_be(&P.x, bits, sx, n1) || 0 != bn_from_be(&P.y, bits, sy, n2)) goto bad;
				P.infinity = 1;
			}
			if (0 != bn_from_be(&o_d, bits, pd, n3) || 0 != bn_from_be(&o_d2, bits, pd2, n4) ||
			    0 != bn_init(&o_sh, bits)) goto bad;
			begin(arm, pat);
			rc = (0 == mode) ? ecdsa_key_gen(curve, &o_d, &P) : ec_point_mult_bp(&o_d, curve, &P);
			end();
			head(&out, rc); vout_u8(&out, (uint8_t)(0 != P.infinity));
			out_bn(&out, &P.x); out_bn(&out, &P.y); out_bn(&out, &o_d);
			rc_e = ecdsa_pub_key_export_be(curve, 0, &P, ex.p, NULL, &esz);
			vout_i32(&out, rc_e); vout_u32(&out, (uint32_t)esz); vout_blob(&out, ex.p, ex.n);
			rc_dh = ecdsa_dh(curve, cof, &P, &o_d2, &o_sh);
			vout_i32(&out, rc_dh);
			if (0 == rc_dh) out_bn(&out, &o_sh); else vout_blob(&out, "", 0);
			xb_free(&ex);
			break;
		}
		case OP_DH_BN: {
			/* bn-level ecdsa_dh(): the point argument is used as given (no validation at this level) */
			static bn_t o_d, o_sh;
			size_t n1, n2, n3, bits = EC_CURVE_CALC_BITS_DBL(curve);
			const uint8_t *px = vin_blob(&in, &n1), *py = vin_blob(&in, &n2);
			uint8_t inf = vin_u8(&in), cof = vin_u8(&in), alias = vin_u8(&in);
			const uint8_t *pd = vin_blob(&in, &n3);
			if (in.bad) goto bad;
			if (0 != bn_from_be(&Q.x, curve->m, px, n1) || 0 != bn_from_be(&Q.y, curve->m, py, n2) ||
			    0 != bn_from_be(&o_d, bits, pd, n3) || 0 != bn_init(&o_sh, bits)) goto bad;
			Q.infinity = inf;
			begin(arm, pat);
			rc = ecdsa_dh(curve, cof, &Q, &o_d, alias ? &o_d : &o_sh);
			end();
			head(&out, rc);
			if (0 == rc) out_bn(&out, alias ? &o_d : &o_sh); else vout_blob(&out, "", 0);
			break;
		}
		default:
bad:
			end();
			head(&out, RC_SETUP);
			break;
		}
		vout_flush(&out);
		free(c);
	}
	return (0);
}
