/* C10 harness: broadcasts (tpt_msg_bsend_ex / tpt_msg_cbsend). One scenario per process. */
#include "tpmon.h"

enum { EV_BS_CALL = 1, EV_BS_RET, EV_CB_ENTER, EV_CB_EXIT, EV_DONE, EV_WRITE, EV_HOOK_START, EV_HOOK_STOP,
       EV_PHASE, EV_BADARG, EV_TIMEOUT, EV_CREATE_FAIL };

#define QMAGIC 0xffddaa00ul
#define MAXB 4096

typedef struct { uint64_t id; volatile uint64_t enters, exits, done; uint32_t flags; uint32_t api; } brec_t;

static tp_p g_tp, g_tp2;
static size_t g_pool, g_pool2;
static brec_t g_b[MAXB]; static size_t g_nb;
static volatile uint64_t g_done_total, g_cb_total, g_barrier_cnt, g_caller_done;
static unsigned g_cb_work_us, g_caller_last, g_others_expected; static uint32_t g_caller_tid = 0xfffffffe;
static int g_armed; static __thread int t_inject; static __thread uint64_t t_cur_b;
static int g_wfault_kind; static uint8_t *g_wfault_pos; static size_t g_wfault_max = 1u << 16;
static volatile uint64_t g_qwrites, g_winj;
static uint32_t g_create_fail_mask; static volatile uint64_t g_creates; static int g_create_armed;

ssize_t __real_write(int fd, const void *buf, size_t n);
int __real_pthread_create(pthread_t *t, const pthread_attr_t *a, void *(*fn)(void *), void *arg);

ssize_t __wrap_write(int fd, const void *buf, size_t n) {
	if (t_inject && __atomic_load_n(&g_armed, __ATOMIC_RELAXED) && n == 32 && *(const size_t *)buf == QMAGIC) {
		uint64_t k = __atomic_add_fetch(&g_qwrites, 1, __ATOMIC_RELAXED);
		ssize_t r; int e;
		if (g_wfault_kind && k < g_wfault_max && g_wfault_pos[k]) {
			static const int errs[] = {0, EAGAIN, EPIPE, EBADF};
			__atomic_add_fetch(&g_winj, 1, __ATOMIC_RELAXED);
			TM_LOG(EV_WRITE, 1, k, t_cur_b, errs[g_wfault_kind]);
			errno = errs[g_wfault_kind];
			return -1;
		}
		r = __real_write(fd, buf, n); e = errno;
		TM_LOG(EV_WRITE, 0, k, t_cur_b, r == 32 ? 0 : (r < 0 ? e : -1000 - r));
		errno = e;
		return r;
	}
	return __real_write(fd, buf, n);
}

int __wrap_pthread_create(pthread_t *t, const pthread_attr_t *a, void *(*fn)(void *), void *arg) {
	if (g_create_armed) {
		uint64_t k = __atomic_fetch_add(&g_creates, 1, __ATOMIC_RELAXED);
		if (k < 32 && ((g_create_fail_mask >> k) & 1)) { TM_LOG(EV_CREATE_FAIL, 0, k, 0, 0); return EPERM; }
	}
	return __real_pthread_create(t, a, fn, arg);
}

static void on_start(tpt_p tpt) {
	size_t num = tpt_get_num(tpt);
	tp_p tp = tpt_get_tp(tpt);
	if (tpt_get_current() == tpt) { tm_tid = (uint32_t)num + ((g_tp2 && tp == g_tp2) ? 100 : 0); t_inject = 1; }
	TM_LOG(EV_HOOK_START, 0, num, 0, 0);
}
static void on_stop(tpt_p tpt) { TM_LOG(EV_HOOK_STOP, 0, tpt_get_num(tpt), 0, 0); }

static void spin_us(unsigned us) {
	uint64_t t0 = tm_now();
	while (tm_now() - t0 < (uint64_t)us * 1000ull) { }
}

static void bcast_cb(tpt_p tpt, void *udata) {
	brec_t *b = udata; uint64_t r;
	if (b < g_b || b >= g_b + MAXB) { TM_LOG(EV_BADARG, 0, (uint64_t)(uintptr_t)udata, 0, 0); return; }
	t_cur_b = b->id;
	__atomic_add_fetch(&b->enters, 1, __ATOMIC_RELAXED);
	TM_LOG(EV_CB_ENTER, (uint16_t)(tpt_get_tp(tpt) == g_tp ? 0 : 1), b->id, tpt_get_num(tpt), 0);
	if (g_cb_work_us) { r = tm_rand(); if ((r & 3) == 0) spin_us((unsigned)((r >> 8) % (g_cb_work_us + 1))); }
	if (g_caller_last && tm_tid == g_caller_tid) { /* the caller's own callback finishes last (bounded wait) */
		uint64_t t0 = tm_now();
		while (__atomic_load_n(&b->exits, __ATOMIC_RELAXED) < g_others_expected && tm_now() - t0 < 300000000ull) sched_yield();
	}
	TM_LOG(EV_CB_EXIT, 0, b->id, tpt_get_num(tpt), 0);
	__atomic_add_fetch(&b->exits, 1, __ATOMIC_RELAXED);
	__atomic_add_fetch(&g_cb_total, 1, __ATOMIC_RELAXED);
}

static void done_cb(tpt_p tpt, size_t sent, size_t err, void *udata) {
	brec_t *b = udata;
	if (b < g_b || b >= g_b + MAXB) { TM_LOG(EV_BADARG, 1, (uint64_t)(uintptr_t)udata, 0, 0); return; }
	TM_LOG(EV_DONE, (uint16_t)(tpt_get_tp(tpt) == g_tp ? 0 : 1), b->id, ((uint64_t)sent << 32) | (uint64_t)(uint32_t)err,
	    (int64_t)(((uint64_t)tpt_get_num(tpt) << 32) | __atomic_load_n(&b->exits, __ATOMIC_RELAXED)));
	__atomic_add_fetch(&b->done, 1, __ATOMIC_RELAXED);
	__atomic_add_fetch(&g_done_total, 1, __ATOMIC_RELAXED);
}

static void barrier_cb(tpt_p tpt, void *udata) { (void)tpt; (void)udata; __atomic_add_fetch(&g_barrier_cnt, 1, __ATOMIC_RELAXED); }

typedef struct { unsigned api, nb, pass_src, vary_flags; uint32_t flags; tpt_p self; volatile uint64_t expect_done; } caller_t;
static caller_t g_caller;

/* All broadcasts are issued from this one frame, so the library's on-stack record of a
 * synchronous broadcast occupies the same stack slot every iteration. */
static void __attribute__((noinline)) caller_run(caller_t *c) {
	unsigned i;
	for (i = 0; i < c->nb; i++) {
		brec_t *b = &g_b[g_nb++];
		size_t sent = 0x7777, failed = 0x7777; int rc;
		uint32_t flags = c->flags;
		b->id = g_nb; b->flags = flags; b->api = c->api;
		t_cur_b = b->id;
		TM_LOG(EV_BS_CALL, (uint16_t)c->api, b->id, flags, 0);
		if (c->api == 0) {
			rc = tpt_msg_bsend_ex(g_tp, c->pass_src ? c->self : NULL, flags, bcast_cb, b, &sent, &failed);
			TM_LOG(EV_BS_RET, 0, b->id, ((uint64_t)sent << 32) | (uint64_t)(uint32_t)failed,
			    (int64_t)(((uint64_t)(uint32_t)rc << 32) | __atomic_load_n(&b->exits, __ATOMIC_RELAXED)));
		} else {
			rc = tpt_msg_cbsend(g_tp, c->pass_src ? c->self : NULL, flags, bcast_cb, b, done_cb);
			TM_LOG(EV_BS_RET, 1, b->id, 0, (int64_t)(((uint64_t)(uint32_t)rc << 32) | __atomic_load_n(&b->exits, __ATOMIC_RELAXED)));
			if (rc == 0) c->expect_done++;
		}
		vdrv_dirty_stack((uint8_t)(0x5a + i)); /* scribble over the dead frames below us */
	}
	__atomic_store_n(&g_caller_done, 1, __ATOMIC_RELEASE);
}

static void caller_cb(tpt_p tpt, void *udata) { caller_t *c = udata; c->self = tpt; g_caller_tid = tm_tid; caller_run(c); }

int main(void) {
	size_t len; uint8_t *c; vout_t o = {0}; vin_t in;
	uint64_t seed; unsigned pool, pool2, caller_kind, caller_idx, api, nb, pass_src, wkind, nw, i, skip_first;
	uint32_t flags, fail_mask; tp_settings_t s; int rc, timeout = 0; unsigned started = 0;

	vdrv_case_secs = 120; vdrv_init(); tm_watchdog(150);
	c = vdrv_next_case(&len); if (!c) return 0;
	in.p = c; in.n = len; in.o = 0; in.bad = 0;
	seed = vin_u64(&in); pool = vin_u8(&in); pool2 = vin_u8(&in); caller_kind = vin_u8(&in); caller_idx = vin_u8(&in);
	api = vin_u8(&in); flags = vin_u32(&in); nb = vin_u16(&in); pass_src = vin_u8(&in);
	fail_mask = vin_u32(&in); skip_first = vin_u8(&in); g_cb_work_us = vin_u16(&in); g_caller_last = vin_u8(&in); g_others_expected = vin_u8(&in);
	tm_perturb_permille = vin_u16(&in); tm_sleep_max_us = vin_u16(&in); tm_point_mask = vin_u64(&in);
	wkind = vin_u8(&in); nw = vin_u16(&in);
	g_wfault_pos = calloc(g_wfault_max, 1);
	for (i = 0; i < nw; i++) { uint32_t k = vin_u32(&in); if (k < g_wfault_max) g_wfault_pos[k] = 1; }
	if (in.bad || nb > MAXB) { fprintf(stderr, "bad case\n"); return 3; }
	g_wfault_kind = (int)wkind; tm_scn_seed = seed; tm_tid = 999; g_pool = pool; g_pool2 = pool2;

	tp_settings_def(&s); s.threads_max = pool; s.flags = 0; s.tpt_on_start = on_start; s.tpt_on_stop = on_stop;
	rc = tp_create(&s, &g_tp); if (rc) { fprintf(stderr, "tp_create rc=%d\n", rc); return 3; }
	if (pool2) { s.threads_max = pool2; rc = tp_create(&s, &g_tp2); if (rc) { fprintf(stderr, "tp_create2 rc=%d\n", rc); return 3; } }
	g_create_fail_mask = fail_mask; g_create_armed = 1;
	tp_threads_create(g_tp, (int)skip_first);
	g_create_armed = 0;
	if (g_tp2) tp_threads_create(g_tp2, 0);
	/* wait until started threads run (barrier round trip) */
	for (i = 0; i < pool; i++) if (tpt_is_running(tp_thread_get(g_tp, i))) { if (0 == tpt_msg_send(tp_thread_get(g_tp, i), NULL, 0, barrier_cb, NULL)) started++; }
	for (i = 0; i < pool2; i++) if (0 == tpt_msg_send(tp_thread_get(g_tp2, i), NULL, 0, barrier_cb, NULL)) started++;
	if (tm_wait_ge(&g_barrier_cnt, started, 30000)) timeout = 1;
	TM_LOG(EV_PHASE, 2, started, 0, 0);

	g_caller.api = api; g_caller.nb = nb; g_caller.pass_src = pass_src; g_caller.flags = flags;
	__atomic_store_n(&g_armed, 1, __ATOMIC_RELAXED);
	if (caller_kind == 0) { t_inject = 1; g_caller.self = NULL; caller_run(&g_caller); t_inject = 0; }
	else {
		rc = tpt_msg_send(tp_thread_get(caller_kind == 1 ? g_tp : g_tp2, caller_idx), NULL, 0, caller_cb, &g_caller);
		if (rc) { fprintf(stderr, "cannot start caller rc=%d\n", rc); return 3; }
	}
	{
		uint64_t t0 = tm_now();
		while (!__atomic_load_n(&g_caller_done, __ATOMIC_ACQUIRE)) {
			struct timespec ts = {0, 200000}; nanosleep(&ts, NULL);
			if (tm_now() - t0 > 60000000000ull) { timeout = 2; break; }
		}
	}
	TM_LOG(EV_PHASE, 3, 0, 0, 0);
	if (!timeout && api == 1 && tm_wait_ge(&g_done_total, g_caller.expect_done, 30000)) timeout = 3;
	/* drain: two barrier rounds through every running thread, then a short grace for stragglers/duplicates */
	for (int round = 0; round < 2 && !timeout; round++) {
		unsigned want = 0;
		__atomic_store_n(&g_barrier_cnt, 0, __ATOMIC_RELAXED);
		for (i = 0; i < pool; i++) if (tpt_is_running(tp_thread_get(g_tp, i)) && 0 == tpt_msg_send(tp_thread_get(g_tp, i), NULL, 0, barrier_cb, NULL)) want++;
		for (i = 0; i < pool2; i++) if (0 == tpt_msg_send(tp_thread_get(g_tp2, i), NULL, 0, barrier_cb, NULL)) want++;
		if (tm_wait_ge(&g_barrier_cnt, want, 30000)) timeout = 4;
	}
	{ struct timespec ts = {0, 3000000}; nanosleep(&ts, NULL); }
	if (timeout) TM_LOG(EV_TIMEOUT, (uint16_t)timeout, 0, 0, 0);
	TM_LOG(EV_PHASE, 4, 0, 0, 0);
	__atomic_store_n(&g_armed, 0, __ATOMIC_RELAXED);
	if (timeout == 2) { /* caller stuck inside the library: do not attempt teardown */
		vout_u32(&o, 0xC10C10); vout_i32(&o, timeout); vout_u64(&o, 0); vout_u64(&o, 0);
		tm_points_dump(&o); tm_dump(&o); vout_flush(&o); _exit(0);
	}
	tp_shutdown(g_tp); tp_shutdown_wait(g_tp); rc = tp_destroy(g_tp);
	if (g_tp2) { tp_shutdown(g_tp2); tp_shutdown_wait(g_tp2); tp_destroy(g_tp2); }
	TM_LOG(EV_PHASE, 5, 0, 0, rc);
	vout_u32(&o, 0xC10C10); vout_i32(&o, timeout);
	vout_u64(&o, __atomic_load_n(&g_qwrites, __ATOMIC_RELAXED)); vout_u64(&o, __atomic_load_n(&g_winj, __ATOMIC_RELAXED));
	tm_points_dump(&o); tm_dump(&o); vout_flush(&o);
	free(o.p); free(c); free(g_wfault_pos);
	return 0;
}
