/* C04 / C07 driver: runs the header-only hashes and HMACs of /repo/include/crypto/hash
 * on exact-size, deliberately misaligned heap buffers and reports digest bytes plus the
 * full context image after *_final.
 *
 * Build-time selectors (set by verif/props/c04.py):
 *   -DVD_NOSIMD         #undef __SSE2__ before the headers, as /repo/tests/hash/main.c does
 *   -DVD_SMALL_TABLES   GOST3411_2012_USE_SMALL_TABLES
 *   -DVD_SMALL_TAU      GOST3411_2012_USE_SMALL_TABLES_TABLE_TAU
 *
 * Case layout: u8 op, then op specific fields (see the handlers).  Algorithm ids:
 *   0 md5, 1 sha1, 2 sha224, 3 sha256, 4 sha384, 5 sha512, 6 gost256, 7 gost512.
 * Forced dispatch selector: 0 native (what *_init chose), 1 generic, 2 sse, 3 avx, 4 sha-ni.
 */
#include "vdrv.h"

#ifdef VD_NOSIMD
#	undef __SSE2__
#endif
#ifdef VD_SMALL_TABLES
#	define GOST3411_2012_USE_SMALL_TABLES 1
#endif
#ifdef VD_SMALL_TAU
#	define GOST3411_2012_USE_SMALL_TABLES_TABLE_TAU 1
#endif

#include "crypto/hash/md5.h"
#include "crypto/hash/sha1.h"
#include "crypto/hash/sha2.h"
#include "crypto/hash/gost3411-2012.h"
#include "proto/radius.h" /* C07: the Message-Authenticator HMAC-MD5 keeps its context in an automatic object */

#if defined(__has_feature)
#	if __has_feature(memory_sanitizer)
#		include <sanitizer/msan_interface.h>
#		define VD_MSAN 1
#	endif
#	if __has_feature(address_sanitizer)
#		define VD_ASAN 1
#	endif
#endif
#ifdef __SANITIZE_ADDRESS__
#	define VD_ASAN 1
#endif

enum { OP_INFO = 0, OP_HASH_STREAM, OP_HASH_ONESHOT, OP_HASH_HEX, OP_HMAC_STREAM,
       OP_HMAC_ONESHOT, OP_HMAC_GET, OP_HMAC_HEX, OP_INJECT, OP_HMAC_STACKSCAN, OP_RADIUS_MA_STACKSCAN, OP_HASH_STACKSCAN, OP_HUGE_ONESHOT };
enum { F_NATIVE = 0, F_GENERIC, F_SSE, F_AVX, F_SHANI };
#define NALG 8
#define CANARY 0xA5
#define CANARY_LEN 16

/* ------------------------------------------------------------------ wrappers */
static const size_t hsz[NALG] = { 16, 20, 28, 32, 48, 64, 32, 64 };
static const size_t bsz[NALG] = { 64, 64, 64, 64, 128, 128, 64, 64 };

static size_t initval(int alg, int bytes_arg) { return bytes_arg ? hsz[alg] : hsz[alg] * 8; }

static size_t ctx_size(int alg) {
	switch (alg) {
	case 0: return sizeof(md5_ctx_t);
	case 1: return sizeof(sha1_ctx_t);
	case 2: case 3: case 4: case 5: return sizeof(sha2_ctx_t);
	default: return sizeof(gost3411_2012_ctx_t);
	}
}
static size_t hctx_size(int alg) {
	switch (alg) {
	case 0: return sizeof(hmac_md5_ctx_t);
	case 1: return sizeof(hmac_sha1_ctx_t);
	case 2: case 3: case 4: case 5: return sizeof(hmac_sha2_ctx_t);
	default: return sizeof(hmac_gost3411_2012_ctx_t);
	}
}

static void h_init(int alg, int ba, void *c) {
	switch (alg) {
	case 0: md5_init(c); break;
	case 1: sha1_init(c); break;
	case 2: case 3: case 4: case 5: sha2_init(initval(alg, ba), c); break;
	default: gost3411_2012_init(initval(alg, ba), c); break;
	}
}
static void h_update(int alg, void *c, const uint8_t *d, size_t n) {
	switch (alg) {
	case 0: md5_update(c, d, n); break;
	case 1: sha1_update(c, d, n); break;
	case 2: case 3: case 4: case 5: sha2_update(c, d, n); break;
	default: gost3411_2012_update(c, d, n); break;
	}
}
static void h_final(int alg, void *c, uint8_t *dg) {
	switch (alg) {
	case 0: md5_final(c, dg); break;
	case 1: sha1_final(c, dg); break;
	case 2: case 3: case 4: case 5: sha2_final(c, dg); break;
	default: gost3411_2012_final(c, dg); break;
	}
}
static void h_oneshot(int alg, int ba, const void *d, size_t n, uint8_t *dg, size_t *dsz) {
	switch (alg) {
	case 0: md5_get_digest(d, n, dg); if (dsz) *dsz = MD5_HASH_SIZE; break;
	case 1: sha1_get_digest(d, n, dg); if (dsz) *dsz = SHA1_HASH_SIZE; break;
	case 2: case 3: case 4: case 5: sha2_get_digest(initval(alg, ba), d, n, dg, dsz); break;
	default: gost3411_2012_get_digest(initval(alg, ba), d, n, dg, dsz); break;
	}
}
static void h_hex(int alg, int ba, const char *d, size_t n, char *s, size_t *ssz) {
	switch (alg) {
	case 0: md5_get_digest_str(d, n, s); if (ssz) *ssz = MD5_HASH_STR_SIZE; break;
	case 1: sha1_get_digest_str(d, n, s); if (ssz) *ssz = SHA1_HASH_STR_SIZE; break;
	case 2: case 3: case 4: case 5: sha2_get_digest_str(initval(alg, ba), d, n, s, ssz); break;
	default: gost3411_2012_get_digest_str(initval(alg, ba), d, n, s, ssz); break;
	}
}
static void m_init(int alg, int ba, const uint8_t *k, size_t kn, void *hc) {
	switch (alg) {
	case 0: hmac_md5_init(k, kn, hc); break;
	case 1: hmac_sha1_init(k, kn, hc); break;
	case 2: case 3: case 4: case 5: hmac_sha2_init(initval(alg, ba), k, kn, hc); break;
	default: hmac_gost3411_2012_init(initval(alg, ba), k, kn, hc); break;
	}
}
static void m_update(int alg, void *hc, const uint8_t *d, size_t n) {
	switch (alg) {
	case 0: hmac_md5_update(hc, d, n); break;
	case 1: hmac_sha1_update(hc, d, n); break;
	case 2: case 3: case 4: case 5: hmac_sha2_update(hc, d, n); break;
	default: hmac_gost3411_2012_update(hc, d, n); break;
	}
}
static void m_final(int alg, void *hc, uint8_t *dg, size_t *dsz) {
	switch (alg) {
	case 0: hmac_md5_final(hc, dg); if (dsz) *dsz = MD5_HASH_SIZE; break;
	case 1: hmac_sha1_final(hc, dg); if (dsz) *dsz = SHA1_HASH_SIZE; break;
	case 2: case 3: case 4: case 5: hmac_sha2_final(hc, dg, dsz); break;
	default: hmac_gost3411_2012_final(hc, dg, dsz); break;
	}
}
static void m_oneshot(int alg, int ba, const uint8_t *k, size_t kn, const uint8_t *d, size_t n,
    uint8_t *dg, size_t *dsz) {
	switch (alg) {
	case 0: hmac_md5(k, kn, d, n, dg); if (dsz) *dsz = MD5_HASH_SIZE; break;
	case 1: hmac_sha1(k, kn, d, n, dg); if (dsz) *dsz = SHA1_HASH_SIZE; break;
	case 2: case 3: case 4: case 5: hmac_sha2(initval(alg, ba), k, kn, d, n, dg, dsz); break;
	default: hmac_gost3411_2012(initval(alg, ba), k, kn, d, n, dg, dsz); break;
	}
}
static void m_get(int alg, int ba, const void *k, size_t kn, const void *d, size_t n,
    uint8_t *dg, size_t *dsz) {
	switch (alg) {
	case 0: md5_hmac_get_digest(k, kn, d, n, dg); if (dsz) *dsz = MD5_HASH_SIZE; break;
	case 1: sha1_hmac_get_digest(k, kn, d, n, dg); if (dsz) *dsz = SHA1_HASH_SIZE; break;
	case 2: case 3: case 4: case 5: sha2_hmac_get_digest(initval(alg, ba), k, kn, d, n, dg, dsz); break;
	default: gost3411_2012_hmac_get_digest(initval(alg, ba), k, kn, d, n, dg, dsz); break;
	}
}
static void m_hex(int alg, int ba, const char *k, size_t kn, const char *d, size_t n,
    char *s, size_t *ssz) {
	switch (alg) {
	case 0: md5_hmac_get_digest_str(k, kn, d, n, s); if (ssz) *ssz = MD5_HASH_STR_SIZE; break;
	case 1: sha1_hmac_get_digest_str(k, kn, d, n, s); if (ssz) *ssz = SHA1_HASH_STR_SIZE; break;
	case 2: case 3: case 4: case 5: sha2_hmac_get_digest_str(initval(alg, ba), k, kn, d, n, s, ssz); break;
	default: gost3411_2012_hmac_get_digest_str(initval(alg, ba), k, kn, d, n, s, ssz); break;
	}
}

/* which forced selectors exist in this binary for `alg` (bit per selector) */
static unsigned force_mask(int alg) {
	unsigned m = (1u << F_NATIVE);
	switch (alg) {
	case 1:
#if defined(__SSE2__) || defined(SHA1_ENABLE_SIMD)
		m |= (1u << F_GENERIC);
#endif
#ifdef __SSE2__
		m |= (1u << F_SSE);
#endif
#ifdef SHA1_ENABLE_SIMD
		m |= (1u << F_SHANI);
#endif
		break;
	case 2: case 3:
#ifdef SHA2_ENABLE_SIMD
		m |= (1u << F_GENERIC) | (1u << F_SHANI);
#endif
		break;
	case 6: case 7:
#if defined(__SSE2__) || defined(__AVX__)
		m |= (1u << F_GENERIC);
#endif
#ifdef __SSE2__
		m |= (1u << F_SSE);
#endif
#ifdef __AVX__
		m |= (1u << F_AVX);
#endif
		break;
	default: break;
	}
	return m;
}

/* 0 ok, 1 selector not available in this build */
static int force(int alg, void *c, int sel) {
	if (sel == F_NATIVE) return 0;
	if (!(force_mask(alg) & (1u << sel))) return 1;
	switch (alg) {
	case 1: {
		sha1_ctx_p x = c; (void)x;
#ifdef __SSE2__
		x->use_sse = (sel == F_SSE);
#endif
#ifdef SHA1_ENABLE_SIMD
		x->use_simd = (sel == F_SHANI);
#endif
		return 0; }
	case 2: case 3: {
		sha2_ctx_p x = c; (void)x;
#ifdef SHA2_ENABLE_SIMD
		x->use_simd = (sel == F_SHANI);
#endif
		return 0; }
	case 6: case 7: {
		gost3411_2012_ctx_p x = c;
		x->use_sse = (sel == F_SSE);
		x->use_avx = (sel == F_AVX);
		return 0; }
	}
	return 1;
}

/* native dispatch word after *_init: bit0 sse, bit1 avx, bit2 sha-ni */
static unsigned native_dispatch(int alg) {
	unsigned r = 0;
	void *c = NULL;
	if (posix_memalign(&c, 64, ctx_size(alg))) return 0;
	memset(c, 0, ctx_size(alg));
	h_init(alg, 0, c);
	switch (alg) {
	case 1: {
		sha1_ctx_p x = c; (void)x;
#ifdef __SSE2__
		if (x->use_sse) r |= 1;
#endif
#ifdef SHA1_ENABLE_SIMD
		if (x->use_simd) r |= 4;
#endif
		break; }
	case 2: case 3: {
		sha2_ctx_p x = c; (void)x;
#ifdef SHA2_ENABLE_SIMD
		if (x->use_simd) r |= 4;
#endif
		break; }
	case 6: case 7: {
		gost3411_2012_ctx_p x = c;
		if (x->use_sse) r |= 1;
		if (x->use_avx) r |= 2;
		break; }
	}
	free(c);
	return r;
}

/* ------------------------------------------------------------------ buffers */
/* n bytes whose END is flush with the end of the allocation and whose start address is
 * congruent to `align` modulo 64.  *base receives the pointer to free. */
static uint8_t *place(const uint8_t *src, size_t n, unsigned align, void **base) {
	void *p = NULL;
	size_t total = (size_t)align + n;
	if (posix_memalign(&p, 64, total ? total : 1)) _exit(99);
	if (align) memset(p, 0xEE, align);
	if (n) memcpy((uint8_t *)p + align, src, n);
	*base = p;
	return (uint8_t *)p + align;
}

/* context block: 32-byte aligned (the strictest alignment the context types ask for) but
 * on purpose not 64-byte aligned; ends flush with the allocation. */
static void *ctx_alloc(size_t size, uint8_t pat, void **base) {
	void *p = NULL;
	if (posix_memalign(&p, 64, 32 + size)) _exit(99);
#ifndef VD_MSAN
	memset(p, pat, 32 + size);
#else
	(void)pat;
#endif
	*base = p;
	return (uint8_t *)p + 32;
}

/* output buffer of exactly n bytes under ASan (so an overrun is reported there),
 * n + canary otherwise */
static uint8_t *out_alloc(size_t n) {
#ifdef VD_ASAN
	uint8_t *b = malloc(n ? n : 1);
	memset(b, 0xCC, n ? n : 1);
	return b;
#else
	uint8_t *b = malloc(n + CANARY_LEN);
	memset(b, 0xCC, n);
	memset(b + n, CANARY, CANARY_LEN);
	return b;
#endif
}
static int out_check(const uint8_t *b, size_t n) {
#ifdef VD_ASAN
	(void)b; (void)n;
	return 1;
#else
	size_t i;
	for (i = 0; i < CANARY_LEN; i++) if (b[n + i] != CANARY) return 0;
	return 1;
#endif
}

static void put_image(vout_t *o, const void *p, size_t n) {
#ifdef VD_MSAN
	__msan_unpoison(p, n);
#endif
	vout_blob(o, p, n);
}

typedef struct { uint32_t n; uint32_t len[1]; } chunks_t;

/* feed msg through update() in the given chunk lengths.  sep != 0: every chunk is copied
 * into its own exact-size block (same address residue modulo 64 as it would have had). */
static void feed(int alg, int hmac, void *c, const uint8_t *msg, size_t n, unsigned align,
    const uint32_t *cl, size_t ncl, int sep) {
	size_t off = 0, i;
	void *base = NULL;
	const uint8_t *p = NULL;
	if (!sep) p = place(msg, n, align, &base);
	for (i = 0; i < ncl; i++) {
		size_t l = cl[i];
		if (off + l > n) l = n - off;
		if (sep) {
			void *b2 = NULL;
			const uint8_t *q = place(msg + off, l, (unsigned)((align + off) & 63), &b2);
			if (hmac) m_update(alg, c, q, l); else h_update(alg, c, q, l);
			free(b2);
		} else {
			if (hmac) m_update(alg, c, p + off, l); else h_update(alg, c, p + off, l);
		}
		off += l;
	}
	if (off < n) { /* remainder not covered by the chunk list */
		if (sep) {
			void *b2 = NULL;
			const uint8_t *q = place(msg + off, n - off, (unsigned)((align + off) & 63), &b2);
			if (hmac) m_update(alg, c, q, n - off); else h_update(alg, c, q, n - off);
			free(b2);
		} else {
			if (hmac) m_update(alg, c, p + off, n - off); else h_update(alg, c, p + off, n - off);
		}
	}
	if (base) free(base);
}

static size_t read_chunks(vin_t *in, uint32_t **out) {
	size_t n = vin_u16(in), i;
	uint32_t *c = malloc((n ? n : 1) * sizeof(uint32_t));
	for (i = 0; i < n; i++) c[i] = vin_u32(in);
	*out = c;
	return n;
}

/* ------------------------------------------------------------------ handlers */
static void op_info(vout_t *o) {
	int a;
	vout_u8(o, 0);
	for (a = 0; a < NALG; a++) {
		vout_u32(o, (uint32_t)ctx_size(a));
		vout_u32(o, (uint32_t)hctx_size(a));
		vout_u32(o, force_mask(a));
		vout_u32(o, native_dispatch(a));
	}
	/* offsets Python needs for readable reports */
	vout_u32(o, (uint32_t)offsetof(hmac_md5_ctx_t, k_opad));
	vout_u32(o, (uint32_t)offsetof(hmac_sha1_ctx_t, k_opad));
	vout_u32(o, (uint32_t)offsetof(hmac_sha2_ctx_t, k_opad));
	vout_u32(o, (uint32_t)offsetof(hmac_gost3411_2012_ctx_t, k_opad));
}

/* u8 alg, u8 force, u8 align, u8 pat, u8 bytes_arg, u8 sep, blob msg, chunks */
static void op_hash_stream(vin_t *in, vout_t *o) {
	int alg = vin_u8(in) % NALG, fsel = vin_u8(in);
	unsigned align = vin_u8(in) & 63;
	uint8_t pat = vin_u8(in);
	int ba = vin_u8(in), sep = vin_u8(in);
	size_t n, ncl;
	const uint8_t *msg = vin_blob(in, &n);
	uint32_t *cl;
	void *cbase; void *c; uint8_t *dg;
	ncl = read_chunks(in, &cl);
	if (in->bad) { vout_u8(o, 2); free(cl); return; }
	c = ctx_alloc(ctx_size(alg), pat, &cbase);
	dg = out_alloc(hsz[alg]);
	vdrv_dirty_stack(pat);
	h_init(alg, ba, c);
	if (force(alg, c, fsel)) { vout_u8(o, 1); goto done; }
	feed(alg, 0, c, msg, n, align, cl, ncl, sep);
	h_final(alg, c, dg);
	vout_u8(o, 0);
	vout_u8(o, (uint8_t)out_check(dg, hsz[alg]));
	vout_blob(o, dg, hsz[alg]);
	put_image(o, c, ctx_size(alg));
done:
	free(dg); free(cbase); free(cl);
}

/* u8 alg, u8 align, u8 pat, u8 bytes_arg, u8 null_size, blob msg */
static void op_hash_oneshot(vin_t *in, vout_t *o, int hex) {
	int alg = vin_u8(in) % NALG;
	unsigned align = vin_u8(in) & 63;
	uint8_t pat = vin_u8(in);
	int ba = vin_u8(in), nullsz = vin_u8(in);
	size_t n, osz, rsz = (size_t)-1;
	const uint8_t *msg = vin_blob(in, &n);
	void *base; const uint8_t *p; uint8_t *out;
	if (in->bad) { vout_u8(o, 2); return; }
	osz = hex ? hsz[alg] * 2 + 1 : hsz[alg];
	p = place(msg, n, align, &base);
	out = out_alloc(osz);
	vdrv_dirty_stack(pat);
	if (hex) h_hex(alg, ba, (const char *)p, n, (char *)out, nullsz ? NULL : &rsz);
	else h_oneshot(alg, ba, p, n, out, nullsz ? NULL : &rsz);
	vout_u8(o, 0);
	vout_u8(o, (uint8_t)out_check(out, osz));
	vout_blob(o, out, osz);
	vout_u64(o, (uint64_t)rsz);
	free(out); free(base);
}

/* u8 alg, u8 force, u8 kalign, u8 malign, u8 pat, u8 bytes_arg, u8 sep, u8 null_size,
 * blob key, blob msg, chunks, u8 reuse, [blob key2, blob msg2] */
static void op_hmac_stream(vin_t *in, vout_t *o) {
	int alg = vin_u8(in) % NALG, fsel = vin_u8(in);
	unsigned kalign = vin_u8(in) & 63, malign = vin_u8(in) & 63;
	uint8_t pat = vin_u8(in);
	int ba = vin_u8(in), sep = vin_u8(in), nullsz = vin_u8(in), reuse;
	size_t kn, n, ncl, kn2 = 0, n2 = 0, rsz = (size_t)-1;
	const uint8_t *key = vin_blob(in, &kn), *msg = vin_blob(in, &n), *key2 = NULL, *msg2 = NULL;
	uint32_t *cl;
	void *cbase, *kbase; void *c; uint8_t *dg; const uint8_t *kp;
	ncl = read_chunks(in, &cl);
	reuse = vin_u8(in);
	if (reuse) { key2 = vin_blob(in, &kn2); msg2 = vin_blob(in, &n2); }
	if (in->bad) { vout_u8(o, 2); free(cl); return; }
	c = ctx_alloc(hctx_size(alg), pat, &cbase);
	dg = out_alloc(hsz[alg]);
	kp = place(key, kn, kalign, &kbase);
	vdrv_dirty_stack(pat);
	m_init(alg, ba, kp, kn, c);
	free(kbase); /* the key buffer may go away after init */
	if (force(alg, c, fsel)) { vout_u8(o, 1); goto done; }
	feed(alg, 1, c, msg, n, malign, cl, ncl, sep);
	m_final(alg, c, dg, nullsz ? NULL : &rsz);
	vout_u8(o, 0);
	vout_u8(o, (uint8_t)out_check(dg, hsz[alg]));
	vout_blob(o, dg, hsz[alg]);
	vout_u64(o, (uint64_t)rsz);
	put_image(o, c, hctx_size(alg));
	if (reuse) { /* init -> final -> init with another key on the same context */
		uint32_t one = (uint32_t)n2;
		memset(dg, 0xCC, hsz[alg]);
		kp = place(key2, kn2, kalign, &kbase);
		m_init(alg, ba, kp, kn2, c);
		free(kbase);
		feed(alg, 1, c, msg2, n2, malign, &one, 1, 0);
		m_final(alg, c, dg, NULL);
		vout_u8(o, (uint8_t)out_check(dg, hsz[alg]));
		vout_blob(o, dg, hsz[alg]);
		put_image(o, c, hctx_size(alg));
	}
done:
	free(dg); free(cbase); free(cl);
}

/* u8 alg, u8 kalign, u8 malign, u8 pat, u8 bytes_arg, u8 null_size, blob key, blob msg */
static void op_hmac_oneshot(vin_t *in, vout_t *o, int kind) {
	int alg = vin_u8(in) % NALG;
	unsigned kalign = vin_u8(in) & 63, malign = vin_u8(in) & 63;
	uint8_t pat = vin_u8(in);
	int ba = vin_u8(in), nullsz = vin_u8(in), nullp;
	size_t kn, n, osz, rsz = (size_t)-1;
	const uint8_t *key = vin_blob(in, &kn), *msg = vin_blob(in, &n);
	void *kbase, *mbase; const uint8_t *kp, *mp; uint8_t *out;
	if (in->bad) { vout_u8(o, 2); return; }
	nullp = (nullsz >> 1) & 1; nullsz &= 1; /* bit 1: an empty key / message is passed as (NULL, 0) */
	osz = (kind == OP_HMAC_HEX) ? hsz[alg] * 2 + 1 : hsz[alg];
	kp = place(key, kn, kalign, &kbase);
	mp = place(msg, n, malign, &mbase);
	if (nullp && kn == 0) kp = NULL;
	if (nullp && n == 0) mp = NULL;
	out = out_alloc(osz);
	vdrv_dirty_stack(pat);
	switch (kind) {
	case OP_HMAC_ONESHOT: m_oneshot(alg, ba, kp, kn, mp, n, out, nullsz ? NULL : &rsz); break;
	case OP_HMAC_GET: m_get(alg, ba, kp, kn, mp, n, out, nullsz ? NULL : &rsz); break;
	default: m_hex(alg, ba, (const char *)kp, kn, (const char *)mp, n, (char *)out, nullsz ? NULL : &rsz); break;
	}
	vout_u8(o, 0);
	vout_u8(o, (uint8_t)out_check(out, osz));
	vout_blob(o, out, osz);
	vout_u64(o, (uint64_t)rsz);
	free(out); free(kbase); free(mbase);
}

/* State injection on a block boundary.
 * u8 alg, u8 force, u8 align, u8 pat, blob state, u64 count_lo, u64 count_hi,
 * blob counter(64, gost), blob sigma(64, gost), blob tail, chunks */
static void op_inject(vin_t *in, vout_t *o) {
	int alg = vin_u8(in) % NALG, fsel = vin_u8(in);
	unsigned align = vin_u8(in) & 63;
	uint8_t pat = vin_u8(in);
	size_t sn, cn, gn, n, ncl;
	const uint8_t *st = vin_blob(in, &sn);
	uint64_t lo = vin_u64(in), hi = vin_u64(in);
	const uint8_t *cnt = vin_blob(in, &cn), *sig = vin_blob(in, &gn), *msg = vin_blob(in, &n);
	uint32_t *cl;
	void *cbase; void *c; uint8_t *dg;
	ncl = read_chunks(in, &cl);
	if (in->bad) { vout_u8(o, 2); free(cl); return; }
	c = ctx_alloc(ctx_size(alg), pat, &cbase);
	dg = out_alloc(hsz[alg]);
	h_init(alg, 0, c);
	if (force(alg, c, fsel)) { vout_u8(o, 1); goto done; }
	switch (alg) {
	case 0: { md5_ctx_p x = c; if (sn != sizeof(x->hash)) goto bad;
		memcpy(x->hash, st, sn); x->count = lo; break; }
	case 1: { sha1_ctx_p x = c; if (sn != 20) goto bad;
		memcpy(x->hash, st, sn); x->count = lo; break; }
	case 2: case 3: { sha2_ctx_p x = c; if (sn != 32) goto bad;
		memcpy(x->hash, st, sn); x->count = lo; x->count_hi = hi; break; }
	case 4: case 5: { sha2_ctx_p x = c; if (sn != 64) goto bad;
		memcpy(x->hash, st, sn); x->count = lo; x->count_hi = hi; break; }
	default: { gost3411_2012_ctx_p x = c; if (sn != 64 || cn != 64 || gn != 64) goto bad;
		memcpy(x->hash, st, 64); memcpy(x->counter, cnt, 64); memcpy(x->sigma, sig, 64);
		break; }
	}
	feed(alg, 0, c, msg, n, align, cl, ncl, 0);
	h_final(alg, c, dg);
	vout_u8(o, 0);
	vout_u8(o, (uint8_t)out_check(dg, hsz[alg]));
	vout_blob(o, dg, hsz[alg]);
	goto done;
bad:
	vout_u8(o, 2);
done:
	free(dg); free(cbase); free(cl);
}

/* Stack residue scan (C07 "the keyed pads are wiped when the computation finishes").
 * The HMAC entry point runs on a private, zero-filled stack; key, message, hmac context and
 * MAC live on the heap.  After it returned the whole private stack is searched for the needles
 * the checker supplies (prefixes of K' xor ipad / K' xor opad).
 * u8 alg, u8 bytes_arg, u8 kind (0 stream | OP_HMAC_ONESHOT | OP_HMAC_GET | OP_HMAC_HEX),
 * blob key, blob msg, u8 n, n * blob needle
 * -> u8 status(0 ok, 3 unsupported build), blob mac, n * i64 (distance below the stack top, -1 not found) */
#if !defined(VD_ASAN) && !defined(VD_MSAN) && !defined(__SANITIZE_THREAD__)
#include <ucontext.h>
#include <sys/mman.h>
#define SS_SIZE (1024 * 1024)
static ucontext_t ss_main, ss_work;
static struct { int alg, ba, kind; const uint8_t *k; size_t kn; const uint8_t *m; size_t n; void *hc; uint8_t *out; } ss;
static void ss_worker(void) {
	size_t a = ss.n / 3, rsz;
	switch (ss.kind) {
	case 0:
		m_init(ss.alg, ss.ba, ss.k, ss.kn, ss.hc);
		m_update(ss.alg, ss.hc, ss.m, a);
		m_update(ss.alg, ss.hc, ss.m + a, ss.n - a);
		m_final(ss.alg, ss.hc, ss.out, &rsz);
		break;
	case OP_HMAC_ONESHOT: m_oneshot(ss.alg, ss.ba, ss.k, ss.kn, ss.m, ss.n, ss.out, &rsz); break;
	case OP_HMAC_GET: m_get(ss.alg, ss.ba, ss.k, ss.kn, ss.m, ss.n, ss.out, &rsz); break;
	default: m_hex(ss.alg, ss.ba, (const char *)ss.k, ss.kn, (const char *)ss.m, ss.n, (char *)ss.out, &rsz); break;
	}
}
static void op_hmac_stackscan(vin_t *in, vout_t *o) {
	int alg = vin_u8(in) % NALG, ba = vin_u8(in), kind = vin_u8(in);
	size_t kn, n, osz, i, nn;
	const uint8_t *key = vin_blob(in, &kn), *msg = vin_blob(in, &n);
	void *kbase, *mbase, *cbase; uint8_t *stk;
	nn = vin_u8(in);
	if (in->bad) { vout_u8(o, 2); return; }
	osz = (kind == OP_HMAC_HEX) ? hsz[alg] * 2 + 1 : hsz[alg];
	stk = mmap(NULL, SS_SIZE, PROT_READ | PROT_WRITE, MAP_PRIVATE | MAP_ANONYMOUS, -1, 0);
	if (stk == MAP_FAILED) { vout_u8(o, 2); return; }
	ss.alg = alg; ss.ba = ba; ss.kind = kind;
	ss.k = place(key, kn, 0, &kbase); ss.kn = kn;
	ss.m = place(msg, n, 0, &mbase); ss.n = n;
	ss.hc = ctx_alloc(hctx_size(alg), 0, &cbase);
	ss.out = out_alloc(osz);
	getcontext(&ss_work);
	ss_work.uc_stack.ss_sp = stk; ss_work.uc_stack.ss_size = SS_SIZE; ss_work.uc_link = &ss_main;
	makecontext(&ss_work, ss_worker, 0);
	swapcontext(&ss_main, &ss_work);
	vout_u8(o, 0);
	vout_blob(o, ss.out, osz);
	for (i = 0; i < nn; i++) {
		size_t ln; const uint8_t *nd = vin_blob(in, &ln), *f;
		if (in->bad || ln == 0) { vout_i64(o, -2); continue; }
		f = memmem(stk, SS_SIZE, nd, ln);
		vout_i64(o, f ? (int64_t)((stk + SS_SIZE) - f) : -1);
	}
	munmap(stk, SS_SIZE);
	free(ss.out); free(kbase); free(mbase); free(cbase);
}
/* One-shot hash entry points (their context is an automatic object) on the private stack:
 * u8 alg, u8 bytes_arg, u8 hex, blob msg, u8 n, n * blob needle -> u8 status, blob digest/text, n * i64 */
static struct { int alg, ba, hex; const uint8_t *m; size_t n; uint8_t *out; } hs;
static void hs_worker(void) {
	size_t rsz;
	if (hs.hex) h_hex(hs.alg, hs.ba, (const char *)hs.m, hs.n, (char *)hs.out, &rsz);
	else h_oneshot(hs.alg, hs.ba, hs.m, hs.n, hs.out, &rsz);
}
static void op_hash_stackscan(vin_t *in, vout_t *o) {
	int alg = vin_u8(in) % NALG, ba = vin_u8(in), hex = vin_u8(in);
	size_t n, osz, i, nn; const uint8_t *msg = vin_blob(in, &n); void *mbase; uint8_t *stk;
	nn = vin_u8(in);
	if (in->bad) { vout_u8(o, 2); return; }
	osz = hex ? hsz[alg] * 2 + 1 : hsz[alg];
	stk = mmap(NULL, SS_SIZE, PROT_READ | PROT_WRITE, MAP_PRIVATE | MAP_ANONYMOUS, -1, 0);
	if (stk == MAP_FAILED) { vout_u8(o, 2); return; }
	hs.alg = alg; hs.ba = ba; hs.hex = hex; hs.m = place(msg, n, 0, &mbase); hs.n = n; hs.out = out_alloc(osz);
	getcontext(&ss_work);
	ss_work.uc_stack.ss_sp = stk; ss_work.uc_stack.ss_size = SS_SIZE; ss_work.uc_link = &ss_main;
	makecontext(&ss_work, hs_worker, 0);
	swapcontext(&ss_main, &ss_work);
	vout_u8(o, 0); vout_blob(o, hs.out, osz);
	for (i = 0; i < nn; i++) {
		size_t ln; const uint8_t *nd = vin_blob(in, &ln), *f;
		if (in->bad || ln == 0) { vout_i64(o, -2); continue; }
		f = memmem(stk, SS_SIZE, nd, ln);
		vout_i64(o, f ? (int64_t)((stk + SS_SIZE) - f) : -1);
	}
	munmap(stk, SS_SIZE);
	free(hs.out); free(mbase);
}

/* RADIUS Message-Authenticator on the private stack: u8 inside, u8 have_req, blob packet, u32 attr offset, blob key,
 * blob request packet, u8 n, n * blob needle -> u8 status, i32 rc, blob msg_authenticator(16), n * i64 */
static struct { uint8_t *pkt; size_t attr_off; uint8_t *key; size_t kn; int inside; uint8_t *req; uint8_t *out; int rc; } rs;
static void rs_worker(void) {
	rs.rc = radius_pkt_attr_msg_authenticator_calc((rad_pkt_hdr_p)rs.pkt, (rad_pkt_attr_p)(rs.pkt + rs.attr_off),
	    rs.key, rs.kn, rs.inside, (rad_pkt_hdr_p)rs.req, rs.out);
}
static void op_radius_ma_stackscan(vin_t *in, vout_t *o) {
	int inside = vin_u8(in), have_req = vin_u8(in);
	size_t pn, kn, rn, i, nn; uint32_t off;
	const uint8_t *pkt = vin_blob(in, &pn); 
	const uint8_t *key, *req; void *pbase, *kbase, *rbase; uint8_t *stk;
	off = vin_u32(in); key = vin_blob(in, &kn); req = vin_blob(in, &rn); nn = vin_u8(in);
	if (in->bad || pn < 20 || off + 18 > pn || (have_req && rn < 20)) { vout_u8(o, 2); return; }
	stk = mmap(NULL, SS_SIZE, PROT_READ | PROT_WRITE, MAP_PRIVATE | MAP_ANONYMOUS, -1, 0);
	if (stk == MAP_FAILED) { vout_u8(o, 2); return; }
	rs.pkt = place(pkt, pn, 0, &pbase); rs.attr_off = off;
	rs.key = place(key, kn, 0, &kbase); rs.kn = kn; rs.inside = inside;
	rs.req = have_req ? place(req, rn, 0, &rbase) : NULL; if (!have_req) rbase = NULL;
	rs.out = out_alloc(16);
	getcontext(&ss_work);
	ss_work.uc_stack.ss_sp = stk; ss_work.uc_stack.ss_size = SS_SIZE; ss_work.uc_link = &ss_main;
	makecontext(&ss_work, rs_worker, 0);
	swapcontext(&ss_main, &ss_work);
	vout_u8(o, 0); vout_i32(o, rs.rc); vout_blob(o, rs.out, 16);
	for (i = 0; i < nn; i++) {
		size_t ln; const uint8_t *nd = vin_blob(in, &ln), *f;
		if (in->bad || ln == 0) { vout_i64(o, -2); continue; }
		f = memmem(stk, SS_SIZE, nd, ln);
		vout_i64(o, f ? (int64_t)((stk + SS_SIZE) - f) : -1);
	}
	munmap(stk, SS_SIZE);
	free(rs.out); free(pbase); free(kbase); free(rbase);
}
#else
static void op_hmac_stackscan(vin_t *in, vout_t *o) { (void)in; vout_u8(o, 3); }
static void op_radius_ma_stackscan(vin_t *in, vout_t *o) { (void)in; vout_u8(o, 3); }
static void op_hash_stackscan(vin_t *in, vout_t *o) { (void)in; vout_u8(o, 3); }
#endif

/* One call that carries 2^32 bytes or more: u8 alg, u8 hex, u64 n -> u8 status, blob digest/text.
 * The message is n zero octets in a lazily backed anonymous mapping (no memory is committed for reading zero pages). */
#include <sys/mman.h>
static void op_huge_oneshot(vin_t *in, vout_t *o) {
	int alg = vin_u8(in) % NALG, hex = vin_u8(in);
	uint64_t n = vin_u64(in);
	size_t osz = hex ? hsz[alg] * 2 + 1 : hsz[alg], rsz = 0;
	uint8_t *m, *out;
	if (in->bad || n > ((uint64_t)1 << 34)) { vout_u8(o, 2); return; }
	m = mmap(NULL, (size_t)n, PROT_READ, MAP_PRIVATE | MAP_ANONYMOUS | MAP_NORESERVE, -1, 0);
	if (m == MAP_FAILED) { vout_u8(o, 3); return; }
	out = out_alloc(osz);
	if (hex) h_hex(alg, 0, (const char *)m, (size_t)n, (char *)out, &rsz);
	else h_oneshot(alg, 0, m, (size_t)n, out, &rsz);
	vout_u8(o, 0); vout_blob(o, out, osz);
	munmap(m, (size_t)n); free(out);
}

int main(void) {
	uint8_t *c; size_t len;
	vout_t o = { 0 };
	vdrv_init();
	while ((c = vdrv_next_case(&len))) {
		vin_t in = { c, len, 0, 0 };
		int op = vin_u8(&in);
		switch (op) {
		case OP_INFO: op_info(&o); break;
		case OP_HASH_STREAM: op_hash_stream(&in, &o); break;
		case OP_HASH_ONESHOT: op_hash_oneshot(&in, &o, 0); break;
		case OP_HASH_HEX: op_hash_oneshot(&in, &o, 1); break;
		case OP_HMAC_STREAM: op_hmac_stream(&in, &o); break;
		case OP_HMAC_ONESHOT: case OP_HMAC_GET: case OP_HMAC_HEX: op_hmac_oneshot(&in, &o, op); break;
		case OP_INJECT: op_inject(&in, &o); break;
		case OP_HMAC_STACKSCAN: op_hmac_stackscan(&in, &o); break;
		case OP_RADIUS_MA_STACKSCAN: op_radius_ma_stackscan(&in, &o); break;
		case OP_HASH_STACKSCAN: op_hash_stackscan(&in, &o); break;
		case OP_HUGE_ONESHOT: vdrv_case_secs = 300; vdrv_arm(); op_huge_oneshot(&in, &o); vdrv_case_secs = 20; break;
		default: vout_u8(&o, 2); break;
		}
		vout_flush(&o);
		free(c);
	}
	return 0;
}
