/* C20 driver: HTTP start-line parsing, header lookup and the request security check of
 * src/proto/http.c (linked from the repository).  The block is laid out the way
 * src/proto/http_server.c sees it: start line + header fields, followed in memory by the
 * CRLF CRLF terminator that is NOT included in hdr_size; the allocation ends right after
 * the terminator so any read beyond it is reported by ASan. */
#include <sys/param.h>
#include <sys/types.h>
#include <errno.h>
#include "vdrv.h"
#include "proto/http.h"

static vout_t O;

static void out_span(const uint8_t *base, const uint8_t *p, size_t n) {
	vout_i64(&O, p ? (int64_t)(p - base) : -1);
	vout_u64(&O, n);
}

static void lookups(vin_t *in, const uint8_t *buf, size_t size) {
	size_t n = vin_u16(in), i;
	for (i = 0; i < n && !in->bad; i++) {
		size_t nl, off = 0, guard = 0, cnt;
		const uint8_t *nm = vin_blob(in, &nl);
		uint8_t *name = vx_dup(nm, nl);
		const uint8_t *val = NULL;
		size_t vsz = 0;
		int rc;

		cnt = http_hdr_val_get_count(buf, size, name, nl);
		vout_u64(&O, cnt);
		rc = http_hdr_val_get(buf, size, name, nl, &val, &vsz);
		vout_i32(&O, rc);
		out_span(buf, rc == 0 ? val : NULL, rc == 0 ? vsz : 0);
		for (;;) {
			val = NULL; vsz = 0;
			rc = http_hdr_val_get_ex(buf, size, name, nl, off, &val, &vsz, &off);
			vout_i32(&O, rc);
			if (rc != 0 || ++guard > 2000) break;
			out_span(buf, val, vsz);
		}
		vx_free(name, nl);
	}
}

static uint8_t *mk_block(vin_t *in, size_t *size) {
	size_t n;
	const uint8_t *b = vin_blob(in, &n);
	uint8_t *buf = vx_alloc(n + 4, 0);
	memcpy(buf, b, n);
	memcpy(buf + n, "\r\n\r\n", 4);
	*size = n;
	return buf;
}

static void op_req(vin_t *in) {
	size_t size;
	uint8_t *buf = mk_block(in, &size);
	uint32_t fallback = vin_u32(in), code;
	http_req_line_data_t rd;
	int rc;

	memset(&rd, 0xEE, sizeof(rd));
	vdrv_dirty_stack(0x3c);
	rc = http_parse_req_line(buf, size, &rd);
	vout_i32(&O, rc);
	if (rc == 0) {
		vout_u64(&O, rd.line_size);
		out_span(buf, rd.method, rd.method_size);
		vout_u32(&O, rd.method_code);
		out_span(buf, rd.uri, rd.uri_size);
		out_span(buf, rd.scheme, rd.scheme_size);
		out_span(buf, rd.host, rd.host_size);
		out_span(buf, rd.abs_path, rd.abs_path_size);
		out_span(buf, rd.query, rd.query_size);
		vout_u32(&O, rd.proto_ver);
	}
	/* http_server.c calls the check with the method code the parser returned; when the
	 * line was refused (the server answers 400 without calling it) the check is still
	 * exercised with the code of the intended method */
	code = (rc == 0) ? rd.method_code : fallback;
	vout_u32(&O, code);
	vout_i32(&O, http_req_sec_chk(buf, size, code));
	lookups(in, buf, size);
	vx_free(buf, size + 4);
}

static void op_resp(vin_t *in) {
	size_t size;
	uint8_t *buf = mk_block(in, &size);
	http_resp_line_data_t rd;
	int rc;

	memset(&rd, 0xEE, sizeof(rd));
	vdrv_dirty_stack(0xc3);
	rc = http_parse_resp_line(buf, size, &rd);
	vout_i32(&O, rc);
	if (rc == 0) {
		vout_u64(&O, rd.line_size);
		vout_u32(&O, rd.proto_ver);
		vout_u32(&O, rd.status_code);
		out_span(buf, rd.reason_phrase, rd.reason_phrase_size);
	}
	lookups(in, buf, size);
	vx_free(buf, size + 4);
}

int main(void) {
	uint8_t *c; size_t len;
	vdrv_init();
	while ((c = vdrv_next_case(&len))) {
		vin_t in = { c, len, 0, 0 };
		uint8_t op = vin_u8(&in);
		if (op == 1) op_req(&in);
		else if (op == 2) op_resp(&in);
		vout_u8(&O, in.bad ? 0xBD : 0x0C);
		vout_flush(&O);
		free(c);
	}
	return 0;
}
