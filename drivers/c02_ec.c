/* C02 driver: elliptic-curve group law / scalar multiplication, one executable per
 * configuration (all EC_* / BN_* selection macros arrive through -D).
 *
 * case   := u8 op, u8 junk, curve, u8 alias, point A, point B, blob k1, blob k2
 * curve  := u8 0, u16 index-in-ec_curve_str
 *         | u8 1, u32 m, u32 t, u32 h, u32 flags, blob p,a,b,Gx,Gy,n   (ASCII hex, as ec_curve_str_t wants)
 * point  := u8 infinity, blob x_be, blob y_be
 * ops    : 0 info, 1 add, 2 sub, 4 unknown_pt_mult, 5 mult_bp, 6 twin_mult, 7 twin_mult_bp,
 *          8 check_affine, 9 projective import/export round trip
 * alias  : bit 0 => second point operand is the SAME OBJECT as the first (add/sub/twin_mult);
 *          bits 1-2 => where twin multiplication puts its result: 0 a separate object, 1 the first
 *          point operand, 2 the second point operand (twin_mult_bp: 2 = in place, Q = d*G + e*Q).
 *          Every twin implementation reads its operands into locals/tables before it writes `res`,
 *          so an in-place result is a use the interface supports.
 * obs    := i32 rc_curve, i32 rc_prep, i32 rc, u8 infinity, blob x_le, blob y_le
 *
 * The curve object lives in malloc'ed memory that is filled with the junk byte before the
 * library initialises it; operands likewise; the stack below the call is dirtied (deeper than the
 * largest automatic table of the entry points) because the unknown-point tables, JSF/NAF arrays and
 * temporaries are uninitialised automatic objects.  Under MSan
 * nothing is filled, so the same storage stays poisoned.
 */
#include <sys/param.h>
#include <sys/types.h>
#include <inttypes.h>
#include <stdlib.h>
#include <stdio.h>
#include <unistd.h>
#include <string.h>
#include <errno.h>

#include "vdrv.h"
#include "crypto/dsa/ecdsa.h"

#if defined(__has_feature)
#  if __has_feature(memory_sanitizer)
#    define C02_MSAN 1
#  endif
#endif

/* Deep enough to cover the largest automatic object of the entry points (the unknown-point
 * precomputation table) plus the frames of the arithmetic below it. */
#ifndef C02_STACK_DIRTY
#  if EC_PF_UNKPT_MULT_ALGO != EC_PF_UNKPT_MULT_ALGO_BIN
#    define C02_STACK_DIRTY (sizeof(ec_pt_unkpt_mult_data_t) + 128 * 1024)
#  else
#    define C02_STACK_DIRTY (128 * 1024)
#  endif
#endif

static void __attribute__((noinline)) dirty_stack_n(uint8_t pat, size_t n) {
#ifndef C02_MSAN
	volatile uint8_t *junk = __builtin_alloca(n);
	memset((void *)junk, pat, n);
	__asm__ volatile("" :: "r"(junk) : "memory");
#else
	(void)pat; (void)n;
#endif
}
/* Full depth on every 8th case and on every curve load; 16 KiB otherwise: in between, the deep
 * part of the stack keeps the (valid looking) leftovers of the previous call, which is the other
 * interesting stale state for a table that is not completely initialised. */
static unsigned long g_case_no = 0;
static void dirty_stack(uint8_t pat, int force_full) {
	if (force_full || 0 == (g_case_no % 8))
		dirty_stack_n(pat, C02_STACK_DIRTY);
	else
		dirty_stack_n(pat, 16 * 1024);
}

static void *junk_alloc(size_t n, uint8_t pat) {
	void *p = malloc(n);
	if (NULL == p) _exit(99);
#ifndef C02_MSAN
	memset(p, pat, n);
#else
	(void)pat;
#endif
	return p;
}

/* ---- cached curve ---- */
static ec_curve_t *g_curve = NULL;
static uint8_t *g_ckey = NULL;
static size_t g_ckey_len = 0;
static int g_curve_rc = -12345;
static ec_curve_str_t g_syn;
static char g_hex[6][1024];

static int load_curve(vin_t *in, uint8_t junk) {
	size_t start = in->o, i, l;
	uint8_t kind = vin_u8(in);
	uint16_t idx = 0;
	uint32_t m = 0, t = 0, h = 0, flags = 0;
	const uint8_t *hx[6];
	size_t hl[6];
	size_t klen;
	uint8_t *key;

	if (0 == kind) {
		idx = vin_u16(in);
	} else {
		m = vin_u32(in); t = vin_u32(in); h = vin_u32(in); flags = vin_u32(in);
		for (i = 0; i < 6; i++) {
			hx[i] = vin_blob(in, &hl[i]);
			if (hl[i] >= sizeof(g_hex[0])) in->bad = 1;
		}
	}
	if (in->bad) return -1;
	klen = (in->o - start) + 1;
	key = malloc(klen);
	memcpy(key, in->p + start, klen - 1);
	key[klen - 1] = junk;
	if (NULL != g_curve && klen == g_ckey_len && 0 == memcmp(key, g_ckey, klen)) {
		free(key);
		return 0;
	}
	free(g_ckey); g_ckey = key; g_ckey_len = klen;
	free(g_curve);
	g_curve = junk_alloc(sizeof(ec_curve_t), junk);
	dirty_stack(junk, 1);
	if (0 == kind) {
		if (idx >= nitems(ec_curve_str)) { g_curve_rc = -2; return 0; }
		g_curve_rc = ecdsa_curve_from_str(&ec_curve_str[idx], g_curve);
	} else {
		memset(&g_syn, 0, sizeof(g_syn));
		for (i = 0; i < 6; i++) { memcpy(g_hex[i], hx[i], hl[i]); g_hex[i][hl[i]] = 0; }
		g_syn.name = "synthetic"; g_syn.name_size = 9;
		g_syn.OID = ""; g_syn.OID_size = 0;
		l = hl[0];
		g_syn.num_size = l;
		g_syn.t = t; g_syn.m = m;
		g_syn.p = g_hex[0]; g_syn.SEED = ""; g_syn.SEED_size = 0;
		g_syn.a = g_hex[1]; g_syn.b = g_hex[2]; g_syn.Gx = g_hex[3]; g_syn.Gy = g_hex[4];
		g_syn.n = g_hex[5];
		g_syn.h = h; g_syn.algo = EC_CURVE_ALGO_ECDSA; g_syn.flags = flags;
		g_curve_rc = ecdsa_curve_from_str(&g_syn, g_curve);
	}
	return 0;
}

typedef struct { uint8_t inf; const uint8_t *x, *y; size_t xl, yl; } pt_in_t;

static void read_pt(vin_t *in, pt_in_t *p) {
	p->inf = vin_u8(in);
	p->x = vin_blob(in, &p->xl);
	p->y = vin_blob(in, &p->yl);
}

static int make_pt(ec_point_t **out, pt_in_t *src, size_t bits, uint8_t junk) {
	ec_point_t *p = junk_alloc(sizeof(ec_point_t), junk);
	*out = p;
	BN_RET_ON_ERR(ec_point_init(p, bits));
	if (src) {
		BN_RET_ON_ERR(bn_import_be_bin(&p->x, src->x, src->xl));
		BN_RET_ON_ERR(bn_import_be_bin(&p->y, src->y, src->yl));
		p->infinity = src->inf ? 1 : 0;
	}
	return 0;
}

static int make_bn(bn_t **out, const uint8_t *b, size_t l, size_t bits, uint8_t junk) {
	bn_t *n = junk_alloc(sizeof(bn_t), junk);
	*out = n;
	BN_RET_ON_ERR(bn_init(n, bits));
	BN_RET_ON_ERR(bn_import_be_bin(n, b, l));
	return 0;
}

static void out_bn(vout_t *o, bn_t *n) {
	/* digits are little-endian and so is the host: the first `digits` digits are the value */
	size_t d = n->digits;
	if (d > BN_MAX_DIGITS) d = BN_MAX_DIGITS;
	vout_blob(o, n->num, d * BN_DIGIT_SIZE);
}

static void do_info(vout_t *o) {
	size_t i;
	vout_u32(o, (uint32_t)BN_DIGIT_BITS);
#ifdef BN_CC_MULL_DIV
	vout_u32(o, 1);
#else
	vout_u32(o, 0);
#endif
	vout_u32(o, BN_BIT_LEN);
#ifdef EC_USE_PROJECTIVE
	vout_u32(o, 1);
#else
	vout_u32(o, 0);
#endif
#ifdef EC_PROJ_ADD_MIX
	vout_u32(o, 1);
#else
	vout_u32(o, 0);
#endif
#ifdef EC_PROJ_REPEAT_DOUBLE
	vout_u32(o, 1);
#else
	vout_u32(o, 0);
#endif
	vout_u32(o, EC_PF_FXP_MULT_ALGO);
	vout_u32(o, EC_PF_FXP_MULT_WIN_BITS);
	vout_u32(o, EC_PF_UNKPT_MULT_ALGO);
	vout_u32(o, EC_PF_UNKPT_MULT_WIN_BITS);
	vout_u32(o, EC_PF_TWIN_MULT_ALGO);
	vout_u64(o, sizeof(ec_curve_t));
	vout_u64(o, sizeof(ec_point_t));
	vout_u32(o, (uint32_t)nitems(ec_curve_str));
	for (i = 0; i < nitems(ec_curve_str); i++)
		vout_blob(o, ec_curve_str[i].name, strlen(ec_curve_str[i].name));
}

int main(void) {
	size_t len;
	uint8_t *c;
	vout_t out = {0};

	/* A case may include loading a curve, i.e. building a 2x511-entry table for a 521-bit curve with
	 * 8-bit digits under ASan: minutes of CPU, not a hang.  The budget is CPU time, not wall-clock. */
	vdrv_case_secs = 1200;
	vdrv_init();
	while ((c = vdrv_next_case(&len))) {
		vin_t in = { c, len, 0, 0 };
		uint8_t op = vin_u8(&in), junk = vin_u8(&in), alias;
		pt_in_t pa, pb;
		const uint8_t *k1b, *k2b;
		size_t k1l, k2l, bits;
		ec_point_t *A = NULL, *B = NULL, *R = NULL, *res = NULL;
		ec_point_proj_t *PJ = NULL;
		bn_t *k1 = NULL, *k2 = NULL;
		int rc_prep = 0, rc = -777;

		if (0 == op) {
			do_info(&out);
			vout_flush(&out);
			free(c);
			continue;
		}
		if (load_curve(&in, junk)) { vout_i32(&out, -9999); vout_flush(&out); free(c); continue; }
		alias = vin_u8(&in);
		read_pt(&in, &pa);
		read_pt(&in, &pb);
		k1b = vin_blob(&in, &k1l);
		k2b = vin_blob(&in, &k2l);
		if (in.bad) { vout_i32(&out, -9998); vout_flush(&out); free(c); continue; }

		vout_i32(&out, g_curve_rc);
		if (0 != g_curve_rc) { vout_flush(&out); free(c); continue; }

		/* library convention (ecdsa.h, ec_self_test): operands are sized "double + 1 digit" */
		bits = EC_CURVE_CALC_BITS_DBL(g_curve);
		rc_prep = make_pt(&A, &pa, bits, junk);
		if (0 == rc_prep) rc_prep = make_pt(&B, &pb, bits, junk);
		if (0 == rc_prep) rc_prep = make_pt(&R, NULL, bits, junk);
		if (0 == rc_prep) rc_prep = make_bn(&k1, k1b, k1l, bits, junk);
		if (0 == rc_prep) rc_prep = make_bn(&k2, k2b, k2l, bits, junk);
		vout_i32(&out, rc_prep);
		if (0 == rc_prep) {
			g_case_no++;
			dirty_stack((uint8_t)(junk ^ 0x5a), 0);
			switch (op) {
			case 1: rc = ec_point_add(A, (alias & 1) ? A : B, g_curve); res = A; break;
			case 2: rc = ec_point_sub(A, (alias & 1) ? A : B, g_curve); res = A; break;
			case 4: rc = ec_point_unknown_pt_mult(A, k1, g_curve); res = A; break;
			case 5: rc = ec_point_mult_bp(k1, g_curve, R); res = R; break;
			case 6: {
				ec_point_t *B2 = (alias & 1) ? A : B;
				res = (1 == (alias >> 1)) ? A : ((2 == (alias >> 1)) ? B2 : R);
				rc = ec_point_twin_mult(A, k1, B2, k2, g_curve, res);
				break;
			}
			case 7:
				res = (2 == (alias >> 1)) ? B : R;
				rc = ec_point_twin_mult_bp(k1, B, k2, g_curve, res);
				break;
			case 8: rc = ec_point_check_affine(A, g_curve); res = NULL; break;
			case 9:
				PJ = junk_alloc(sizeof(ec_point_proj_t), junk);
				rc = ec_point_proj_init(PJ, bits);
				if (0 == rc) rc = ec_point_proj_import_affine(PJ, A, g_curve);
				if (0 == rc) rc = ec_point_proj_export_affine(PJ, R, g_curve);
				res = R;
				break;
			default: rc = -778; break;
			}
			vout_i32(&out, rc);
			if (0 == rc && NULL != res) {
				vout_u8(&out, res->infinity ? 1 : 0);
				if (res->infinity) { vout_blob(&out, "", 0); vout_blob(&out, "", 0); }
				else { out_bn(&out, &res->x); out_bn(&out, &res->y); }
			}
		}
		vout_flush(&out);
		free(A); free(B); free(R); free(k1); free(k2); free(PJ);
		free(c);
	}
	return 0;
}
