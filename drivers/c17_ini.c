/* C17 driver: INI store histories.
 *
 * One protocol case = ONE operation on a store that persists between cases, so an
 * observation is produced after every operation and a sanitizer abort is attributed
 * to the exact operation.  A history starts with OP_RESET.  After a (re)start the
 * driver ignores operations (observation {0xFF}) until the next OP_RESET, so the tail
 * of a history whose driver died is never executed against a wrong store.
 *
 * All inputs are exact-size heap copies.  Generation into a buffer of n bytes is done
 * twice: first into a larger block carrying a canary (bytes >= 0x80, the canonical
 * texts are ASCII) with the library told "n" -- a write past n is then *observed* and
 * the history goes on; only when that run stayed inside n bytes it is repeated into an
 * exact n-byte heap block under ASan (argv[1] == "exact" forces the exact run always:
 * used for replay so that the sanitizer report can be attached to the witness).
 */
#include "vdrv.h"
#include "utils/ini.h"

enum {
	OP_RESET = 0, OP_PARSE = 1, OP_SET = 2, OP_SET_INT = 3, OP_SET_UINT = 4,
	OP_GET = 5, OP_GET_INT = 6, OP_GET_UINT = 7, OP_DUMP = 8, OP_GEN = 9, OP_FIND = 10
};

static ini_p g_ini = NULL;
static int g_synced = 0;
static int g_force_exact = 0;

/* name buffer: exact size, or size+1 with NUL when the "size 0 => strlen" calling form is used */
typedef struct { uint8_t *p; size_t n; size_t alloc; size_t pass; } nbuf_t;

static nbuf_t nb_make(const uint8_t *src, size_t n, int strlen_form) {
	nbuf_t b;
	b.n = n;
	if (strlen_form) {
		b.alloc = n + 1;
		b.p = malloc(b.alloc);
		if (n) memcpy(b.p, src, n);
		b.p[n] = 0;
		b.pass = 0;
	} else {
		b.alloc = n;
		b.p = vx_dup(src, n);
		b.pass = n;
	}
	return b;
}
static void nb_free(nbuf_t *b) {
	if (b->alloc == 0) vx_free(b->p, 0); else free(b->p);
}

static void dump_store(ini_p ini, vout_t *o) {
	size_t soff = 0, voff, nsect = 0, nval, pos_nsect, pos_nval;
	const uint8_t *sn, *vn, *vv;
	size_t sns, vns, vvs;
	uint32_t tmp;

	pos_nsect = o->n;
	vout_u32(o, 0);
	while (0 == ini_sect_enum(ini, &soff, &sn, &sns)) {
		vout_blob(o, sn, sns);
		pos_nval = o->n;
		vout_u32(o, 0);
		nval = 0;
		voff = 0;
		while (0 == ini_sect_val_enum(ini, soff, &voff, &vn, &vns, &vv, &vvs)) {
			vout_blob(o, vn, vns);
			vout_blob(o, vv, vvs);
			nval++;
			voff++;
			if (nval > 1000000) break;
		}
		tmp = (uint32_t)nval;
		memcpy(o->p + pos_nval, &tmp, 4);
		nsect++;
		soff++;
		if (nsect > 1000000) break;
	}
	tmp = (uint32_t)nsect;
	memcpy(o->p + pos_nsect, &tmp, 4);
}

static uint8_t canary_at(size_t i) { return (uint8_t)(0x80u | ((i * 37u + 11u) & 0x7Fu)); }

/* generation into n bytes; returns through pointers; text_out (malloc'ed, size_ret bytes) only when want_text */
static void gen_one(ini_p ini, size_t n, size_t total, int32_t *rc_out, uint64_t *ret_out,
    uint32_t *past_out, uint8_t *exact_out, uint8_t **text_out, size_t *text_len) {
	size_t cap = (n > total ? n : total) + 64, i, ret = (size_t)-1;
	uint8_t *big = malloc(cap), *ex;
	uint32_t past = 0;
	int rc;

	for (i = 0; i < cap; i++) big[i] = canary_at(i);
	*exact_out = 0;
	if (text_out) { *text_out = NULL; *text_len = 0; }
	if (!g_force_exact) {
		rc = ini_buf_gen(ini, big, n, &ret);
		for (i = n; i < cap; i++) if (big[i] != canary_at(i)) past++;
		*rc_out = rc; *ret_out = ret; *past_out = past;
		if (past) { free(big); return; }
	}
	free(big);
	/* exact-size run under ASan */
	ex = vx_alloc(n, 0xEE);
	ret = (size_t)-1;
	rc = ini_buf_gen(ini, ex, n, &ret);
	*rc_out = rc; *ret_out = ret; *past_out = 0; *exact_out = 1;
	if (text_out && rc == 0 && ret <= n) {
		*text_out = malloc(ret ? ret : 1);
		if (ret) memcpy(*text_out, ex, ret);
		*text_len = ret;
	}
	vx_free(ex, n);
}

int main(int argc, char **argv) {
	size_t len;
	uint8_t *c;
	vout_t o = {0};

	if (argc > 1 && 0 == strcmp(argv[1], "exact")) g_force_exact = 1;
	vdrv_init();
	while ((c = vdrv_next_case(&len))) {
		vin_t in = { c, len, 0, 0 };
		uint8_t op = vin_u8(&in);

		vdrv_dirty_stack((uint8_t)(op * 31 + len));
		if (op == OP_RESET) {
			int rc;
			if (g_ini) ini_destroy(g_ini);
			g_ini = NULL;
			rc = ini_create(&g_ini);
			g_synced = 1;
			vout_u8(&o, op); vout_i32(&o, rc);
			vout_flush(&o); free(c);
			continue;
		}
		if (!g_synced || g_ini == NULL) {
			vout_u8(&o, 0xFF);
			vout_flush(&o); free(c);
			continue;
		}
		vout_u8(&o, op);
		switch (op) {
		case OP_PARSE: {
			size_t n; const uint8_t *t = vin_blob(&in, &n);
			uint8_t *x = vx_dup(t, n);
			int rc = ini_buf_parse(g_ini, x, n);
			vx_free(x, n);
			vout_i32(&o, rc);
			dump_store(g_ini, &o);
			break; }
		case OP_SET: case OP_SET_INT: case OP_SET_UINT: {
			uint8_t fl = vin_u8(&in);
			size_t sn, kn, vn = 0; const uint8_t *s, *k, *v = NULL;
			nbuf_t sb, kb; int rc;
			int64_t iv = 0; uint64_t uv = 0;
			s = vin_blob(&in, &sn); k = vin_blob(&in, &kn);
			if (op == OP_SET) v = vin_blob(&in, &vn);
			else if (op == OP_SET_INT) iv = vin_i64(&in);
			else uv = vin_u64(&in);
			sb = nb_make(s, sn, fl & 1); kb = nb_make(k, kn, fl & 2);
			if (op == OP_SET) {
				uint8_t *vb = vx_dup(v, vn);
				rc = ini_val_set(g_ini, sb.p, sb.pass, kb.p, kb.pass, vb, vn);
				vx_free(vb, vn);
			} else if (op == OP_SET_INT) {
				rc = ini_val_set_int(g_ini, sb.p, sb.pass, kb.p, kb.pass, (ssize_t)iv);
			} else {
				rc = ini_val_set_uint(g_ini, sb.p, sb.pass, kb.p, kb.pass, (size_t)uv);
			}
			nb_free(&sb); nb_free(&kb);
			vout_i32(&o, rc);
			dump_store(g_ini, &o);
			break; }
		case OP_GET: case OP_GET_INT: case OP_GET_UINT: {
			uint8_t ci = vin_u8(&in), fl = vin_u8(&in);
			size_t sn, kn; const uint8_t *s, *k;
			nbuf_t sb, kb; int rc;
			s = vin_blob(&in, &sn); k = vin_blob(&in, &kn);
			sb = nb_make(s, sn, fl & 1); kb = nb_make(k, kn, fl & 2);
			if (op == OP_GET) {
				const uint8_t *val = NULL; size_t vs = 0;
				rc = ci ? ini_vali_get(g_ini, sb.p, sb.pass, kb.p, kb.pass, &val, &vs)
				        : ini_val_get(g_ini, sb.p, sb.pass, kb.p, kb.pass, &val, &vs);
				vout_i32(&o, rc);
				if (rc == 0) vout_blob(&o, val, vs); else vout_blob(&o, "", 0);
			} else if (op == OP_GET_INT) {
				ssize_t r = 0;
				rc = ci ? ini_vali_get_int(g_ini, sb.p, sb.pass, kb.p, kb.pass, &r)
				        : ini_val_get_int(g_ini, sb.p, sb.pass, kb.p, kb.pass, &r);
				vout_i32(&o, rc); vout_i64(&o, (int64_t)r);
			} else {
				size_t r = 0;
				rc = ci ? ini_vali_get_uint(g_ini, sb.p, sb.pass, kb.p, kb.pass, &r)
				        : ini_val_get_uint(g_ini, sb.p, sb.pass, kb.p, kb.pass, &r);
				vout_i32(&o, rc); vout_u64(&o, (uint64_t)r);
			}
			nb_free(&sb); nb_free(&kb);
			break; }
		case OP_FIND: {
			/* the public offset-level lookups */
			uint8_t cis = vin_u8(&in), cik = vin_u8(&in);
			size_t sn, kn; const uint8_t *s, *k; uint8_t *sx, *kx;
			size_t soff, voff;
			s = vin_blob(&in, &sn); k = vin_blob(&in, &kn);
			sx = vx_dup(s, sn); kx = vx_dup(k, kn);
			soff = cis ? ini_sect_findi(g_ini, sx, sn) : ini_sect_find(g_ini, sx, sn);
			vout_u8(&o, soff != INI_OFFSET_INVALID);
			if (soff != INI_OFFSET_INVALID) {
				const uint8_t *fn = NULL; size_t fns = 0, so2 = soff;
				if (0 == ini_sect_enum(g_ini, &so2, &fn, &fns) && so2 == soff) vout_blob(&o, fn, fns);
				else vout_blob(&o, "\xff?", 2);
				voff = cik ? ini_sect_val_findi(g_ini, soff, kx, kn) : ini_sect_val_find(g_ini, soff, kx, kn);
				vout_u8(&o, voff != INI_OFFSET_INVALID);
				if (voff != INI_OFFSET_INVALID) {
					const uint8_t *vn2 = NULL, *vv = NULL; size_t vns = 0, vvs = 0, vo2 = voff;
					if (0 == ini_sect_val_enum(g_ini, soff, &vo2, &vn2, &vns, &vv, &vvs) && vo2 == voff) {
						vout_blob(&o, vn2, vns); vout_blob(&o, vv, vvs);
					} else { vout_blob(&o, "\xff?", 2); vout_blob(&o, "", 0); }
				}
			}
			vx_free(sx, sn); vx_free(kx, kn);
			break; }
		case OP_DUMP:
			dump_store(g_ini, &o);
			break;
		case OP_GEN: {
			uint8_t all = vin_u8(&in);
			uint32_t cnt = vin_u32(&in), i, nres = 0;
			size_t total = (size_t)-1, pos_n;
			int crc = ini_buf_calc_size(g_ini, &total);
			uint32_t tmp;
			uint8_t *text = NULL; size_t text_len = 0; int have_text = 0;
			vout_i32(&o, crc); vout_u64(&o, (uint64_t)total);
			pos_n = o.n; vout_u32(&o, 0);
			if (crc != 0 || total > (1u << 24)) break;
			if (all) cnt = (uint32_t)total + 2;
			for (i = 0; i < cnt; i++) {
				size_t n;
				int32_t rc; uint64_t ret; uint32_t past; uint8_t exact;
				if (all) n = i;
				else {
					uint8_t rel = vin_u8(&in); uint32_t k = vin_u32(&in);
					if (rel == 0) n = k;
					else if (rel == 1) { if (k > total) continue; n = total - k; }
					else n = total + k;
				}
				if (n == total && !have_text) {
					gen_one(g_ini, n, total, &rc, &ret, &past, &exact, &text, &text_len);
					have_text = (text != NULL);
				} else {
					gen_one(g_ini, n, total, &rc, &ret, &past, &exact, NULL, NULL);
				}
				vout_u64(&o, n); vout_i32(&o, rc); vout_u64(&o, ret); vout_u32(&o, past); vout_u8(&o, exact);
				nres++;
			}
			tmp = nres; memcpy(o.p + pos_n, &tmp, 4);
			vout_u8(&o, (uint8_t)have_text);
			if (have_text) {
				ini_p ini2 = NULL; int prc;
				uint8_t *tx = vx_dup(text, text_len);
				vout_blob(&o, text, text_len);
				ini_create(&ini2);
				prc = ini_buf_parse(ini2, tx, text_len);
				vout_i32(&o, prc);
				dump_store(ini2, &o);
				ini_destroy(ini2);
				vx_free(tx, text_len);
				free(text);
			}
			break; }
		default:
			vout_u8(&o, 0xFE);
			break;
		}
		vout_flush(&o);
		free(c);
	}
	if (g_ini) ini_destroy(g_ini);
	return 0;
}
