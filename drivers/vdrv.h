/* Driver-side half of the case protocol: length-prefixed cases on stdin,
 * length-prefixed observations on stdout, per-case CPU-time alarm. */
#ifndef VDRV_H
#define VDRV_H

#include <stdint.h>
#include <stddef.h>
#include <stdlib.h>
#include <string.h>
#include <stdio.h>
#include <unistd.h>
#include <signal.h>
#include <sys/time.h>
#include <errno.h>

typedef struct { const uint8_t *p; size_t n; size_t o; int bad; } vin_t;
typedef struct { uint8_t *p; size_t n; size_t cap; } vout_t;

static int vdrv_case_secs = 20;

static void vdrv_on_alarm(int sig) {
	static const char m[] = "\nVERIF-HANG per-case CPU budget exceeded\n";
	(void)sig;
	(void)!write(2, m, sizeof(m) - 1);
	_exit(97);
}

static void vdrv_arm(void) {
	struct itimerval it;
	memset(&it, 0, sizeof(it));
	it.it_value.tv_sec = vdrv_case_secs;
	setitimer(ITIMER_VIRTUAL, &it, NULL);
}

static void vdrv_init(void) {
	signal(SIGVTALRM, vdrv_on_alarm);
	signal(SIGPIPE, SIG_IGN);
}

static int vdrv_read_full(void *buf, size_t n) {
	uint8_t *b = buf; size_t got = 0;
	while (got < n) {
		ssize_t r = read(0, b + got, n - got);
		if (r == 0) return -1;
		if (r < 0) { if (errno == EINTR) continue; return -1; }
		got += (size_t)r;
	}
	return 0;
}

/* Returns malloc'ed case (caller frees) or NULL at EOF. */
static uint8_t *vdrv_next_case(size_t *len) {
	uint32_t l; uint8_t *b;
	if (vdrv_read_full(&l, 4)) return NULL;
	b = malloc(l ? l : 1);
	if (l && vdrv_read_full(b, l)) { free(b); return NULL; }
	*len = l;
	vdrv_arm();
	return b;
}

static void vdrv_write_full(const void *buf, size_t n) {
	const uint8_t *b = buf; size_t put = 0;
	while (put < n) {
		ssize_t r = write(1, b + put, n - put);
		if (r < 0) { if (errno == EINTR) continue; _exit(98); }
		put += (size_t)r;
	}
}

static void vout_reserve(vout_t *o, size_t add) {
	if (o->n + add > o->cap) {
		o->cap = (o->n + add) * 2 + 64;
		o->p = realloc(o->p, o->cap);
	}
}
static void vout_raw(vout_t *o, const void *d, size_t n) { vout_reserve(o, n); if (n) memcpy(o->p + o->n, d, n); o->n += n; }
static void vout_u8(vout_t *o, uint8_t v) { vout_raw(o, &v, 1); }
static void vout_u16(vout_t *o, uint16_t v) { vout_raw(o, &v, 2); }
static void vout_u32(vout_t *o, uint32_t v) { vout_raw(o, &v, 4); }
static void vout_i32(vout_t *o, int32_t v) { vout_raw(o, &v, 4); }
static void vout_u64(vout_t *o, uint64_t v) { vout_raw(o, &v, 8); }
static void vout_i64(vout_t *o, int64_t v) { vout_raw(o, &v, 8); }
static void vout_blob(vout_t *o, const void *d, size_t n) { vout_u32(o, (uint32_t)n); vout_raw(o, d, n); }
static void vout_flush(vout_t *o) {
	uint32_t l = (uint32_t)o->n;
	/* one write for header+payload keeps observations whole when the process dies later */
	uint8_t *tmp = malloc(o->n + 4);
	memcpy(tmp, &l, 4); if (o->n) memcpy(tmp + 4, o->p, o->n);
	vdrv_write_full(tmp, o->n + 4);
	free(tmp);
	o->n = 0;
}

static uint8_t vin_u8(vin_t *i) { if (i->o + 1 > i->n) { i->bad = 1; return 0; } return i->p[i->o++]; }
static uint16_t vin_u16(vin_t *i) { uint16_t v = 0; if (i->o + 2 > i->n) { i->bad = 1; return 0; } memcpy(&v, i->p + i->o, 2); i->o += 2; return v; }
static uint32_t vin_u32(vin_t *i) { uint32_t v = 0; if (i->o + 4 > i->n) { i->bad = 1; return 0; } memcpy(&v, i->p + i->o, 4); i->o += 4; return v; }
static int32_t vin_i32(vin_t *i) { return (int32_t)vin_u32(i); }
static uint64_t vin_u64(vin_t *i) { uint64_t v = 0; if (i->o + 8 > i->n) { i->bad = 1; return 0; } memcpy(&v, i->p + i->o, 8); i->o += 8; return v; }
static int64_t vin_i64(vin_t *i) { return (int64_t)vin_u64(i); }
/* blob: returns pointer into the case and its length */
static const uint8_t *vin_blob(vin_t *i, size_t *n) {
	uint32_t l = vin_u32(i); const uint8_t *p;
	if (i->bad || i->o + l > i->n) { i->bad = 1; *n = 0; return (const uint8_t *)""; }
	p = i->p + i->o; i->o += l; *n = l; return p;
}

/* Exact-size heap copy: the block is exactly n bytes so ASan red zones sit flush
 * against both ends.  n == 0 yields a 1-byte block whose only byte must not be touched;
 * we return a pointer to its END so any access faults. */
static uint8_t *vx_dup(const uint8_t *src, size_t n) {
	uint8_t *b;
	if (n == 0) { b = malloc(1); return b + 1; }
	b = malloc(n); memcpy(b, src, n); return b;
}
static void vx_free(uint8_t *p, size_t n) { if (n == 0) free(p - 1); else free(p); }
static uint8_t *vx_alloc(size_t n, uint8_t fill) {
	uint8_t *b;
	if (n == 0) { b = malloc(1); return b + 1; }
	b = malloc(n); memset(b, fill, n); return b;
}

/* Dirty a few KiB of stack below the caller so stale-stack dependence shows. */
static void __attribute__((noinline)) vdrv_dirty_stack(uint8_t pat) {
	volatile uint8_t junk[12288];
	size_t i;
	for (i = 0; i < sizeof(junk); i++) junk[i] = (uint8_t)(pat + (uint8_t)(i * 7));
	__asm__ volatile("" :: "r"(junk) : "memory");
}

#endif
