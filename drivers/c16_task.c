/* C16 harness: I/O tasks (threadpool_task.c).  One scenario per process.
 * mode 1: read/recv task on one end of a stream socketpair, a feeder thread writes a seeded
 *         payload in fragments with gaps, optionally closing at some point;
 * mode 2: write/send task, a drainer thread reads slowly from the peer;
 * mode 3: packet receiver on a datagram socketpair;
 * mode 4: accept task on a loopback listener with N connecting clients.
 * Observation = callback records + the byte stream reconstructed from the buffer windows. */
#include "tpmon.h"
#include <sys/socket.h>
#include <sys/un.h>
#include <netinet/in.h>
#include <arpa/inet.h>
#include "threadpool/threadpool_task.h"

enum { EV_CB = 1, EV_VIOL, EV_NOTE, EV_FEED, EV_STOP, EV_TIMEOUT, EV_ACCEPT, EV_PKT };
enum { V_CB_AFTER_STOP = 1, V_WINDOW_FIELDS, V_CANARY, V_OUTSIDE_WINDOW, V_EXCEEDS_BUFFER, V_WRONG_THREAD, V_BAD_BUF_PTR, V_CB_WHILE_PAUSED };

static tp_p g_tp; static tpt_p g_owner;
static tp_task_p g_task;
static io_buf_t g_iob; static uint8_t *g_data; static size_t g_S;
static size_t g_win_o, g_win_t, g_used0;
static uint8_t *g_stream; static size_t g_stream_n, g_stream_cap;
static volatile int g_stopped, g_done, g_paused, g_was_paused, g_feeder_paused, g_feeder_resume, g_restarted; static unsigned g_wait_done, g_pause_after;
static unsigned g_on_timeout /*0 stop,1 continue*/, g_on_eof_ret, g_every_read_reset, g_stop_after /* bytes, 0 = never */;
static unsigned g_event_flags, g_task_flags, g_sfio, g_use_tcp, g_has_restart; static uint64_t g_timeout_ms;
static int g_sv[2];
static uint8_t *g_payload; static size_t g_P;
static uint64_t g_nviol;
static uint8_t g_canary_pat;

static void viol(int what, int64_t d) { TM_LOG(EV_VIOL, (uint16_t)what, 0, 0, d); g_nviol++; }
static void on_start(tpt_p tpt) { if (tpt_get_current() == tpt) tm_tid = (uint32_t)tpt_get_num(tpt); }

static void fill_canary(void) { memset(g_data, g_canary_pat, g_S); }
static void set_window(size_t o, size_t t) {
	g_win_o = o; g_win_t = t; g_used0 = o;
	g_iob.used = o; g_iob.offset = o; g_iob.transfer_size = t;
	fill_canary();
}
static void pick_window(void) {
	uint64_t r = tm_rand(); size_t o, t;
	switch (r & 7) {
	case 0: o = 0; t = g_S; break;
	case 1: o = 0; t = 1; break;
	case 2: o = g_S - 1; t = 1; break;
	case 3: if (g_S > 2) { o = 1; t = g_S - 2; } else { o = 0; t = g_S; } break;
	default: o = (size_t)((r >> 8) % g_S); t = 1 + (size_t)((r >> 32) % (g_S - o)); break;
	}
	if (o >= g_S) o = g_S - 1;
	if (o + t > g_S) t = g_S - o;
	if (t == 0) { o = 0; t = g_S; }
	set_window(o, t);
}
static void stream_add(const uint8_t *p, size_t n) {
	if (!n) return;
	if (g_stream_n + n > g_stream_cap) { g_stream_cap = (g_stream_n + n) * 2 + 4096; g_stream = realloc(g_stream, g_stream_cap); }
	memcpy(g_stream + g_stream_n, p, n); __atomic_store_n(&g_stream_n, g_stream_n + n, __ATOMIC_RELEASE);
}

/* ---- mode 1: read task callback */
static int read_cb(tp_task_p tptask, int error, io_buf_p buf, uint32_t eof, size_t tr, void *udata) {
	size_t i; int ret;
	(void)udata;
	if (tpt_get_current() != g_owner) viol(V_WRONG_THREAD, 0);
	TM_LOG(EV_CB, (uint16_t)eof, (uint64_t)(int64_t)error, tr, (int64_t)(((uint64_t)buf->offset << 32) | (uint64_t)(uint32_t)buf->transfer_size));
	if (g_stopped) { viol(V_CB_AFTER_STOP, error); return TP_TASK_CB_NONE; }
	if (g_paused) viol(V_CB_WHILE_PAUSED, (int64_t)tr); /* dispatch task returned NONE: silent until tp_task_enable(1) */
	if (buf != &g_iob) { viol(V_BAD_BUF_PTR, 0); return TP_TASK_CB_NONE; }
	if (tr > g_win_t) viol(V_EXCEEDS_BUFFER, (int64_t)tr);
	else {
		if (buf->offset != g_win_o + tr || buf->transfer_size != g_win_t - tr ||
		    buf->used != ((g_used0 + tr) > g_S ? g_S : (g_used0 + tr)) || buf->offset + buf->transfer_size > buf->size)
			viol(V_WINDOW_FIELDS, (int64_t)(((uint64_t)buf->used << 40) | ((uint64_t)buf->offset << 20) | buf->transfer_size));
		for (i = 0; i < g_win_o; i++) if (g_data[i] != g_canary_pat) { viol(V_OUTSIDE_WINDOW, (int64_t)i); break; }
		for (i = g_win_o + tr; i < g_S; i++) if (g_data[i] != g_canary_pat) { viol(V_OUTSIDE_WINDOW, (int64_t)i); break; }
		stream_add(g_data + g_win_o, tr);
	}
	if (error == ETIMEDOUT) {
		if (!g_on_timeout) { tp_task_stop(tptask); __atomic_store_n(&g_stopped, 1, __ATOMIC_RELEASE); TM_LOG(EV_STOP, 1, 0, 0, 0); return TP_TASK_CB_NONE; }
		pick_window();
		return TP_TASK_CB_CONTINUE;
	}
	if (error != 0) { tp_task_stop(tptask); __atomic_store_n(&g_stopped, 1, __ATOMIC_RELEASE); TM_LOG(EV_STOP, 2, 0, 0, error); return TP_TASK_CB_ERROR; }
	if (eof != 0 && tr == 0) { /* end of stream */
		tp_task_stop(tptask); __atomic_store_n(&g_stopped, 1, __ATOMIC_RELEASE); TM_LOG(EV_STOP, 3, 0, 0, 0);
		ret = g_on_eof_ret ? TP_TASK_CB_EOF : TP_TASK_CB_NONE;
		return ret;
	}
	if (g_stop_after && g_stream_n >= g_stop_after) { /* stop in the middle of the stream: nothing may arrive afterwards */
		tp_task_stop(tptask); __atomic_store_n(&g_stopped, 1, __ATOMIC_RELEASE); TM_LOG(EV_STOP, 4, 0, 0, 0);
		return TP_TASK_CB_NONE;
	}
	if (g_pause_after && !g_was_paused && g_stream_n >= g_pause_after && (g_event_flags & TP_F_DISPATCH)) {
		/* manual mode: return NONE without stopping; nothing may be delivered until we enable the task again */
		pick_window();
		g_was_paused = 1; __atomic_store_n(&g_paused, 1, __ATOMIC_RELEASE); TM_LOG(EV_NOTE, 5, g_stream_n, 0, 0);
		return TP_TASK_CB_NONE;
	}
	if (buf->transfer_size == 0 || g_every_read_reset) pick_window();
	else { g_win_o = buf->offset; g_win_t = buf->transfer_size; g_used0 = buf->used; /* keep filling the same window */
	       /* bytes before the new window start now hold data: refresh the canary image */
	       memset(g_data, g_canary_pat, g_S); }
	if (g_event_flags & TP_F_ONESHOT) { /* one-shot tasks may not return CONTINUE: restart by hand */
		int rc = tp_task_restart(tptask);
		if (rc) { TM_LOG(EV_NOTE, 9, 0, 0, rc); __atomic_store_n(&g_stopped, 1, __ATOMIC_RELEASE); }
		return TP_TASK_CB_NONE;
	}
	return TP_TASK_CB_CONTINUE;
}

/* ---- mode 2: write task callback */
static volatile uint64_t g_wr_cb_cnt; static size_t g_wr_total;
static int write_cb(tp_task_p tptask, int error, io_buf_p buf, uint32_t eof, size_t tr, void *udata) {
	(void)udata;
	if (tpt_get_current() != g_owner) viol(V_WRONG_THREAD, 0);
	TM_LOG(EV_CB, (uint16_t)eof, (uint64_t)(int64_t)error, tr, (int64_t)(((uint64_t)buf->offset << 32) | (uint64_t)(uint32_t)buf->transfer_size));
	if (g_stopped) { viol(V_CB_AFTER_STOP, error); return TP_TASK_CB_NONE; }
	g_wr_total += tr;
	if (buf->offset + buf->transfer_size > buf->size) viol(V_WINDOW_FIELDS, 0);
	if (error == 0 && buf->transfer_size != 0 && !eof) return TP_TASK_CB_CONTINUE;
	tp_task_stop(tptask); __atomic_store_n(&g_stopped, 1, __ATOMIC_RELEASE); TM_LOG(EV_STOP, error ? 2 : 5, 0, 0, error);
	return TP_TASK_CB_NONE;
}

/* ---- mode 3: packet receiver: every datagram must land at the start of the buffer window */
static void pick_window3(void) {
	uint64_t r = tm_rand(); size_t o, t, used;
	o = (size_t)((r >> 8) % (g_S - 200 + 1));
	t = 200 + (size_t)((r >> 32) % (g_S - o - 200 + 1));
	switch (r & 3) { case 0: used = o; break; case 1: used = 0; break; case 2: used = (size_t)((r >> 20) % (o + 1)); break; default: used = o + (size_t)((r >> 20) % (g_S - o)); break; }
	g_win_o = o; g_win_t = t; g_used0 = used;
	g_iob.used = used; g_iob.offset = o; g_iob.transfer_size = t;
	fill_canary();
}
static int pkt_cb(tp_task_p tptask, int error, struct sockaddr_storage *addr, io_buf_p buf, size_t tr, void *udata) {
	size_t i;
	(void)addr; (void)udata;
	TM_LOG(EV_PKT, 0, (uint64_t)(int64_t)error, tr, (int64_t)(((uint64_t)buf->offset << 32) | (uint64_t)(uint32_t)buf->transfer_size));
	if (g_stopped) { viol(V_CB_AFTER_STOP, error); return TP_TASK_CB_NONE; }
	if (error) { tp_task_stop(tptask); __atomic_store_n(&g_stopped, 1, __ATOMIC_RELEASE); return TP_TASK_CB_NONE; }
	if (tr > g_win_t) viol(V_EXCEEDS_BUFFER, (int64_t)tr);
	else {
		if (buf->offset != g_win_o + tr || buf->transfer_size != g_win_t - tr ||
		    buf->used != ((g_used0 + tr) > g_S ? g_S : (g_used0 + tr)))
			viol(V_WINDOW_FIELDS, (int64_t)(((uint64_t)buf->used << 40) | ((uint64_t)buf->offset << 20) | buf->transfer_size));
		for (i = 0; i < g_win_o; i++) if (g_data[i] != g_canary_pat) { viol(V_OUTSIDE_WINDOW, (int64_t)i); break; }
		for (i = g_win_o + tr; i < g_S; i++) if (g_data[i] != g_canary_pat) { viol(V_OUTSIDE_WINDOW, (int64_t)i); break; }
		stream_add(g_data + g_win_o, tr);
	}
	pick_window3();
	return TP_TASK_CB_CONTINUE;
}

/* ---- mode 4: accept */
static volatile uint64_t g_accepted;
static int accept_cb(tp_task_p tptask, int error, uintptr_t skt_new, struct sockaddr_storage *addr, void *udata) {
	(void)tptask; (void)addr; (void)udata;
	TM_LOG(EV_ACCEPT, 0, (uint64_t)(int64_t)error, (uint64_t)skt_new, 0);
	if (g_stopped) viol(V_CB_AFTER_STOP, error);
	if (error == 0) { char c = 0; if (1 == recv((int)skt_new, &c, 1, 0)) { TM_LOG(EV_NOTE, 4, (uint64_t)(uint8_t)c, 0, 0); } close((int)skt_new); __atomic_add_fetch(&g_accepted, 1, __ATOMIC_RELAXED); }
	return TP_TASK_CB_CONTINUE;
}

/* ---- plan executed on the owning thread */
static unsigned g_mode;
/* "connect and receive" (header comment of tp_task_connect_cb): the task is created by tp_task_connect_create(), its
 * callback switches the handler to the send/receive one and starts the read with the scenario's own timeout */
static unsigned g_via_connect;
static int read_cb(tp_task_p tptask, int error, io_buf_p buf, uint32_t eof, size_t tr, void *udata);
static int connect_cb(tp_task_p tptask, int error, void *udata) {
	int rc;
	(void)udata;
	TM_LOG(EV_NOTE, 10, (uint64_t)(int64_t)error, 0, 0);
	if (error) { __atomic_store_n(&g_stopped, 1, __ATOMIC_RELEASE); return TP_TASK_CB_NONE; }
	tp_task_tp_cb_func_set(tptask, tp_task_sr_handler);
	rc = tp_task_start_ex((int)g_sfio, tptask, TP_EV_READ, (uint16_t)g_event_flags, g_timeout_ms, 0, &g_iob, read_cb);
	TM_LOG(EV_NOTE, 1, 0, 0, rc);
	return TP_TASK_CB_NONE;
}
static void start_cb(tpt_p tpt, void *udata) {
	int rc = 0;
	(void)udata;
	if (g_mode == 1 && g_via_connect) {
		rc = tp_task_connect_create(tpt, (uintptr_t)g_sv[0], 0, 5000, connect_cb, NULL, &g_task);
		if (rc) TM_LOG(EV_NOTE, 1, 0, 0, rc);
		return;
	}
	/* g_owner was set by main before this message was sent (same value) */
	if (g_mode == 1) {
		rc = tp_task_create(tpt, (uintptr_t)g_sv[0], tp_task_sr_handler, g_task_flags, NULL, &g_task);
		if (!rc) rc = tp_task_start_ex((int)g_sfio, g_task, TP_EV_READ, (uint16_t)g_event_flags, g_timeout_ms, 0, &g_iob, read_cb);
	} else if (g_mode == 2) {
		rc = tp_task_create(tpt, (uintptr_t)g_sv[0], tp_task_sr_handler, g_task_flags, NULL, &g_task);
		if (!rc) rc = tp_task_start_ex((int)g_sfio, g_task, TP_EV_WRITE, (uint16_t)g_event_flags, g_timeout_ms, 0, &g_iob, write_cb);
	} else if (g_mode == 3) {
		rc = tp_task_pkt_rcvr_create(tpt, (uintptr_t)g_sv[0], g_task_flags, g_timeout_ms, &g_iob, pkt_cb, NULL, &g_task);
	}
	TM_LOG(EV_NOTE, 1, 0, 0, rc);
}
static void resume_cb(tpt_p tpt, void *udata) {
	int rc;
	(void)tpt; (void)udata;
	if (!g_paused || !g_task) return;
	__atomic_store_n(&g_paused, 0, __ATOMIC_RELEASE);
	rc = tp_task_enable(g_task, 1);
	TM_LOG(EV_NOTE, 6, 0, 0, rc);
}
/* stop the task in mid-stream (possibly with bytes read but not yet reported) and start it again with a new window */
static void restart_cb(tpt_p tpt, void *udata) {
	int rc = -1;
	(void)tpt; (void)udata;
	if (g_task && !g_stopped && !g_paused) {
		size_t unreported = (g_iob.offset >= g_win_o && g_iob.offset - g_win_o <= g_win_t) ? (g_iob.offset - g_win_o) : 0;
		stream_add(g_data + g_win_o, unreported); /* the user can see them in the buffer; the callback count must not include them later */
		tp_task_stop(g_task);
		set_window(0, g_S < 8 ? g_S : 8);
		rc = tp_task_start_ex((int)g_sfio, g_task, TP_EV_READ, (uint16_t)g_event_flags, g_timeout_ms, 0, &g_iob, read_cb);
		TM_LOG(EV_NOTE, 8, unreported, 0, rc);
	}
	__atomic_store_n(&g_restarted, 1, __ATOMIC_RELEASE);
}
static unsigned g_close_before_destroy;
static void destroy_cb(tpt_p tpt, void *udata) {
	(void)tpt; (void)udata;
	/* the application closed the descriptor itself before it stops / destroys the task: removing the descriptor event then
	 * fails with EBADF, everything else of the task (its timeout timer) must be torn down all the same */
	if (g_close_before_destroy && g_task && g_sv[0] >= 0) { close(g_sv[0]); g_sv[0] = -1; }
	if (g_task) { tp_task_destroy(g_task); g_task = NULL; }
	__atomic_store_n(&g_stopped, 1, __ATOMIC_RELEASE);
	TM_LOG(EV_STOP, 9, 0, 0, 0);
	__atomic_store_n(&g_done, 1, __ATOMIC_RELEASE);
}

/* ---- feeder / drainer */
typedef struct { uint32_t n; uint32_t gap_us; } frag_t;
static frag_t *g_frags; static unsigned g_nfrags; static unsigned g_close_mode /*0 keep open,1 close at end,2 shutdown(WR) at end*/;
static void *feeder(void *arg) {
	unsigned i; size_t off = 0;
	(void)arg; tm_tid = 1000;
	for (i = 0; i < g_nfrags && off < g_P; i++) {
		size_t n = g_frags[i].n, put = 0;
		if (g_frags[i].gap_us == 0xffffffffu) { /* pause marker: main restarts the task, then resumes us */
			__atomic_store_n(&g_feeder_paused, 1, __ATOMIC_RELEASE);
			while (!__atomic_load_n(&g_feeder_resume, __ATOMIC_ACQUIRE)) { struct timespec ts = {0, 300000}; nanosleep(&ts, NULL); }
			continue;
		}
		if (g_frags[i].gap_us) { struct timespec ts = { g_frags[i].gap_us / 1000000, (long)(g_frags[i].gap_us % 1000000) * 1000 }; nanosleep(&ts, NULL); }
		if (off + n > g_P) n = g_P - off;
		while (put < n) {
			ssize_t w = send(g_sv[1], g_payload + off + put, n - put, MSG_NOSIGNAL);
			if (w < 0) { if (errno == EINTR) continue; TM_LOG(EV_FEED, 1, off + put, 0, errno); goto out; }
			put += (size_t)w;
		}
		off += n;
		TM_LOG(EV_FEED, 0, off, n, 0);
	}
out:
	if (g_close_mode == 3) { /* abortive close: RST */
		struct linger lg = {1, 0}; struct timespec ts = {0, 2000000};
		nanosleep(&ts, NULL);
		setsockopt(g_sv[1], SOL_SOCKET, SO_LINGER, &lg, sizeof(lg)); close(g_sv[1]); g_sv[1] = -1;
	} else if (g_close_mode == 1) { close(g_sv[1]); g_sv[1] = -1; }
	else if (g_close_mode == 2) shutdown(g_sv[1], SHUT_WR);
	TM_LOG(EV_FEED, 2, off, 0, g_close_mode);
	return NULL;
}
static uint8_t *g_drained; static size_t g_drained_n; static unsigned g_drain_chunk, g_drain_gap_us, g_drain_stop_after;
static void *drainer(void *arg) {
	(void)arg; tm_tid = 1001;
	g_drained = malloc(g_P + 16);
	for (;;) {
		ssize_t r; size_t want = g_drain_chunk;
		if (g_drain_gap_us) { struct timespec ts = {0, (long)g_drain_gap_us * 1000}; nanosleep(&ts, NULL); }
		if (g_drained_n + want > g_P + 16) want = g_P + 16 - g_drained_n;
		if (!want) break;
		r = recv(g_sv[1], g_drained + g_drained_n, want, 0);
		if (r <= 0) break;
		g_drained_n += (size_t)r;
		if (g_drain_stop_after && g_drained_n >= g_drain_stop_after) { close(g_sv[1]); g_sv[1] = -1; break; }
		if (g_drained_n >= g_win_t) break;
	}
	return NULL;
}

int main(void) {
	size_t len; uint8_t *c; vout_t o = {0}; vin_t in; tp_settings_t s; int rc; unsigned i, nclients = 0, sndbuf = 0;
	uint64_t seed; pthread_t th; const uint8_t *pp; size_t pn; struct sockaddr_in lst; int lfd = -1; socklen_t sl;
	unsigned quiesce_ms;

	vdrv_case_secs = 60; vdrv_init(); tm_watchdog(120);
	c = vdrv_next_case(&len); if (!c) return 0;
	in.p = c; in.n = len; in.o = 0; in.bad = 0;
	seed = vin_u64(&in); g_mode = vin_u8(&in);
	g_S = vin_u32(&in); g_win_o = vin_u32(&in); g_win_t = vin_u32(&in);
	g_event_flags = vin_u8(&in); g_task_flags = vin_u8(&in); g_sfio = vin_u8(&in); g_timeout_ms = vin_u32(&in);
	g_close_before_destroy = (g_task_flags & 0x80) != 0; g_via_connect = (g_task_flags & 0x40) != 0; g_task_flags &= 0x3f; /* bits 6, 7 are harness flags */
	g_on_timeout = vin_u8(&in); g_on_eof_ret = vin_u8(&in); g_every_read_reset = vin_u8(&in); g_stop_after = vin_u32(&in);
	g_close_mode = vin_u8(&in); quiesce_ms = vin_u32(&in); g_wait_done = vin_u8(&in); g_pause_after = vin_u32(&in); g_use_tcp = vin_u8(&in);
	g_drain_chunk = vin_u32(&in); g_drain_gap_us = vin_u32(&in); g_drain_stop_after = vin_u32(&in); sndbuf = vin_u32(&in); nclients = vin_u16(&in);
	pp = vin_blob(&in, &pn); g_P = pn; g_payload = malloc(pn + 1); memcpy(g_payload, pp, pn);
	g_nfrags = vin_u16(&in); g_frags = calloc(g_nfrags + 1, sizeof(frag_t));
	for (i = 0; i < g_nfrags; i++) { g_frags[i].n = vin_u32(&in); g_frags[i].gap_us = vin_u32(&in); if (g_frags[i].gap_us == 0xffffffffu) g_has_restart = 1; }
	if (in.bad || g_S == 0) { fprintf(stderr, "bad case\n"); return 3; }
	tm_scn_seed = seed; tm_tid = 999; g_canary_pat = (uint8_t)(0xA5 ^ (seed & 0x3f));

	g_data = malloc(g_S);                       /* exact size: ASan red zones flush against both ends */
	memset(&g_iob, 0, sizeof(g_iob)); g_iob.data = g_data; g_iob.size = g_S;
	if (g_mode == 2) { /* write: the window holds the payload slice that must reach the peer */
		memset(g_data, 0x11, g_S);
		if (g_win_o + g_win_t > g_S) g_win_t = g_S - g_win_o;
		for (i = 0; i < g_win_t; i++) g_data[g_win_o + i] = g_payload[i % (g_P ? g_P : 1)];
		g_iob.used = g_win_o + g_win_t; g_iob.offset = g_win_o; g_iob.transfer_size = g_win_t;
		g_P = g_win_t;
	} else if (g_mode == 3) { pick_window3(); }
	else { if (g_win_o + g_win_t > g_S) g_win_t = g_S - g_win_o; set_window(g_win_o, g_win_t); }

	if (g_mode == 4) {
		lfd = socket(AF_INET, SOCK_STREAM | SOCK_NONBLOCK, 0);
		memset(&lst, 0, sizeof(lst)); lst.sin_family = AF_INET; lst.sin_addr.s_addr = htonl(INADDR_LOOPBACK); lst.sin_port = 0;
		if (bind(lfd, (struct sockaddr *)&lst, sizeof(lst)) || listen(lfd, 64)) { fprintf(stderr, "listen failed\n"); return 3; }
		sl = sizeof(lst); getsockname(lfd, (struct sockaddr *)&lst, &sl);
	} else if (g_use_tcp && g_mode == 1) { /* TCP loopback pair: the peer can reset the connection */
		int l = socket(AF_INET, SOCK_STREAM, 0), one = 1; struct sockaddr_in a; socklen_t al = sizeof(a);
		memset(&a, 0, sizeof(a)); a.sin_family = AF_INET; a.sin_addr.s_addr = htonl(INADDR_LOOPBACK);
		if (bind(l, (struct sockaddr *)&a, sizeof(a)) || listen(l, 4) || getsockname(l, (struct sockaddr *)&a, &al)) { fprintf(stderr, "tcp listen failed\n"); return 3; }
		g_sv[1] = socket(AF_INET, SOCK_STREAM, 0);
		if (connect(g_sv[1], (struct sockaddr *)&a, sizeof(a))) { fprintf(stderr, "tcp connect failed\n"); return 3; }
		g_sv[0] = accept4(l, NULL, NULL, SOCK_NONBLOCK);
		close(l);
		setsockopt(g_sv[1], IPPROTO_TCP, 1 /* TCP_NODELAY */, &one, sizeof(one));
		if (g_sv[0] < 0) { fprintf(stderr, "tcp accept failed\n"); return 3; }
	} else if (socketpair(AF_UNIX, (g_mode == 3 ? SOCK_DGRAM : SOCK_STREAM) | SOCK_NONBLOCK, 0, g_sv)) { fprintf(stderr, "socketpair failed\n"); return 3; }
	if (g_mode != 4 && !g_use_tcp) { int fl = fcntl(g_sv[1], F_GETFL); fcntl(g_sv[1], F_SETFL, fl & ~O_NONBLOCK); }
	if (sndbuf && g_mode == 2) { int v = (int)sndbuf; setsockopt(g_sv[0], SOL_SOCKET, SO_SNDBUF, &v, sizeof(v)); }

	/* TP_TASK_F_CLOSE_ON_DESTROY: somebody else holds the same open file description (dup(), a forked child ...), so
	 * closing the descriptor alone does not end its event registration */
	if ((g_task_flags & 1) && g_mode != 4) (void)dup(g_sv[0]);
	tp_settings_def(&s); s.threads_max = 2; s.flags = 0; s.tpt_on_start = on_start;
	rc = tp_create(&s, &g_tp); if (rc) { fprintf(stderr, "tp_create rc=%d\n", rc); return 3; }
	tp_threads_create(g_tp, 0);
	g_owner = tp_thread_get(g_tp, 0);
	if (g_mode == 4) {
		rc = tp_task_accept_create(g_owner, (uintptr_t)lfd, 0, 0, accept_cb, NULL, &g_task);
		TM_LOG(EV_NOTE, 1, 0, 0, rc);
		for (i = 0; i < nclients; i++) {
			int cfd = socket(AF_INET, SOCK_STREAM, 0); char b = (char)i;
			if (connect(cfd, (struct sockaddr *)&lst, sizeof(lst))) TM_LOG(EV_NOTE, 3, i, 0, errno);
			else (void)!send(cfd, &b, 1, MSG_NOSIGNAL);
			close(cfd);
			if ((tm_rand() & 3) == 0) { struct timespec ts = {0, 300000}; nanosleep(&ts, NULL); }
		}
		tm_wait_ge(&g_accepted, nclients, 10000);
	} else {
		tpt_msg_send(g_owner, NULL, 0, start_cb, NULL);
		if (g_mode == 2) pthread_create(&th, NULL, drainer, NULL); else pthread_create(&th, NULL, feeder, NULL);
		if (g_mode == 1 && g_nfrags && g_has_restart) {
			uint64_t t0 = tm_now();
			while (!__atomic_load_n(&g_feeder_paused, __ATOMIC_ACQUIRE) && tm_now() - t0 < 20000000000ull) { struct timespec ts = {0, 300000}; nanosleep(&ts, NULL); }
			{ struct timespec ts = {0, 30000000}; nanosleep(&ts, NULL); } /* let the pool thread consume what was sent so far */
			tpt_msg_send(g_owner, NULL, 0, restart_cb, NULL);
			t0 = tm_now();
			while (!__atomic_load_n(&g_restarted, __ATOMIC_ACQUIRE) && tm_now() - t0 < 20000000000ull) { struct timespec ts = {0, 300000}; nanosleep(&ts, NULL); }
			__atomic_store_n(&g_feeder_resume, 1, __ATOMIC_RELEASE);
		}
		pthread_join(th, NULL);
		if (g_pause_after) { /* the feeder is done: everything is in the socket; once the task paused itself stay silent a little, then resume */
			uint64_t t0 = tm_now();
			while (!__atomic_load_n(&g_paused, __ATOMIC_ACQUIRE) && !__atomic_load_n(&g_stopped, __ATOMIC_ACQUIRE) && tm_now() - t0 < 40000000000ull) {
				struct timespec ts = {0, 300000}; nanosleep(&ts, NULL);
			}
			{ struct timespec ts = {0, 20000000}; nanosleep(&ts, NULL); }
			tpt_msg_send(g_owner, NULL, 0, resume_cb, NULL);
		}
	}
	if (g_wait_done && g_mode != 4) { /* logical quiescence: the task reached its own end (EOF / stop / completion) or the whole payload arrived */
		uint64_t t0 = tm_now();
		while (!__atomic_load_n(&g_stopped, __ATOMIC_ACQUIRE) && !(g_mode == 3 && __atomic_load_n(&g_stream_n, __ATOMIC_ACQUIRE) >= g_P)) {
			struct timespec ts = {0, 300000}; nanosleep(&ts, NULL);
			if (tm_now() - t0 > 40000000000ull) { TM_LOG(EV_NOTE, 7, 0, 0, 0); break; }
		}
	}
	{ struct timespec ts = { quiesce_ms / 1000, (long)(quiesce_ms % 1000) * 1000000 }; nanosleep(&ts, NULL); }
	tpt_msg_send(g_owner, NULL, 0, destroy_cb, NULL);
	{ uint64_t t0 = tm_now(); while (!__atomic_load_n(&g_done, __ATOMIC_ACQUIRE)) { struct timespec ts = {0, 300000}; nanosleep(&ts, NULL); if (tm_now() - t0 > 20000000000ull) { TM_LOG(EV_TIMEOUT, 0, 0, 0, 0); break; } } }
	/* provoke late callbacks: more data after destroy */
	if (g_mode == 1 && g_sv[1] >= 0) { (void)!send(g_sv[1], "late", 4, MSG_NOSIGNAL | MSG_DONTWAIT); }
	{ struct timespec ts = {0, 5000000}; nanosleep(&ts, NULL); }
	if (g_close_before_destroy && g_timeout_ms) { /* a timeout timer left armed would fire now */
		uint64_t ns = (uint64_t)g_timeout_ms * 2500000ull; struct timespec ts = { (time_t)(ns / 1000000000ull), (long)(ns % 1000000000ull) };
		nanosleep(&ts, NULL);
	}
	tp_shutdown(g_tp); tp_shutdown_wait(g_tp); tp_destroy(g_tp);

	vout_u32(&o, 0xC16C16); vout_u8(&o, (uint8_t)g_mode);
	vout_u64(&o, g_nviol);
	vout_blob(&o, g_stream ? g_stream : (uint8_t *)"", g_stream_n);
	vout_blob(&o, g_drained ? g_drained : (uint8_t *)"", g_drained_n);
	vout_u64(&o, (uint64_t)g_wr_total);
	vout_u64(&o, __atomic_load_n(&g_accepted, __ATOMIC_RELAXED));
	tm_dump(&o); vout_flush(&o);
	return 0;
}
