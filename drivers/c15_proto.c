/* C15 driver: DNS message assembly / parse-back and RADIUS packet assembly / signing /
 * verification, executed on exact-size heap buffers.  Includes the headers straight from
 * the repository; nothing of the library is copied. */
#include <sys/param.h>
#include <sys/types.h>
#include <errno.h>
#include <arpa/inet.h>
#include "vdrv.h"
#include "proto/dns.h"
#include "proto/radius.h"

#define NAME_OUT_SZ 1024

static vout_t O;

static uint8_t *dup_blob(vin_t *in, size_t *n) {
	const uint8_t *p = vin_blob(in, n);
	return vx_dup(p, *n);
}

/* ------------------------------------------------------------------ DNS build */
static void dns_parse_back(uint8_t *msg, size_t msg_size, const uint8_t *find, size_t find_len) {
	dns_hdr_p hdr = (dns_hdr_p)msg;
	size_t qd_off = 0, an_off = 0, ns_off = 0, ar_off = 0, rr_count = 0, sz = 0;
	int rc;
	uint8_t *name = vx_alloc(NAME_OUT_SZ, 0xEE);
	size_t i, off, cnt;

	rc = dns_msg_validate(hdr, msg_size);
	vout_i32(&O, rc);
	rc = dns_msg_info_get(hdr, msg_size, &qd_off, &an_off, &ns_off, &ar_off, &rr_count, &sz);
	vout_i32(&O, rc);
	vout_u64(&O, qd_off); vout_u64(&O, an_off); vout_u64(&O, ns_off); vout_u64(&O, ar_off);
	vout_u64(&O, rr_count); vout_u64(&O, sz);
	vout_u16(&O, dns_hdr_qd_get(hdr)); vout_u16(&O, dns_hdr_an_get(hdr));
	vout_u16(&O, dns_hdr_ns_get(hdr)); vout_u16(&O, dns_hdr_ar_get(hdr));
	vout_u16(&O, dns_hdr_id_get(hdr)); vout_u16(&O, dns_hdr_flags_get(hdr));
	vout_u8(&O, dns_hdr_rcode_get(hdr));

	/* questions */
	cnt = dns_hdr_qd_get(hdr);
	off = sizeof(dns_hdr_t);
	vout_u16(&O, (uint16_t)cnt);
	for (i = 0; i < cnt; i++) {
		size_t nlen = NAME_OUT_SZ, qsz = 0;
		uint16_t qt = 0, qc = 0;
		memset(name, 0xEE, NAME_OUT_SZ);
		rc = dns_msg_question_get_data(hdr, msg_size, off, name, &nlen, &qt, &qc, &qsz);
		vout_i32(&O, rc);
		if (rc != 0) break;
		vout_u64(&O, off);
		vout_blob(&O, name, nlen < NAME_OUT_SZ ? nlen : 0);
		vout_u64(&O, nlen);
		vout_u8(&O, nlen < NAME_OUT_SZ ? name[nlen] : 0xFF); /* terminator */
		vout_u16(&O, qt); vout_u16(&O, qc); vout_u64(&O, qsz);
		off += qsz;
	}
	/* records */
	cnt = (size_t)dns_hdr_an_get(hdr) + dns_hdr_ns_get(hdr) + dns_hdr_ar_get(hdr);
	vout_u16(&O, (uint16_t)cnt);
	for (i = 0; i < cnt; i++) {
		size_t nlen = NAME_OUT_SZ, rsz = 0;
		uint16_t t = 0, c = 0, dsz = 0;
		uint32_t ttl = 0;
		void *data = NULL;
		memset(name, 0xEE, NAME_OUT_SZ);
		rc = dns_msg_rr_get_data(hdr, msg_size, off, name, &nlen, &t, &c, &ttl, &dsz, &data, &rsz);
		vout_i32(&O, rc);
		if (rc != 0) break;
		vout_u64(&O, off);
		vout_blob(&O, name, nlen < NAME_OUT_SZ ? nlen : 0);
		vout_u64(&O, nlen);
		vout_u8(&O, nlen < NAME_OUT_SZ ? name[nlen] : 0xFF);
		vout_u16(&O, t); vout_u16(&O, c); vout_u32(&O, ttl); vout_u16(&O, dsz);
		vout_i64(&O, data ? (int64_t)((uint8_t *)data - msg) : -1);
		vout_u64(&O, rsz);
		off += rsz;
	}
	/* rr_find: the way dns_resolv.c walks it */
	{
		size_t foff = an_off, left = rr_count, guard = 0;
		vout_u8(&O, 0xAB);
		for (;;) {
			uint16_t t = 0, c = 0, dsz = 0;
			uint32_t ttl = 0;
			void *data = NULL;
			size_t rsz = 0;
			rc = dns_msg_rr_find(hdr, msg_size, &foff, &left, find, find_len, &t, &c, &ttl, &dsz, &data, &rsz);
			vout_i32(&O, rc);
			if (rc != 0 || ++guard > 4096) break;
			vout_u64(&O, foff); vout_u64(&O, left);
			vout_u16(&O, t); vout_u16(&O, c); vout_u32(&O, ttl); vout_u16(&O, dsz);
			vout_i64(&O, data ? (int64_t)((uint8_t *)data - msg) : -1);
			vout_u64(&O, rsz);
			foff += rsz;
		}
	}
	vx_free(name, NAME_OUT_SZ);
}

static void op_dns_build(vin_t *in) {
	uint16_t id = vin_u16(in);
	dns_hdr_flags_t fl;
	uint32_t bufsize;
	uint8_t fill, *buf, do_parse;
	size_t find_len, msg_size = 0, nops, i;
	uint8_t *find;
	dns_hdr_p hdr;
	int rc;

	fl.u16 = 0;
	fl.bits.qr = vin_u8(in); fl.bits.opcode = vin_u8(in); fl.bits.aa = vin_u8(in); fl.bits.tc = vin_u8(in);
	fl.bits.rd = vin_u8(in); fl.bits.ra = vin_u8(in); fl.bits.z = vin_u8(in); fl.bits.ad = vin_u8(in);
	fl.bits.cd = vin_u8(in); fl.bits.rcode = vin_u8(in);
	bufsize = vin_u32(in);
	fill = vin_u8(in);
	find = dup_blob(in, &find_len);
	nops = vin_u16(in);
	do_parse = vin_u8(in);
	buf = vx_alloc(bufsize, fill);
	hdr = (dns_hdr_p)buf;

	vdrv_dirty_stack(fill);
	rc = dns_hdr_create(id, fl.u16, hdr, bufsize, &msg_size);
	vout_i32(&O, rc);
	vout_u64(&O, msg_size);
	if (rc != 0) {
		vout_blob(&O, buf, bufsize);
		goto done;
	}
	for (i = 0; i < nops && !in->bad; i++) {
		uint8_t kind = vin_u8(in);
		size_t ret = (size_t)-1;
		if (kind == 1) {
			size_t nl; uint8_t *nm = dup_blob(in, &nl);
			uint16_t qt = vin_u16(in), qc = vin_u16(in);
			rc = dns_msg_question_add(hdr, msg_size, bufsize, 0, nm, nl, qt, qc, &ret);
			vx_free(nm, nl);
			vout_i32(&O, rc); vout_u64(&O, ret);
			if (rc == 0) msg_size = ret;
		} else if (kind == 2) {
			uint8_t sec = vin_u8(in);
			size_t nl, dl; uint8_t *nm = dup_blob(in, &nl);
			uint16_t t = vin_u16(in), c = vin_u16(in);
			uint32_t ttl = vin_u32(in);
			uint8_t *d = dup_blob(in, &dl);
			rc = dns_msg_rr_add(hdr, msg_size, bufsize, 0, nm, nl, t, c, ttl, (uint16_t)dl, d, &ret);
			vx_free(nm, nl); vx_free(d, dl);
			vout_i32(&O, rc); vout_u64(&O, ret);
			if (rc == 0) { /* the caller maintains the section counters (see dns_resolv.c) */
				msg_size = ret;
				if (sec == 1) dns_hdr_an_inc(hdr, 1);
				else if (sec == 2) dns_hdr_ns_inc(hdr, 1);
				else dns_hdr_ar_inc(hdr, 1);
			}
		} else {
			uint16_t udp = vin_u16(in);
			uint8_t ver = vin_u8(in), xr = vin_u8(in), d0 = vin_u8(in), z = vin_u8(in);
			size_t dl; uint8_t *d = dup_blob(in, &dl);
			dns_ex_flags_t ef;
			ef.u16 = 0; ef.bits.d0 = d0; ef.bits.z = z;
			rc = dns_msg_optrr_add(hdr, msg_size, bufsize, udp, ver, xr, ef.u16, (uint16_t)dl, d, &ret);
			vx_free(d, dl);
			vout_i32(&O, rc); vout_u64(&O, ret);
			if (rc == 0) { msg_size = ret; dns_hdr_ar_inc(hdr, 1); }
		}
	}
	vout_u64(&O, msg_size);
	vout_blob(&O, buf, bufsize);
	vout_u8(&O, (do_parse && msg_size <= bufsize) ? 1 : 0);
	if (do_parse && msg_size <= bufsize) {
		uint8_t *msg = vx_dup(buf, msg_size);
		dns_parse_back(msg, msg_size, find, find_len);
		vx_free(msg, msg_size);
	}
done:
	vx_free(buf, bufsize);
	vx_free(find, find_len);
}

/* ------------------------------------------------------------------ DNS names */
static void op_dns_name(vin_t *in) {
	size_t nl; uint8_t *nm = dup_blob(in, &nl);
	uint32_t lsz = vin_u32(in), nsz = vin_u32(in);
	uint8_t *lb = vx_alloc(lsz, 0xCD);
	size_t ret = (size_t)-1;
	int rc;

	vdrv_dirty_stack(0x5a);
	rc = DomainNameToSequenceOfLabels(nm, nl, lb, lsz, &ret);
	vout_i32(&O, rc); vout_u64(&O, ret); vout_blob(&O, lb, lsz);
	if (rc == 0 && ret <= lsz) {
		uint8_t *seq = vx_dup(lb, ret);
		uint8_t *nb = vx_alloc(nsz, 0xEE);
		size_t sz = (size_t)-1, back = (size_t)-1;
		int rc2 = SequenceOfLabelsGetSize(seq, ret, &sz);
		vout_i32(&O, rc2); vout_u64(&O, sz);
		rc2 = SequenceOfLabelsToDomainName(seq, ret, nb, nsz, &back);
		vout_i32(&O, rc2); vout_u64(&O, back); vout_blob(&O, nb, nsz);
		vx_free(nb, nsz);
		vx_free(seq, ret);
	}
	/* the in-message variants */
	{
		size_t msz = sizeof(dns_hdr_t) + lsz;
		uint8_t *m = vx_alloc(msz, 0xCD);
		size_t r2 = (size_t)-1;
		rc = dns_msg_name2sequence_of_labels((dns_hdr_p)m, msz, sizeof(dns_hdr_t), nm, nl, 0, &r2);
		vout_i32(&O, rc); vout_u64(&O, r2); vout_blob(&O, m + sizeof(dns_hdr_t), lsz);
		if (rc == 0 && r2 <= lsz) {
			size_t tot = sizeof(dns_hdr_t) + r2, ln = (size_t)-1, back = (size_t)-1;
			uint8_t *mm = vx_dup(m, tot);
			uint8_t *nb = vx_alloc(nsz, 0xEE);
			int rc2 = dns_msg_sequence_of_labels_get_name_len((dns_hdr_p)mm, tot, sizeof(dns_hdr_t), &ln);
			vout_i32(&O, rc2); vout_u64(&O, ln);
			if (nsz != 0) {
				rc2 = dns_msg_sequence_of_labels2name((dns_hdr_p)mm, tot, sizeof(dns_hdr_t), nb, nsz, &back);
			} else {
				rc2 = -2; /* documented precondition: name_buf_size != 0 */
			}
			vout_i32(&O, rc2); vout_u64(&O, back); vout_blob(&O, nb, nsz);
			vx_free(nb, nsz); vx_free(mm, tot);
		}
		vx_free(m, msz);
	}
	vx_free(lb, lsz);
	vx_free(nm, nl);
}

/* ------------------------------------------------------------------ RADIUS */
static void rad_list(rad_pkt_hdr_p pkt) {
	size_t len = RADIUS_PKT_HDR_LEN_GET(pkt), off = RADIUS_PKT_HDR_SIZE, n = 0, guard = 0;
	size_t mark = O.n;
	vout_u16(&O, 0);
	while (off < len && guard++ < 4096) {
		uint8_t t = 0, *d = NULL; size_t l = 0;
		int rc = radius_pkt_attr_get_data_ptr_raw(pkt, off, &t, &d, &l);
		if (rc != 0) break;
		vout_u8(&O, t); vout_u32(&O, (uint32_t)off); vout_blob(&O, d, l);
		off += l + 2;
		n++;
	}
	O.p[mark] = (uint8_t)(n & 0xff); O.p[mark + 1] = (uint8_t)(n >> 8);
}

static void op_rad_build(vin_t *in) {
	uint8_t mode = vin_u8(in), code = vin_u8(in), id = vin_u8(in), auth_present = vin_u8(in);
	uint8_t auth[16];
	size_t req_len, key_len, nattrs, i, size_ret = (size_t)-1;
	uint8_t *req, *key, *buf, fill, add_ma;
	uint32_t bufsize;
	rad_pkt_hdr_p pkt;
	int rc;

	for (i = 0; i < 16; i++) auth[i] = vin_u8(in);
	req = dup_blob(in, &req_len);
	bufsize = vin_u32(in);
	fill = vin_u8(in);
	key = dup_blob(in, &key_len);
	add_ma = vin_u8(in);
	nattrs = vin_u16(in);
	buf = vx_alloc(bufsize, fill);
	pkt = (rad_pkt_hdr_p)buf;

	vdrv_dirty_stack(fill);
	if (mode == 1)
		rc = radius_pkt_reply_init(pkt, bufsize, &size_ret, code, req_len ? (rad_pkt_hdr_p)req : NULL);
	else
		rc = radius_pkt_init(pkt, bufsize, &size_ret, code, id, auth_present ? auth : NULL);
	vout_i32(&O, rc); vout_u64(&O, size_ret);
	if (rc != 0) {
		vout_blob(&O, buf, bufsize);
		goto done;
	}
	for (i = 0; i < nattrs && !in->bad; i++) {
		uint8_t kind = vin_u8(in), t = vin_u8(in), t2 = vin_u8(in);
		size_t dl, sret = (size_t)-1, oret = (size_t)-1;
		uint8_t *d = dup_blob(in, &dl);
		if (kind == 0) {
			rc = radius_pkt_attr_add(pkt, bufsize, &sret, t, (uint8_t)dl, d, &oret);
		} else if (kind == 4) {
			rc = radius_pkt_attr_add_raw(pkt, bufsize, &sret, t, (uint8_t)dl, d, NULL, &oret);
		} else if (kind == 1) {
			uint32_t v = 0;
			if (dl >= 4) memcpy(&v, d, 4);
			rc = radius_pkt_attr_add_uint32(pkt, bufsize, &sret, t, v, &oret);
		} else {
			struct sockaddr_storage ss;
			memset(&ss, 0, sizeof(ss));
			if (dl == 1 + 4 + 2 && d[0] == 4) {
				struct sockaddr_in *s4 = (struct sockaddr_in *)&ss;
				s4->sin_family = AF_INET;
				memcpy(&s4->sin_addr, d + 1, 4);
				memcpy(&s4->sin_port, d + 5, 2);
			} else if (dl == 1 + 16 + 2 && d[0] == 6) {
				struct sockaddr_in6 *s6 = (struct sockaddr_in6 *)&ss;
				s6->sin6_family = AF_INET6;
				memcpy(&s6->sin6_addr, d + 1, 16);
				memcpy(&s6->sin6_port, d + 17, 2);
			}
			if (kind == 2)
				rc = radius_pkt_attr_add_addr(pkt, bufsize, &sret, t, t2, &ss, &oret);
			else
				rc = radius_pkt_attr_add_port(pkt, bufsize, &sret, t, &ss, &oret);
		}
		vx_free(d, dl);
		vout_i32(&O, rc); vout_u64(&O, sret); vout_u64(&O, oret);
		vout_u16(&O, RADIUS_PKT_HDR_LEN_GET(pkt));
	}
	/* before signing */
	vout_blob(&O, buf, bufsize);
	vout_i32(&O, radius_pkt_chk(pkt, bufsize));
	rad_list(pkt);
	/* sign */
	size_ret = (size_t)-1;
	rc = radius_pkt_sign(pkt, bufsize, &size_ret, key, key_len, add_ma);
	vout_i32(&O, rc); vout_u64(&O, size_ret);
	vout_blob(&O, buf, bufsize);
	{
		size_t plen = RADIUS_PKT_HDR_LEN_GET(pkt);
		vout_i32(&O, radius_pkt_chk(pkt, bufsize));
		rad_list(pkt);
		if (rc == 0 && plen >= RADIUS_PKT_HDR_SIZE && plen <= bufsize) {
			/* receiver side on an exact-size copy */
			uint8_t *cp = vx_dup(buf, plen);
			rad_pkt_hdr_p rp = (rad_pkt_hdr_p)cp;
			uint8_t calc[16];
			size_t poff = 0;
			int rc2;
			memset(calc, 0xEE, 16);
			vout_u8(&O, 1);
			vout_i32(&O, radius_pkt_chk(rp, plen));
			rc2 = radius_pkt_authenticator_calc(rp, key, key_len, 0, req_len ? (rad_pkt_hdr_p)req : NULL, calc);
			vout_i32(&O, rc2); vout_raw(&O, calc, 16);
			rc2 = radius_pkt_verify(rp, key, key_len, req_len ? (rad_pkt_hdr_p)req : NULL);
			vout_i32(&O, rc2);
			if (0 == radius_pkt_attr_find(rp, 0, RADIUS_ATTR_TYPE_USER_PASSWORD, &poff)) {
				uint8_t t = 0, *d = NULL; size_t l = 0;
				rc2 = radius_pkt_attr_get_data_ptr(rp, poff, &t, &d, &l);
				vout_u8(&O, 1); vout_i32(&O, rc2);
				vout_blob(&O, d, rc2 == 0 ? l : 0);
			} else {
				vout_u8(&O, 0);
			}
			vx_free(cp, plen);
		} else {
			vout_u8(&O, 0);
		}
	}
done:
	vx_free(buf, bufsize);
	vx_free(key, key_len);
	vx_free(req, req_len);
}

static void op_rad_verify(vin_t *in) {
	size_t pl, kl, rl;
	uint8_t *p = dup_blob(in, &pl);
	uint8_t *k = dup_blob(in, &kl);
	uint8_t *r = dup_blob(in, &rl);
	int rc;

	vdrv_dirty_stack(0x33);
	rc = radius_pkt_chk((rad_pkt_hdr_p)p, pl);
	vout_i32(&O, rc);
	if (rc == 0) {
		rc = radius_pkt_verify((rad_pkt_hdr_p)p, k, kl, rl ? (rad_pkt_hdr_p)r : NULL);
		vout_i32(&O, rc);
	} else {
		vout_i32(&O, -9999);
	}
	vx_free(p, pl); vx_free(k, kl); vx_free(r, rl);
}

static void op_rad_pw(vin_t *in) {
	uint8_t auth[16];
	size_t i, pl, kl, el, ret = (size_t)-1;
	uint8_t *pw, *key, *enc_in, *eb, *db;
	uint32_t esz, dsz;
	int rc;

	for (i = 0; i < 16; i++) auth[i] = vin_u8(in);
	pw = dup_blob(in, &pl);
	key = dup_blob(in, &kl);
	enc_in = dup_blob(in, &el);
	esz = vin_u32(in); dsz = vin_u32(in);
	eb = vx_alloc(esz, 0xCD);
	db = vx_alloc(dsz, 0xEE);
	vdrv_dirty_stack(0x77);
	rc = radius_pkt_attr_password_encode(auth, pw, pl, key, kl, eb, esz, &ret);
	vout_i32(&O, rc); vout_u64(&O, ret); vout_blob(&O, eb, esz);
	ret = (size_t)-1;
	rc = radius_pkt_attr_password_decode(auth, enc_in, el, key, kl, db, dsz, &ret);
	vout_i32(&O, rc); vout_u64(&O, ret); vout_blob(&O, db, dsz);
	vx_free(eb, esz); vx_free(db, dsz);
	vx_free(pw, pl); vx_free(key, kl); vx_free(enc_in, el);
}

int main(void) {
	uint8_t *c; size_t len;
	vdrv_init();
	while ((c = vdrv_next_case(&len))) {
		vin_t in = { c, len, 0, 0 };
		uint8_t op = vin_u8(&in);
		switch (op) {
		case 1: op_dns_build(&in); break;
		case 2: op_dns_name(&in); break;
		case 3: op_rad_build(&in); break;
		case 4: op_rad_verify(&in); break;
		case 5: op_rad_pw(&in); break;
		default: break;
		}
		vout_u8(&O, in.bad ? 0xBD : 0x0C); /* trailer: case fully consumed */
		vout_flush(&O);
		free(c);
	}
	return 0;
}
