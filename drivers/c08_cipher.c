/* C08 driver: ChaCha / HChaCha / XChaCha and GOST 28147-89 entry points of
 * include/crypto/cipher/{chacha,gost28147}.h executed on exact-size heap buffers.
 *
 * Every data buffer is a heap block of exactly (align + len) bytes with the data at
 * offset `align`, so the data END is flush against the end of the allocation (ASan
 * red zone) and the start has the requested alignment (malloc gives 16-byte aligned
 * blocks, so align 0..15 selects the address modulo 16).  The `align` slack bytes in
 * front carry a canary that is verified after the call.
 *
 * Both headers define static helpers with the same names (U8TO32_LITTLE ...); the second
 * include is done with those two identifiers renamed by the preprocessor.
 */
#include "vdrv.h"

#include <crypto/cipher/chacha.h>
#define U8TO32_LITTLE	c08_gost_U8TO32_LITTLE
#define U32TO8_LITTLE	c08_gost_U32TO8_LITTLE
#include <crypto/cipher/gost28147.h>
#undef U8TO32_LITTLE
#undef U32TO8_LITTLE

#if defined(__has_feature)
#  if __has_feature(memory_sanitizer)
#    define C08_MSAN 1
#  endif
#endif

enum { OP_HELLO = 0, OP_CHACHA = 1, OP_HCHACHA = 2, OP_GOST_CRYPT = 16, OP_GOST_MAC = 17 };

typedef struct { uint8_t *base, *p; size_t n, a; uint8_t canary; } vbuf_t;

/* init != NULL: copy n bytes; else fill with `pat` (left uninitialised under MSan so that an
 * output byte the library did not write is reported when it is sent out). */
static vbuf_t vb_make(size_t n, unsigned a, const uint8_t *init, uint8_t pat) {
	vbuf_t b;
	size_t total = a + n;
	b.n = n; b.a = a; b.canary = (uint8_t)(pat ^ 0x5a);
	b.base = malloc(total ? total : 1);
	b.p = total ? b.base + a : b.base + 1;
#ifndef C08_MSAN
	if (a) memset(b.base, b.canary, a);
#endif
	if (n) {
		if (init) memcpy(b.p, init, n);
#ifndef C08_MSAN
		else memset(b.p, pat, n);
#endif
	}
	return b;
}
static int vb_canary_ok(const vbuf_t *b) {
#ifndef C08_MSAN
	size_t i;
	for (i = 0; i < b->a; i++) if (b->base[i] != b->canary) return 0;
#endif
	(void)b;
	return 1;
}
static void vb_free(vbuf_t *b) { free(b->base); b->base = b->p = NULL; }

static void *ctx_alloc(size_t n, uint8_t pat) {
	void *p = NULL;
	if (posix_memalign(&p, 16, n)) _exit(99);
#ifndef C08_MSAN
	memset(p, pat, n);
#endif
	(void)pat;
	return p;
}

static const struct { const char *name; const uint8_t *tab; } c08_sboxes[] = {
	{ "id_gostr3411_94_testparamset_sbox", id_gostr3411_94_testparamset_sbox },
	{ "id_gost28147_89_cryptopro_a_paramset_sbox", id_gost28147_89_cryptopro_a_paramset_sbox },
	{ "id_gost28147_89_cryptopro_b_paramset_sbox", id_gost28147_89_cryptopro_b_paramset_sbox },
	{ "id_gost28147_89_cryptopro_c_paramset_sbox", id_gost28147_89_cryptopro_c_paramset_sbox },
	{ "id_gost28147_89_cryptopro_d_paramset_sbox", id_gost28147_89_cryptopro_d_paramset_sbox },
	{ "id_tc26_gost_28147_param_z_sbox", id_tc26_gost_28147_param_z_sbox },
};
#define C08_NSBOX (sizeof(c08_sboxes) / sizeof(c08_sboxes[0]))

static void do_hello(vout_t *o) {
	size_t i;
	vout_u32(o, (uint32_t)C08_NSBOX);
	for (i = 0; i < C08_NSBOX; i++) {
		vout_blob(o, c08_sboxes[i].name, strlen(c08_sboxes[i].name));
		vout_blob(o, c08_sboxes[i].tab, 128);
	}
#ifdef GOST28147_USE_SMALL_TABLES
	vout_u8(o, 1);
#else
	vout_u8(o, 0);
#endif
	vout_u32(o, (uint32_t)sizeof(chacha_context_t));
	vout_u32(o, (uint32_t)sizeof(chacha_context_str_t));
	vout_u32(o, (uint32_t)sizeof(gost28147_context_t));
}

/* ------------------------------------------------------------------ ChaCha */
static void do_chacha(vin_t *in, vout_t *o, uint8_t pat) {
	uint8_t api = vin_u8(in), x = vin_u8(in), rounds = vin_u8(in);
	uint16_t key_size = vin_u16(in);
	size_t klen, ivlen, dlen, off = 0;
	const uint8_t *kp = vin_blob(in, &klen);
	uint8_t ctr_mode = vin_u8(in);
	uint64_t counter = vin_u64(in);
	uint8_t has_iv = vin_u8(in);
	const uint8_t *ivp = vin_blob(in, &ivlen);
	uint8_t src_mode = vin_u8(in);
	const uint8_t *data = vin_blob(in, &dlen);
	uint16_t nchunks = vin_u16(in), ci;
	vbuf_t key, iv, ctr;
	uint8_t ctr_le[8];
	uint8_t *out;
	uint8_t src_intact = 1, guards = 1;
	uint64_t ctr_after = 0;
	uint32_t ks_len = 0;
	chacha_context_str_p sctx = NULL;
	chacha_context_p bctx = NULL;
	const uint8_t *ctr_arg, *iv_arg;
	int i;

	if (in->bad) { vout_u8(o, 0xEE); return; }
	for (i = 0; i < 8; i++) ctr_le[i] = (uint8_t)(counter >> (8 * i));
	key = vb_make(klen, 0, kp, pat);
	iv = vb_make(ivlen, 0, ivp, pat);
	ctr = vb_make(8, 0, ctr_le, pat);
	ctr_arg = (ctr_mode == 1) ? ctr.p : NULL;
	iv_arg = has_iv ? iv.p : NULL;
	out = malloc(dlen ? dlen : 1);

	if (api == 0) {
		sctx = ctx_alloc(sizeof(*sctx), pat);
		if (x) xchacha_str_init(sctx, key.p, key_size, ctr_arg, iv_arg, rounds);
		else chacha_str_init(sctx, key.p, key_size, ctr_arg, iv_arg, rounds);
		if (ctr_mode == 2) chacha_counter_set_u64(&sctx->c, counter);
	} else if (api == 2) {
		bctx = ctx_alloc(sizeof(*bctx), pat);
		if (x) xchacha_init(bctx, key.p, key_size, ctr_arg, iv_arg, rounds);
		else chacha_init(bctx, key.p, key_size, ctr_arg, iv_arg, rounds);
		if (ctr_mode == 2) chacha_counter_set_u64(bctx, counter);
	}

	for (ci = 0; ci < nchunks && !in->bad; ci++) {
		uint32_t len = vin_u32(in);
		uint8_t sa = vin_u8(in), da = vin_u8(in);
		vbuf_t sb, db;
		const uint8_t *sp;
		uint8_t *dp;
		if (in->bad || off + len > dlen) { in->bad = 1; break; }
		sb = vb_make(len, sa, data + off, pat);
		if (src_mode == 2) { db = sb; dp = sb.p; sp = sb.p; }
		else {
			db = vb_make(len, da, NULL, (uint8_t)(pat + 1 + ci));
			dp = db.p;
			sp = (src_mode == 1) ? NULL : sb.p;
		}
		vdrv_dirty_stack((uint8_t)(pat + ci));
		if (api == 0) {
			chacha_str_data_crypt(sctx, sp, len, dp);
		} else if (api == 1) {
			if (x) xchacha(key.p, key_size, ctr_arg, iv_arg, rounds, sp, len, dp);
			else chacha(key.p, key_size, ctr_arg, iv_arg, rounds, sp, len, dp);
		} else {
			chacha_blocks_transform(bctx, sp, len / CHACHA_BLOCK_LEN, dp);
		}
		if (len) memcpy(out + off, dp, len);
		if (src_mode != 2) {
			if (len && memcmp(sb.p, data + off, len)) src_intact = 0;
			if (!vb_canary_ok(&db)) guards = 0;
			vb_free(&db);
		}
		if (!vb_canary_ok(&sb)) guards = 0;
		vb_free(&sb);
		off += len;
	}
	if (api == 0) {
		ctr_after = chacha_counter_get_u64(&sctx->c);
		ks_len = (uint32_t)sctx->ks_len;
		chacha_str_final(sctx);
		free(sctx);
	} else if (api == 2) {
		ctr_after = chacha_counter_get_u64(bctx);
		chacha_final(bctx);
		free(bctx);
	}
	if (klen && memcmp(key.p, kp, klen)) src_intact = 0;
	if (ivlen && memcmp(iv.p, ivp, ivlen)) src_intact = 0;

	vout_u8(o, in->bad ? 0xEE : 0);
	vout_blob(o, out, off);
	vout_u8(o, src_intact);
	vout_u8(o, guards);
	vout_u64(o, ctr_after);
	vout_u32(o, ks_len);
	free(out);
	vb_free(&key); vb_free(&iv); vb_free(&ctr);
}

static void do_hchacha(vin_t *in, vout_t *o, uint8_t pat) {
	uint8_t rounds = vin_u8(in);
	uint16_t key_size = vin_u16(in);
	size_t klen, ivlen;
	const uint8_t *kp = vin_blob(in, &klen);
	uint8_t has_iv = vin_u8(in);
	const uint8_t *ivp = vin_blob(in, &ivlen);
	uint8_t da = vin_u8(in);
	vbuf_t key, iv, dst;

	if (in->bad) { vout_u8(o, 0xEE); return; }
	key = vb_make(klen, 0, kp, pat);
	iv = vb_make(ivlen, 0, ivp, pat);
	dst = vb_make(32, da, NULL, pat);
	vdrv_dirty_stack(pat);
	hchacha(key.p, key_size, has_iv ? iv.p : NULL, rounds, dst.p);
	vout_u8(o, 0);
	vout_blob(o, dst.p, 32);
	vout_u8(o, (uint8_t)((!klen || !memcmp(key.p, kp, klen)) && (!ivlen || !memcmp(iv.p, ivp, ivlen))));
	vout_u8(o, (uint8_t)vb_canary_ok(&dst));
	vb_free(&key); vb_free(&iv); vb_free(&dst);
}

/* -------------------------------------------------------------------- GOST */
static const uint8_t *get_sbox(vin_t *in, vbuf_t *custom, uint8_t pat) {
	uint8_t id = vin_u8(in);
	custom->base = NULL;
	if (id == 255) {
		size_t n; const uint8_t *p = vin_blob(in, &n);
		if (n != 128) { in->bad = 1; return NULL; }
		*custom = vb_make(128, 0, p, pat);
		return custom->p;
	}
	if (id >= C08_NSBOX) { in->bad = 1; return NULL; }
	return c08_sboxes[id].tab;
}

static void do_gost_crypt(vin_t *in, vout_t *o, uint8_t pat) {
	uint8_t be = vin_u8(in), dir = vin_u8(in);
	vbuf_t custom, key, s1, d1, s2, d2;
	const uint8_t *sbox = get_sbox(in, &custom, pat);
	uint16_t key_size = vin_u16(in);
	size_t klen, dlen, nblk;
	const uint8_t *kp = vin_blob(in, &klen);
	uint8_t ka = vin_u8(in), sa = vin_u8(in), da = vin_u8(in), sa2 = vin_u8(in), da2 = vin_u8(in);
	const uint8_t *data = vin_blob(in, &dlen);
	gost28147_context_p ctx;
	int rc, rc2 = 0;
	uint8_t intact = 1, guards = 1;

	if (in->bad || klen != GOST28147_KEY_SIZE) { vout_u8(o, 0xEE); return; }
	nblk = dlen / GOST28147_BLK_SIZE;
	key = vb_make(klen, ka, kp, pat);
	s1 = vb_make(dlen, sa, data, pat);
	d1 = vb_make(dlen, da, NULL, (uint8_t)(pat + 1));
	ctx = ctx_alloc(sizeof(*ctx), pat);
	vdrv_dirty_stack(pat);
	rc = be ? gost28147_init_be(key.p, key_size, sbox, ctx) : gost28147_init(key.p, key_size, sbox, ctx);
	if (rc == 0) {
		if (dir == 1) {
			if (be) gost28147_blocks_decrypt_be(ctx, s1.p, nblk, d1.p);
			else gost28147_blocks_decrypt(ctx, s1.p, nblk, d1.p);
		} else {
			if (be) gost28147_blocks_encrypt_be(ctx, s1.p, nblk, d1.p);
			else gost28147_blocks_encrypt(ctx, s1.p, nblk, d1.p);
		}
		gost28147_final(ctx, NULL, 0);
	}
	vout_u8(o, 0);
	vout_i32(o, rc);
	if (rc == 0) vout_blob(o, d1.p, dlen); else vout_blob(o, "", 0);
	if (dlen && memcmp(s1.p, data, dlen)) intact = 0;
	if (!vb_canary_ok(&s1) || !vb_canary_ok(&d1)) guards = 0;
	if (dir == 2 && rc == 0) {
		/* decrypt the library's own cipher text, possibly at other alignments */
		s2 = vb_make(dlen, sa2, d1.p, pat);
		d2 = vb_make(dlen, da2, NULL, (uint8_t)(pat + 2));
#ifndef C08_MSAN
		memset(ctx, (uint8_t)(pat + 3), sizeof(*ctx));
#endif
		vdrv_dirty_stack((uint8_t)(pat + 3));
		rc2 = be ? gost28147_init_be(key.p, key_size, sbox, ctx) : gost28147_init(key.p, key_size, sbox, ctx);
		if (rc2 == 0) {
			if (be) gost28147_blocks_decrypt_be(ctx, s2.p, nblk, d2.p);
			else gost28147_blocks_decrypt(ctx, s2.p, nblk, d2.p);
			gost28147_final(ctx, NULL, 0);
		}
		vout_i32(o, rc2);
		if (rc2 == 0) vout_blob(o, d2.p, dlen); else vout_blob(o, "", 0);
		if (!vb_canary_ok(&s2) || !vb_canary_ok(&d2)) guards = 0;
		vb_free(&s2); vb_free(&d2);
	}
	if (memcmp(key.p, kp, klen)) intact = 0;
	vout_u8(o, intact);
	vout_u8(o, guards);
	free(ctx);
	vb_free(&key); vb_free(&s1); vb_free(&d1);
	if (custom.base) vb_free(&custom);
}

static void do_gost_mac(vin_t *in, vout_t *o, uint8_t pat) {
	uint8_t be = vin_u8(in);
	vbuf_t custom, key, mac;
	const uint8_t *sbox = get_sbox(in, &custom, pat);
	uint16_t key_size = vin_u16(in);
	size_t klen;
	const uint8_t *kp = vin_blob(in, &klen);
	uint8_t ka = vin_u8(in), mac_size = vin_u8(in), mac_align = vin_u8(in), mac_null = vin_u8(in);
	uint16_t nchunks = vin_u16(in), ci;
	gost28147_context_p ctx;
	int rc;
	uint8_t intact = 1, guards = 1;

	if (in->bad || klen != GOST28147_KEY_SIZE) { vout_u8(o, 0xEE); return; }
	key = vb_make(klen, ka, kp, pat);
	mac = vb_make(mac_size, mac_align, NULL, (uint8_t)(pat + 7));
	ctx = ctx_alloc(sizeof(*ctx), pat);
	vdrv_dirty_stack(pat);
	rc = be ? gost28147_init_be(key.p, key_size, sbox, ctx) : gost28147_init(key.p, key_size, sbox, ctx);
	for (ci = 0; ci < nchunks && !in->bad; ci++) {
		uint8_t sa = vin_u8(in), also;
		size_t n; const uint8_t *p = vin_blob(in, &n);
		vbuf_t sb;
		if (in->bad) break;
		also = sa & 0x40; sa &= 0x0f; /* bit 6: the same context also encrypts the chunk after it was MAC-ed (MAC-then-encrypt on one context) */
		sb = vb_make(n, sa, p, pat);
		if (rc == 0) {
			if (be) gost28147_blocks_mac_be(ctx, sb.p, n / GOST28147_BLK_SIZE);
			else gost28147_blocks_mac(ctx, sb.p, n / GOST28147_BLK_SIZE);
			if (also && n >= GOST28147_BLK_SIZE) {
				vbuf_t db = vb_make(n, (sa + 1) & 7, NULL, pat);
				if (be) gost28147_blocks_encrypt_be(ctx, sb.p, n / GOST28147_BLK_SIZE, db.p);
				else gost28147_blocks_encrypt(ctx, sb.p, n / GOST28147_BLK_SIZE, db.p);
				if (!vb_canary_ok(&db)) guards = 0;
				vb_free(&db);
			}
		}
		if (n && memcmp(sb.p, p, n)) intact = 0;
		if (!vb_canary_ok(&sb)) guards = 0;
		vb_free(&sb);
	}
	if (rc == 0) {
		if (be) gost28147_final_be(ctx, mac_null ? NULL : mac.p, mac_size);
		else gost28147_final(ctx, mac_null ? NULL : mac.p, mac_size);
	}
	if (!vb_canary_ok(&mac)) guards = 0;
	vout_u8(o, in->bad ? 0xEE : 0);
	vout_i32(o, rc);
	if (rc == 0 && !mac_null) vout_blob(o, mac.p, mac_size); else vout_blob(o, "", 0);
	vout_u8(o, intact);
	vout_u8(o, guards);
	free(ctx);
	vb_free(&key); vb_free(&mac);
	if (custom.base) vb_free(&custom);
}

int main(void) {
	uint8_t *c; size_t len;
	vout_t o = {0};
	vdrv_init();
	while ((c = vdrv_next_case(&len))) {
		vin_t in = { c, len, 0, 0 };
		uint8_t op = vin_u8(&in), pat = vin_u8(&in);
		switch (op) {
		case OP_HELLO: do_hello(&o); break;
		case OP_CHACHA: do_chacha(&in, &o, pat); break;
		case OP_HCHACHA: do_hchacha(&in, &o, pat); break;
		case OP_GOST_CRYPT: do_gost_crypt(&in, &o, pat); break;
		case OP_GOST_MAC: do_gost_mac(&in, &o, pat); break;
		default: vout_u8(&o, 0xEF); break;
		}
		vout_flush(&o);
		free(c);
	}
	return 0;
}
