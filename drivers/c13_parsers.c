/* C13 driver: network message parsers of liblcb on hostile packets.
 *
 * Every message is copied into an exact-size heap block (vx_dup), so a read of
 * byte `size` or of byte -1 is an ASan report.  Output buffers are exact-size
 * too.  After every successful call all returned pointers / offsets / lengths
 * are checked against the span the function was told about; a failed check is
 * written into the observation as a "span failure" (stable name + detail).
 *
 * Functions taking (buf, size) are called directly on the bytes.  Accessors
 * that take no size of their own are called only in the order the library's
 * own consumers use and only after the validator accepted the packet:
 *   dns_resolv.c      dns_msg_info_get -> dns_msg_rr_get_data / dns_msg_rr_find
 *                     -> SequenceOfLabelsGetSize(RDATA) / dns_msg_sequence_of_labels2name
 *   radius_client.c   radius_pkt_chk -> radius_pkt_verify -> attribute lookups
 *                     (http_server_auth.c: radius_pkt_attr_get_data_to_buf)
 *   http_server.c     find CRLFCRLF -> http_parse_req_line -> http_req_sec_chk
 *                     -> http_hdr_val_get / http_query_val_get
 *   sap_rcvr.c        sap_packet_is_valid -> sap_packet_get_payload -> buf[n]=0
 *                     -> sdp_msg_sec_chk -> sdp_msg_type_get -> sdp_msg_feilds_get
 *
 * Observation: u32 seen_mask, u32 accept_mask, u32 accessor_calls, blob rcs,
 *              u32 nfail, nfail x (blob name, blob detail).
 *
 * With -DC13_FUZZ the same operations are exposed as a libFuzzer target
 * (LLVMFuzzerTestOneInput); op OP_FUZZ of the normal driver runs the identical
 * conversion so that fuzzer artifacts can be triaged through the case protocol.
 */
#include <sys/param.h>
#include <sys/types.h>
#include <inttypes.h>
#include <errno.h>
#include <string.h>
#include <stdio.h>
#include <time.h>
#include <arpa/inet.h>

#include "utils/macro.h"
#include "utils/mem_utils.h"
#include "proto/dns.h"
#include "proto/radius.h"
#include "proto/dhcpv4.h"
#include "proto/http.h"
#include "proto/sdp.h"
#include "proto/sap.h"
#include "proto/rtp.h"
#include "proto/mpeg2ts.h"

#include "vdrv.h"

/* ---- validator bits ---------------------------------------------------- */
enum {
	V_DNS_INFO = 0, V_RAD_CHK, V_RAD_VERIFY, V_DHCP_HDR, V_HTTP_REQLINE,
	V_HTTP_SEC, V_HTTP_RESPLINE, V_SAP_VALID, V_SDP_SEC, V_RTP_PAYLOAD,
	V_TS_VALID, V_TS_NEXT, V_HTTP_CHUNKED, V_TS_DETECT, V_DNS_LABELS_SIZE,
	V_DNS_LABELS2NAME
};

/* ---- operations --------------------------------------------------------- */
enum {
	OP_DNS_CONSUMER = 1, OP_DNS_DIRECT = 2, OP_DNS_LABELS = 3,
	OP_RADIUS = 10,
	OP_DHCP = 20,
	OP_HTTP_REQ = 30, OP_HTTP_QUERY = 31, OP_HTTP_HDR_REMOVE = 32,
	OP_HTTP_CHUNKED = 33, OP_HTTP_URLDEC = 34, OP_HTTP_WS = 35,
	OP_SAP = 40, OP_SDP = 41,
	OP_RTP = 50,
	OP_TS_VALID = 60, OP_TS_STREAM = 61,
	OP_FUZZ = 200
};

#define MAX_RCS		48
#define MAX_FAIL	8

static uint32_t g_seen, g_accept, g_acc;
static uint8_t g_rcs[MAX_RCS];
static size_t g_nrc;
static char g_fail_name[MAX_FAIL][64];
static char g_fail_detail[MAX_FAIL][160];
static size_t g_nfail;
static volatile uint32_t g_sink;

static void obs_reset(void) {
	g_seen = 0; g_accept = 0; g_acc = 0; g_nrc = 0; g_nfail = 0;
}
static void seen(int v) { g_seen |= (1u << v); }
static void accept_(int v) { g_accept |= (1u << v); }
static void rc_add(int rc) {
	if (g_nrc >= MAX_RCS) return;
	g_rcs[g_nrc++] = (uint8_t)((rc < 0) ? 255 : ((rc > 253) ? 253 : rc));
}
static void span_fail(const char *name, const char *fmt, size_t a, size_t b, size_t c) {
	size_t i;
	for (i = 0; i < g_nfail; i++)
		if (0 == strcmp(g_fail_name[i], name)) return;
	if (g_nfail >= MAX_FAIL) return;
	snprintf(g_fail_name[g_nfail], sizeof(g_fail_name[0]), "%s", name);
	snprintf(g_fail_detail[g_nfail], sizeof(g_fail_detail[0]), fmt, a, b, c);
	g_nfail++;
}
/* ptr/len inside [base, base+size] ; (NULL,0) is treated by the caller */
static int in_span(const void *p, size_t len, const uint8_t *base, size_t size) {
	const uint8_t *q = p;
	if (q < base || q > base + size) return 0;
	return (len <= (size_t)((base + size) - q));
}
static void chk_span(const char *name, const void *p, size_t len,
    const uint8_t *base, size_t size) {
	if (!in_span(p, len, base, size))
		span_fail(name, "ptr_off=%zd len=%zu size=%zu",
		    (size_t)((const uint8_t*)p - base), len, size);
}
static void touch(const void *p, size_t len) { /* read every byte the library handed out */
	const uint8_t *q = p; uint32_t s = 0; size_t i;
	for (i = 0; i < len; i++) s += q[i];
	g_sink += s;
}
static void obs_write(vout_t *o) {
	size_t i;
	vout_u32(o, g_seen); vout_u32(o, g_accept); vout_u32(o, g_acc);
	vout_blob(o, g_rcs, g_nrc);
	vout_u32(o, (uint32_t)g_nfail);
	for (i = 0; i < g_nfail; i++) {
		vout_blob(o, g_fail_name[i], strlen(g_fail_name[i]));
		vout_blob(o, g_fail_detail[i], strlen(g_fail_detail[i]));
	}
}

/* ======================================================================== */
/* DNS                                                                      */
/* ======================================================================== */

/* dns_resolv.c:dns_resolver_recv_cb(): sizeof(addrs) */
#define DNS_CONSUMER_NAMEBUF	(64 * 26)

static void dns_soa_minimum(uint8_t *rr_data, uint16_t rr_data_size) {
	/* dns_resolv.c lines 1025-1041 */
	size_t tm = 0;
	uint32_t tmu32;
	int rc;

	rc = SequenceOfLabelsGetSize(rr_data, rr_data_size, &tm);
	g_acc++; seen(V_DNS_LABELS_SIZE);
	if (0 != rc) { rc_add(rc); return; }
	accept_(V_DNS_LABELS_SIZE);
	if (tm > rr_data_size) {
		span_fail("SequenceOfLabelsGetSize:name_len_ret", "ret=%zu buf_size=%zu %zu",
		    tm, rr_data_size, 0);
		return; /* the consumer would now wrap rr_data_size */
	}
	rr_data += tm; rr_data_size = (uint16_t)(rr_data_size - tm);
	rc = SequenceOfLabelsGetSize(rr_data, rr_data_size, &tm);
	g_acc++;
	if (0 != rc) { rc_add(rc); return; }
	if (tm > rr_data_size) {
		span_fail("SequenceOfLabelsGetSize:name_len_ret", "ret=%zu buf_size=%zu %zu",
		    tm, rr_data_size, 0);
		return;
	}
	rr_data += tm; rr_data_size = (uint16_t)(rr_data_size - tm);
	if ((sizeof(uint32_t) * 5) > rr_data_size) return;
	rr_data += (sizeof(uint32_t) * 4);
	memcpy(&tmu32, rr_data, sizeof(tmu32));
	g_sink += tmu32;
}

static void op_dns_consumer(vin_t *in) {
	size_t n, qn;
	const uint8_t *m = vin_blob(in, &n);
	const uint8_t *q = vin_blob(in, &qn);
	uint32_t nbs = vin_u32(in);
	uint8_t *blk, *qname, *nameout, *rd;
	dns_hdr_p hdr;
	size_t qd = 0, an = 0, ns = 0, ar = 0, total = 0, msz = 0, off, cnt, rsz, tm;
	uint16_t t, c, ds; uint32_t ttl;
	int rc, guard;

	if (in->bad || qn > 255) { rc_add(252); return; }
	blk = vx_dup(m, n); hdr = (dns_hdr_p)blk;
	qname = vx_dup(q, qn);
	nameout = vx_alloc(nbs, 0xA5);

	rc = dns_msg_info_get(hdr, n, &qd, &an, &ns, &ar, &total, &msz);
	seen(V_DNS_INFO); rc_add(rc);
	if (0 != rc) goto out;
	accept_(V_DNS_INFO);
	if (!(sizeof(dns_hdr_t) == qd && qd <= an && an <= ns && ns <= ar &&
	    ar <= msz && msz <= n)) {
		span_fail("dns_msg_info_get:offsets", "an=%zu msg_size=%zu received=%zu", an, msz, n);
		goto out;
	}
	/* Path A (rcode NXDOMAIN): walk every RR until the accessor refuses. */
	off = an;
	for (guard = 0; guard < 70000; guard++) {
		rd = NULL; rsz = 0; ds = 0; t = 0;
		rc = dns_msg_rr_get_data(hdr, msz, off, NULL, 0, &t, &c, &ttl, &ds,
		    (void**)&rd, &rsz);
		g_acc++;
		if (0 != rc) { rc_add(rc); break; }
		if (0 == rsz || (off + rsz) > msz) {
			span_fail("dns_msg_rr_get_data:rr_size", "off=%zu rr_size=%zu msg_size=%zu", off, rsz, msz);
			break;
		}
		if (!in_span(rd, ds, blk, msz)) {
			span_fail("dns_msg_rr_get_data:data", "ptr_off=%zd len=%zu size=%zu",
			    (size_t)(rd - blk), ds, msz);
			break;
		}
		touch(rd, ds);
		off += rsz;
		if (DNS_RR_TYPE_SOA == t)
			dns_soa_minimum(rd, ds);
	}
	/* Path B (answers): find RRs for the asked name. */
	off = an; cnt = total;
	for (guard = 0; guard < 70000; guard++) {
		rd = NULL; rsz = 0; ds = 0; t = 0;
		rc = dns_msg_rr_find(hdr, msz, &off, &cnt, qname, qn, &t, &c, &ttl,
		    &ds, (void**)&rd, &rsz);
		g_acc++;
		if (0 != rc) { rc_add(rc); break; }
		if (0 == rsz || (off + rsz) > msz) {
			span_fail("dns_msg_rr_find:rr_size", "off=%zu rr_size=%zu msg_size=%zu", off, rsz, msz);
			break;
		}
		if (!in_span(rd, ds, blk, msz)) {
			span_fail("dns_msg_rr_find:data", "ptr_off=%zd len=%zu size=%zu",
			    (size_t)(rd - blk), ds, msz);
			break;
		}
		touch(rd, ds);
		off += rsz;
		if (DNS_RR_TYPE_CNAME == t && 0 != nbs) {
			tm = 0;
			rc = dns_msg_sequence_of_labels2name(hdr, n, (size_t)(rd - blk),
			    nameout, nbs, &tm);
			g_acc++; seen(V_DNS_LABELS2NAME); rc_add(rc);
			if (0 == rc) {
				accept_(V_DNS_LABELS2NAME);
				if (tm >= nbs || 0 != nameout[tm])
					span_fail("dns_msg_sequence_of_labels2name:name_len_ret",
					    "ret=%zu name_buf_size=%zu %zu", tm, nbs, 0);
				else
					touch(nameout, tm);
			}
		}
	}
out:
	vx_free(nameout, nbs); vx_free(qname, qn); vx_free(blk, n);
}

static void op_dns_direct(vin_t *in) {
	size_t n, qn;
	const uint8_t *m = vin_blob(in, &n);
	uint32_t offset = vin_u32(in);
	uint32_t nbs = vin_u32(in);
	const uint8_t *q = vin_blob(in, &qn);
	uint32_t count = vin_u32(in);
	uint32_t fm = vin_u32(in);
	uint8_t *blk, *qname, *nameout, *rd;
	dns_hdr_p hdr;
	size_t tm, sz, off, cnt, rsz, nl;
	uint16_t t, c, ds; uint32_t ttl;
	int rc;

	if (in->bad || qn > 255) { rc_add(252); return; }
	blk = vx_dup(m, n); hdr = (dns_hdr_p)blk;
	qname = vx_dup(q, qn);
	nameout = vx_alloc(nbs, 0xA5);

	if (fm & 1) {
		rc = dns_msg_validate(hdr, n); seen(V_DNS_INFO); rc_add(rc);
		if (0 == rc) accept_(V_DNS_INFO);
		sz = dns_msg_size_get(hdr, n);
		if (sz > n) span_fail("dns_msg_size_get:ret", "ret=%zu size=%zu %zu", sz, n, 0);
	}
	if (fm & 2) {
		tm = 0;
		rc = dns_msg_sequence_of_labels_get_name_len(hdr, n, offset, &tm); rc_add(rc);
	}
	if (0 != nbs && (fm & 4)) {
		tm = 0;
		rc = dns_msg_sequence_of_labels2name(hdr, n, offset, nameout, nbs, &tm);
		seen(V_DNS_LABELS2NAME); rc_add(rc);
		if (0 == rc) {
			accept_(V_DNS_LABELS2NAME);
			if (tm >= nbs || 0 != nameout[tm])
				span_fail("dns_msg_sequence_of_labels2name:name_len_ret",
				    "ret=%zu name_buf_size=%zu %zu", tm, nbs, 0);
		}
	}
	if (0 != nbs && (fm & 8)) {
		nl = nbs; rsz = 0;
		rc = dns_msg_question_get_data(hdr, n, offset, nameout, &nl, &t, &c, &rsz);
		rc_add(rc);
		if (0 == rc && (0 == rsz || (offset + rsz) > n))
			span_fail("dns_msg_question_get_data:question_size_ret",
			    "off=%zu q_size=%zu size=%zu", offset, rsz, n);
	}
	if (0 != nbs && (fm & 16)) {
		nl = nbs; rsz = 0; rd = NULL; ds = 0;
		rc = dns_msg_rr_get_data(hdr, n, offset, nameout, &nl, &t, &c, &ttl, &ds,
		    (void**)&rd, &rsz);
		rc_add(rc);
		if (0 == rc) {
			if (0 == rsz || (offset + rsz) > n)
				span_fail("dns_msg_rr_get_data:rr_size", "off=%zu rr_size=%zu msg_size=%zu", offset, rsz, n);
			else if (!in_span(rd, ds, blk, n))
				span_fail("dns_msg_rr_get_data:data", "ptr_off=%zd len=%zu size=%zu", (size_t)(rd - blk), ds, n);
			else
				touch(rd, ds);
		}
	}
	if (fm & 32) {
	rsz = 0; rd = NULL; ds = 0;
	rc = dns_msg_rr_get_data(hdr, n, offset, NULL, NULL, &t, &c, &ttl, &ds,
	    (void**)&rd, &rsz);
	rc_add(rc);
	if (0 == rc) {
		if (0 == rsz || (offset + rsz) > n)
			span_fail("dns_msg_rr_get_data:rr_size", "off=%zu rr_size=%zu msg_size=%zu", offset, rsz, n);
		else if (!in_span(rd, ds, blk, n))
			span_fail("dns_msg_rr_get_data:data", "ptr_off=%zd len=%zu size=%zu", (size_t)(rd - blk), ds, n);
		else
			touch(rd, ds);
	}
	}
	if (fm & 64) {
	off = offset; cnt = count; rsz = 0; rd = NULL; ds = 0;
	rc = dns_msg_rr_find(hdr, n, &off, &cnt, qname, qn, &t, &c, &ttl, &ds,
	    (void**)&rd, &rsz);
	rc_add(rc);
	if (0 == rc) {
		if (0 == rsz || (off + rsz) > n)
			span_fail("dns_msg_rr_find:rr_size", "off=%zu rr_size=%zu msg_size=%zu", off, rsz, n);
		else if (!in_span(rd, ds, blk, n))
			span_fail("dns_msg_rr_find:data", "ptr_off=%zd len=%zu size=%zu", (size_t)(rd - blk), ds, n);
		else
			touch(rd, ds);
	}
	}
	vx_free(nameout, nbs); vx_free(qname, qn); vx_free(blk, n);
}

static void op_dns_labels(vin_t *in) {
	size_t n;
	const uint8_t *m = vin_blob(in, &n);
	uint32_t nbs = vin_u32(in);
	uint32_t fm = vin_u32(in);
	uint8_t *blk, *nameout;
	size_t tm;
	int rc;

	if (in->bad) { rc_add(252); return; }
	blk = vx_dup(m, n);
	nameout = vx_alloc(nbs, 0xA5);
	if (fm & 1) {
		tm = 0;
		rc = SequenceOfLabelsGetSize(blk, n, &tm);
		seen(V_DNS_LABELS_SIZE); rc_add(rc);
		if (0 == rc) {
			accept_(V_DNS_LABELS_SIZE);
			if (tm > n)
				span_fail("SequenceOfLabelsGetSize:name_len_ret", "ret=%zu buf_size=%zu %zu", tm, n, 0);
		}
	}
	if (fm & 2) {
		tm = 0;
		rc = SequenceOfLabelsToDomainName(blk, n, nameout, nbs, &tm);
		rc_add(rc);
		if (0 == rc && tm > n)
			span_fail("SequenceOfLabelsToDomainName:name_len_ret", "ret=%zu buf_size=%zu %zu", tm, n, 0);
	}
	vx_free(nameout, nbs); vx_free(blk, n);
}

/* ======================================================================== */
/* RADIUS                                                                   */
/* ======================================================================== */
static void op_radius(vin_t *in) {
	size_t n, kn, rn;
	const uint8_t *m = vin_blob(in, &n);
	const uint8_t *k = vin_blob(in, &kn);
	const uint8_t *r = vin_blob(in, &rn);
	uint8_t atype = vin_u8(in);
	uint32_t bsz = vin_u32(in);
	uint8_t *blk, *key, *req, *obuf, *d, t;
	rad_pkt_hdr_p pkt;
	rad_pkt_attr_p attr;
	size_t plen, tm, off, aoff, l;
	int rc, guard;

	if (in->bad) { rc_add(252); return; }
	blk = vx_dup(m, n); pkt = (rad_pkt_hdr_p)blk;
	key = vx_dup(k, kn);
	req = vx_dup(r, rn);
	obuf = vx_alloc(bsz, 0xA5);

	rc = radius_pkt_chk(pkt, n);
	seen(V_RAD_CHK); rc_add(rc);
	if (0 != rc) goto out;
	accept_(V_RAD_CHK);
	plen = RADIUS_PKT_HDR_LEN_GET(pkt);
	if (plen > n || plen < RADIUS_PKT_HDR_SIZE) {
		span_fail("radius_pkt_chk:len", "len=%zu received=%zu %zu", plen, n, 0);
		goto out;
	}
	rc = radius_pkt_verify(pkt, key, kn, (rn >= RADIUS_PKT_HDR_SIZE) ? (rad_pkt_hdr_p)req : NULL);
	seen(V_RAD_VERIFY); rc_add(rc);
	if (0 == rc) accept_(V_RAD_VERIFY);

	/* http_server_auth.c: collect all values of one type. */
	tm = 0;
	rc = radius_pkt_attr_get_data_to_buf(pkt, 0, 0, atype, obuf, bsz, &tm);
	g_acc++; rc_add(rc);
	if (tm > bsz)
		span_fail("radius_pkt_attr_get_data_to_buf:buf_size_ret", "ret=%zu buf_size=%zu %zu", tm, bsz, 0);
	else
		touch(obuf, tm);
	/* Attribute iteration with the offsets the library returns. */
	off = 0;
	for (guard = 0; guard < 4096; guard++) {
		attr = NULL; aoff = 0;
		rc = radius_pkt_attr_find_raw(pkt, off, atype, &attr, &aoff);
		g_acc++;
		if (0 != rc) { rc_add(rc); break; }
		if ((uint8_t*)attr != (blk + aoff) || aoff < RADIUS_PKT_HDR_SIZE ||
		    (aoff + 2) > plen || (aoff + attr->len) > plen || attr->len < 2) {
			span_fail("radius_pkt_attr_find_raw:attr_ret", "off=%zu len=%zu pkt_len=%zu",
			    aoff, (size_t)(((aoff + 2) <= n) ? attr->len : 0), plen);
			break;
		}
		d = NULL; l = 0; t = 0;
		rc = radius_pkt_attr_get_data_ptr(pkt, aoff, &t, &d, &l);
		g_acc++;
		if (0 != rc) { rc_add(rc); break; }
		if (!in_span(d, l, blk, plen) || d != (blk + aoff + 2) || l > (size_t)(attr->len - 2)) {
			span_fail("radius_pkt_attr_get_data_ptr:data", "ptr_off=%zd len=%zu size=%zu",
			    (size_t)(d - blk), l, plen);
			break;
		}
		touch(d, l);
		off = (aoff + attr->len);
		if (off >= plen) break; /* a careful caller stops at the end */
	}
out:
	vx_free(obuf, bsz); vx_free(req, rn); vx_free(key, kn); vx_free(blk, n);
}

/* ======================================================================== */
/* DHCPv4                                                                   */
/* ======================================================================== */
static void op_dhcp(vin_t *in) {
	size_t n;
	const uint8_t *m = vin_blob(in, &n);
	uint8_t *blk;
	int rc;

	if (in->bad) { rc_add(252); return; }
	blk = vx_dup(m, n);
	rc = dhcp4_hdr_check(blk, n);
	seen(V_DHCP_HDR); rc_add(rc);
	if (0 == rc) {
		accept_(V_DHCP_HDR);
		if (n < sizeof(dhcp4_hdr_t))
			span_fail("dhcp4_hdr_check:accepted-short", "size=%zu need=%zu %zu", n, sizeof(dhcp4_hdr_t), 0);
		else
			touch(blk, sizeof(dhcp4_hdr_t));
	}
	vx_free(blk, n);
}

/* ======================================================================== */
/* HTTP                                                                     */
/* ======================================================================== */
static void chk_opt_span(const char *name, const void *p, size_t len,
    const uint8_t *base, size_t size) {
	if (NULL == p) {
		if (0 != len)
			span_fail(name, "NULL ptr with len=%zu size=%zu %zu", len, size, 0);
		return;
	}
	chk_span(name, p, len, base, size);
	if (in_span(p, len, base, size)) touch(p, len);
}

static void http_hdr_accessors(const uint8_t *hdr, size_t hsz,
    const uint8_t *hname, size_t hnl) {
	static const char *std_names[] = { "content-length", "connection", "host" };
	const uint8_t *v; size_t vs, off, next, cnt, i;
	int rc, guard;

	for (i = 0; i < 3; i++) {
		v = NULL; vs = 0;
		rc = http_hdr_val_get(hdr, hsz, (const uint8_t*)std_names[i],
		    strlen(std_names[i]), &v, &vs);
		g_acc++;
		if (0 == rc) chk_opt_span("http_hdr_val_get:val_ret", v, vs, hdr, hsz);
	}
	v = NULL; vs = 0;
	rc = http_hdr_val_get(hdr, hsz, hname, hnl, &v, &vs);
	g_acc++; rc_add(rc);
	if (0 == rc) chk_opt_span("http_hdr_val_get:val_ret", v, vs, hdr, hsz);
	cnt = http_hdr_val_get_count(hdr, hsz, hname, hnl);
	g_acc++; rc_add((int)MIN(cnt, 200));
	off = 0;
	for (guard = 0; guard < 20000; guard++) {
		v = NULL; vs = 0; next = 0;
		rc = http_hdr_val_get_ex(hdr, hsz, hname, hnl, off, &v, &vs, &next);
		g_acc++;
		if (0 != rc) break;
		chk_opt_span("http_hdr_val_get_ex:val_ret", v, vs, hdr, hsz);
		if (next > hsz) {
			span_fail("http_hdr_val_get_ex:offset_next", "next=%zu size=%zu %zu", next, hsz, 0);
			break;
		}
		off = next;
	}
}

static void op_http_req(vin_t *in) {
	uint8_t mode = vin_u8(in);
	size_t n, hnl, qnl, hsz;
	const uint8_t *m = vin_blob(in, &n);
	const uint8_t *hn = vin_blob(in, &hnl);
	const uint8_t *qn = vin_blob(in, &qnl);
	uint32_t fm = vin_u32(in); /* exact mode: 1 req line (+query), 2 sec_chk, 4 header accessors, 8 status line */
	uint8_t *blk, *hname, *qname;
	const uint8_t *p, *v; size_t vs;
	http_req_line_data_t line;
	http_resp_line_data_t rl;
	int rc = -1, sec;

	if (in->bad) { rc_add(252); return; }
	if (1 == mode) fm = 7;
	blk = vx_dup(m, n);
	hname = vx_dup(hn, hnl);
	qname = vx_dup(qn, qnl);
	if (1 == mode) { /* http_server.c: header = bytes before CRLFCRLF */
		p = mem_find_cstr(blk, n, CRLFCRLF);
		if (NULL == p) { rc_add(251); goto out; }
		hsz = (size_t)(p - blk);
	} else {
		hsz = n;
	}
	memset(&line, 0x00, sizeof(line));
	if (fm & 1) {
	rc = http_parse_req_line(blk, hsz, &line);
	seen(V_HTTP_REQLINE); rc_add(rc);
	}
	if (0 == rc) {
		accept_(V_HTTP_REQLINE);
		if (line.line_size > hsz)
			span_fail("http_parse_req_line:line_size", "line_size=%zu size=%zu %zu", line.line_size, hsz, 0);
		else {
			chk_opt_span("http_parse_req_line:method", line.method, line.method_size, blk, line.line_size);
			chk_opt_span("http_parse_req_line:uri", line.uri, line.uri_size, blk, line.line_size);
			chk_opt_span("http_parse_req_line:scheme", line.scheme, line.scheme_size, blk, line.line_size);
			chk_opt_span("http_parse_req_line:host", line.host, line.host_size, blk, line.line_size);
			chk_opt_span("http_parse_req_line:abs_path", line.abs_path, line.abs_path_size, blk, line.line_size);
			chk_opt_span("http_parse_req_line:query", line.query, line.query_size, blk, line.line_size);
		}
	}
	if (1 == mode && 0 != rc) goto out;
	if (fm & 2) {
	sec = http_req_sec_chk(blk, hsz, (0 == rc) ? line.method_code : HTTP_REQ_METHOD_UNKNOWN);
	seen(V_HTTP_SEC); rc_add(sec);
	if (0 == sec) accept_(V_HTTP_SEC);
	if (1 == mode && 0 != sec) goto out;
	}
	if (0 != g_nfail) goto out;

	if (fm & 4)
		http_hdr_accessors(blk, hsz, hname, hnl);
	if (0 == rc && NULL != line.query) { /* http_server_auth.c */
		v = NULL; vs = 0;
		rc = http_query_val_get(line.query, line.query_size, qname, qnl, &v, &vs);
		g_acc++; rc_add(rc);
		if (0 == rc) chk_opt_span("http_query_val_get:val_ret", v, vs, line.query, line.query_size);
	}
	if (0 == mode && (fm & 8)) {
		memset(&rl, 0x00, sizeof(rl));
		rc = http_parse_resp_line(blk, hsz, &rl);
		seen(V_HTTP_RESPLINE); rc_add(rc);
		if (0 == rc) {
			accept_(V_HTTP_RESPLINE);
			if (rl.line_size > hsz)
				span_fail("http_parse_resp_line:line_size", "line_size=%zu size=%zu %zu", rl.line_size, hsz, 0);
			else
				chk_opt_span("http_parse_resp_line:reason_phrase", rl.reason_phrase,
				    rl.reason_phrase_size, blk, rl.line_size);
		}
	}
out:
	vx_free(qname, qnl); vx_free(hname, hnl); vx_free(blk, n);
}

static void op_http_query(vin_t *in) {
	size_t n, qnl, nsz;
	const uint8_t *m = vin_blob(in, &n);
	const uint8_t *qn = vin_blob(in, &qnl);
	uint32_t fm = vin_u32(in);
	uint8_t *blk, *qname;
	const uint8_t *vn, *v; size_t vs, cnt;
	int rc;

	if (in->bad) { rc_add(252); return; }
	blk = vx_dup(m, n);
	qname = vx_dup(qn, qnl);
	if (fm & 1) {
		vn = NULL; v = NULL; vs = 0;
		rc = http_query_val_get_ex(blk, n, qname, qnl, &vn, &v, &vs);
		rc_add(rc);
		if (0 == rc) {
			chk_opt_span("http_query_val_get_ex:val_ret", v, vs, blk, n);
			chk_opt_span("http_query_val_get_ex:val_name_ret", vn, 0, blk, n);
		}
	}
	if (fm & 2) {
		nsz = n;
		cnt = http_query_val_del(blk, n, qname, qnl, &nsz);
		rc_add((int)MIN(cnt, 200));
		if (nsz > n)
			span_fail("http_query_val_del:query_size_ret", "ret=%zu size=%zu %zu", nsz, n, 0);
		else
			touch(blk, nsz);
	}
	vx_free(qname, qnl); vx_free(blk, n);
}

static void op_http_hdr_remove(vin_t *in) {
	size_t n, hnl, nsz, cnt;
	const uint8_t *m = vin_blob(in, &n);
	const uint8_t *hn = vin_blob(in, &hnl);
	uint8_t *blk, *lcase, *hname;

	if (in->bad) { rc_add(252); return; }
	blk = vx_dup(m, n);
	lcase = vx_dup(m, n);
	if (0 != n) mem_to_lower(lcase, blk, n);
	hname = vx_dup(hn, hnl);
	nsz = n;
	cnt = http_hdr_val_remove(blk, lcase, n, &nsz, hname, hnl);
	rc_add((int)MIN(cnt, 200));
	if (nsz > n)
		span_fail("http_hdr_val_remove:phdr_size", "ret=%zu size=%zu %zu", nsz, n, 0);
	else {
		touch(blk, nsz); touch(lcase, nsz);
	}
	vx_free(hname, hnl); vx_free(lcase, n); vx_free(blk, n);
}

static void op_http_chunked(vin_t *in) {
	size_t n, rs;
	const uint8_t *m = vin_blob(in, &n);
	uint8_t *blk, *ret;
	int rc;

	if (in->bad) { rc_add(252); return; }
	blk = vx_dup(m, n);
	ret = NULL; rs = 0;
	rc = http_data_decode_chunked(blk, n, &ret, &rs);
	seen(V_HTTP_CHUNKED); rc_add(rc);
	if (0 == rc) {
		accept_(V_HTTP_CHUNKED);
		if (0 != rs) {
			if (NULL == ret || !in_span(ret, rs, blk, n))
				span_fail("http_data_decode_chunked:data_ret", "ptr_off=%zd len=%zu size=%zu",
				    (size_t)((NULL == ret) ? 0 : (ret - blk)), rs, n);
			else
				touch(ret, rs);
		}
	}
	vx_free(blk, n);
}

static void op_http_urldec(vin_t *in) {
	size_t n, r;
	const uint8_t *m = vin_blob(in, &n);
	uint32_t bsz = vin_u32(in);
	uint8_t inplace = vin_u8(in);
	uint8_t *blk, *obuf;

	if (in->bad) { rc_add(252); return; }
	blk = vx_dup(m, n);
	if (0 != inplace) {
		r = http_url_decode(blk, n, blk, n);
		rc_add(0);
		if (0 != n && (r >= n || 0 != blk[r]))
			span_fail("http_url_decode:ret", "ret=%zu buf_size=%zu %zu", r, n, 0);
	} else {
		obuf = vx_alloc(bsz, 0xA5);
		r = http_url_decode(blk, n, obuf, bsz);
		rc_add(1);
		if (0 != n && 0 != bsz && (r >= bsz || 0 != obuf[r]))
			span_fail("http_url_decode:ret", "ret=%zu buf_size=%zu %zu", r, bsz, 0);
		vx_free(obuf, bsz);
	}
	vx_free(blk, n);
}

static void op_http_ws(vin_t *in) {
	size_t n, rs;
	const uint8_t *m = vin_blob(in, &n);
	uint32_t fm = vin_u32(in);
	uint8_t *blk, *obuf;
	const uint8_t *ret;
	int rc;

	if (in->bad) { rc_add(252); return; }
	blk = vx_dup(m, n);
	if (fm & 1) {
		ret = NULL; rs = 0;
		rc = skip_spwsp(blk, n, &ret, &rs); rc_add(rc);
		if (0 == rc && (!in_span(ret, rs, blk, n) || (ret + rs) != (blk + n)))
			span_fail("skip_spwsp:buf_ret", "ptr_off=%zd len=%zu size=%zu", (size_t)(ret - blk), rs, n);
	}
	if (fm & 2) {
		ret = NULL; rs = 0;
		rc = skip_spwsp2(blk, n, &ret, &rs); rc_add(rc);
		if (0 == rc && !in_span(ret, rs, blk, n))
			span_fail("skip_spwsp2:buf_ret", "ptr_off=%zd len=%zu size=%zu", (size_t)(ret - blk), rs, n);
	}
	/* wsp2sp into a separate buffer of the same size, then in place. */
	obuf = vx_alloc(n, 0xA5);
	if (fm & 4) {
		rs = 0;
		rc = wsp2sp(blk, n, obuf, &rs); rc_add(rc);
		if (0 == rc) {
			if (rs > n) span_fail("wsp2sp:buf_size_ret", "ret=%zu size=%zu %zu", rs, n, 0);
			else touch(obuf, rs);
		}
	}
	if (fm & 8) {
		rs = 0;
		rc = ht2sp(blk, n, obuf, &rs); rc_add(rc);
		if (0 == rc && rs > n) span_fail("ht2sp:buf_size_ret", "ret=%zu size=%zu %zu", rs, n, 0);
	}
	vx_free(obuf, n);
	if (fm & 16) {
		rs = 0;
		rc = wsp2sp(blk, n, blk, &rs); rc_add(rc);
		if (0 == rc) {
			if (rs > n) span_fail("wsp2sp:buf_size_ret", "ret=%zu size=%zu %zu", rs, n, 0);
			else touch(blk, rs);
		}
	}
	vx_free(blk, n);
}

/* ======================================================================== */
/* SAP / SDP                                                                */
/* ======================================================================== */
static void sdp_consumer(uint8_t *sdp, size_t ssz) {
	/* sap_rcvr.c lines 303-360 */
	uint8_t *media = NULL, *origin = NULL, *sname = NULL, *conn = NULL;
	size_t media_size = 0, origin_size = 0, sname_size = 0, conn_size = 0, cnt, i;
	uint8_t **feilds; size_t *fsizes;
	int rc;

	rc = sdp_msg_sec_chk(sdp, ssz);
	seen(V_SDP_SEC); rc_add(rc);
	if (0 != rc) return;
	accept_(V_SDP_SEC);
	feilds = (uint8_t**)vx_alloc(8 * sizeof(uint8_t*), 0xA5);
	fsizes = (size_t*)vx_alloc(8 * sizeof(size_t), 0xA5);

	rc = sdp_msg_type_get(sdp, ssz, 'm', NULL, &media, &media_size); g_acc++;
	if (0 == rc) chk_opt_span("sdp_msg_type_get:val_ret", media, media_size, sdp, ssz);
	rc = sdp_msg_type_get(sdp, ssz, 'o', NULL, &origin, &origin_size); g_acc++;
	if (0 == rc) chk_opt_span("sdp_msg_type_get:val_ret", origin, origin_size, sdp, ssz);
	rc = sdp_msg_type_get(sdp, ssz, 's', NULL, &sname, &sname_size); g_acc++;
	if (0 == rc) chk_opt_span("sdp_msg_type_get:val_ret", sname, sname_size, sdp, ssz);
	rc = sdp_msg_type_get(sdp, ssz, 'c', NULL, &conn, &conn_size); g_acc++;
	if (0 == rc) chk_opt_span("sdp_msg_type_get:val_ret", conn, conn_size, sdp, ssz);
	if (0 != g_nfail) goto out;
	if (8 <= media_size) {
		cnt = sdp_msg_feilds_get(media, media_size, 8, feilds, fsizes); g_acc++;
		rc_add((int)cnt);
		if (cnt > 8) span_fail("sdp_msg_feilds_get:ret", "ret=%zu max=%zu %zu", cnt, 8, 0);
		else for (i = 0; i < cnt; i++)
			chk_opt_span("sdp_msg_feilds_get:feilds", feilds[i], fsizes[i], media, media_size);
	}
	cnt = sdp_msg_feilds_get(conn, conn_size, 8, feilds, fsizes); g_acc++;
	rc_add((int)cnt);
	if (cnt > 8) span_fail("sdp_msg_feilds_get:ret", "ret=%zu max=%zu %zu", cnt, 8, 0);
	else for (i = 0; i < cnt; i++)
		chk_opt_span("sdp_msg_feilds_get:feilds", feilds[i], fsizes[i], conn, conn_size);
out:
	vx_free((uint8_t*)fsizes, 8 * sizeof(size_t));
	vx_free((uint8_t*)feilds, 8 * sizeof(uint8_t*));
}

static void op_sap(vin_t *in) {
	uint8_t mode = vin_u8(in);
	size_t n, bn, ssz;
	const uint8_t *m = vin_blob(in, &n);
	uint8_t *blk, *p, *sdp;
	int ok;

	if (in->bad) { rc_add(252); return; }
	/* mode 1: like sap_rcvr.c the receive buffer has room for the terminating
	 * zero the consumer stores at buf[transfered_size]. */
	bn = (1 == mode) ? (n + 1) : n;
	if (1 == mode) {
		blk = vx_alloc(bn, 0xA5);
		if (0 != n) memcpy(blk, m, n);
	} else {
		blk = vx_dup(m, n);
	}
	ok = sap_packet_is_valid(blk, n);
	seen(V_SAP_VALID); rc_add(ok);
	if (0 == ok) goto out;
	accept_(V_SAP_VALID);
	p = sap_packet_get_orig_src(blk); g_acc++;
	chk_span("sap_packet_get_orig_src:ret", p, (AF_INET == sap_packet_get_orig_src_type(blk)) ? 4 : 16, blk, n);
	p = sap_packet_get_auth_data(blk); g_acc++;
	chk_span("sap_packet_get_auth_data:ret", p, ((sap_hdr_p)blk)->auth_len, blk, n);
	sdp = sap_packet_get_payload(blk, n); g_acc++;
	if (!in_span(sdp, 0, blk, n)) {
		span_fail("sap_packet_get_payload:ret", "ptr_off=%zd size=%zu %zu", (size_t)(sdp - blk), n, 0);
		goto out;
	}
	ssz = (n - (size_t)(sdp - blk));
	if (1 == mode) blk[n] = 0;
	sdp_consumer(sdp, ssz);
out:
	vx_free(blk, bn);
}

static void op_sdp(vin_t *in) {
	size_t n, line, line0, vs, cnt, i;
	const uint8_t *m = vin_blob(in, &n);
	uint8_t type = vin_u8(in);
	uint32_t start_line = vin_u32(in);
	uint32_t maxf = vin_u32(in);
	uint32_t fm = vin_u32(in);
	uint8_t *blk, *v;
	uint8_t **feilds; size_t *fsizes;
	int rc;

	if (in->bad || maxf > 64) { rc_add(252); return; }
	blk = vx_dup(m, n);
	if (fm & 1) {
		rc = sdp_msg_sec_chk(blk, n);
		seen(V_SDP_SEC); rc_add(rc);
		if (0 == rc) accept_(V_SDP_SEC);
	}
	if (fm & 2) {
		line = start_line; line0 = line; v = NULL; vs = 0;
		rc = sdp_msg_type_get(blk, n, type, &line, &v, &vs); rc_add(rc);
		if (0 == rc) {
			chk_opt_span("sdp_msg_type_get:val_ret", v, vs, blk, n);
			if (line < line0)
				span_fail("sdp_msg_type_get:line", "line=%zu start=%zu %zu", line, line0, 0);
		}
	}
	if (fm & 4) {
		cnt = sdp_msg_type_get_count(blk, n, type); rc_add((int)MIN(cnt, 200));
	}
	if (fm & 8) {
		feilds = (uint8_t**)vx_alloc(maxf * sizeof(uint8_t*), 0xA5);
		fsizes = (size_t*)vx_alloc(maxf * sizeof(size_t), 0xA5);
		cnt = sdp_msg_feilds_get(blk, n, maxf, feilds, fsizes); rc_add((int)MIN(cnt, 200));
		if (cnt > maxf) span_fail("sdp_msg_feilds_get:ret", "ret=%zu max=%zu %zu", cnt, maxf, 0);
		else for (i = 0; i < cnt; i++)
			chk_opt_span("sdp_msg_feilds_get:feilds", feilds[i], fsizes[i], blk, n);
		vx_free((uint8_t*)fsizes, maxf * sizeof(size_t));
		vx_free((uint8_t*)feilds, maxf * sizeof(uint8_t*));
	}
	vx_free(blk, n);
}

/* ======================================================================== */
/* RTP                                                                      */
/* ======================================================================== */
static void op_rtp(vin_t *in) {
	size_t n, s, e;
	const uint8_t *m = vin_blob(in, &n);
	uint8_t *blk;
	int rc;

	if (in->bad) { rc_add(252); return; }
	blk = vx_dup(m, n);
	s = 0; e = 0;
	rc = rtp_payload_get(blk, n, &s, &e);
	seen(V_RTP_PAYLOAD); rc_add(rc);
	if (0 == rc) {
		accept_(V_RTP_PAYLOAD);
		if (s > n || e > n || (s + e) > n)
			span_fail("rtp_payload_get:offsets", "start=%zu end=%zu size=%zu", s, e, n);
		else
			touch(blk + s, n - s - e);
	}
	vx_free(blk, n);
}

/* ======================================================================== */
/* MPEG-TS                                                                  */
/* ======================================================================== */
static void op_ts_valid(vin_t *in) {
	size_t n;
	const uint8_t *m = vin_blob(in, &n);
	uint8_t *blk;
	int ok;

	if (in->bad) { rc_add(252); return; }
	blk = vx_dup(m, n);
	ok = mpeg2_ts_pkt_is_valid((const mpeg2_ts_hdr_t*)blk, n);
	seen(V_TS_VALID); rc_add(ok);
	if (0 != ok) accept_(V_TS_VALID);
	vx_free(blk, n);
}

static void op_ts_stream(vin_t *in) {
	size_t n, off, det;
	const uint8_t *m = vin_blob(in, &n);
	uint32_t off0 = vin_u32(in);
	uint32_t psize = vin_u32(in);
	uint8_t *blk, *pkt;
	int rc, ok, guard;

	if (in->bad || off0 > n || (188 != psize && 192 != psize && 204 != psize && 208 != psize)) {
		rc_add(252); return;
	}
	blk = vx_dup(m, n);
	det = 0;
	rc = mpeg2_ts_pkt_size_detect(blk, n, &det);
	seen(V_TS_DETECT); rc_add(rc);
	if (0 == rc) {
		accept_(V_TS_DETECT);
		if (188 != det && 192 != det && 204 != det && 208 != det)
			span_fail("mpeg2_ts_pkt_size_detect:size", "ret=%zu %zu %zu", det, 0, 0);
	}
	off = off0;
	for (guard = 0; guard < 100000; guard++) {
		pkt = NULL;
		ok = mpeg2_ts_pkt_get_next(blk, n, off, psize, &pkt);
		seen(V_TS_NEXT);
		if (0 == ok) { rc_add(0); break; }
		accept_(V_TS_NEXT);
		if (!in_span(pkt, psize, blk, n) || pkt < (blk + off)) {
			span_fail("mpeg2_ts_pkt_get_next:pkt", "ptr_off=%zd pkt_size=%zu size=%zu",
			    (size_t)(pkt - blk), psize, n);
			break;
		}
		ok = mpeg2_ts_pkt_is_valid((const mpeg2_ts_hdr_t*)pkt, psize);
		g_acc++; seen(V_TS_VALID);
		if (0 != ok) accept_(V_TS_VALID);
		if (guard < 4) rc_add(ok);
		off = ((size_t)(pkt - blk) + psize);
	}
	vx_free(blk, n);
}

/* ======================================================================== */
static void run_case(const uint8_t *c, size_t len);

/* Fuzzer input -> operation.  group selects the parser family; the first
 * bytes of the input choose parameters, the rest is the message. */
static void w_u32(uint8_t **p, uint32_t v) { memcpy(*p, &v, 4); *p += 4; }
static void w_blob(uint8_t **p, const uint8_t *d, size_t n) { w_u32(p, (uint32_t)n); if (n) memcpy(*p, d, n); *p += n; }

static void fuzz_one(uint8_t group, const uint8_t *data, size_t size) {
	uint8_t *cs, *p, sel, a, b;
	static const uint32_t tsz[4] = { 188, 192, 204, 208 };

	if (size < 3 || size > 8192) return;
	sel = data[0]; a = data[1]; b = data[2];
	data += 3; size -= 3;
	cs = malloc(size + 600); p = cs;
	switch (group) {
	case 0: /* DNS */
		switch (sel % 3) {
		case 0:
			*p++ = OP_DNS_CONSUMER; w_blob(&p, data, size);
			w_blob(&p, (const uint8_t*)"www.example.com", 15);
			w_u32(&p, (a & 1) ? (uint32_t)(b + 1) : DNS_CONSUMER_NAMEBUF);
			break;
		case 1:
			*p++ = OP_DNS_DIRECT; w_blob(&p, data, size);
			w_u32(&p, (uint32_t)a + (((uint32_t)(sel >> 4)) << 8)); w_u32(&p, (uint32_t)b + 1);
			w_blob(&p, (const uint8_t*)"www.example.com", 15); w_u32(&p, sel >> 2);
			w_u32(&p, 1u << (b % 7));
			break;
		default:
			*p++ = OP_DNS_LABELS; w_blob(&p, data, size);
			w_u32(&p, (a & 1) ? (uint32_t)b : (uint32_t)size);
			w_u32(&p, 1u << ((a >> 1) & 1));
			break;
		}
		break;
	case 1: /* RADIUS */
		*p++ = OP_RADIUS; w_blob(&p, data, size);
		w_blob(&p, (const uint8_t*)"secret", 6);
		w_blob(&p, (const uint8_t*)"\x01\x07\x00\x14" "0123456789abcdef", 20);
		*p++ = a; w_u32(&p, (uint32_t)b * 4);
		break;
	case 2: /* HTTP */
		switch (sel % 6) {
		case 0:
			*p++ = OP_HTTP_REQ; *p++ = (a & 1); w_blob(&p, data, size);
			w_blob(&p, (const uint8_t*)"host", 4); w_blob(&p, (const uint8_t*)"a", 1);
			w_u32(&p, 1u << (b & 3));
			break;
		case 1:
			*p++ = OP_HTTP_QUERY; w_blob(&p, data, size); w_blob(&p, (const uint8_t*)"a", 1);
			w_u32(&p, 1u << (b & 1));
			break;
		case 2:
			*p++ = OP_HTTP_HDR_REMOVE; w_blob(&p, data, size); w_blob(&p, (const uint8_t*)"host", 4);
			break;
		case 3:
			*p++ = OP_HTTP_CHUNKED; w_blob(&p, data, size);
			break;
		case 4:
			*p++ = OP_HTTP_URLDEC; w_blob(&p, data, size);
			w_u32(&p, (uint32_t)b + 1); *p++ = (a & 1);
			break;
		default:
			*p++ = OP_HTTP_WS; w_blob(&p, data, size);
			w_u32(&p, 1u << (b % 5));
			break;
		}
		break;
	case 3: /* SAP/SDP */
		if (sel & 1) {
			*p++ = OP_SAP; *p++ = (a & 1); w_blob(&p, data, size);
		} else {
			*p++ = OP_SDP; w_blob(&p, data, size); *p++ = (uint8_t)('a' + (a % 26));
			w_u32(&p, b & 7); w_u32(&p, (b >> 3) & 15); w_u32(&p, 1u << ((a >> 5) & 3));
		}
		break;
	default: /* RTP / MPEG-TS / DHCP */
		switch (sel % 4) {
		case 0: *p++ = OP_RTP; w_blob(&p, data, size); break;
		case 1: *p++ = OP_TS_VALID; w_blob(&p, data, size); break;
		case 2:
			*p++ = OP_TS_STREAM; w_blob(&p, data, size);
			w_u32(&p, (uint32_t)(((size_t)a * 4) % (size + 1))); w_u32(&p, tsz[b & 3]);
			break;
		default: *p++ = OP_DHCP; w_blob(&p, data, size); break;
		}
		break;
	}
	run_case(cs, (size_t)(p - cs));
	free(cs);
}

static void run_case(const uint8_t *c, size_t len) {
	vin_t in;
	uint8_t op, group;
	size_t n;
	const uint8_t *raw;

	memset(&in, 0, sizeof(in));
	in.p = c; in.n = len;
	op = vin_u8(&in);
	switch (op) {
	case OP_DNS_CONSUMER: op_dns_consumer(&in); break;
	case OP_DNS_DIRECT: op_dns_direct(&in); break;
	case OP_DNS_LABELS: op_dns_labels(&in); break;
	case OP_RADIUS: op_radius(&in); break;
	case OP_DHCP: op_dhcp(&in); break;
	case OP_HTTP_REQ: op_http_req(&in); break;
	case OP_HTTP_QUERY: op_http_query(&in); break;
	case OP_HTTP_HDR_REMOVE: op_http_hdr_remove(&in); break;
	case OP_HTTP_CHUNKED: op_http_chunked(&in); break;
	case OP_HTTP_URLDEC: op_http_urldec(&in); break;
	case OP_HTTP_WS: op_http_ws(&in); break;
	case OP_SAP: op_sap(&in); break;
	case OP_SDP: op_sdp(&in); break;
	case OP_RTP: op_rtp(&in); break;
	case OP_TS_VALID: op_ts_valid(&in); break;
	case OP_TS_STREAM: op_ts_stream(&in); break;
	case OP_FUZZ:
		group = vin_u8(&in);
		raw = vin_blob(&in, &n);
		if (in.bad) { rc_add(252); break; }
		fuzz_one(group, raw, n);
		break;
	default:
		rc_add(250);
		break;
	}
}

#ifdef C13_FUZZ
int LLVMFuzzerTestOneInput(const uint8_t *data, size_t size) {
	obs_reset();
	fuzz_one((uint8_t)(C13_FUZZ), data, size);
	if (0 != g_nfail) { /* span failure: make it an artifact */
		fprintf(stderr, "C13-SPAN-FAIL %s %s\n", g_fail_name[0], g_fail_detail[0]);
		abort();
	}
	return 0;
}
#else
#include <sys/mman.h>
#include <sys/wait.h>

/* The driver is built with -fsanitize-recover=address.  In the plain protocol
 * ASan runs with halt_on_error=1 and every report ends the process.  In --fork
 * mode it runs with halt_on_error=0 and this callback (called after the report
 * text has been printed) decides: an out-of-bounds READ cannot damage the
 * process, so the case is merely marked as reported and the child goes on
 * with the next case; any other report (WRITE, free errors, SEGV, ...) ends
 * the child as before.  Either way the first report of a case decides its key. */
void __asan_set_error_report_callback(void (*cb)(const char *));
static volatile uint32_t g_asan_reports;
static int g_forkmode;

static void on_asan_report(const char *text) {
	g_asan_reports++;
	if (0 == g_forkmode || g_asan_reports > 6 || NULL == text ||
	    NULL == strstr(text, "READ of size") ||
	    (NULL == strstr(text, "heap-buffer-overflow") && NULL == strstr(text, "unknown-crash")))
		_exit(86);
}

static vout_t g_vout;

/* CPU-time budget per case: 1 s by default; the runner lowers it (C13_ALARM_MS)
 * only after it has already confirmed hangs at the 1 s budget. */
static long g_alarm_ms = 1000;
static void arm_case(void) {
	struct itimerval it;
	memset(&it, 0, sizeof(it));
	it.it_value.tv_sec = (g_alarm_ms / 1000);
	it.it_value.tv_usec = ((g_alarm_ms % 1000) * 1000);
	setitimer(ITIMER_VIRTUAL, &it, NULL);
}

static void emit_marker(size_t idx, int code) {
	char line[96];
	uint8_t marker[8];

	snprintf(line, sizeof(line), "\nVERIF-CASE-END %zu status=%d\n", idx, code);
	(void)!write(2, line, strlen(line));
	memcpy(marker, "\xff\xfe" "CRASH", 7);
	marker[7] = (uint8_t)code;
	g_vout.n = 0;
	vout_raw(&g_vout, marker, 8);
	vout_flush(&g_vout);
}

static void one_case(const uint8_t *c, size_t len, size_t idx) {
	obs_reset();
	g_asan_reports = 0;
	vdrv_dirty_stack((uint8_t)len);
	run_case(c, len);
	if (0 != g_asan_reports) { /* only reachable in --fork mode */
		emit_marker(idx, 86);
		return;
	}
	obs_write(&g_vout);
	vout_flush(&g_vout);
}

/* --fork: all cases are read first; a child process runs them in order and
 * writes the observations itself.  When a sanitizer (or the CPU alarm) kills
 * the child, the parent emits a crash-marker observation for the case that was
 * running, a "VERIF-CASE-END <index> status=<n>" line on stderr (so the report
 * text before it belongs to that case) and forks a new child for the rest.
 * One fork per fatal report instead of a new process image and re-fed input. */
static int main_fork(void) {
	uint8_t **cs = NULL, *c;
	size_t *ls = NULL, len, n = 0, cap = 0, next = 0, i, j;
	volatile uint32_t *progress;
	struct itimerval it;
	pid_t pid;
	int st, code;

	g_forkmode = 1;
	while (NULL != (c = vdrv_next_case(&len))) {
		if (n == cap) {
			cap = (cap * 2) + 256;
			cs = realloc(cs, cap * sizeof(cs[0]));
			ls = realloc(ls, cap * sizeof(ls[0]));
		}
		cs[n] = c; ls[n] = len; n++;
	}
	memset(&it, 0, sizeof(it));
	setitimer(ITIMER_VIRTUAL, &it, NULL);
	progress = mmap(NULL, 4096, PROT_READ | PROT_WRITE, MAP_SHARED | MAP_ANONYMOUS, -1, 0);
	if (MAP_FAILED == (void*)progress) return 99;
	while (next < n) {
		progress[0] = (uint32_t)next; progress[1] = (uint32_t)next;
		pid = fork();
		if (-1 == pid) return 99;
		if (0 == pid) {
			for (i = next; i < n; i++) {
				progress[0] = (uint32_t)i;
				arm_case();
				one_case(cs[i], ls[i], i);
				progress[1] = (uint32_t)(i + 1);
			}
			_exit(0);
		}
		while (-1 == waitpid(pid, &st, 0) && EINTR == errno)
			;
		if (WIFEXITED(st) && 0 == WEXITSTATUS(st) && progress[1] >= n)
			break;
		j = progress[0];
		if (progress[1] > j) { /* died after the observation was written */
			next = progress[1];
			continue;
		}
		code = WIFEXITED(st) ? WEXITSTATUS(st) : (128 + WTERMSIG(st));
		emit_marker(j, code);
		next = (j + 1);
	}
	return 0;
}

int main(int argc, char **argv) {
	uint8_t *c; size_t len;

	memset(&g_vout, 0, sizeof(g_vout));
	vdrv_case_secs = 1; /* CPU seconds; a case needs microseconds */
	vdrv_init();
	dhcp4_static_init();
	__asan_set_error_report_callback(on_asan_report);
	if (NULL != getenv("C13_ALARM_MS") && 10 <= atol(getenv("C13_ALARM_MS")))
		g_alarm_ms = atol(getenv("C13_ALARM_MS"));
	if (argc > 1 && 0 == strcmp(argv[1], "--fork"))
		return main_fork();
	while (NULL != (c = vdrv_next_case(&len))) {
		arm_case();
		one_case(c, len, 0);
		free(c);
	}
	return 0;
}
#endif
