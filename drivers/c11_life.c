/* C11 harness: pool life cycle histories + fault enumeration during creation. One scenario per process. */
#include "tpmon.h"
#include <sys/socket.h>

enum { EV_OP = 1, EV_OP_RET, EV_HOOK_START, EV_HOOK_STOP, EV_CB, EV_LATE, EV_FAULT, EV_RES, EV_TIMEOUT, EV_NOTE };
enum { OP_CREATE = 1, OP_THREADS_CREATE, OP_ATTACH_FIRST, OP_SENDERS_START, OP_SENDERS_STOP, OP_ARM_EVENTS,
       OP_SHUTDOWN_MAIN, OP_SHUTDOWN_EXT, OP_SHUTDOWN_POOL, OP_WAIT_MAIN, OP_WAIT_POOL, OP_DESTROY_MAIN, OP_DESTROY_POOL,
       OP_SLEEP_US, OP_GO /* release the concurrent shutdown callers */, OP_JOIN_HELPERS, OP_THREADS_CREATE_AGAIN,
       OP_GATE /* park worker arg inside a callback */, OP_FLOOD /* fill worker arg's queue until EAGAIN */, OP_UNGATE, OP_WAIT_T0 /* wait until thread 0 ran its start hook */,
       OP_CLOSE_STDIN /* only as the first op: descriptor 0 is free when the pool is created */,
       OP_DETTACH /* tp_thread_dettach() on slot arg, which has no thread in its event loop */,
       OP_FORCE_SEND /* tpt_msg_send(thread arg, TP_MSG_F_FORCE): runs in place if that thread does not run (yet) */ };
enum { FK_NONE = 0, FK_CALLOC, FK_EPOLL_CREATE, FK_PIPE2, FK_EPOLL_CTL, FK_PTHREAD_CREATE, FK__N };

static tp_p g_tp;
static unsigned g_pool;
static volatile int g_destroyed, g_stop_senders, g_go, g_t0_started;
static volatile uint64_t g_cb_total, g_rc_pool_op, g_pool_op_done;

/* ---- fault injection: fail the k-th call of one kind while armed */
static int g_fk_armed; static int g_fk_kind; static uint64_t g_fk_k;
static volatile uint64_t g_fk_cnt[FK__N];
static volatile uint64_t g_fk_fired;

void *__real_calloc(size_t n, size_t s);
int __real_epoll_create1(int f);
int __real_pipe2(int fd[2], int f);
int __real_epoll_ctl(int ep, int op, int fd, struct epoll_event *e);
int __real_pthread_create(pthread_t *t, const pthread_attr_t *a, void *(*fn)(void *), void *arg);

static int fk_hit(int kind) {
	uint64_t k;
	if (!__atomic_load_n(&g_fk_armed, __ATOMIC_RELAXED)) return 0;
	k = __atomic_add_fetch(&g_fk_cnt[kind], 1, __ATOMIC_RELAXED);
	if (g_fk_kind == kind && k == g_fk_k) { __atomic_add_fetch(&g_fk_fired, 1, __ATOMIC_RELAXED); TM_LOG(EV_FAULT, (uint16_t)kind, k, 0, 0); return 1; }
	return 0;
}
void *__wrap_calloc(size_t n, size_t s) { if (fk_hit(FK_CALLOC)) { errno = ENOMEM; return NULL; } return __real_calloc(n, s); }
int __wrap_epoll_create1(int f) { if (fk_hit(FK_EPOLL_CREATE)) { errno = EMFILE; return -1; } return __real_epoll_create1(f); }
int __wrap_pipe2(int fd[2], int f) { if (fk_hit(FK_PIPE2)) { errno = EMFILE; return -1; } return __real_pipe2(fd, f); }
int __wrap_epoll_ctl(int ep, int op, int fd, struct epoll_event *e) { if (fk_hit(FK_EPOLL_CTL)) { errno = ENOMEM; return -1; } return __real_epoll_ctl(ep, op, fd, e); }
int __wrap_pthread_create(pthread_t *t, const pthread_attr_t *a, void *(*fn)(void *), void *arg) {
	if (fk_hit(FK_PTHREAD_CREATE)) return EPERM;
	return __real_pthread_create(t, a, fn, arg);
}

/* ---- hooks and callbacks */
static void on_start(tpt_p tpt) {
	size_t num = tpt_get_num(tpt);
	if (tpt_get_current() == tpt) tm_tid = (uint32_t)num;
	if (0 == num) __atomic_store_n(&g_t0_started, 1, __ATOMIC_RELEASE);
	TM_LOG(EV_HOOK_START, (uint16_t)__atomic_load_n(&g_destroyed, __ATOMIC_RELAXED), num, (uint64_t)(uintptr_t)tpt_get_tp(tpt), 0);
}
static unsigned g_stop_hook_sleep_us;
static void on_stop(tpt_p tpt) {
	if (g_stop_hook_sleep_us && tpt_get_current() == tpt) { struct timespec ts = {0, (long)g_stop_hook_sleep_us * 1000}; nanosleep(&ts, NULL); }
	TM_LOG(EV_HOOK_STOP, (uint16_t)__atomic_load_n(&g_destroyed, __ATOMIC_RELAXED), tpt_get_num(tpt), (uint64_t)(uintptr_t)tpt_get_tp(tpt), 0);
}
static inline void any_cb(int what) {
	if (__atomic_load_n(&g_destroyed, __ATOMIC_RELAXED)) TM_LOG(EV_LATE, (uint16_t)what, 0, 0, 0);
	__atomic_add_fetch(&g_cb_total, 1, __ATOMIC_RELAXED);
}
static void msg_cb(tpt_p tpt, void *udata) { (void)tpt; (void)udata; any_cb(1); }
static sem_t g_gate_sem; static volatile uint64_t g_gated;
static void gate_cb(tpt_p tpt, void *udata) { (void)tpt; (void)udata; __atomic_add_fetch(&g_gated, 1, __ATOMIC_RELEASE); sem_wait(&g_gate_sem); any_cb(4); }

typedef struct { tp_udata_t u; int fd[2]; } evrec_t;
static evrec_t g_timers[32], g_reads[32];
static void timer_cb(tp_event_p ev, tp_udata_p u) { (void)ev; (void)u; any_cb(2); }
static void read_cb(tp_event_p ev, tp_udata_p u) { (void)ev; (void)u; any_cb(3); /* level triggered: keeps firing */ { struct timespec ts = {0, 200000}; nanosleep(&ts, NULL); } }

static void arm_cb(tpt_p tpt, void *udata) {
	size_t n = tpt_get_num(tpt); int rc;
	(void)udata;
	if (n >= 32) return;
	memset(&g_timers[n], 0, sizeof(evrec_t));
	g_timers[n].u.cb_func = timer_cb; g_timers[n].u.ident = (uintptr_t)&g_timers[n];
	rc = tpt_ev_add_args(tpt, TP_EV_TIMER, 0, TP_FF_T_MSEC, 1, &g_timers[n].u);
	TM_LOG(EV_NOTE, 1, n, 0, rc);
	memset(&g_reads[n], 0, sizeof(evrec_t));
	if (0 == pipe2(g_reads[n].fd, O_NONBLOCK)) {
		(void)!write(g_reads[n].fd[1], "x", 1);
		g_reads[n].u.cb_func = read_cb; g_reads[n].u.ident = (uintptr_t)g_reads[n].fd[0];
		rc = tpt_ev_add_args(tpt, TP_EV_READ, 0, 0, 0, &g_reads[n].u);
		TM_LOG(EV_NOTE, 2, n, 0, rc);
	}
}

/* ---- helper threads */
static void *sender_thr(void *arg) {
	unsigned idx = (unsigned)(uintptr_t)arg; uint64_t n = 0;
	tm_tid = 1000 + idx;
	while (!__atomic_load_n(&g_stop_senders, __ATOMIC_RELAXED)) {
		uint64_t r = tm_rand();
		tpt_p d = (r & 7) == 0 ? tp_thread_get_pvt(g_tp) : tp_thread_get(g_tp, (size_t)((r >> 8) % g_pool));
		tpt_msg_send(d, NULL, (uint32_t)((r >> 20) & 4), msg_cb, NULL);
		if ((++n & 63) == 0) sched_yield();
	}
	return NULL;
}
static void *sender_thr_nop(void *arg) { return arg; }
static void *attach_thr(void *arg) {
	int rc;
	(void)arg; tm_tid = 2000;
	TM_LOG(EV_OP, OP_ATTACH_FIRST, 0, 0, 0);
	rc = tp_thread_attach_first(g_tp);
	tm_tid = 2000;
	TM_LOG(EV_OP_RET, OP_ATTACH_FIRST, 0, 0, rc);
	return NULL;
}
static void *shutdown_thr(void *arg) {
	unsigned idx = (unsigned)(uintptr_t)arg;
	tm_tid = 3000 + idx;
	while (!__atomic_load_n(&g_go, __ATOMIC_ACQUIRE)) sched_yield();
	TM_LOG(EV_OP, OP_SHUTDOWN_EXT, idx, 0, 0);
	tp_shutdown(g_tp);
	TM_LOG(EV_OP_RET, OP_SHUTDOWN_EXT, idx, 0, 0);
	return NULL;
}
static void pool_op_cb(tpt_p tpt, void *udata) {
	unsigned op = (unsigned)(uintptr_t)udata; int rc = 0;
	(void)tpt;
	if (op == OP_SHUTDOWN_POOL) { while (!__atomic_load_n(&g_go, __ATOMIC_ACQUIRE)) sched_yield(); }
	TM_LOG(EV_OP, (uint16_t)op, 0, 0, 0);
	if (op == OP_SHUTDOWN_POOL) tp_shutdown(g_tp);
	else if (op == OP_WAIT_POOL) rc = tp_shutdown_wait(g_tp);
	else if (op == OP_DESTROY_POOL) rc = tp_destroy(g_tp);
	TM_LOG(EV_OP_RET, (uint16_t)op, 0, 0, rc);
	__atomic_add_fetch(&g_pool_op_done, 1, __ATOMIC_RELEASE);
}

#define MAXH 64
int main(void) {
	size_t len; uint8_t *c; vout_t o = {0}; vin_t in;
	uint64_t seed; unsigned nops, i, flags, nh = 0, nsend = 0, pool_ops = 0;
	pthread_t helpers[MAXH], senders[MAXH];
	tp_settings_t s; int rc, fd0, fd1, task0, task1, created = 0, destroyed_ok = 0, shut = 0, timeout = 0; unsigned gates = 0;

	vdrv_case_secs = 120; vdrv_init(); tm_watchdog(45); sem_init(&g_gate_sem, 0, 0);
	c = vdrv_next_case(&len); if (!c) return 0;
	in.p = c; in.n = len; in.o = 0; in.bad = 0;
	seed = vin_u64(&in); g_pool = vin_u8(&in); flags = vin_u32(&in);
	tm_perturb_permille = vin_u16(&in); tm_sleep_max_us = vin_u16(&in); tm_point_mask = vin_u64(&in);
	g_fk_kind = vin_u8(&in); g_fk_k = vin_u32(&in); g_stop_hook_sleep_us = vin_u32(&in);
	nops = vin_u16(&in);
	tm_scn_seed = seed; tm_tid = 999;
	if (nops && in.o < in.n && in.p[in.o] == OP_CLOSE_STDIN) close(0); /* before the baseline is taken */
	/* warm up lazily-created process-wide state (sanitizer background thread) before the baseline */
	{ pthread_t w; if (0 == __real_pthread_create(&w, NULL, sender_thr_nop, NULL)) pthread_join(w, NULL); }
	{ struct timespec ts = {0, 2000000}; nanosleep(&ts, NULL); }
	fd0 = tm_fd_count_settled(); task0 = tm_task_count();
	TM_LOG(EV_RES, 0, (uint64_t)fd0, (uint64_t)task0, 0);

	for (i = 0; i < nops && !in.bad; i++) {
		unsigned op = vin_u8(&in); uint32_t arg = vin_u32(&in);
		switch (op) {
		case OP_CREATE:
			tp_settings_def(&s); s.threads_max = g_pool; s.flags = flags; s.tpt_on_start = on_start; s.tpt_on_stop = on_stop;
			g_tp = NULL;
			TM_LOG(EV_OP, OP_CREATE, g_pool, flags, 0);
			__atomic_store_n(&g_fk_armed, 1, __ATOMIC_RELAXED);
			rc = tp_create(&s, &g_tp);
			if (rc) __atomic_store_n(&g_fk_armed, 0, __ATOMIC_RELAXED);
			TM_LOG(EV_OP_RET, OP_CREATE, (uint64_t)(g_tp != NULL), 0, rc);
			created = (rc == 0 && g_tp != NULL);
			break;
		case OP_THREADS_CREATE:
		case OP_THREADS_CREATE_AGAIN:
			if (!created) break;
			TM_LOG(EV_OP, (uint16_t)op, arg, 0, 0);
			rc = tp_threads_create(g_tp, (int)arg);
			__atomic_store_n(&g_fk_armed, 0, __ATOMIC_RELAXED);
			TM_LOG(EV_OP_RET, (uint16_t)op, arg, 0, rc);
			break;
		case OP_ATTACH_FIRST:
			if (!created || nh >= MAXH) break;
			pthread_create(&helpers[nh++], NULL, attach_thr, NULL);
			break;
		case OP_SENDERS_START:
			if (!created) break;
			for (; nsend < arg && nsend < MAXH; nsend++) pthread_create(&senders[nsend], NULL, sender_thr, (void *)(uintptr_t)nsend);
			break;
		case OP_SENDERS_STOP:
			__atomic_store_n(&g_stop_senders, 1, __ATOMIC_RELAXED);
			while (nsend) pthread_join(senders[--nsend], NULL);
			break;
		case OP_ARM_EVENTS:
			if (!created) break;
			{ unsigned t; for (t = 0; t < g_pool; t++) tpt_msg_send(tp_thread_get(g_tp, t), NULL, 0, arm_cb, NULL); }
			break;
		case OP_SHUTDOWN_MAIN:
			if (!created) break;
			TM_LOG(EV_OP, OP_SHUTDOWN_MAIN, 0, 0, 0);
			tp_shutdown(g_tp); shut = 1;
			TM_LOG(EV_OP_RET, OP_SHUTDOWN_MAIN, 0, 0, 0);
			break;
		case OP_SHUTDOWN_EXT:
			if (!created || nh >= MAXH) break;
			pthread_create(&helpers[nh], NULL, shutdown_thr, (void *)(uintptr_t)nh); nh++; shut = 1;
			break;
		case OP_SHUTDOWN_POOL:
		case OP_WAIT_POOL:
		case OP_DESTROY_POOL:
			if (!created) break;
			if (0 == tpt_msg_send(tp_thread_get(g_tp, arg % g_pool), NULL, 0, pool_op_cb, (void *)(uintptr_t)op)) pool_ops++;
			if (op == OP_SHUTDOWN_POOL) shut = 1;
			break;
		case OP_GO:
			__atomic_store_n(&g_go, 1, __ATOMIC_RELEASE);
			break;
		case OP_WAIT_MAIN:
			if (!created) break;
			TM_LOG(EV_OP, OP_WAIT_MAIN, 0, 0, 0);
			rc = tp_shutdown_wait(g_tp);
			TM_LOG(EV_OP_RET, OP_WAIT_MAIN, 0, 0, rc);
			break;
		case OP_DESTROY_MAIN:
			if (!created) break;
			TM_LOG(EV_OP, OP_DESTROY_MAIN, 0, 0, 0);
			rc = tp_destroy(g_tp);
			if (rc == 0) { __atomic_store_n(&g_destroyed, 1, __ATOMIC_RELAXED); destroyed_ok = 1; created = 0; }
			TM_LOG(EV_OP_RET, OP_DESTROY_MAIN, 0, 0, rc);
			break;
		case OP_GATE:
			if (!created) break;
			if (0 == tpt_msg_send(tp_thread_get(g_tp, arg % g_pool), NULL, 0, gate_cb, NULL)) {
				uint64_t want = __atomic_load_n(&g_gated, __ATOMIC_ACQUIRE) + 1;
				tm_wait_ge(&g_gated, want, 10000);
				gates++;
			}
			break;
		case OP_FLOOD:
			if (!created) break;
			{ unsigned n; int frc = 0; for (n = 0; n < 6000 && 0 == (frc = tpt_msg_send(tp_thread_get(g_tp, arg % g_pool), NULL, 0, msg_cb, NULL)); n++) { }
			  TM_LOG(EV_NOTE, 3, n, 0, frc); }
			break;
		case OP_WAIT_T0:
			{ uint64_t t0 = tm_now(); while (!__atomic_load_n(&g_t0_started, __ATOMIC_ACQUIRE) && tm_now() - t0 < 10000000000ull) sched_yield(); }
			break;
		case OP_UNGATE:
			while (gates) { sem_post(&g_gate_sem); gates--; }
			break;
		case OP_FORCE_SEND:
			if (!created) break;
			rc = tpt_msg_send(tp_thread_get(g_tp, arg % g_pool), NULL, TP_MSG_F_FORCE, msg_cb, NULL);
			TM_LOG(EV_NOTE, 4, arg % g_pool, 0, rc);
			break;
		case OP_DETTACH:
			if (!created) break;
			TM_LOG(EV_OP, OP_DETTACH, arg % g_pool, 0, 0);
			rc = tp_thread_dettach(tp_thread_get(g_tp, arg % g_pool));
			TM_LOG(EV_OP_RET, OP_DETTACH, arg % g_pool, 0, rc);
			break;
		case OP_SLEEP_US: { struct timespec ts = {0, (long)arg * 1000}; nanosleep(&ts, NULL); } break;
		case OP_JOIN_HELPERS:
			__atomic_store_n(&g_go, 1, __ATOMIC_RELEASE);
			while (nh) pthread_join(helpers[--nh], NULL);
			break;
		default: break;
		}
	}
	/* canonical epilogue: whatever the history did, finish with a legal teardown */
	__atomic_store_n(&g_go, 1, __ATOMIC_RELEASE);
	while (gates) { sem_post(&g_gate_sem); gates--; }
	if (created) {
		if (pool_ops) { /* let queued pool-side operations run before teardown */
			uint64_t t0 = tm_now();
			while (__atomic_load_n(&g_pool_op_done, __ATOMIC_ACQUIRE) < pool_ops && tm_now() - t0 < 5000000000ull) sched_yield();
		}
		(void)shut;
		TM_LOG(EV_OP, OP_SHUTDOWN_MAIN, 1, 0, 0);
		tp_shutdown(g_tp);
		TM_LOG(EV_OP_RET, OP_SHUTDOWN_MAIN, 1, 0, 0);
	}
	__atomic_store_n(&g_stop_senders, 1, __ATOMIC_RELAXED);
	while (nsend) pthread_join(senders[--nsend], NULL);
	while (nh) pthread_join(helpers[--nh], NULL);
	if (created) {
		TM_LOG(EV_OP, OP_DESTROY_MAIN, 1, 0, 0);
		rc = tp_destroy(g_tp);
		if (rc == 0) { __atomic_store_n(&g_destroyed, 1, __ATOMIC_RELAXED); destroyed_ok = 1; }
		TM_LOG(EV_OP_RET, OP_DESTROY_MAIN, 1, 0, rc);
	}
	{ unsigned t; for (t = 0; t < 32; t++) { if (g_reads[t].fd[0] > 0) { close(g_reads[t].fd[0]); close(g_reads[t].fd[1]); } } }
	{ struct timespec ts = {0, 5000000}; nanosleep(&ts, NULL); }
	fd1 = tm_fd_count_settled(); task1 = tm_task_count();
	TM_LOG(EV_RES, 1, (uint64_t)fd1, (uint64_t)task1, destroyed_ok);
	if (timeout) TM_LOG(EV_TIMEOUT, 0, 0, 0, 0);

	vout_u32(&o, 0xC11C11);
	for (i = 0; i < FK__N; i++) vout_u64(&o, __atomic_load_n(&g_fk_cnt[i], __ATOMIC_RELAXED));
	vout_u64(&o, __atomic_load_n(&g_fk_fired, __ATOMIC_RELAXED));
	vout_u64(&o, __atomic_load_n(&g_cb_total, __ATOMIC_RELAXED));
	tm_points_dump(&o); tm_dump(&o); vout_flush(&o);
	free(o.p); free(c);
	return 0;
}
