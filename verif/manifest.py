#!/usr/bin/env python3
"""Regenerates /verif/MANIFEST.json from the table below (python3 -m verif.manifest)."""
import json
import os
import subprocess

ROOT = os.path.dirname(os.path.dirname(os.path.abspath(__file__)))

# id -> (category, technique, level text, level note, design ref)
TP_NOTE = ("trusted: gcc ASan/UBSan/LSan/TSan runtimes, the kernel's pipe/epoll semantics, the harness event log (per-thread, owner-written, "
           "relaxed atomics only so it adds no happens-before edges); interleavings and fault positions outside the sampled/enumerated set are unexamined")

CHECKS = {
    "C01": ("exploration", "runtime monitoring: every bn_* entry point executed in 9 digit-width/mul-div variants x gcc/clang x -O levels (plus ASan+UBSan, MSan) on one shared case stream; Python int decides each observation; two runs per case with different junk in dead storage decide value-only dependence; in-driver exhaustive enumeration at 8-bit digits",
            "Held on the cases explored: boundary-biased operands (0, 1, 2^k+-1, all-ones, single bit, dense random), Knuth-D adversarial divisions forcing 0/1/2 quotient corrections, primes of every residue class for mod_sqrt, NAF w=2..8 and JSF recoding, binary/hex import/export at every buffer size 0..need+1, all permitted aliasing forms; per-operation regions must-succeed / may-fail / must-fail from the documented contract: success with a wrong value is a violation, as are structural invariant breaks, writes above capacity, and any difference between the two junk patterns; all operand pairs a < 2^16 x b < 2^12 (slices in quick) are enumerated against unsigned __int128 inside the 8-bit builds.",
            "trusted: Python int, oracles/bn.py (Miller-Rabin, Tonelli, NAF/JSF property checkers; selftest in setup); Barrett, bn_egcd, bn_mod_inv3, bn_sqrt2-5 are outside the claim; operand space for >=32-bit digits is sampled; only gcc 12 / clang 14", "DESIGN.md 4 C01"),
    "C02": ("exploration", "runtime monitoring: ec_point_* entry points executed in a covering set of build configurations (coordinate system, fixed-point/unknown-point/twin algorithm, window widths, mixed add, repeated doubling, digit widths) under ASan+UBSan and plain -O2 (MSan in thorough); Python affine group law decides every result; each case re-run with different junk in curve object, operands and dead stack decides value-only dependence",
            "Held on the cases explored: all 32 built-in curves with operand relations {P,Q; same object; equal copy; P,-P; P,O; O,P; O,O; G; 2P} and scalars {0..4, n-2..n+1, (n+-1)/2, 2^i and 2^i+-1 at digit boundaries, all-ones, alternating, single comb column / window per position, random bit lengths}, twin multiplication incl. (k,n-k),(0,k),(k,0); tiny synthetic curves (p=23..131: prime order, a=0, a=p-3 with/without flag, cofactor 2 and 4 with y=0 points, b=0) with the whole group enumerated for add/sub/mult/twin; every configuration must equal the one Python reference, hence each other.",
            "trusted: oracles/ec.py (affine group law, brute-force group order on tiny curves, selftest in setup); the configuration space is a covering sample (13 quick / 179 thorough), not the product; affine + INTER twin does not link and is recorded not selectable; synthetic curves may declare m > bitlen(p)", "DESIGN.md 4 C02"),
    "C03": ("exploration", "runtime monitoring: ecdsa_sign/verify/verify_priv_key (byte and bn level, BE and LE) executed under ASan+UBSan in five build configurations; a from-scratch reference ECDSA / GOST R 34.10 signer and verifier decides every signature and every accept/reject; the BN_RET_ON_ERR failpoint fails the k-th internal bignum call (stride-sampled plans) and any success after an internal failure is a violation",
            "Held on the cases explored: curves (10 seeded-rotating in quick incl. secp521r1, a cofactor-4, a Brainpool, an n-longer-than-p and three GOST curves; all 32 in thorough) x d in {1,2,n-1,random} x hash values {0,1,n-1,n,n+1,2^(8b)-1,random} of lengths 1..2b+1 x nonces {0,1,n-1,n,max,random}; ~27 mutations per signature (bit flips, r/s in {0,n,n+r}, swapped, wrong key, neutral key) through both verifiers; over-wide / invalid bn objects; the library's signature must equal the reference signature for the same nonce and both verifiers' decisions must equal the standard's.",
            "trusted: oracles/ecdsa.py (RFC 6979 A.2.5/P-192, X9.62 J.3.1, RFC 7091 vectors in setup) on top of oracles/ec.py; under EC_DISABLE_PUB_KEY_CHK acceptance of a finite non-validated key is not judged; refusal to sign valid input is an observation; fault positions are sampled", "DESIGN.md 4 C03"),
    "C09": ("exploration", "runtime monitoring: key export/import/generation/recovery/Diffie-Hellman entry points executed under ASan+UBSan on exact-size buffers in five build configurations (EC_DISABLE_PUB_KEY_CHK on and off); reference SEC 1 codec, point validation (on curve and annihilated by n), key derivation and cofactor DH decide; failpoint plans on keygen/recover/dh",
            "Held on the cases explored: export in 3 layouts x import in 4 layouts x 2 byte orders must round-trip; ~45 invalid imports per curve (off-curve, coordinates >= p, non-residue x, y=0 and wrong-order points on the cofactor curves, wrong prefix bytes, every total length 0..2b+2) judged by the validity predicate, compressed input must give the requested parity; key generation, public from private and DH (4 peer layouts x cofactor flag, invalid peers) equal the reference and DH is symmetric; exact-size sweeps of rnd_size, sign_size, priv_key_size, hash_size, pub_key_size under ASan.",
            "trusted: oracles/ecdsa.py + oracles/ec.py (Tonelli-Shanks, true cofactor); hybrid prefixes 06/07 are not judged; curves sampled in quick (all 32 in thorough)", "DESIGN.md 4 C09"),
    "C04": ("exploration", "runtime monitoring: real hash code in every compiled transform variant (portable/SSE/SHA-NI/AVX/small tables, gcc+clang, -O0/-O2/-O3, ASan+UBSan, MSan) driven over exhaustive lengths, chunkings and alignments in exact-size buffers; hashlib and an independent Python Streebog decide; context non-interference monitor for zeroisation and a private-stack residue scan after the one-shot entry points (whose context is an automatic object)",
            "Held on the cases explored: every length 0..4 blocks with one-shot, byte-wise, all 2-way and random k-way splits incl. empty updates, all 64 source alignments at padding-adjacent lengths, 64 KiB and 1 MiB+1 messages, one call of 2^32+100 octets for SHA-2, bit-counter state injection near 2^29/2^32/2^61/2^64 (and 2^124 for SHA-512), every compiled-in transform forced through the dispatch flags; digests, reported sizes and hex text of the three entry points compared with hashlib / Python Streebog (validated on RFC 6986/7836); after final the context image must not depend on the message.",
            "trusted: Python hashlib; oracles/streebog.py and oracles/mdhash.py (self-tested against RFC vectors / hashlib in setup); variants that do not compile are recorded not_selectable; only gcc 12 and clang 14", "DESIGN.md 4 C04"),
    "C05": ("exploration", "runtime monitoring: real pool under ASan+UBSan+LSan and TSan, offline exactly-once/FIFO/affinity checker over a client-boundary event log, injected queue write/read faults, seeded schedule perturbation",
            "Held on the executions explored: hundreds of seeded scenarios (pool sizes 1-16, external/pool/self senders, all 8 flag combinations, never-started and STARTING destinations, shared virtual thread, pipe-full EAGAIN, injected EAGAIN/EPIPE/EBADF at the first 64 queue writes and sampled later ones, EINTR/EAGAIN on queue reads, shutdown with accepted messages still queued: behind the stop message, in a later read batch, in a full queue, in the virtual thread's queue, or written by a sender racing tp_shutdown) with every message carrying a unique id and every history checked offline; exploration because schedules are sampled, not enumerated.",
            TP_NOTE, "DESIGN.md 4 C05"),
    "C07": ("exploration", "runtime monitoring: HMAC entry points (streaming, one-shot, digest, hex) in the C04 build variants under ASan+UBSan/MSan; hmac.new / RFC 2104 over the Python Streebog decide; key block freed after init (use-after-free monitor), context non-interference monitor for pad wiping, and a private-stack residue scan for K' xor ipad/opad after each hmac entry point and after the RADIUS Message-Authenticator calculation (every packet code, error returns included) returns (non-sanitizer builds)",
            "Held on the cases explored: all eight hash variants, key lengths 0..3 blocks (every length in thorough; every boundary and every 5th otherwise in quick), messages/chunkings from the C04 generator, context reuse with a second key; MAC, sizes and entry-point agreement checked against the reference; after final the HMAC context (incl. k_opad) must be identical for twin keys/messages.",
            "trusted: Python hashlib/hmac and oracles/streebog.py (RFC 7836 HMAC vectors in setup)", "DESIGN.md 4 C07"),
    "C08": ("exploration", "runtime monitoring: ChaCha/HChaCha/XChaCha and GOST 28147-89 executed in gcc/clang x -O0..-O3 x {default, -fno-strict-aliasing} x {expanded, small tables} builds plus ASan+UBSan and MSan, exact-size buffers with alignment sweeps; from-scratch Python references decide every output and the counter",
            "Held on the cases explored: rounds 8/12/20 x 128/256-bit keys, edge counters around 2^32 and 2^64, every length 0..320, every two-call split of lengths <= 192 plus random k-way splits (key-stream carry-over), all 8x8 source/destination alignments, NULL source, in-place; HChaCha/XChaCha edge keys and nonces; GOST: all built-in S-box sets plus random permutation boxes, LE/BE entry points, encrypt/decrypt/round trip at every alignment, MAC tag sizes over 0..8 blocks; every build must equal the reference (hence each other).",
            "trusted: oracles/chacha.py (RFC 7539/8439, draft-strombergson, draft-irtf-cfrg-xchacha vectors in setup) and oracles/gost28147.py (GOST R 34.12-2015 A.2, GOST R 34.11-94 digests, BouncyCastle vectors; S-boxes parsed from the header's unexpanded tables); CryptoPro-B/C/D table contents are taken from the header; UBSan alignment reports inside the two headers are gating (the unchanged tree produces none); the header has six S-box sets, not seven", "DESIGN.md 4 C08"),
    "C10": ("exploration", "runtime monitoring: broadcast harness under ASan (stack-use-after-return on)+LSan and TSan; offline checker over callback intervals, call/return and completion records; send-failure positions enumerated",
            "Held on the executions explored: every flag subset of bsend_ex/cbsend x caller kind (external, pool thread, thread of a second pool) x pool sizes 1-16, never-started thread subsets, back-to-back synchronous broadcasts from one stack frame, send failure at each position 1..threads+1, perturbation at the decrement and hand-over points; counts, exactly-once, sync completion, completion-callback affinity and one-by-one non-overlap are checked on every history.",
            TP_NOTE, "DESIGN.md 4 C10"),
    "C11": ("fault_enumeration", "runtime monitoring with fault enumeration: life-cycle histories under ASan+LSan/TSan with hook/late-callback/descriptor/thread balance monitors; every k-th calloc/epoll_create1/pipe2/epoll_ctl/pthread_create of pool creation failed via link-time interposers",
            "Every resource acquisition of tp_create+tp_threads_create (counted by a dry run) is failed one at a time for every k and every kind for pools of 1, 2, 4 (16 in thorough) and the outcome checked (error returned, nothing left behind, hooks balanced); on top, seeded histories over create/threads_create/attach_first/shutdown (main, external, pool thread, concurrent)/wait/destroy incl. illegal orders with in-flight senders, timers and read events, perturbed at the guarded points.",
            TP_NOTE + "; descriptor/thread balance read from /proc/self", "DESIGN.md 4 C11"),
    "C06": ("exploration", "runtime monitoring: link-time interposers observe what reaches timerfd_create/timerfd_settime/epoll_ctl; online shadow-state monitor on the owning pool thread judges every callback of random and directed add/enable/disable/delete/ready/close/reopen-same-descriptor-number histories; ASan+UBSan and TSan builds",
            "Held on the cases explored: every (value, unit, relative/absolute, periodic/one-shot/dispatch) timer request incl. unit boundaries must program exactly the equivalent itimerspec/clock; every malformed registration (flag/filter/ident/NULL combinations) must be refused without reaching the kernel and well-formed ones installed; hundreds of seeded histories over pipes, socketpairs (incl. half-close and reset), timers (incl. registrations the kernel refuses) and child processes, registered on a worker or on the pool virtual thread, where a callback contradicting the shadow state (disabled, deleted, one-shot already fired, dispatch not re-enabled, wrong EOF flag) is a violation when it happens and expected firings are bounded-progress checked.",
            TP_NOTE + "; cross-thread enable/disable is not gated; absolute periodic interval not asserted", "DESIGN.md 4 C06"),
    "C16": ("exploration", "runtime monitoring: real I/O tasks over socketpairs/loopback with a feeder/drainer peer; callback-boundary monitor (window cursors, canaries in an exact-size heap buffer, stop/pause shadow flags) plus offline byte-stream comparison; ASan+UBSan and TSan builds",
            "Held on the scenarios explored: read/recv tasks must hand over exactly the fed byte stream through the buffer windows (every window position/size incl. 1-byte, persistent/dispatch/one-shot, callback-after-every-read, direct first I/O), with cursors advanced by exactly the transferred amount and nothing written outside the window; end of stream once; a TCP reset by the peer reported once as an error; timeouts once for a 10x gap and never for gaps <= T/20; nothing after stop/destroy on the owning thread, nothing while a dispatch task is paused; write/send tasks must deliver exactly the window to a slow peer through a tiny send buffer and complete once; packet receiver and accept tasks are counted.",
            TP_NOTE + "; regular-file pread/pwrite is not driven (see evidence assumptions)", "DESIGN.md 4 C16"),
    "C12": ("exploration", "runtime monitoring: every utility codec/container in the anchors driven under gcc and clang ASan+UBSan on exact-size heap inputs and outputs whose capacity sweeps 0..required+1 (also between canary frames), reported required sizes passed back, per-case CPU-time alarm",
            "Held on the cases explored: 118 functions (Base64, hex, num/str, UTF-8, ASN.1, bencode, XML extraction, INI, argument splitting, line iteration, mem_* helpers, CRC) with 18 structure-aware generator families plus mutations (truncation at every byte, delimiter as last byte, lengths beyond the buffer, closing tag first, 2^64 length wrap); a sanitizer bounds report, a canary change, a reported size that is not sufficient, or a CPU-time alarm is a violation; the run is inconclusive if any anchored function was never executed or a monitor fails to fire on a deliberate driver fault.",
            "trusted: ASan red zones + canaries (non-adjacent and intra-object overflows can escape); functions are called within documented preconditions; returned spans that leave the input are observations (C13 clause)", "DESIGN.md 4 C12"),
    "C13": ("exploration", "runtime monitoring: every network parser/validator in the anchors executed under gcc and clang ASan+UBSan on exact-size heap copies of generated, mutated, random and (thorough) libFuzzer-found packets; size-less accessors only in the library's own consumer call sequences on validator-accepted packets; driver checks every returned pointer/offset/length against the input span; per-case CPU alarm",
            "Held on the packets explored: structure-aware generators for DNS (compression pointers incl. loops/self/forward, EDNS), RADIUS, DHCPv4 header, HTTP request/status lines, headers, queries, chunked bodies, URL escapes, SDP, SAP, RTP, MPEG-TS plus every single-field mutation the property lists (truncation at every byte, lengths remaining+-1/0/max, counts != content, delimiter as last byte, numeric extremes); a sanitizer report, a returned span outside the message, or a CPU alarm is a violation; the run is inconclusive if a validator never accepts or never rejects or a consumer-mode accessor is never reached.",
            "trusted: ASan red zones; the consumer call sequences were taken from dns_resolv.c, radius_client.c, http_server.c, sap_rcvr.c; DHCPv4 has no option walker in the library (header check only)", "DESIGN.md 4 C13"),
    "C14": ("exploration", "runtime monitoring: encoders/decoders executed in asu and plain -O0/-O2/-O3 gcc/clang builds, every output compared with Python references (base64, binascii, int/str, urllib.parse, five-entity XML escape, bitwise Rocksoft CRC model)",
            "Held on the cases explored: Base64 lengths 0..64 + random to 4 KiB incl. tolerant decoding with interleaved non-alphabet bytes; hex both cases; all 20 number formatters (u8/s8 exhaustive, every 10^k and 10^k+-1, minima/maxima, random) with reported length and round trip through the parsers; XML entity encode/decode; URL unescape of quote/quote_plus; eight CRC variants over lengths 0..300+ with chained updates and the 123456789 check values.",
            "trusted: Python stdlib references and oracles/crc.py (catalogue check values in setup)", "DESIGN.md 4 C14"),
    "C15": ("exploration", "runtime monitoring: library-built DNS/RADIUS messages executed under ASan+UBSan in exact-size buffers, every observation compared with independent RFC 1035/6891 and RFC 2865/2869 reference encoders (hashlib MD5/HMAC)",
            "Held on the cases explored: DNS build sequences compared byte-for-byte with a reference encoder, validated and parsed back; name/label round trips with buffer sizes swept around the need; RADIUS build/sign/verify against reference authenticators, password hiding at every 16-octet edge 0..128, wrong secrets and single-octet corruptions of signed packets (all octets x 3 masks in thorough) judged by what RFC processing must detect.",
            "trusted: Python hashlib/hmac, the reference encoders (self-tested on RFC 2865 7.1 packets and RFC 2202 vectors in setup); names outside 1..253 octets and attributes whose semantics the library does not document are recorded but not judged",
            "DESIGN.md 4 C15"),
    "C17": ("exploration", "runtime monitoring: per-operation histories on the real INI store under ASan+UBSan (exact-size and canary-guarded generation buffers), every observation compared with an ordered-map reference model",
            "Held on the histories explored: thousands of seeded histories of parse/set/set-int/get (case-sensitive and insensitive)/enum/calc-size/generate over small alphabets of names differing only in case, values growing and shrinking across the allocation padding, every output buffer size 0..size+1; after every operation lookups, enumeration order, size calculation, generated text and parse(gen(store)) must agree with the model, and generation into a smaller buffer must fail without writing past it.",
            "trusted: oracles/inimodel.py (self-tested in setup); canonical histories only (no repeated section headers/keys inside parsed text, no CR/LF/= in names)", "DESIGN.md 4 C17"),
    "C18": ("exploration", "runtime monitoring: socket-address formatting/parsing and prefix arithmetic under ASan+UBSan in exact-size buffers, compared with socket.inet_ntop/ipaddress and integer arithmetic",
            "Held on the cases explored: IPv4 boundaries + 10^5 random, IPv6 of every zero-run shape, v4-mapped and random, boundary ports (all 65536 in thorough), every prefix length 0..32/0..128, every output size 0..needed+1, UNIX paths, and grammar-generated plus mutated text for the parsers; text must be the conventional form and round-trip, reported length = strlen, mask/length conversions inverse, membership/truncation equal integer arithmetic, clearly malformed ports/prefix lengths rejected.",
            "trusted: Python socket/ipaddress; spellings the documentation leaves open (unbalanced brackets, bracketed IPv4, empty port, leading zeros, scope ids) are counted but not judged", "DESIGN.md 4 C18"),
    "C19": ("exploration", "runtime monitoring: writer/reader histories on the real packet ring (mmap storage) with every block stamped (sequence, offset); explicit range monitor on every iovec; PROT_NONE guard pages around the library's own mappings (interposed mmap/munmap); byte-stream reference model decides; ASan+UBSan, valgrind memcheck in thorough",
            "Held on the histories explored: ring sizes 4 blocks..1 MiB, min block 1..1500, 1-8 readers advancing by arbitrary amounts, equal and varying block sizes, leading offsets, forced wraps, readers kept one/two rounds behind, round counter preset near SIZE_MAX; no silent gap, no repetition, bytes identical, drop reports account for skipped data, resynchronisation within two ring rounds (bounded progress), avail-size equals a full read, reported size equals bytes in the iovecs, every region inside the ring.",
            "trusted: oracles/ringmodel.py (self-tested in setup); the iovec table lives inside the mapping so only explicit range checks see overruns there", "DESIGN.md 4 C19"),
    "C20": ("exploration", "runtime monitoring: grammar-generated requests/status lines/header blocks (generator keeps its own AST) run through the real parser under ASan+UBSan; returned spans, header lookups, counts and http_req_sec_chk verdicts compared with the AST and an independent pattern scanner",
            "Held on the cases explored: RFC 7230/3986 grammar-generated request and status lines (all target forms, methods, paths, queries), header sets with arbitrary case/folding/duplicates, and every single edit introducing one of the seven smuggling patterns (1.5M control-octet edits in thorough); spans must be the AST's sub-spans (path up to the documented slash trimming).",
            "trusted: the generator/AST and pattern scanner (self-tested in setup); obs-text > 126 and method tokens not starting with A-Z are documented library restrictions and not judged",
            "DESIGN.md 4 C20"),
}

PENDING_REASON = "check not built yet in this session (runtime-monitoring design exists in DESIGN.md section 4); not claimed until the check runs clean on the unchanged tree"

HOOK_COMMITS = ["52f3009", "b1f2ab8", "3642a90"]


def main():
    props = [json.loads(l)["id"] for l in open(os.path.join(ROOT, "properties.jsonl"))]
    checks = []
    na = []
    for pid in props:
        if pid in CHECKS:
            cat, tech, text, note, ref = CHECKS[pid]
            checks.append({
                "property_id": pid,
                "quick_cmd": "./check %s --tier quick" % pid,
                "thorough_cmd": "./check %s --tier thorough" % pid,
                "evidence_file": "/verif/evidence/%s.json" % pid,
                "replay_cmd_template": "./check %s --replay {path}" % pid,
                "engine": "runtime-monitor",
                "level_claimed": {"category": cat, "text": text, "design_ref": ref},
                "level_note": note,
                "technique": tech,
            })
        else:
            na.append({"property_id": pid, "reason": PENDING_REASON})
    m = {
        "version": 1,
        "setup_cmd": "python3 -m verif.setup",
        "hooks": {
            "guard": "LIBLCB_VERIF",
            "enable": "checks compile /repo sources and headers directly with -DLIBLCB_VERIF (verif/common.py BASE_DEFS); no separate library build",
            "baseline_off_cmd": "cmake -G Ninja -B /repo/_build -S /repo -DENABLE_LIBLCB_TESTS=ON -DCMAKE_BUILD_TYPE=RelWithDebInfo -DCMAKE_C_FLAGS=-Wno-error && cmake --build /repo/_build && ctest --test-dir /repo/_build -j8 --timeout 900",
            "source_commits": HOOK_COMMITS,
            "add_only": True,
        },
        "engines": [{
            "name": "runtime-monitor",
            "path": "/verif/check",
            "serves_properties": [c["property_id"] for c in checks],
            "kind_free_text": "real library code executed under gcc/clang sanitizers (ASan+UBSan, TSan, MSan) and valgrind, driven by seeded hostile workloads; Python reference-model oracles and offline trace checkers decide each observation",
        }],
        "checks": checks,
        "not_applicable": na,
        "notes": "All checks: ./check <ID> --tier quick|thorough; VERIF_SEED honoured; exit 0 held / 1 violation / 2 inconclusive. known_findings.json lists genuine defects recorded rather than repaired.",
    }
    with open(os.path.join(ROOT, "MANIFEST.json"), "w") as fh:
        json.dump(m, fh, indent=1)
        fh.write("\n")


if __name__ == "__main__":
    main()
