#!/usr/bin/env python3
"""Regenerates /verif/MANIFEST.json from the table below (python3 -m verif.manifest)."""
import json
import os
import subprocess

ROOT = os.path.dirname(os.path.dirname(os.path.abspath(__file__)))

# id -> (category, technique, level text, level note, design ref)
TP_NOTE = ("trusted: gcc ASan/UBSan/LSan/TSan runtimes, the kernel's pipe/epoll semantics, the harness event log (per-thread, owner-written, "
           "relaxed atomics only so it adds no happens-before edges); interleavings and fault positions outside the sampled/enumerated set are unexamined")

CHECKS = {
    "C05": ("exploration", "runtime monitoring: real pool under ASan+UBSan+LSan and TSan, offline exactly-once/FIFO/affinity checker over a client-boundary event log, injected queue write/read faults, seeded schedule perturbation",
            "Held on the executions explored: hundreds of seeded scenarios (pool sizes 1-16, external/pool/self senders, all 8 flag combinations, never-started and STARTING destinations, shared virtual thread, pipe-full EAGAIN, injected EAGAIN/EPIPE/EBADF at the first 64 queue writes and sampled later ones, EINTR/EAGAIN on queue reads) with every message carrying a unique id and every history checked offline; exploration because schedules are sampled, not enumerated.",
            TP_NOTE, "DESIGN.md 4 C05"),
    "C10": ("exploration", "runtime monitoring: broadcast harness under ASan (stack-use-after-return on)+LSan and TSan; offline checker over callback intervals, call/return and completion records; send-failure positions enumerated",
            "Held on the executions explored: every flag subset of bsend_ex/cbsend x caller kind (external, pool thread, thread of a second pool) x pool sizes 1-16, never-started thread subsets, back-to-back synchronous broadcasts from one stack frame, send failure at each position 1..threads+1, perturbation at the decrement and hand-over points; counts, exactly-once, sync completion, completion-callback affinity and one-by-one non-overlap are checked on every history.",
            TP_NOTE, "DESIGN.md 4 C10"),
    "C11": ("fault_enumeration", "runtime monitoring with fault enumeration: life-cycle histories under ASan+LSan/TSan with hook/late-callback/descriptor/thread balance monitors; every k-th calloc/epoll_create1/pipe2/epoll_ctl/pthread_create of pool creation failed via link-time interposers",
            "Every resource acquisition of tp_create+tp_threads_create (counted by a dry run) is failed one at a time for every k and every kind for pools of 1, 2, 4 (16 in thorough) and the outcome checked (error returned, nothing left behind, hooks balanced); on top, seeded histories over create/threads_create/attach_first/shutdown (main, external, pool thread, concurrent)/wait/destroy incl. illegal orders with in-flight senders, timers and read events, perturbed at the guarded points.",
            TP_NOTE + "; descriptor/thread balance read from /proc/self", "DESIGN.md 4 C11"),
    "C06": ("exploration", "runtime monitoring: link-time interposers observe what reaches timerfd_create/timerfd_settime/epoll_ctl; online shadow-state monitor on the owning pool thread judges every callback of random add/enable/disable/delete/ready/close histories; ASan+UBSan and TSan builds",
            "Held on the cases explored: every (value, unit, relative/absolute, periodic/one-shot/dispatch) timer request incl. unit boundaries must program exactly the equivalent itimerspec/clock; every malformed registration (flag/filter/ident/NULL combinations) must be refused without reaching the kernel and well-formed ones installed; hundreds of seeded histories over pipes, socketpairs (incl. half-close), timers and child processes, where a callback contradicting the shadow state (disabled, deleted, one-shot already fired, dispatch not re-enabled, wrong EOF flag) is a violation when it happens and expected firings are bounded-progress checked.",
            TP_NOTE + "; cross-thread enable/disable is not gated; absolute periodic interval not asserted", "DESIGN.md 4 C06"),
    "C16": ("exploration", "runtime monitoring: real I/O tasks over socketpairs/loopback with a feeder/drainer peer; callback-boundary monitor (window cursors, canaries in an exact-size heap buffer, stop/pause shadow flags) plus offline byte-stream comparison; ASan+UBSan and TSan builds",
            "Held on the scenarios explored: read/recv tasks must hand over exactly the fed byte stream through the buffer windows (every window position/size incl. 1-byte, persistent/dispatch/one-shot, callback-after-every-read, direct first I/O), with cursors advanced by exactly the transferred amount and nothing written outside the window; end of stream once; timeouts once for a 10x gap and never for gaps <= T/20; nothing after stop/destroy on the owning thread, nothing while a dispatch task is paused; write/send tasks must deliver exactly the window to a slow peer through a tiny send buffer and complete once; packet receiver and accept tasks are counted.",
            TP_NOTE + "; regular-file pread/pwrite and socket resets are not driven (see evidence assumptions)", "DESIGN.md 4 C16"),
    "C15": ("exploration", "runtime monitoring: library-built DNS/RADIUS messages executed under ASan+UBSan in exact-size buffers, every observation compared with independent RFC 1035/6891 and RFC 2865/2869 reference encoders (hashlib MD5/HMAC)",
            "Held on the cases explored: DNS build sequences compared byte-for-byte with a reference encoder, validated and parsed back; name/label round trips with buffer sizes swept around the need; RADIUS build/sign/verify against reference authenticators, password hiding at every 16-octet edge 0..128, wrong secrets and single-octet corruptions of signed packets (all octets x 3 masks in thorough) judged by what RFC processing must detect.",
            "trusted: Python hashlib/hmac, the reference encoders (self-tested on RFC 2865 7.1 packets and RFC 2202 vectors in setup); names outside 1..253 octets and attributes whose semantics the library does not document are recorded but not judged",
            "DESIGN.md 4 C15"),
    "C20": ("exploration", "runtime monitoring: grammar-generated requests/status lines/header blocks (generator keeps its own AST) run through the real parser under ASan+UBSan; returned spans, header lookups, counts and http_req_sec_chk verdicts compared with the AST and an independent pattern scanner",
            "Held on the cases explored: RFC 7230/3986 grammar-generated request and status lines (all target forms, methods, paths, queries), header sets with arbitrary case/folding/duplicates, and every single edit introducing one of the seven smuggling patterns (1.5M control-octet edits in thorough); spans must be the AST's sub-spans (path up to the documented slash trimming).",
            "trusted: the generator/AST and pattern scanner (self-tested in setup); obs-text > 126 and method tokens not starting with A-Z are documented library restrictions and not judged",
            "DESIGN.md 4 C20"),
}

PENDING_REASON = "check not built yet in this session (runtime-monitoring design exists in DESIGN.md section 4); not claimed until the check runs clean on the unchanged tree"

HOOK_COMMITS = ["52f3009", "b1f2ab8", "3642a90"]


def main():
    props = [json.loads(l)["id"] for l in open(os.path.join(ROOT, "properties.jsonl"))]
    checks = []
    na = []
    for pid in props:
        if pid in CHECKS:
            cat, tech, text, note, ref = CHECKS[pid]
            checks.append({
                "property_id": pid,
                "quick_cmd": "./check %s --tier quick" % pid,
                "thorough_cmd": "./check %s --tier thorough" % pid,
                "evidence_file": "/verif/evidence/%s.json" % pid,
                "replay_cmd_template": "./check %s --replay {path}" % pid,
                "engine": "runtime-monitor",
                "level_claimed": {"category": cat, "text": text, "design_ref": ref},
                "level_note": note,
                "technique": tech,
            })
        else:
            na.append({"property_id": pid, "reason": PENDING_REASON})
    m = {
        "version": 1,
        "setup_cmd": "python3 -m verif.setup",
        "hooks": {
            "guard": "LIBLCB_VERIF",
            "enable": "checks compile /repo sources and headers directly with -DLIBLCB_VERIF (verif/common.py BASE_DEFS); no separate library build",
            "baseline_off_cmd": "cmake -G Ninja -B /repo/_build -S /repo -DENABLE_LIBLCB_TESTS=ON -DCMAKE_BUILD_TYPE=RelWithDebInfo -DCMAKE_C_FLAGS=-Wno-error && cmake --build /repo/_build && ctest --test-dir /repo/_build -j8 --timeout 900",
            "source_commits": HOOK_COMMITS,
            "add_only": True,
        },
        "engines": [{
            "name": "runtime-monitor",
            "path": "/verif/check",
            "serves_properties": [c["property_id"] for c in checks],
            "kind_free_text": "real library code executed under gcc/clang sanitizers (ASan+UBSan, TSan, MSan) and valgrind, driven by seeded hostile workloads; Python reference-model oracles and offline trace checkers decide each observation",
        }],
        "checks": checks,
        "not_applicable": na,
        "notes": "All checks: ./check <ID> --tier quick|thorough; VERIF_SEED honoured; exit 0 held / 1 violation / 2 inconclusive. known_findings.json lists genuine defects recorded rather than repaired.",
    }
    with open(os.path.join(ROOT, "MANIFEST.json"), "w") as fh:
        json.dump(m, fh, indent=1)
        fh.write("\n")


if __name__ == "__main__":
    main()
