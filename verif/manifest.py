#!/usr/bin/env python3
"""Regenerates /verif/MANIFEST.json from the table below (python3 -m verif.manifest)."""
import json
import os
import subprocess

ROOT = os.path.dirname(os.path.dirname(os.path.abspath(__file__)))

# id -> (category, technique, level text, level note, design ref)
CHECKS = {
}

PENDING_REASON = "check not built yet in this session (runtime-monitoring design exists in DESIGN.md section 4); not claimed until the check runs clean on the unchanged tree"

HOOK_COMMITS = []


def main():
    props = [json.loads(l)["id"] for l in open(os.path.join(ROOT, "properties.jsonl"))]
    checks = []
    na = []
    for pid in props:
        if pid in CHECKS:
            cat, tech, text, note, ref = CHECKS[pid]
            checks.append({
                "property_id": pid,
                "quick_cmd": "./check %s --tier quick" % pid,
                "thorough_cmd": "./check %s --tier thorough" % pid,
                "evidence_file": "/verif/evidence/%s.json" % pid,
                "replay_cmd_template": "./check %s --replay {path}" % pid,
                "engine": "runtime-monitor",
                "level_claimed": {"category": cat, "text": text, "design_ref": ref},
                "level_note": note,
                "technique": tech,
            })
        else:
            na.append({"property_id": pid, "reason": PENDING_REASON})
    m = {
        "version": 1,
        "setup_cmd": "python3 -m verif.setup",
        "hooks": {
            "guard": "LIBLCB_VERIF",
            "enable": "checks compile /repo sources and headers directly with -DLIBLCB_VERIF (verif/common.py BASE_DEFS); no separate library build",
            "baseline_off_cmd": "cmake -G Ninja -B /repo/_build -S /repo -DENABLE_LIBLCB_TESTS=ON -DCMAKE_BUILD_TYPE=RelWithDebInfo -DCMAKE_C_FLAGS=-Wno-error && cmake --build /repo/_build && ctest --test-dir /repo/_build -j8 --timeout 900",
            "source_commits": HOOK_COMMITS,
            "add_only": True,
        },
        "engines": [{
            "name": "runtime-monitor",
            "path": "/verif/check",
            "serves_properties": [c["property_id"] for c in checks],
            "kind_free_text": "real library code executed under gcc/clang sanitizers (ASan+UBSan, TSan, MSan) and valgrind, driven by seeded hostile workloads; Python reference-model oracles and offline trace checkers decide each observation",
        }],
        "checks": checks,
        "not_applicable": na,
        "notes": "All checks: ./check <ID> --tier quick|thorough; VERIF_SEED honoured; exit 0 held / 1 violation / 2 inconclusive. known_findings.json lists genuine defects recorded rather than repaired.",
    }
    with open(os.path.join(ROOT, "MANIFEST.json"), "w") as fh:
        json.dump(m, fh, indent=1)
        fh.write("\n")


if __name__ == "__main__":
    main()
