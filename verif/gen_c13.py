"""C13 workload: structure-aware generators of valid network messages and the
single-field mutations the property lists.  Stdlib only, all randomness from
common.Rng.

Every generator yields *cases*: (label, kind, fields) where
  label  - parser / calling mode, e.g. 'dns.consumer', 'http.req.exact'
  kind   - mutation kind ('valid', 'trunc', 'rdlen', 'ptr-loop', ...)
  fields - dict with the operation's arguments; fields['msg'] is always the
           network message.  pack(label, fields) gives the driver payload.
"""
import hashlib
import hmac
import struct

from verif.common import W

OP = {
    "dns.consumer": 1, "dns.direct": 2, "dns.labels": 3,
    "radius": 10,
    "dhcp": 20,
    "http.req.exact": 30, "http.req.consumer": 30, "http.query": 31, "http.hdr_remove": 32,
    "http.chunked": 33, "http.urldec": 34, "http.ws": 35,
    "sap.exact": 40, "sap.consumer": 40, "sdp": 41,
    "rtp": 50,
    "ts.valid": 60, "ts.stream": 61,
    "fuzz": 200,
}

DNS_NAMEBUF = 64 * 26  # sizeof(addrs) in dns_resolver_recv_cb()


def pack(label, f):
    m = f["msg"]
    if label.startswith("fuzz"):
        return W().u8(OP["fuzz"]).u8(f["group"]).blob(m).done()
    w = W().u8(OP[label])
    if label == "dns.consumer":
        w.blob(m).blob(f["qname"]).u32(f.get("nbs", DNS_NAMEBUF))
    elif label == "dns.direct":
        w.blob(m).u32(f["offset"]).u32(f.get("nbs", 256)).blob(f["qname"]).u32(f.get("count", 3)).u32(f["fm"])
    elif label == "dns.labels":
        w.blob(m).u32(f["nbs"]).u32(f["fm"])
    elif label == "radius":
        w.blob(m).blob(f["key"]).blob(f["req"]).u8(f["atype"]).u32(f["bsz"])
    elif label == "dhcp":
        w.blob(m)
    elif label in ("http.req.exact", "http.req.consumer"):
        w.u8(1 if label.endswith("consumer") else 0).blob(m).blob(f["hname"]).blob(f["qname"]).u32(f.get("fm", 7))
    elif label == "http.query":
        w.blob(m).blob(f["qname"]).u32(f["fm"])
    elif label == "http.hdr_remove":
        w.blob(m).blob(f["hname"])
    elif label == "http.chunked":
        w.blob(m)
    elif label == "http.urldec":
        w.blob(m).u32(f["bsz"]).u8(f["inplace"])
    elif label == "http.ws":
        w.blob(m).u32(f["fm"])
    elif label in ("sap.exact", "sap.consumer"):
        w.u8(1 if label.endswith("consumer") else 0).blob(m)
    elif label == "sdp":
        w.blob(m).u8(f["type"]).u32(f["line"]).u32(f["maxf"]).u32(f["fm"])
    elif label == "rtp":
        w.blob(m)
    elif label == "ts.valid":
        w.blob(m)
    elif label == "ts.stream":
        w.blob(m).u32(f["off"]).u32(f["psize"])
    else:
        raise ValueError(label)
    return w.done()


def p8(b, pos, v):
    x = bytearray(b)
    x[pos] = v & 0xFF
    return bytes(x)


def p16(b, pos, v):
    x = bytearray(b)
    x[pos:pos + 2] = struct.pack(">H", v & 0xFFFF)
    return bytes(x)


def flips(rng, msg, count):
    n = len(msg)
    for _ in range(count):
        if n == 0:
            return
        x = bytearray(msg)
        for _k in range(rng.range(1, 3)):
            pos = rng.below(n)
            how = rng.below(4)
            if how == 0:
                x[pos] ^= 1 << rng.below(8)
            elif how == 1:
                x[pos] = rng.choice((0, 0xFF, 0x7F, 0x80, 0xC0, 0x3F, 0x40))
            else:
                x[pos] = rng.below(256)
        yield bytes(x)


_WORDS = [b"www", b"example", b"com", b"org", b"net", b"mail", b"ns1", b"ns2", b"a", b"cdn",
          b"host-01", b"x" * 63, b"very-long-label-with-some-more-characters", b"de", b"io"]


# ---------------------------------------------------------------------------
# DNS
# ---------------------------------------------------------------------------
class _DnsBuilder:
    def __init__(self, rng):
        self.rng = rng
        self.b = bytearray(12)
        self.names = {}
        self.meta = {"ptrs": [], "labels": [], "rdlens": [], "names": [], "rrs": []}

    def name(self, labels, compress=True):
        b, rng = self.b, self.rng
        self.meta["names"].append(len(b))
        i = 0
        while i < len(labels):
            suf = tuple(labels[i:])
            if compress and suf in self.names and rng.chance(4, 5):
                self.meta["ptrs"].append(len(b))
                b += struct.pack(">H", 0xC000 | self.names[suf])
                return
            if len(b) < 0x3FFF:
                self.names.setdefault(suf, len(b))
            self.meta["labels"].append(len(b))
            b.append(len(labels[i]))
            b += labels[i]
            i += 1
        self.meta["labels"].append(len(b))
        b.append(0)

    def question(self, labels, qtype, qclass=1):
        self.name(labels)
        self.b += struct.pack(">HH", qtype, qclass)

    def rr(self, owner, rtype, rdata_fn, rclass=1, ttl=300):
        self.meta["rrs"].append(len(self.b))
        self.name(owner)
        self.b += struct.pack(">HHI", rtype, rclass, ttl)
        pos = len(self.b)
        self.meta["rdlens"].append(pos)
        self.b += b"\0\0"
        rdata_fn()
        self.b[pos:pos + 2] = struct.pack(">H", len(self.b) - pos - 2)


def rand_labels(rng):
    return [rng.choice(_WORDS) for _ in range(rng.range(1, 4))]


def gen_dns(rng):
    """-> (msg, meta, qname_dotted)"""
    d = _DnsBuilder(rng)
    b = d.b
    qn = rand_labels(rng)
    if rng.chance(1, 8):
        qn = [b"x" * 63, b"y" * 63, b"z" * 63, b"w" * 61][:rng.range(1, 4)]
    alias = rand_labels(rng) + qn[-1:]
    nsn = [b"ns1"] + qn[-2:]
    qd = an = ns = ar = 0
    is_resp = rng.chance(7, 8)
    d.question(qn, rng.choice((1, 28, 255, 5)))
    qd += 1
    if is_resp:
        owner = qn
        if rng.chance(1, 2):
            d.rr(qn, 5, lambda: d.name(alias))
            an += 1
            owner = alias if rng.chance(2, 3) else qn
        for _ in range(rng.range(0, 4)):
            t = rng.choice((1, 1, 28, 16, 15))
            if t == 1:
                d.rr(owner, 1, lambda: b.extend(rng.bytes(4)))
            elif t == 28:
                d.rr(owner, 28, lambda: b.extend(rng.bytes(16)))
            elif t == 16:
                def txt():
                    for _k in range(rng.range(1, 3)):
                        s = rng.bytes(rng.range(0, 40))
                        b.append(len(s))
                        b.extend(s)
                d.rr(owner, 16, txt)
            else:
                def mx():
                    b.extend(struct.pack(">H", rng.below(100)))
                    d.name([b"mail"] + qn[-2:])
                d.rr(owner, 15, mx)
            an += 1
        if rng.chance(1, 2):
            d.rr(qn[-2:], 2, lambda: d.name(nsn))
            ns += 1
        if rng.chance(2, 3):
            def soa():
                d.name(nsn)
                d.name([b"hostmaster"] + qn[-2:])
                b.extend(struct.pack(">IIIII", rng.below(1 << 32), 7200, 3600, 1209600, rng.below(86400)))
            d.rr(qn[-2:], 6, soa)
            ns += 1
        if rng.chance(1, 2):
            d.rr(nsn, 1, lambda: b.extend(rng.bytes(4)))
            ar += 1
    if rng.chance(2, 3):  # EDNS OPT pseudo RR
        def opt():
            for _k in range(rng.range(0, 2)):
                data = rng.bytes(rng.range(0, 12))
                b.extend(struct.pack(">HH", rng.choice((3, 8, 10, 12)), len(data)))
                b.extend(data)
        d.rr([], 41, opt, rclass=rng.choice((512, 1232, 4096)), ttl=rng.choice((0, 0x8000)))
        ar += 1
    rcode = 3 if rng.chance(1, 4) else 0
    flags = (0x8000 if is_resp else 0) | 0x0100 | (0x0080 if is_resp else 0) | rcode
    b[0:12] = struct.pack(">HHHHHH", rng.below(65536), flags, qd, an, ns, ar)
    return bytes(b), d.meta, b".".join(qn)


def mut_dns(rng, msg, meta, nflips=24):
    n = len(msg)
    for i in range(n):
        yield "trunc", msg[:i]
    for pos in meta["rdlens"]:
        rem = n - (pos + 2)
        for v in sorted({rem - 1, rem, rem + 1, 0, 1, 0xFFFF, 0x8000}):
            if v >= 0:
                yield "rdlen", p16(msg, pos, v)
    for pos in meta["labels"]:
        rem = n - (pos + 1)
        for v in sorted({0, 1, 62, 63, 0x40, 0x41, 0x80, 0xC0, 0xFF, min(63, max(rem, 0)),
                         min(63, max(rem - 1, 0)), min(63, rem + 1)}):
            if v != msg[pos]:
                yield "lablen", p8(msg, pos, v)
    ptrs = meta["ptrs"]
    for pos in ptrs:
        for tgt in sorted({pos, pos + 1, pos + 2, pos - 1, pos - 2, 0, 2, 11, 12, 13, n - 2, n - 1, n, n + 1, 0x3FFF}):
            if 0 <= tgt <= 0x3FFF:
                kind = "ptr-self" if tgt == pos else ("ptr-fwd" if tgt > pos else ("ptr-hdr" if tgt < 12 else "ptr-back"))
                yield kind, p16(msg, pos, 0xC000 | tgt)
    for i in range(len(ptrs)):
        for j in range(i + 1, min(len(ptrs), i + 4)):
            yield "ptr-loop", p16(p16(msg, ptrs[i], 0xC000 | ptrs[j]), ptrs[j], 0xC000 | ptrs[i])
    names = [x for x in meta["names"] if x + 2 <= n]
    for i, a in enumerate(names):
        yield "ptr-self", p16(msg, a, 0xC000 | a)
        for bpos in names[i + 1:i + 3]:
            yield "ptr-loop", p16(p16(msg, a, 0xC000 | bpos), bpos, 0xC000 | a)
        if a + 4 <= n:  # one label then a pointer back to the label: loop that grows the name
            x = bytearray(msg)
            x[a] = 1
            x[a + 2:a + 4] = struct.pack(">H", 0xC000 | a)
            yield "ptr-label-loop", bytes(x)
    for off in (4, 6, 8, 10):
        cur = struct.unpack_from(">H", msg, off)[0]
        for v in sorted({cur + 1, cur - 1, 0, 0xFFFF, cur + 100, 0x0100}):
            if 0 <= v <= 0xFFFF and v != cur:
                yield "count", p16(msg, off, v)
    yield "trailing", msg + rng.bytes(rng.range(1, 20))
    yield "trailing", msg + b"\xc0"
    yield "trailing", msg + b"\x3f"
    for x in flips(rng, msg, nflips):
        yield "flip", x


def dns_special(rng):
    """Hand-made shapes: growing pointer loops, long names, maximal counts."""
    hdr = struct.pack(">HHHHHH", 0x1234, 0x8180, 1, 1, 0, 0)
    q = b"\x01a\x00" + struct.pack(">HH", 1, 1)
    # answer whose owner name is 63-byte label + pointer to itself
    own = b"\x3f" + b"b" * 63 + struct.pack(">H", 0xC000 | (12 + len(q)))
    rr = own + struct.pack(">HHIH", 5, 1, 60, 2) + struct.pack(">H", 0xC000 | (12 + len(q)))
    yield "ptr-label-loop", hdr + q + rr
    # CNAME whose RDATA points at itself / at the question / forward past the end
    for tgt in (12, 12 + len(q), 12 + len(q) + 2 + 10, 12 + len(q) + 2 + 10 + 1, 0x3FFF):
        rr = b"\xc0\x0c" + struct.pack(">HHIH", 5, 1, 60, 2) + struct.pack(">H", 0xC000 | tgt)
        yield "ptr-rdata", hdr + q + rr
    # name of maximal length in RDATA
    long_name = b"".join(b"\x3f" + bytes([65 + i]) * 63 for i in range(4)) + b"\x00"
    rr = b"\xc0\x0c" + struct.pack(">HHIH", 5, 1, 60, len(long_name)) + long_name
    yield "long-name", hdr + q + rr
    # counts at maximum with nothing behind them
    yield "count", struct.pack(">HHHHHH", 1, 0x8180, 0xFFFF, 0xFFFF, 0xFFFF, 0xFFFF)
    yield "count", struct.pack(">HHHHHH", 1, 0x8180, 0, 0xFFFF, 0, 0) + b"\x00" * 11
    # SOA with RDATA made of bare pointers / truncated names
    for rd in (b"\xc0", b"\xc0\x0c\xc0", b"\x01", b"\x01a", b"\x00\x00" + b"\x00" * 19, b"\xc0\x0c\xc0\x0c" + b"\x00" * 20):
        rr = b"\xc0\x0c" + struct.pack(">HHIH", 6, 1, 60, len(rd)) + rd
        yield "soa-rdata", struct.pack(">HHHHHH", 1, 0x8183, 1, 0, 1, 0) + q + rr


def dns_cases(rng, nflips=24):
    msg, meta, qname = gen_dns(rng)
    base = {"qname": qname}
    yield "dns.consumer", "valid", dict(base, msg=msg)
    for nbs in (1, 2, len(qname), len(qname) + 1, 64):
        yield "dns.consumer", "valid-namebuf", dict(base, msg=msg, nbs=nbs)
    n = len(msg)
    offs = sorted(set(meta["names"] + meta["rrs"] + [0, 1, 11, 12, 13, n - 1, n, n + 1]))
    for o in offs:
        if o >= 0:
            yield "dns.direct", "valid-offset", dict(base, msg=msg, offset=o, nbs=rng.choice((1, 8, 64, 256, 600)), count=rng.below(5))
    k = 0
    for kind, m in mut_dns(rng, msg, meta, nflips):
        yield "dns.consumer", kind, dict(base, msg=m)
        k += 1
        if k % 6 == 0:
            o = rng.choice(offs) if rng.chance(2, 3) else rng.below(len(m) + 2)
            yield "dns.direct", kind, dict(base, msg=m, offset=max(o, 0), nbs=rng.choice((1, 2, 16, 256, 600)), count=rng.below(6))
    # label sequences on their own (RDATA-like buffers)
    for pos in meta["names"][:6]:
        for end in sorted({pos + 1, pos + 2, min(n, pos + 8), min(n, pos + 40), n}):
            seq = msg[pos:end]
            if seq:
                for nbs in sorted({0, 1, max(len(seq) - 2, 0), max(len(seq) - 1, 0), len(seq), len(seq) + 1}):
                    yield "dns.labels", "slice", {"msg": seq, "nbs": nbs}
    for _ in range(6):
        labs = b"".join(bytes([len(w)]) + w for w in rand_labels(rng))
        for seq in (labs + b"\0", labs, labs + b"\xc0", labs + b"\xc0\x0c", labs + b"\x40", labs[:-1]):
            yield "dns.labels", "built", {"msg": seq, "nbs": rng.choice((max(len(seq) - 1, 0), len(seq), len(seq) + 1, 1))}


def dns_special_cases(rng):
    for kind, m in dns_special(rng):
        for qn in (b"a", b"b" * 63):
            yield "dns.consumer", kind, {"msg": m, "qname": qn}
            for nbs in (1, 63, 64, 65, 300):
                yield "dns.consumer", kind, {"msg": m, "qname": qn, "nbs": nbs}
        for o in (12, 17, 19, len(m) - 2, len(m) - 1, len(m)):
            yield "dns.direct", kind, {"msg": m, "qname": b"a", "offset": max(o, 0), "nbs": 256, "count": 2}


# ---------------------------------------------------------------------------
# RADIUS
# ---------------------------------------------------------------------------
RAD_CODES = (1, 2, 3, 4, 5, 11, 12, 13, 40, 41, 42, 43, 44, 45)
SECRET = b"testing123"
REQ_AUTH = bytes(range(0x30, 0x40))


def rad_request(code=1):
    return struct.pack(">BBH", code, 7, 20) + REQ_AUTH


def rad_sign(pkt, secret, req):
    """Recompute Message-Authenticator and the response authenticator the way
    radius_pkt_verify() expects them; returns pkt unchanged when it cannot be
    walked."""
    n = len(pkt)
    if n < 20:
        return pkt
    code = pkt[0]
    plen = struct.unpack_from(">H", pkt, 2)[0]
    if plen < 20 or plen > n:
        return pkt
    attrs = []
    o = 20
    while o + 2 <= plen:
        l = pkt[o + 1]
        if l < 2 or o + l > plen:
            return pkt
        attrs.append((o, pkt[o], l))
        o += l
    if o != plen:
        return pkt
    x = bytearray(pkt)
    reqauth = req[4:20]
    zeros = b"\0" * 16
    ma = [a for a in attrs if a[1] == 80 and a[2] == 18]
    if code in (1, 12, 13):
        a_ma = bytes(x[4:20])
    elif code in (4, 40, 43) or (code == 5 and req[0] != 12):
        a_ma = zeros
    else:
        a_ma = reqauth
    if ma:
        o = ma[0][0]
        x[o + 2:o + 18] = zeros
        h = hmac.new(secret, bytes(x[0:4]) + a_ma + bytes(x[20:plen]), hashlib.md5).digest()
        x[o + 2:o + 18] = h
    if code in (1, 12, 13):
        pass
    elif code in (4, 40, 43):
        x[4:20] = hashlib.md5(bytes(x[0:4]) + zeros + bytes(x[20:plen]) + secret).digest()
    else:
        x[4:20] = hashlib.md5(bytes(x[0:4]) + reqauth + bytes(x[20:plen]) + secret).digest()
    return bytes(x)


def gen_radius(rng):
    code = rng.choice(RAD_CODES)
    attrs = []
    for _ in range(rng.range(0, 7)):
        t = rng.choice((1, 2, 4, 5, 6, 18, 18, 24, 25, 26, 26, 27, 31, 32, 79, 95, 97))
        if t == 1:
            v = bytes(97 + rng.below(26) for _k in range(rng.range(1, 30)))
        elif t == 2:
            v = rng.bytes(16 * rng.range(1, 3))
        elif t in (4,):
            v = rng.bytes(4)
        elif t in (5, 6, 27):
            v = struct.pack(">I", rng.choice((0, 1, 0xFFFFFFFF, rng.below(1 << 32))))
        elif t == 18:
            v = bytes(32 + rng.below(95) for _k in range(rng.range(1, 120)))
        elif t == 26:
            sub = b""
            for _k in range(rng.range(1, 3)):
                d = rng.bytes(rng.range(0, 20))
                sub += bytes([rng.range(1, 255), len(d) + 2]) + d
            v = struct.pack(">I", rng.choice((9, 311, 14988, rng.below(1 << 24)))) + sub
        elif t == 95:
            v = rng.bytes(16)
        elif t == 97:
            pl = rng.range(0, 16)
            v = bytes([0, rng.range(0, 128)]) + rng.bytes(pl)
        else:
            v = rng.bytes(rng.range(1, 40))
        attrs.append((t, v[:253]))
    need_ma = code == 12 or any(t == 79 for t, _ in attrs)
    if need_ma or rng.chance(1, 3):
        attrs.insert(rng.below(len(attrs) + 1), (80, b"\0" * 16))
    body = bytearray()
    meta = {"attrs": []}
    for t, v in attrs:
        meta["attrs"].append(20 + len(body))
        body += bytes([t, len(v) + 2]) + v
    auth = rng.bytes(16)
    pkt = struct.pack(">BBH", code, rng.below(256), 20 + len(body)) + auth + bytes(body)
    req = rad_request(12 if (code == 5 and rng.chance(1, 3)) else 1)
    pkt = rad_sign(pkt, SECRET, req)
    return pkt, meta, req, [t for t, _ in attrs]


def mut_radius(rng, pkt, meta, nflips=20):
    n = len(pkt)
    for i in range(n):
        yield "trunc", pkt[:i]
        if i >= 20:
            yield "trunc-fixlen", p16(pkt[:i], 2, i)
    for v in sorted({n - 1, n + 1, 0, 1, 19, 20, 21, 4095, 4096, 4097, 0xFFFF}):
        if v >= 0:
            yield "pktlen", p16(pkt, 2, v)
    for pos in meta["attrs"]:
        rem = n - pos
        for v in sorted({0, 1, 2, 3, rem - 1, rem, rem + 1, 18, 255}):
            if 0 <= v <= 255 and v != pkt[pos + 1]:
                yield "attrlen", p8(pkt, pos + 1, v)
        for t in (0, 2, 26, 79, 80, 241, 245, 255):
            if t != pkt[pos]:
                yield "attrtype", p8(pkt, pos, t)
    for c in (0, 6, 10, 14, 39, 46, 255):
        yield "code", p8(pkt, 0, c)
    yield "trailing", pkt + rng.bytes(rng.range(1, 8))
    yield "dup-msgauth", p16(pkt + b"\x50\x12" + b"\0" * 16 + b"\x50\x12" + b"\0" * 16, 2, n + 36)
    big = pkt + b"".join(b"\x19\xff" + b"c" * 253 for _ in range(16))
    yield "maxsize", p16(big[:4096], 2, min(len(big), 4096))
    for x in flips(rng, pkt, nflips):
        yield "flip", x


def radius_cases(rng, nflips=20):
    pkt, meta, req, types = gen_radius(rng)

    def fields(m, resign):
        if resign:
            m = rad_sign(m, SECRET, req)
        at = rng.choice(types) if (types and rng.chance(3, 4)) else rng.choice((1, 2, 18, 26, 80, 200))
        return {"msg": m, "key": SECRET, "req": req, "atype": at,
                "bsz": rng.choice((0, 1, 16, 64, 253, 4096))}
    yield "radius", "valid", fields(pkt, False)
    for t in sorted(set(types)):
        total = 0
        for at, pos in zip(types, meta["attrs"]):
            if at == t:
                total += pkt[pos + 1] - 2
        for bsz in sorted({0, max(total - 1, 0), total, total + 1, 4096}):
            yield "radius", "valid-lookup", {"msg": pkt, "key": SECRET, "req": req, "atype": t, "bsz": bsz}
    yield "radius", "valid-badkey", dict(fields(pkt, False), key=b"other")
    yield "radius", "valid-noreq", dict(fields(pkt, False), req=b"")
    for kind, m in mut_radius(rng, pkt, meta, nflips):
        yield "radius", kind, fields(m, rng.chance(1, 2))


# ---------------------------------------------------------------------------
# DHCPv4
# ---------------------------------------------------------------------------
def gen_dhcp(rng):
    hdr = struct.pack(">BBBBIHH", rng.choice((1, 2)), rng.choice((1, 6, 38, 1)), rng.choice((6, 16, 0)), rng.below(4),
                      rng.below(1 << 32), rng.below(65536), rng.choice((0, 0x8000)))
    hdr += rng.bytes(16)  # ciaddr..giaddr
    hdr += rng.bytes(6) + b"\0" * 10
    hdr += (b"srv" + b"\0" * 61) + (b"boot.img" + b"\0" * 120)
    hdr += b"\x63\x82\x53\x63"
    opts = bytearray()
    opts += bytes([53, 1, rng.range(1, 8)])
    for _ in range(rng.range(0, 6)):
        c = rng.choice((0, 1, 3, 6, 12, 51, 52, 55, 61, 82, 121, 255))
        if c == 0:
            opts.append(0)
        elif c == 255:
            opts.append(255)
        elif c == 52:
            opts += bytes([52, 1, rng.range(1, 3)])
        else:
            d = rng.bytes(rng.range(0, 20))
            opts += bytes([c, len(d)]) + d
    opts.append(255)
    opts += b"\0" * rng.range(0, 8)
    return hdr + bytes(opts)


def dhcp_cases(rng, nflips=16):
    m = gen_dhcp(rng)
    yield "dhcp", "valid", {"msg": m}
    for i in range(len(m)):
        yield "dhcp", "trunc", {"msg": m[:i]}
    for pos, vals, kind in ((0, (0, 3, 255), "op"), (1, (0, 38, 39, 255), "htype"), (2, (0, 16, 17, 255), "hlen")):
        for v in vals:
            yield "dhcp", kind, {"msg": p8(m, pos, v)}
    for k in range(4):
        yield "dhcp", "cookie", {"msg": p8(m, 236 + k, m[236 + k] ^ 0xFF)}
    for x in flips(rng, m, nflips):
        yield "dhcp", "flip", {"msg": x}


# ---------------------------------------------------------------------------
# HTTP
# ---------------------------------------------------------------------------
METHODS = [b"OPTIONS", b"GET", b"HEAD", b"POST", b"PUT", b"DELETE", b"TRACE", b"CONNECT", b"NOTIFY",
           b"M-SEARCH", b"M-POST", b"SUBSCRIBE", b"UNSUBSCRIBE", b"PATCH", b"G"]
HNAMES = [b"host", b"content-length", b"connection", b"transfer-encoding", b"user-agent", b"accept",
          b"x-a", b"man", b"mx", b"st", b"cookie"]


def _token(rng, lo=1, hi=12):
    return bytes(rng.choice(b"abcdefghijklmnopqrstuvwxyz0123456789-_") for _ in range(rng.range(lo, hi)))


def gen_query(rng):
    parts = []
    for _ in range(rng.range(0, 5)):
        name = rng.choice((b"a", b"b", b"name", b"user", b"password", _token(rng)))
        val = b""
        for _k in range(rng.range(0, 10)):
            r = rng.below(6)
            val += (b"%%%02x" % rng.below(256)) if r == 0 else (b"+" if r == 1 else _token(rng, 1, 2))
        parts.append(name + b"=" + val)
    q = b"&".join(parts)
    if rng.chance(1, 6):
        q = b"&" + q
    if rng.chance(1, 6):
        q += b"&"
    return q


def gen_chunked(rng):
    out = b""
    for _ in range(rng.range(0, 4)):
        d = rng.bytes(rng.range(1, 40))
        out += (b"%x" % len(d)) + (b";ext=1" if rng.chance(1, 8) else b"") + b"\r\n" + d + b"\r\n"
    out += b"0\r\n"
    if rng.chance(1, 2):
        out += b"\r\n"
    return out


def gen_http_req(rng):
    """-> (header_without_terminator, body, header names present)"""
    method = rng.choice(METHODS)
    host = rng.choice((b"example.com", b"127.0.0.1:8080", b"[::1]", b"h"))
    path = b"/" + b"/".join(_token(rng) for _ in range(rng.range(0, 3)))
    if rng.chance(1, 6):
        path = b"//" + path + b"//"
    q = gen_query(rng)
    if method == b"CONNECT":
        uri = host
    elif method == b"M-SEARCH" or rng.chance(1, 12):
        uri = b"*"
    else:
        uri = (b"http://" + host if rng.chance(1, 4) else b"") + path + (b"?" + q if (q or rng.chance(1, 5)) else b"")
    ver = rng.choice((b"HTTP/1.1", b"HTTP/1.0", b"HTTP/1.1", b"HTTP/9.9"))
    sp = rng.choice((b" ", b" ", b" ", b"  ", b"\t"))
    lines = [method + b" " + uri + sp + ver]
    names = []
    body = b""
    hs = [(b"Host", host), (b"User-Agent", b"verif/1.0 (x; y)"), (b"Accept", b"text/html,\r\n\tapplication/xml;q=0.9,\r\n */*;q=0.8"),
          (b"Connection", rng.choice((b"close", b"keep-alive", b"Keep-Alive, Upgrade"))), (b"X-A", _token(rng, 0, 20)),
          (b"MAN", b"\"ssdp:discover\""), (b"MX", b"3"), (b"ST", b"upnp:rootdevice"), (b"Cookie", b"a=b; c=d"),
          (b"X-Empty", b"")]
    rng.shuffle(hs)
    hs = hs[:rng.range(0, 7)]
    if method in (b"POST", b"PUT") or rng.chance(1, 6):
        if rng.chance(1, 2):
            body = gen_chunked(rng)
            hs.append((b"Transfer-Encoding", b"chunked"))
        else:
            body = rng.bytes(rng.range(0, 30))
            hs.append((b"Content-Length", b"%d" % len(body)))
    for k, v in hs:
        if rng.chance(1, 5):
            k = k.lower()
        lines.append(k + rng.choice((b": ", b":", b":  ", b":\t")) + v + rng.choice((b"", b"", b" ")))
        names.append(k.lower())
    return b"\r\n".join(lines), body, names


def gen_http_resp(rng):
    code = rng.choice((200, 206, 301, 404, 500, 100, 999))
    line = b"HTTP/1.%d %03d %s" % (rng.below(2), code, rng.choice((b"OK", b"Partial Content", b"", b"Not Found")))
    hs = [b"Server: x", b"Content-Length: 0", b"Transfer-Encoding: chunked"]
    return b"\r\n".join([line] + hs[:rng.range(0, 3)])


DELIMS = b": \t\r\n?=&%/+;,\"*."


def mut_text(rng, msg, nflips=16, every_trunc=True):
    n = len(msg)
    if every_trunc:
        for i in range(n):
            yield "trunc", msg[:i]
    for d in DELIMS:
        yield "delim-last", msg + bytes([d])
    for tail in (b"\r\n", b"\r", b"\n", b"\r\n ", b"\r\n\t", b"\r\n\r", b"   ", b" \t \t", b"%", b"%4", b"%zz", b"\r\nHost", b"\r\nHost:",
                 b"\r\nhost: ", b"\r\ncontent-length", b"\r\nx", b" :", b"\x00", b"\x7f", b"\xff"):
        yield "tail", msg + tail
    if n:
        yield "spaces-tail", msg[:rng.below(n)] + b" " * rng.range(1, 12)
        yield "head-sp", b" " + msg
        i = rng.below(n)
        yield "insert-sp-colon", msg[:i] + b" :" + msg[i:]
        yield "insert-ctl", msg[:i] + bytes([rng.below(32)]) + msg[i:]
        yield "insert-crlf", msg[:i] + b"\r\n" + msg[i:]
    for x in flips(rng, msg, nflips):
        yield "flip", x


def http_cases(rng, nflips=16):
    hdr, body, names = gen_http_req(rng)

    def hn():
        return rng.choice(names) if (names and rng.chance(2, 3)) else rng.choice(HNAMES)

    def qn():
        return rng.choice((b"a", b"b", b"name", b"user", b"password", b"zz", b""))
    full = hdr + b"\r\n\r\n" + body
    yield "http.req.consumer", "valid", {"msg": full, "hname": hn(), "qname": qn()}
    yield "http.req.exact", "valid", {"msg": hdr, "hname": hn(), "qname": qn()}
    for nm in names:
        yield "http.req.consumer", "valid-hdr", {"msg": full, "hname": nm, "qname": qn()}
        yield "http.req.exact", "valid-hdr", {"msg": hdr, "hname": nm, "qname": qn()}
    for kind, m in mut_text(rng, hdr, nflips):
        yield "http.req.exact", kind, {"msg": m, "hname": hn(), "qname": qn()}
        yield "http.req.consumer", kind, {"msg": m + b"\r\n\r\n" + body, "hname": hn(), "qname": qn()}
    for kind, m in mut_text(rng, full, 6, every_trunc=False):
        yield "http.req.consumer", kind + "-full", {"msg": m, "hname": hn(), "qname": qn()}
    # request line extremes
    for line in (b"GET / HTTP/1.1", b"GET  HTTP/1.1", b"GET /", b"GET / ", b"GET / HTTP/1.", b"GET /?", b"GET /? HTTP/1.1",
                 b"GET /" + b" " * 20, b"G / HTTP/1.1", b"GET http:// HTTP/1.1", b"GET http://h HTTP/1.1", b"GET http://h/ HTTP/1.1",
                 b"CONNECT h:1 HTTP/1.1", b"GET //// HTTP/1.1", b"GET /a//// HTTP/1.1", b"GET /a?b=c&d HTTP/1.1", b"A" * 11, b"GET / HTTP/1.1 ",
                 b"GET /" + b"/" * 10 + b" HTTP/1.1", b"GET ://x HTTP/1.1", b"GET x:// HTTP/1.1"):
        yield "http.req.exact", "reqline", {"msg": line, "hname": b"host", "qname": b"b"}
        yield "http.req.exact", "reqline", {"msg": line + b"\r\nHost: x", "hname": b"host", "qname": b"b"}
        yield "http.req.consumer", "reqline", {"msg": line + b"\r\n\r\n", "hname": b"host", "qname": b"b"}
        yield "http.req.consumer", "reqline", {"msg": line + b"\r\nHost: x\r\n\r\n", "hname": b"host", "qname": b"b"}
    # status lines
    resp = gen_http_resp(rng)
    yield "http.req.exact", "valid-resp", {"msg": resp, "hname": hn(), "qname": b""}
    for kind, m in mut_text(rng, resp, 6):
        yield "http.req.exact", kind + "-resp", {"msg": m, "hname": hn(), "qname": b""}
    # status lines whose status code is directly followed by the line end (no SP, no reason phrase), alone and with headers
    for sl in (b"HTTP/1.1 200", b"HTTP/1.0 404", b"HTTP/1.1 200 ", b"HTTP/1.1 20", b"HTTP/1.1 2000"):
        for tail in (b"\r\n", b"\r\n\r\n", b"\r\nServer: x\r\n\r\n", b"\r", b"\n", b"\r\r\n", b"\rX"):
            yield "http.req.exact", "status-code-then-eol-resp", {"msg": sl + tail, "hname": hn(), "qname": b""}
    # header removal
    for nm in set(names + [b"host", b"x-a"]):
        yield "http.hdr_remove", "valid", {"msg": hdr, "hname": nm}
        yield "http.hdr_remove", "valid", {"msg": hdr + b"\r\n", "hname": nm}
        yield "http.hdr_remove", "name-last", {"msg": hdr + b"\r\n" + nm, "hname": nm}
        yield "http.hdr_remove", "name-last", {"msg": hdr + b"\r\n" + nm + b":", "hname": nm}
        yield "http.hdr_remove", "name-first", {"msg": nm + b": v\r\n" + hdr, "hname": nm}
        yield "http.hdr_remove", "name-only", {"msg": nm, "hname": nm}
        yield "http.hdr_remove", "lf-only", {"msg": hdr.replace(b"\r\n", b"\n"), "hname": nm}
    k = 0
    for kind, m in mut_text(rng, hdr, 6):
        k += 1
        if k % 4 == 0 or kind != "trunc":
            yield "http.hdr_remove", kind, {"msg": m, "hname": hn()}
    # query strings
    q = gen_query(rng)
    for nm in (b"a", b"b", b"name", b"zz", b"", b"password"):
        yield "http.query", "valid", {"msg": q, "qname": nm}
    for kind, m in mut_text(rng, q, 8):
        yield "http.query", kind, {"msg": m, "qname": qn()}
    for m in (b"", b"=", b"&", b"a", b"a=", b"=a", b"&&", b"a=&", b"&a=", b"a=1&a=2&a=3", b"&&a=1&&b=2&&", b"a=1&&&", b"b=1&a", b"a&a=1", b"a=1&a"):
        for nm in (b"a", b"b", b""):
            yield "http.query", "shape", {"msg": m, "qname": nm}
    # chunked bodies
    ch = gen_chunked(rng)
    yield "http.chunked", "valid", {"msg": ch}
    for kind, m in mut_text(rng, ch, 8):
        yield "http.chunked", kind, {"msg": m}
    for size in (b"ffffffffffffffff", b"fffffffffffffff0", b"ffffffffffffff00", b"fffffffffffff000", b"ffffffffffff0000",
                 b"f7666666666666666666666666666632", b"7fffffffffffffff", b"8000000000000000", b"100000000", b"ffffffff",
                 b"%x" % (len(ch) + 1), b"%x" % len(ch), b"%x" % max(len(ch) - 1, 0), b"0", b"", b"zz", b"-1",
                 b"fffffffffffffffffffffffff"):
        yield "http.chunked", "chunk-size", {"msg": size + b"\r\n" + ch}
        yield "http.chunked", "chunk-size", {"msg": b"3\r\nabc\r\n" + size + b"\r\n" + ch}
        yield "http.chunked", "chunk-size", {"msg": size}
        yield "http.chunked", "chunk-size", {"msg": size + b"\r\n"}
    for rem in range(0, 6):
        yield "http.chunked", "chunk-remaining", {"msg": b"4\r\n" + b"x" * rem}
        yield "http.chunked", "chunk-remaining", {"msg": b"2\r\nab\r\n4\r\n" + b"x" * rem}
    # URL escapes
    u = b"/" + _token(rng) + b"?" + gen_query(rng)
    for m in [u] + [x for _, x in mut_text(rng, u, 4, every_trunc=False)] + [b"%", b"%4", b"%41", b"a%", b"a%4", b"%%", b"+", b"%zz", b"%00", b"abc%"]:
        n = len(m)
        for bsz in sorted({1, 2, max(n - 1, 1), n, n + 1, n + 8}):
            yield "http.urldec", "bufsize", {"msg": m, "bsz": bsz, "inplace": 0}
        yield "http.urldec", "inplace", {"msg": m, "bsz": 0, "inplace": 1}
    # white space helpers
    for _ in range(12):
        s = b"".join(rng.choice((b" ", b"\t", b"\r\n", b"\r\n ", b"\r\n\t", b"\r", b"\n", b"a", b"bc", b":", b"\x00")) for _k in range(rng.range(0, 14)))
        yield "http.ws", "mix", {"msg": s}
    for s in (b"", b" ", b"  ", b"\t", b"a", b" a", b"a ", b" a ", b"\r\n", b"\r\n ", b" \r\n", b"a\r\n", b"a\r\n b", b"a\r\n\tb\r\n", b"\r", b"a\r",
              b"\r\n\r\n", b"a\r\n \r\n b", b"   \r\n", b"\x00", b"\x20\x00"):
        yield "http.ws", "shape", {"msg": s}


# ---------------------------------------------------------------------------
# SAP / SDP
# ---------------------------------------------------------------------------
def gen_sdp(rng):
    addr = rng.choice((b"IN IP4 239.1.2.3/127", b"IN IP6 ff0e::1", b"IN IP4 10.0.0.1", b"IN IP4 1.2.3.4/1/2"))
    lines = [b"v=0", b"o=- %d 1 IN IP4 10.0.0.%d" % (rng.below(1 << 31), rng.below(256)),
             b"s=" + rng.choice((b"Channel 1", b"x", b"Some long session name with spaces")),
             ]
    if rng.chance(1, 2):
        lines.append(b"i=info")
    lines += [b"c=" + addr, b"t=0 0"]
    for _ in range(rng.range(0, 3)):
        lines.append(b"a=" + rng.choice((b"recvonly", b"tool:verif", b"type:broadcast", b"x-y:" + _token(rng))))
    for _ in range(rng.range(1, 2)):
        lines.append(b"m=" + rng.choice((b"video", b"audio")) + b" %d " % rng.below(65536) + rng.choice((b"RTP/AVP", b"udp", b"RTP/SAVP")) + b" 33")
        if rng.chance(1, 2):
            lines.append(b"a=rtpmap:33 MP2T/90000")
    txt = b"\r\n".join(lines)
    if rng.chance(3, 4):
        txt += b"\r\n"
    return txt


def gen_sap(rng, sdp):
    a = rng.below(2)
    auth = rng.bytes(rng.choice((0, 0, 4, 12)))
    flags = (1 << 5) | (a << 4) | (rng.below(2) << 2 if rng.chance(1, 6) else 0)
    hdr = bytes([flags, len(auth)]) + struct.pack("<H", rng.range(1, 65535))
    src = rng.bytes(16 if a else 4)
    mime = rng.choice((b"application/sdp\0", b"application/sdp\0", b"", b"\0"))
    return hdr + src + auth + mime + sdp, {"auth_len": 1, "flags": 0, "payload": 4 + len(src) + len(auth)}


def sap_cases(rng, nflips=12):
    sdp = gen_sdp(rng)
    pkt, meta = gen_sap(rng, sdp)
    for label in ("sap.consumer", "sap.exact"):
        yield label, "valid", {"msg": pkt}
    n = len(pkt)
    muts = []
    for i in range(n):
        muts.append(("trunc", pkt[:i]))
    rem = n - meta["payload"]
    for v in sorted({0, 1, 255, (pkt[1] + rem - 17) & 255, (pkt[1] + rem - 16) & 255, (pkt[1] + rem - 15) & 255, (pkt[1] + rem) & 255}):
        muts.append(("auth_len", p8(pkt, 1, v)))
    for v in (pkt[0] ^ 0x10, pkt[0] ^ 0x20, pkt[0] ^ 0xE0, pkt[0] | 3, 0, 0xFF):
        muts.append(("flags", p8(pkt, 0, v & 0xFF)))
    muts.append(("idhash", pkt[:2] + b"\0\0" + pkt[4:]))
    muts.append(("nul-last", pkt + b"\0"))
    muts.append(("no-nul", pkt.replace(b"\0", b"x")))
    for kind, m in mut_text(rng, sdp, 6, every_trunc=False):
        muts.append((kind + "-sdp", pkt[:n - len(sdp)] + m))
    for x in flips(rng, pkt, nflips):
        muts.append(("flip", x))
    for kind, m in muts:
        yield "sap.consumer", kind, {"msg": m}
        yield "sap.exact", kind, {"msg": m}


def sdp_cases(rng, nflips=12):
    sdp = gen_sdp(rng)
    nl = sdp.count(b"\r\n") + 1
    for t in b"vosctmaiz=":
        yield "sdp", "valid", {"msg": sdp, "type": t, "line": 0, "maxf": 8}
        for line in (1, nl - 1, nl, nl + 1, 1000):
            yield "sdp", "valid-line", {"msg": sdp, "type": t, "line": max(line, 0), "maxf": rng.range(0, 8)}
    for line in sdp.split(b"\r\n")[:8]:
        for mf in (1, 2, 4, 8):
            yield "sdp", "fields", {"msg": line[2:], "type": 0x6D, "line": 0, "maxf": mf}
    for s in (b"", b" ", b"  ", b"a ", b" a", b"a b", b"a  b", b"a b ", b"1 2 3 4 5 6 7 8 9"):
        for mf in (1, 2, 8):
            yield "sdp", "fields-shape", {"msg": s, "type": 0x6D, "line": 0, "maxf": mf}
    k = 0
    for kind, m in mut_text(rng, sdp, nflips):
        k += 1
        yield "sdp", kind, {"msg": m, "type": rng.choice(b"vosctma"), "line": rng.choice((0, 0, 1, 2, nl)), "maxf": rng.range(1, 8)}
    for tail in (b"\r\nm", b"\r\nm=", b"\r\n", b"\r", b"\r\n\r\n", b"\r\nM=x", b"\r\n =x", b"\r\nm:x"):
        for t in b"mv":
            yield "sdp", "tail", {"msg": sdp.rstrip(b"\r\n") + tail, "type": t, "line": 0, "maxf": 8}


# ---------------------------------------------------------------------------
# RTP
# ---------------------------------------------------------------------------
def gen_rtp(rng):
    cc = rng.below(16) if rng.chance(1, 2) else 0
    x = rng.below(2)
    p = rng.below(2)
    b0 = (2 << 6) | (p << 5) | (x << 4) | cc
    hdr = bytes([b0, rng.below(256)]) + struct.pack(">HII", rng.below(65536), rng.below(1 << 32), rng.below(1 << 32))
    hdr += rng.bytes(4 * cc)
    meta = {"ext": None}
    if x:
        words = rng.range(0, 4)
        meta["ext"] = len(hdr) + 2
        hdr += struct.pack(">HH", rng.below(65536), words) + rng.bytes(4 * words)
    payload = rng.bytes(rng.range(0, 60))
    if p:
        pad = rng.range(1, 8)
        payload += b"\0" * (pad - 1) + bytes([pad])
    meta["hdr"] = len(hdr)
    return hdr + payload, meta


def rtp_cases(rng, nflips=12):
    m, meta = gen_rtp(rng)
    n = len(m)
    yield "rtp", "valid", {"msg": m}
    for i in range(n):
        yield "rtp", "trunc", {"msg": m[:i]}
    for cc in (0, 1, 15):
        yield "rtp", "cc", {"msg": p8(m, 0, (m[0] & 0xF0) | cc)}
    for bits in (0x10, 0x20, 0x30, 0x40, 0x80, 0xC0):
        yield "rtp", "flagbits", {"msg": p8(m, 0, m[0] ^ bits)}
    if meta["ext"] is not None:
        pos = meta["ext"]
        remw = (n - (pos + 2)) // 4
        for v in sorted({0, 1, remw - 1, remw, remw + 1, 0x3FFF, 0x4000, 0xFFFF}):
            if v >= 0:
                yield "rtp", "extlen", {"msg": p16(m, pos, v)}
    if n:
        pl = n - meta["hdr"]
        for v in sorted({0, 1, pl - 1, pl, pl + 1, 255}):
            if 0 <= v <= 255:
                yield "rtp", "padlen", {"msg": p8(m, n - 1, v) if (m[0] & 0x20) else p8(p8(m, 0, m[0] | 0x20), n - 1, v)}
    for x in flips(rng, m, nflips):
        yield "rtp", "flip", {"msg": x}


# ---------------------------------------------------------------------------
# MPEG-TS
# ---------------------------------------------------------------------------
TS_SIZES = (188, 192, 204, 208)
TS_PIDS = (0x0000, 0x0001, 0x0002, 0x0011, 0x0012, 0x1FFF, 0x0100, 0x0010)


def gen_ts_pkt(rng, size, pid=None, afe=None, cp=None, aflen=None):
    pid = rng.choice(TS_PIDS) if pid is None else pid
    afe = rng.below(2) if afe is None else afe
    cp = (1 if not afe else rng.below(2)) if cp is None else cp
    pus = rng.below(2)
    b = bytearray([0x47, (pus << 6) | ((pid >> 8) & 0x1F), pid & 0xFF, (afe << 5) | (cp << 4) | rng.below(16)])
    if afe:
        if aflen is None:
            aflen = rng.choice((0, 1, 7, rng.range(0, size - 6), size - 6 if cp else size - 5))
        b.append(aflen & 0xFF)
        body = bytearray(rng.bytes(max(min(aflen, size), 0)))
        if body:
            body[0] = rng.choice((0x00, 0x10, 0x50))
        b += body
    if pid in (0, 1, 2, 0x11, 0x12) and cp:
        tid = {0: 0x00, 1: 0x01, 2: 0x03, 0x11: 0x42, 0x12: 0x4E}[pid]
        if pus and rng.chance(1, 2):
            b.append(0)  # pointer field
        b += bytes([tid, 0xB0, 0x0D]) + rng.bytes(8)
    b += b"\xff" * max(size - len(b), 0)
    return bytes(b[:size])


def ts_cases(rng, nflips=10):
    for size in TS_SIZES:
        pkt = gen_ts_pkt(rng, size)
        yield "ts.valid", "valid", {"msg": pkt}
        for pid in TS_PIDS[:6]:
            for cp in (0, 1):
                for al in sorted({0, 1, size - 8, size - 7, size - 6, size - 5, size - 4, size - 3, 183, 184, 255}):
                    if 0 <= al <= 255:
                        yield "ts.valid", "aflen", {"msg": gen_ts_pkt(rng, size, pid=pid, afe=1, cp=cp, aflen=al)}
            yield "ts.valid", "pid", {"msg": gen_ts_pkt(rng, size, pid=pid, afe=0, cp=1)}
        for d in (-1, 1, -188, 20):
            m = pkt[:size + d] if d < 0 else pkt + b"\xff" * d
            yield "ts.valid", "size", {"msg": m}
        for x in flips(rng, pkt, nflips):
            yield "ts.valid", "flip", {"msg": x}
    size = rng.choice(TS_SIZES)
    junk = rng.bytes(rng.range(0, 9))
    stream = junk + b"".join(gen_ts_pkt(rng, size) for _ in range(rng.range(1, 5)))
    n = len(stream)
    for ps in TS_SIZES:
        yield "ts.stream", "valid", {"msg": stream, "off": 0, "psize": ps}
    for off in sorted({0, 1, len(junk), n - size, n - size + 1, n - 1, n}):
        if 0 <= off <= n:
            yield "ts.stream", "offset", {"msg": stream, "off": off, "psize": size}
    for cut in sorted({0, 1, 4, 187, 188, 189, 207, 208, 209, n - 1, n - size, n - size - 1, n - size + 1}):
        if 0 <= cut <= n:
            yield "ts.stream", "trunc", {"msg": stream[:cut], "off": 0, "psize": size}
    yield "ts.stream", "all-sync", {"msg": b"\x47" * rng.range(180, 500), "off": 0, "psize": size}
    yield "ts.stream", "sync-last", {"msg": b"\x00" * (size * 2 - 1) + b"\x47", "off": 0, "psize": size}
    yield "ts.stream", "sync-last", {"msg": b"\x00" * (size - 1) + b"\x47", "off": 0, "psize": size}
    for x in flips(rng, stream, 6):
        yield "ts.stream", "flip", {"msg": x, "off": rng.below(n + 1), "psize": rng.choice(TS_SIZES)}


# ---------------------------------------------------------------------------
# random byte strings through every entry point
# ---------------------------------------------------------------------------
def random_cases(rng, count):
    for _ in range(count):
        ln = rng.choice((0, 1, 2, 3, 4, 8, 11, 12, 13, 16, 19, 20, 21, 24, 32, 64, 188, 240, 300)) if rng.chance(1, 2) else rng.range(0, 420)
        m = rng.bytes(ln)
        r = rng.below(18)
        if r == 0:
            yield "dns.consumer", "random", {"msg": m, "qname": b"a.b"}
        elif r == 1:
            yield "dns.direct", "random", {"msg": m, "qname": b"a.b", "offset": rng.below(ln + 2), "nbs": rng.range(1, 300), "count": rng.below(4)}
        elif r == 2:
            yield "dns.labels", "random", {"msg": m, "nbs": rng.choice((max(ln - 1, 0), ln, ln + 1))}
        elif r == 3:
            if ln >= 4 and rng.chance(2, 3):
                m = bytes([rng.choice(RAD_CODES), m[1]]) + struct.pack(">H", ln) + m[4:]
            yield "radius", "random", {"msg": m, "key": SECRET, "req": rad_request(), "atype": rng.below(256), "bsz": rng.choice((0, 16, 4096))}
        elif r == 4:
            yield "dhcp", "random", {"msg": m}
        elif r == 5:
            yield "http.req.exact", "random", {"msg": m, "hname": b"host", "qname": b"a"}
        elif r == 6:
            yield "http.req.consumer", "random", {"msg": m + b"\r\n\r\n", "hname": b"host", "qname": b"a"}
        elif r == 7:
            yield "http.query", "random", {"msg": m, "qname": bytes(m[:1])}
        elif r == 8:
            yield "http.hdr_remove", "random", {"msg": m, "hname": bytes(m[:rng.range(1, 3)]).lower() or b"x"}
        elif r == 9:
            yield "http.chunked", "random", {"msg": m}
        elif r == 10:
            yield "http.urldec", "random", {"msg": m, "bsz": rng.range(1, ln + 2), "inplace": rng.below(2)}
        elif r == 11:
            yield "http.ws", "random", {"msg": m}
        elif r == 12:
            if ln >= 4 and rng.chance(2, 3):
                m = bytes([0x20 | (m[0] & 0x1F)]) + m[1:]
            yield rng.choice(("sap.exact", "sap.consumer")), "random", {"msg": m}
        elif r == 13:
            yield "sdp", "random", {"msg": m, "type": rng.below(256), "line": rng.below(4), "maxf": rng.range(0, 8)}
        elif r == 14:
            if ln >= 1 and rng.chance(2, 3):
                m = bytes([0x80 | (m[0] & 0x3F)]) + m[1:]
            yield "rtp", "random", {"msg": m}
        elif r == 15:
            sz = rng.choice(TS_SIZES)
            m = b"\x47" + rng.bytes(sz - 1)
            yield "ts.valid", "random", {"msg": m}
        else:
            m = rng.bytes(rng.range(0, 700))
            yield "ts.stream", "random", {"msg": m, "off": rng.below(len(m) + 1), "psize": rng.choice(TS_SIZES)}


# Direct (buf,size) operations bundle several functions; every such case is
# expanded into one case per function so that a report in one function cannot
# mask the others.
FN_BITS = {"dns.direct": 7, "dns.labels": 2, "http.req.exact": 4, "http.query": 2, "http.ws": 5, "sdp": 4}


def expand(cases):
    for label, kind, f in cases:
        nb = FN_BITS.get(label)
        if nb is None or "fm" in f:
            yield label, kind, f
        else:
            for b in range(nb):
                yield label, kind, dict(f, fm=1 << b)


# weights: how many base messages of each family per round
FAMILIES = (
    ("dns", dns_cases, 3),
    ("radius", radius_cases, 3),
    ("http", http_cases, 2),
    ("sap", sap_cases, 1),
    ("sdp", sdp_cases, 1),
    ("rtp", rtp_cases, 4),
    ("ts", ts_cases, 1),
    ("dhcp", dhcp_cases, 1),
)


def round_cases(rng, first):
    """One generation round: every family (weighted) plus random strings, the
    families interleaved in slices so that a partially consumed round is still
    balanced across parsers."""
    gens = []
    if first:
        gens.append(expand(dns_special_cases(rng)))
    for _name, fn, weight in FAMILIES:
        for _ in range(weight):
            gens.append(expand(fn(rng)))
    gens.append(expand(random_cases(rng, 400)))
    while gens:
        for g in list(gens):
            for _ in range(64):
                try:
                    yield next(g)
                except StopIteration:
                    gens.remove(g)
                    break


def seeds_for_fuzz(rng, group, count):
    """Raw libFuzzer inputs ([sel][a][b] + message) for a parser group."""
    out = []
    for _ in range(count):
        if group == 0:
            msg, _m, _q = gen_dns(rng)
        elif group == 1:
            msg = gen_radius(rng)[0]
        elif group == 2:
            hdr, body, _n = gen_http_req(rng)
            msg = rng.choice((hdr + b"\r\n\r\n" + body, hdr, gen_query(rng), gen_chunked(rng)))
        elif group == 3:
            sdp = gen_sdp(rng)
            msg = rng.choice((sdp, gen_sap(rng, sdp)[0]))
        else:
            msg = rng.choice((gen_rtp(rng)[0], gen_ts_pkt(rng, rng.choice(TS_SIZES)), gen_dhcp(rng)))
        out.append(bytes([rng.below(256), rng.below(256), rng.below(256)]) + msg)
    return out
