"""GOST 28147-89 reference per RFC 5830 (stdlib only): ECB encrypt / decrypt of 64-bit
blocks and the 16-round MAC (imitovstavka).

The S-boxes are *parsed* from the UNEXPANDED 8x16 tables in
include/crypto/cipher/gost28147.h (row i substitutes nibble i, nibble 0 = least
significant; RFC 4357 pi1..pi8), so the oracle shares neither the library's expansion
to 4x256 words nor its round macros.  The round function is computed nibble by nibble
on Python ints.

Byte conventions
  * "le" (gost28147_init / _blocks_encrypt / _blocks_decrypt / _blocks_mac / _final):
    RFC 5830 / RFC 4357 / GOST R 34.11-94 usage: key word K_i = LE32(key[4i:4i+4]),
    N1 = LE32(block[0:4]), N2 = LE32(block[4:8]); output LE32(N1) || LE32(N2);
    MAC tag = first `size` bytes of LE32(N1) || LE32(N2).
  * "be" (the _be entry points): GOST R 34.12-2015 "Magma" presentation: K_i =
    BE32(key[4i:4i+4]), block = a1 || a0 big-endian with N1 = a0, N2 = a1, output
    BE32(N2) || BE32(N1).  No standard defines a big-endian imitovstavka; the library's
    own vector (4f15b0bb2098cd86 = a0 || a1 after round 16 of GOST R 34.12-2015 A.2.4)
    fixes the tag as BE32(N1) || BE32(N2), which keeps N1 first as RFC 5830 requires.

Validation (selftest): GOST R 34.12-2015 A.2 vectors (t, g, 32-round encryption, the
round-16 state); GOST R 34.11-94 digests for the test parameter set (table from the
header) and the CryptoPro hash parameter set (typed in), computed with a small hash
construction built on top of this cipher, which pins the little-endian conventions; the
BouncyCastle MAC (CryptoPro-A) and ECB (test set) vectors; typed-in copies of the RFC 4357
test set and the tc26-Z set compared with the header; structural checks.  The contents of
the CryptoPro-B/C/D tables are taken from the header as they are (checked only for being
row-wise permutations).
"""
import os
import re
import struct

M32 = 0xFFFFFFFF

HEADER = os.path.join(os.environ.get("VERIF_REPO", "/repo"), "include", "crypto", "cipher", "gost28147.h")

_SBOX_RE = re.compile(r"static\s+const\s+uint8_t\s+(\w+)\s*\[\s*128\s*\]\s*=\s*\{([^}]*)\}", re.S)


def parse_sboxes(path=None):
    """-> ordered dict name -> 128-byte table (row-major 8x16), as written in the header."""
    with open(path or HEADER, "r", encoding="utf-8", errors="replace") as fh:
        text = fh.read()
    out = {}
    for m in _SBOX_RE.finditer(text):
        vals = [int(t, 0) for t in re.findall(r"0[xX][0-9a-fA-F]+|\d+", m.group(2))]
        if len(vals) != 128:
            raise ValueError("S-box %s has %d entries" % (m.group(1), len(vals)))
        out[m.group(1)] = bytes(vals)
    return out


def sbox_is_wellformed(tab):
    return len(tab) == 128 and all(sorted(tab[16 * r:16 * r + 16]) == list(range(16)) for r in range(8))


class Gost:
    """key_words: 8 ints (K0..K7 in the order the standard consumes them)."""

    def __init__(self, key_words, sbox):
        if len(key_words) != 8 or len(sbox) != 128:
            raise ValueError("bad key/sbox")
        self.k = [w & M32 for w in key_words]
        self.rows = [sbox[16 * r:16 * r + 16] for r in range(8)]

    def f(self, x):
        """substitution of the eight nibbles, then cyclic shift left by 11"""
        y = 0
        for i in range(8):
            y |= self.rows[i][(x >> (4 * i)) & 15] << (4 * i)
        return ((y << 11) & M32) | (y >> 21)

    # RFC 5830 section 5.1: rounds 1..24 keys K0..K7 three times, 25..32 K7..K0; after
    # rounds 1..31 the halves swap, the 32nd keeps N1 and replaces N2.
    ENC_ORDER = list(range(8)) * 3 + list(range(7, -1, -1))
    DEC_ORDER = list(range(8)) + list(range(7, -1, -1)) * 3
    MAC_ORDER = list(range(8)) * 2

    def _cycle32(self, n1, n2, order):
        for r in range(31):
            n1, n2 = n2 ^ self.f((n1 + self.k[order[r]]) & M32), n1
        n2 = n2 ^ self.f((n1 + self.k[order[31]]) & M32)
        return n1, n2

    def encrypt_words(self, n1, n2):
        return self._cycle32(n1, n2, self.ENC_ORDER)

    def decrypt_words(self, n1, n2):
        return self._cycle32(n1, n2, self.DEC_ORDER)

    def mac_words(self, n1, n2):
        """16 rounds of the encryption cycle (RFC 5830 section 8), halves swap after every round."""
        for r in range(16):
            n1, n2 = n2 ^ self.f((n1 + self.k[self.MAC_ORDER[r]]) & M32), n1
        return n1, n2


def _ctx(key, sbox, be):
    if len(key) != 32:
        raise ValueError("key must be 32 bytes")
    return Gost(struct.unpack(">8I" if be else "<8I", key), sbox)


def _load(block, be):
    if be:
        a1, a0 = struct.unpack(">2I", block)
        return a0, a1
    return struct.unpack("<2I", block)


def _store(n1, n2, be):
    return struct.pack(">2I", n2, n1) if be else struct.pack("<2I", n1, n2)


def _ecb(key, sbox, data, be, decrypt):
    if len(data) % 8:
        raise ValueError("data must be whole blocks")
    g = _ctx(key, sbox, be)
    out = []
    for o in range(0, len(data), 8):
        n1, n2 = _load(data[o:o + 8], be)
        n1, n2 = g.decrypt_words(n1, n2) if decrypt else g.encrypt_words(n1, n2)
        out.append(_store(n1, n2, be))
    return b"".join(out)


def encrypt(key, sbox, data, be=False):
    return _ecb(key, sbox, data, be, False)


def decrypt(key, sbox, data, be=False):
    return _ecb(key, sbox, data, be, True)


def mac(key, sbox, data, be=False):
    """full 8-byte tag over whole blocks (callers truncate); zero blocks -> zero state"""
    if len(data) % 8:
        raise ValueError("data must be whole blocks")
    g = _ctx(key, sbox, be)
    s1 = s2 = 0
    for o in range(0, len(data), 8):
        n1, n2 = _load(data[o:o + 8], be)
        s1, s2 = g.mac_words(s1 ^ n1, s2 ^ n2)
    return struct.pack(">2I", s1, s2) if be else struct.pack("<2I", s1, s2)


# ----------------------------------------------------------------------------
# GOST R 34.11-94 on top of the cipher -- used ONLY to validate the cipher oracle
# against the published digests.  256-bit quantities are Python ints whose
# little-endian byte string is the usual byte representation.
# ----------------------------------------------------------------------------
_M256 = (1 << 256) - 1
_C3 = 0xff00ffff000000ffff0000ff00ffff0000ff00ff00ff00ffff00ff00ff00ff00


def _A(y):
    y1 = y & 0xFFFFFFFFFFFFFFFF
    y2 = (y >> 64) & 0xFFFFFFFFFFFFFFFF
    y3 = (y >> 128) & 0xFFFFFFFFFFFFFFFF
    y4 = (y >> 192)
    return ((y1 ^ y2) << 192) | (y4 << 128) | (y3 << 64) | y2


def _P(y):
    b = y.to_bytes(32, "little")          # b[j-1] = y_j
    o = bytearray(32)
    for i in range(4):
        for k in range(1, 9):
            o[i + 1 + 4 * (k - 1) - 1] = b[8 * i + k - 1]
    return int.from_bytes(o, "little")


def _psi(g):
    w = [(g >> (16 * i)) & 0xFFFF for i in range(16)]    # w[0] = gamma_1
    top = w[0] ^ w[1] ^ w[2] ^ w[3] ^ w[12] ^ w[15]
    return (g >> 16) | (top << 240)


def _E(sbox, key256, h64):
    return int.from_bytes(encrypt(key256.to_bytes(32, "little"), sbox, h64.to_bytes(8, "little")), "little")


def _step(sbox, h, m):
    u, v = h, m
    keys = [_P(u ^ v)]
    for c in (0, _C3, 0):
        u = _A(u) ^ c
        v = _A(_A(v))
        keys.append(_P(u ^ v))
    s = 0
    for i in range(4):
        s |= _E(sbox, keys[i], (h >> (64 * i)) & 0xFFFFFFFFFFFFFFFF) << (64 * i)
    for _ in range(12):
        s = _psi(s)
    s ^= m
    s = _psi(s)
    s ^= h
    for _ in range(61):
        s = _psi(s)
    return s


def gostr341194(sbox, msg, iv=0):
    h = iv
    total = 0
    length = 0
    for o in range(0, len(msg), 32):
        part = msg[o:o + 32]
        length += 8 * len(part)
        m = int.from_bytes(part, "little")     # short last block: zero extension
        total = (total + m) & _M256
        h = _step(sbox, h, m)
    h = _step(sbox, h, length)
    h = _step(sbox, h, total)
    return h.to_bytes(32, "little")


# RFC 4357 section 11.1 id-GostR3411-94-TestParamSet (pi1 .. pi8), typed in from the RFC
_RFC4357_TEST = bytes(int(c, 16) for c in (
    "4A92D80E6B1C7F53"
    "EB4C6DFA23810759"
    "581DA342EFC7609B"
    "7DA1089FE46CB253"
    "6C715FD84A9E03B2"
    "4BA0721D36859CFE"
    "DB413F590AE7682C"
    "1FD057A4923E6B8C"))

# RFC 4357 section 11.2 id-GostR3411-94-CryptoProParamSet (pi1 .. pi8), typed in from the RFC.
# This table is NOT in the library header (its CryptoPro-A..D sets are the *cipher* parameter
# sets); it is used only to check the cipher model against the published CryptoPro digests.
_RFC4357_HASH_CRYPTOPRO = bytes(int(c, 16) for c in (
    "A4568137DCE092BF"
    "5F402DB91763CEA8"
    "7FCE94103B526A8D"
    "4A7C0F28E165DB93"
    "764B9C2A180EFD35"
    "7624D9F0A15B8EC3"
    "DE41705A3C8F629B"
    "13A95B4F867ED02C"))

# GOST R 34.12-2015 A.2 / id-tc26-gost-28147-param-Z, typed in from the standard (pi0 .. pi7)
_TC26_Z = bytes([
    12, 4, 6, 2, 10, 5, 11, 9, 14, 8, 13, 7, 0, 3, 15, 1,
    6, 8, 2, 3, 9, 10, 5, 12, 1, 14, 4, 7, 11, 13, 0, 15,
    11, 3, 5, 8, 2, 15, 10, 13, 14, 1, 7, 4, 12, 9, 6, 0,
    12, 8, 2, 1, 13, 4, 15, 6, 7, 0, 10, 5, 3, 14, 9, 11,
    7, 15, 5, 10, 8, 1, 6, 13, 0, 9, 3, 14, 11, 4, 2, 12,
    5, 13, 15, 6, 9, 2, 12, 10, 11, 7, 8, 1, 4, 3, 14, 0,
    8, 14, 2, 5, 6, 9, 1, 12, 15, 4, 11, 0, 13, 10, 3, 7,
    1, 7, 14, 13, 0, 5, 8, 3, 4, 15, 10, 6, 9, 12, 11, 2,
])


def find_sbox(sboxes, fragment):
    for name, tab in sboxes.items():
        if fragment in name.lower():
            return tab
    return None


def selftest():
    fails = []
    try:
        sb = parse_sboxes()
    except (OSError, ValueError) as e:
        return ["cannot parse S-boxes from %s: %r" % (HEADER, e)]
    if len(sb) < 6:
        fails.append("only %d S-box tables found in the header" % len(sb))
    for name, tab in sb.items():
        if not sbox_is_wellformed(tab):
            fails.append("S-box %s: some row is not a permutation of 0..15" % name)
    z = find_sbox(sb, "param_z")
    test = find_sbox(sb, "testparamset")
    cpa = find_sbox(sb, "cryptopro_a")
    if z is None or test is None or cpa is None:
        return fails + ["header lacks the Z / test / CryptoPro-A parameter sets: %s" % list(sb)]
    if z != _TC26_Z:
        fails.append("header's tc26-Z table differs from GOST R 34.12-2015 (typed-in copy)")
    if test != _RFC4357_TEST:
        fails.append("header's test parameter set differs from RFC 4357 11.1 (typed-in copy)")

    # --- GOST R 34.12-2015 A.2 (Magma), own copy of the table -----------------------------
    g = Gost([0] * 8, _TC26_Z)

    def t(x):       # the standard's t(): substitution only
        y = 0
        for i in range(8):
            y |= g.rows[i][(x >> (4 * i)) & 15] << (4 * i)
        return y
    for a, want in ((0xfdb97531, 0x2a196f34), (0x2a196f34, 0xebd9f03a),
                    (0xebd9f03a, 0xb039bb3d), (0xb039bb3d, 0x68695433)):
        if t(a) != want:
            fails.append("A.2.1 t(%08x) = %08x want %08x" % (a, t(a), want))
    for k, a, want in ((0x87654321, 0xfedcba98, 0xfdcbc20c), (0xfdcbc20c, 0x87654321, 0x7e791a4b),
                       (0x7e791a4b, 0xfdcbc20c, 0xc76549ec), (0xc76549ec, 0x7e791a4b, 0x9791c849)):
        got = g.f((a + k) & M32)
        if got != want:
            fails.append("A.2.2 g[%08x](%08x) = %08x want %08x" % (k, a, got, want))
    mkey = bytes.fromhex("ffeeddccbbaa99887766554433221100f0f1f2f3f4f5f6f7f8f9fafbfcfdfeff")
    mpt = bytes.fromhex("fedcba9876543210")
    mct = bytes.fromhex("4ee901e5c2d8ca3d")
    if encrypt(mkey, _TC26_Z, mpt, be=True) != mct:
        fails.append("A.2.4 encryption: %s" % encrypt(mkey, _TC26_Z, mpt, be=True).hex())
    if decrypt(mkey, _TC26_Z, mct, be=True) != mpt:
        fails.append("A.2.5 decryption: %s" % decrypt(mkey, _TC26_Z, mct, be=True).hex())
    # A.2.4 intermediate states (a1, a0) after rounds 1, 2, 16 and 31
    gm = _ctx(mkey, _TC26_Z, True)
    n1, n2 = _load(mpt, True)
    trace = {}
    for r in range(31):
        n1, n2 = n2 ^ gm.f((n1 + gm.k[Gost.ENC_ORDER[r]]) & M32), n1
        trace[r + 1] = (n2, n1)
    for r, want in ((1, (0x76543210, 0x28da3b14)), (2, (0x28da3b14, 0xb14337a5)),
                    (16, (0x2098cd86, 0x4f15b0bb)), (31, (0x239a4577, 0xc2d8ca3d))):
        if trace[r] != want:
            fails.append("A.2.4 round %d state %08x %08x" % ((r,) + trace[r]))
    # the same key/plaintext re-expressed in the little-endian convention must give the
    # re-expressed ciphertext (links the two conventions; values follow from the one above)
    lkey = b"".join(mkey[i:i + 4][::-1] for i in range(0, 32, 4))
    if encrypt(lkey, _TC26_Z, mpt[::-1]) != mct[::-1]:
        fails.append("LE/BE convention link")
    # MAC of one block == state after 16 rounds (a0 first)
    if mac(mkey, _TC26_Z, mpt, be=True) != bytes.fromhex("4f15b0bb2098cd86"):
        fails.append("16-round state as BE tag: %s" % mac(mkey, _TC26_Z, mpt, be=True).hex())
    if mac(lkey, _TC26_Z, mpt[::-1]) != struct.pack("<2I", 0x4f15b0bb, 0x2098cd86):
        fails.append("16-round state as LE tag")

    # --- GOST R 34.11-94 digests (little-endian convention)
    for sbox, label, vecs in (
        (test, "test", (
            (b"", "ce85b99cc46752fffee35cab9a7b0278abb4c2d2055cff685af4912c49490f8d"),
            (b"a", "d42c539e367c66e9c88a801f6649349c21871b4344c6a573f849fdce62f314dd"),
            (b"message digest", "ad4434ecb18f2c99b60cbe59ec3d2469582b65273f48de72db2fde16a4889a4d"),
            (b"This is message, length=32 bytes",
             "b1c466d37519b82e8319819ff32595e047a28cb6f83eff1c6916a815a637fffa"),
            (b"Suppose the original message has length = 50 bytes",
             "471aba57a60a770d3a76130635c1fbea4ef14de51f78b4ae57dd893b62f55208"),
        )),
        (_RFC4357_HASH_CRYPTOPRO, "CryptoPro hash set", (
            (b"", "981e5f3ca30c841487830f84fb433e13ac1101569b9c13584ac483234cd656c0"),
            (b"a", "e74c52dd282183bf37af0079c9f78055715a103f17e3133ceff1aacf2f403011"),
            (b"This is message, length=32 bytes",
             "2cefc2f7b7bdc514e18ea57fa74ff357e7fa17d652c75f69cb1be7893ede48eb"),
            (b"Suppose the original message has length = 50 bytes",
             "c3730c5cbccacf915ac292676f21e8bd4ef75331d9405e5f1a61dc3130a65011"),
        )),
    ):
        for msg, hx in vecs:
            got = gostr341194(sbox, msg).hex()
            if got != hx:
                fails.append("GOST R 34.11-94 (%s) %r: %s" % (label, msg[:20], got))

    # --- BouncyCastle GOST28147MacTest (E-A = CryptoPro-A box, 4-byte tag) ------------------
    bk = bytes.fromhex("6d145dc993f4019e104280df6fcd8cd8e01e101e4c113d7ec4f469ce6dcd9e49")
    bd = b"what do ya want for nothing?" + bytes(4)
    if mac(bk, cpa, bd)[:4] != bytes.fromhex("93468a46"):
        fails.append("BouncyCastle MAC vector: %s" % mac(bk, cpa, bd).hex())
    # --- BouncyCastle GOST28147Test ECB (default box = test parameter set) ------------------
    if encrypt(bytes.fromhex("0123456789abcdef" * 4), test,
               bytes.fromhex("4e6f77206973207468652074696d6520666f7220616c6c20")) != \
            bytes.fromhex("281630d0d5770030068c252d841e84149ccc1912052dbc02"):
        fails.append("BouncyCastle ECB vector")

    # --- structure -----------------------------------------------------------------------
    x = bytes(range(1, 25))
    for name, tab in sb.items():
        for be in (False, True):
            c = encrypt(mkey, tab, x, be)
            if decrypt(mkey, tab, c, be) != x or c == x:
                fails.append("decrypt(encrypt) != id for %s be=%s" % (name, be))
    return fails


if __name__ == "__main__":
    f = selftest()
    print("\n".join(f) if f else "gost28147 oracle ok")


# ---------------------------------------------------------------------------
# Independent transcription of the RFC 4357 (test, CryptoPro-A..D) and tc26-Z S-boxes, typed in by a second party
# (the author of seeded/c08-b-*: it never saw this oracle) and equal to the header's tables on the pinned tree.
# Row 0 = K1 (lowest nibble) ... row 7 = K8.  Used to notice a transposition inside the header's own tables,
# which the header-parsed oracle alone cannot see.
REFERENCE_TABLES = {
    'testparamset': bytes.fromhex('040a09020d08000e060b010c070f05030e0b040c060d0f0a02030801000705090508010d0a0304020e0f0c070600090b070d0a010008090f0e04060c0b020503060c0701050f0d08040a090e00030b02040b0a000702010d03060805090c0f0e0d0b0401030f0509000a0e070608020c010f0d0005070a040902030e060b080c'),
    'cryptopro_a': bytes.fromhex('09060302080b01070a040e0f0c000d0503070e09080a0f000502060c0b040d010e0406020b030d080c0f050a000701090e070a0c0d01030900020b040f0805060b050109080d0f000e0402030c070a06030a0d0c0102000b07050904080f0e06010d0209070a0600080c04050f030b0e0b0a0f05000c0e080602030901070d04'),
    'cryptopro_b': bytes.fromhex('08040b0103050009020e0a0c0d06070f0001020a040d050c0907030f0b08060e0e0c000a09020d0b0705080f030601040705000d0b060102030a0c0f040e090802070c0f09050a0b0104000d06080e0308030206040d0e0b0c01070f0a00090505020a0b09010c0307040d00060f080e00040b0e080307010a0209060f0d050c'),
    'cryptopro_c': bytes.fromhex('010b0c02090d000f0405080e0a0706030001070d0b040502080e0f0c090a06030802050004090f0a03070c0d060e010b03060001050d0a080b0209070e0f0c04080d0b000405010209030c0e060f0a070c090b01080e0204070306050a000f0d0a0906080d0e02000f03050b04010c07070400050a020f0e0c06010b0d090308'),
    'cryptopro_d': bytes.fromhex('0f0c020a0604050007090e0d010b08030b0603040c0f0e02070d0800050a0901010c0b000f0e06050a0d04080903070201050e0c0a07000d06020b0409030f08000c08090d020a0b07030605040e0f0108000f0302050e0b010a04070c090d060300060f010e09020d080c040b0a0507010a06080f0b00040c030509070d020e'),
    'param_z': bytes.fromhex('0c0406020a050b090e080d0700030f0106080203090a050c010e04070b0d000f0b030508020f0a0d0e0107040c0906000c0802010d040f0607000a05030e090b070f050a0801060d0009030e0b04020c050d0f0609020c0a0b07080104030e00080e02050609010c0f040b000d0a030701070e0d00050803040f0a06090c0b02'),
}


def compare_with_reference(sboxes):
    """-> list of (header table name, first differing index) for built-in sets that differ from REFERENCE_TABLES."""
    out = []
    for fragment, ref in REFERENCE_TABLES.items():
        for name, tab in sboxes.items():
            if fragment in name.lower() and tab != ref:
                out.append((name, next(i for i in range(128) if tab[i] != ref[i])))
    return out
