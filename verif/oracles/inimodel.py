"""Reference model of the INI store (C17): an ordered list of text lines.

Deliberately simple and independent of the library's data layout: the store is the
list of lines of the text, each classified as blank / comment / invalid / section /
key=value.  Lookups are case-sensitive or case-insensitive (ASCII) as requested.
The model states only what the property promises for *canonical* texts: names and
values without CR/LF/NUL, key names without '=' and not starting with '[', ';', '#'.
"""

BLANK, COMMENT, INVALID, SECTION, KV = "blank", "comment", "invalid", "section", "kv"


def lower(b):
    return bytes(c + 32 if 65 <= c <= 90 else c for c in b)


def split_lines(text):
    """LF terminates a line, one CR directly before it belongs to the terminator;
    a last line without terminator counts; nothing after a final terminator."""
    if not text:
        return []
    parts = text.split(b"\n")
    last_unterminated = parts.pop()           # text after the final LF ('' when text ends in LF)
    out = [p[:-1] if p.endswith(b"\r") else p for p in parts]
    if last_unterminated != b"":
        out.append(last_unterminated)
    return out


def classify(line):
    if line == b"":
        return (BLANK,)
    c = line[:1]
    if c in (b";", b"#"):
        return (COMMENT, line)
    if c == b"[":
        r = line.rfind(b"]")
        if r < 0:
            return (INVALID, line)
        return (SECTION, line[1:r], line)
    e = line.find(b"=")
    if e < 0:
        return (INVALID, line)
    return (KV, line[:e], line[e + 1:])


class IniModel:
    def __init__(self):
        self.lines = []

    def copy(self):
        m = IniModel()
        m.lines = list(self.lines)
        return m

    # ---- mutation ---------------------------------------------------------
    def parse(self, text):
        for l in split_lines(text):
            self.lines.append(classify(l))

    def _sect_index(self, name, ci=False):
        for i, l in enumerate(self.lines):
            if l[0] == SECTION and (lower(l[1]) == lower(name) if ci else l[1] == name):
                return i
        return -1

    def _sect_end(self, si):
        j = si + 1
        while j < len(self.lines) and self.lines[j][0] != SECTION:
            j += 1
        return j

    def set(self, sect, name, value, ci_keys=False):
        """case-sensitive set (ci_keys=True gives the *variant* semantics used only to
        classify a divergence: key matched ignoring case)."""
        si = self._sect_index(sect)
        if si < 0:
            self.lines.append((SECTION, sect, b"[" + sect + b"]"))
            si = len(self.lines) - 1
        end = self._sect_end(si)
        for j in range(si + 1, end):
            l = self.lines[j]
            if l[0] == KV and (lower(l[1]) == lower(name) if ci_keys else l[1] == name):
                self.lines[j] = (KV, l[1], value)
                return "replace"
        # new entry: at the end of the section's entries (before trailing blank lines)
        j = end
        while j > si + 1 and self.lines[j - 1][0] == BLANK:
            j -= 1
        self.lines.insert(j, (KV, name, value))
        return "new"

    # ---- queries ----------------------------------------------------------
    def dump(self):
        """[(section name, [(key, value), ...]), ...] in file order; lines before the
        first section header are not addressable."""
        out = []
        cur = None
        for l in self.lines:
            if l[0] == SECTION:
                cur = []
                out.append((l[1], cur))
            elif l[0] == KV and cur is not None:
                cur.append((l[1], l[2]))
        return out

    def get(self, sect, name, ci):
        """-> ('found', value) | ('absent',) | ('ambiguous', set(values), absent_allowed)"""
        d = self.dump()
        if not ci:
            secs = [kv for (s, kv) in d if s == sect]
            if not secs:
                return ("absent",)
            vals = [v for (k, v) in secs[0] if k == name]
            if len(secs) == 1 and len(vals) <= 1:
                return ("found", vals[0]) if vals else ("absent",)
            allv = set(v for kv in secs for (k, v) in kv if k == name)
            if not allv:
                return ("absent",)
            return ("ambiguous", allv, len(secs) > 1)
        secs = [kv for (s, kv) in d if lower(s) == lower(sect)]
        if not secs:
            return ("absent",)
        allv = [v for kv in secs for (k, v) in kv if lower(k) == lower(name)]
        if not allv:
            return ("absent",)
        if len(secs) == 1 and len(allv) == 1:
            return ("found", allv[0])
        return ("ambiguous", set(allv), len(secs) > 1)

    def other_lines(self):
        """comment / invalid lines in order, and the number of blank lines"""
        return ([l[1] for l in self.lines if l[0] in (COMMENT, INVALID)],
                sum(1 for l in self.lines if l[0] == BLANK))

    def raw_lines(self):
        out = []
        for l in self.lines:
            if l[0] == BLANK:
                out.append(b"")
            elif l[0] in (COMMENT, INVALID):
                out.append(l[1])
            elif l[0] == SECTION:
                out.append(l[2])
            else:
                out.append(l[1] + b"=" + l[2])
        return out

    def text_size(self, eol=2):
        return sum(len(x) + eol for x in self.raw_lines())

    def equivalent(self, other):
        return self.dump() == other.dump() and self.other_lines() == other.other_lines()

    # relations used for evidence classes
    def name_relation(self, sect, name):
        d = self.dump()
        srel = "exact" if any(s == sect for s, _ in d) else (
            "othercase" if any(lower(s) == lower(sect) for s, _ in d) else "absent")
        krel = "nosect"
        for s, kv in d:
            if s == sect:
                ex = any(k == name for k, _ in kv)
                oc = any(k != name and lower(k) == lower(name) for k, _ in kv)
                krel = "both" if ex and oc else "exact" if ex else "othercase" if oc else "absent"
                break
        return srel, krel


def selftest():
    fails = []
    m = IniModel()
    m.parse(b"; c\r\n[section]\r\nname=value\r\nan=av\nbn=bv\n\n[Two]\nx=\nnoeq\n[bad\nlast=1")
    exp = [(b"section", [(b"name", b"value"), (b"an", b"av"), (b"bn", b"bv")]),
           (b"Two", [(b"x", b""), (b"last", b"1")])]
    if m.dump() != exp:
        fails.append("parse/dump: %r" % (m.dump(),))
    if m.other_lines() != ([b"; c", b"noeq", b"[bad"], 1):
        fails.append("other_lines: %r" % (m.other_lines(),))
    if m.get(b"section", b"an", False) != ("found", b"av") or m.get(b"Section", b"an", False) != ("absent",) \
            or m.get(b"SECTION", b"AN", True) != ("found", b"av") or m.get(b"section", b"AN", False) != ("absent",):
        fails.append("get case rules")
    m.set(b"section", b"zz", b"1")
    if m.raw_lines()[5:7] != [b"zz=1", b""]:
        fails.append("set places new key before trailing blank lines: %r" % (m.raw_lines(),))
    m.set(b"section", b"an", b"")
    m.set(b"New", b"k", b"v=v")
    if m.dump()[0][1][1] != (b"an", b"") or m.dump()[-1] != (b"New", [(b"k", b"v=v")]):
        fails.append("set replace/new section")
    t = b"\r\n".join(m.raw_lines()) + b"\r\n"
    m2 = IniModel()
    m2.parse(t)
    if not m2.equivalent(m) or m.text_size() != len(t):
        fails.append("round trip / size")
    if split_lines(b"a\r\n\r\nb\n") != [b"a", b"", b"b"] or split_lines(b"a\n\n") != [b"a", b""] \
            or split_lines(b"\n") != [b""] or split_lines(b"x") != [b"x"]:
        fails.append("split_lines")
    return fails
