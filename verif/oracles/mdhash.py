"""Pure-Python MD5 (RFC 1321), SHA-1, SHA-224/256/384/512 (FIPS 180-4) with an exposed
midstate, so that a digest can be finished from an arbitrary (chaining value, byte count)
pair.  hashlib cannot be started from a midstate; this module exists only for the
bit-length-counter state-injection cases of C04.  `selftest()` validates it against
published vectors and against hashlib on a sweep of lengths.

Constants are derived, not typed in: MD5 T[i] = floor(2^32 |sin(i+1)|); SHA-2 K and H0 are
the fractional parts of cube / square roots of the first primes (integer arithmetic).
"""
import math
import struct

M32 = 0xFFFFFFFF
M64 = 0xFFFFFFFFFFFFFFFF


def _primes(n):
    out = []
    c = 2
    while len(out) < n:
        if all(c % p for p in out):
            out.append(c)
        c += 1
    return out


def _iroot(v, k):
    lo, hi = 0, 1
    while hi ** k <= v:
        hi <<= 1
    while lo + 1 < hi:
        mid = (lo + hi) // 2
        if mid ** k <= v:
            lo = mid
        else:
            hi = mid
    return lo


def _frac_root(p, k, bits):
    """first `bits` bits of the fractional part of p^(1/k)"""
    return _iroot(p << (k * bits), k) & ((1 << bits) - 1)


_P = _primes(80)
K256 = [_frac_root(p, 3, 32) for p in _P[:64]]
K512 = [_frac_root(p, 3, 64) for p in _P[:80]]
H256 = [_frac_root(p, 2, 32) for p in _P[:8]]
H512 = [_frac_root(p, 2, 64) for p in _P[:8]]
H384 = [_frac_root(p, 2, 64) for p in _P[8:16]]
# SHA-224 H0: the second 32 bits of the fractional parts of the square roots of primes 9..16
H224 = [_frac_root(p, 2, 64) & M32 for p in _P[8:16]]
MD5_T = [int(abs(math.sin(i + 1)) * 4294967296) & M32 for i in range(64)]
MD5_S = [7, 12, 17, 22] * 4 + [5, 9, 14, 20] * 4 + [4, 11, 16, 23] * 4 + [6, 10, 15, 21] * 4


def _rol32(x, n):
    return ((x << n) | (x >> (32 - n))) & M32


def _ror32(x, n):
    return ((x >> n) | (x << (32 - n))) & M32


def _ror64(x, n):
    return ((x >> n) | (x << (64 - n))) & M64


def md5_compress(st, blk):
    x = struct.unpack("<16I", blk)
    a, b, c, d = st
    for i in range(64):
        if i < 16:
            f, k = (b & c) | (~b & d), i
        elif i < 32:
            f, k = (d & b) | (~d & c), (5 * i + 1) % 16
        elif i < 48:
            f, k = b ^ c ^ d, (3 * i + 5) % 16
        else:
            f, k = c ^ (b | (~d & M32)), (7 * i) % 16
        f = (f + a + MD5_T[i] + x[k]) & M32
        a, d, c = d, c, b
        b = (b + _rol32(f, MD5_S[i])) & M32
    return [(st[0] + a) & M32, (st[1] + b) & M32, (st[2] + c) & M32, (st[3] + d) & M32]


def sha1_compress(st, blk):
    w = list(struct.unpack(">16I", blk))
    for t in range(16, 80):
        w.append(_rol32(w[t - 3] ^ w[t - 8] ^ w[t - 14] ^ w[t - 16], 1))
    a, b, c, d, e = st
    for t in range(80):
        if t < 20:
            f, k = (b & c) | (~b & d), 0x5A827999
        elif t < 40:
            f, k = b ^ c ^ d, 0x6ED9EBA1
        elif t < 60:
            f, k = (b & c) | (b & d) | (c & d), 0x8F1BBCDC
        else:
            f, k = b ^ c ^ d, 0xCA62C1D6
        tmp = (_rol32(a, 5) + (f & M32) + e + k + w[t]) & M32
        e, d, c, b, a = d, c, _rol32(b, 30), a, tmp
    return [(x + y) & M32 for x, y in zip(st, (a, b, c, d, e))]


def sha256_compress(st, blk):
    w = list(struct.unpack(">16I", blk))
    for t in range(16, 64):
        s0 = _ror32(w[t - 15], 7) ^ _ror32(w[t - 15], 18) ^ (w[t - 15] >> 3)
        s1 = _ror32(w[t - 2], 17) ^ _ror32(w[t - 2], 19) ^ (w[t - 2] >> 10)
        w.append((w[t - 16] + s0 + w[t - 7] + s1) & M32)
    a, b, c, d, e, f, g, h = st
    for t in range(64):
        s1 = _ror32(e, 6) ^ _ror32(e, 11) ^ _ror32(e, 25)
        ch = (e & f) ^ (~e & M32 & g)
        t1 = (h + s1 + ch + K256[t] + w[t]) & M32
        s0 = _ror32(a, 2) ^ _ror32(a, 13) ^ _ror32(a, 22)
        mj = (a & b) ^ (a & c) ^ (b & c)
        t2 = (s0 + mj) & M32
        h, g, f, e, d, c, b, a = g, f, e, (d + t1) & M32, c, b, a, (t1 + t2) & M32
    return [(x + y) & M32 for x, y in zip(st, (a, b, c, d, e, f, g, h))]


def sha512_compress(st, blk):
    w = list(struct.unpack(">16Q", blk))
    for t in range(16, 80):
        s0 = _ror64(w[t - 15], 1) ^ _ror64(w[t - 15], 8) ^ (w[t - 15] >> 7)
        s1 = _ror64(w[t - 2], 19) ^ _ror64(w[t - 2], 61) ^ (w[t - 2] >> 6)
        w.append((w[t - 16] + s0 + w[t - 7] + s1) & M64)
    a, b, c, d, e, f, g, h = st
    for t in range(80):
        s1 = _ror64(e, 14) ^ _ror64(e, 18) ^ _ror64(e, 41)
        ch = (e & f) ^ (~e & M64 & g)
        t1 = (h + s1 + ch + K512[t] + w[t]) & M64
        s0 = _ror64(a, 28) ^ _ror64(a, 34) ^ _ror64(a, 39)
        mj = (a & b) ^ (a & c) ^ (b & c)
        t2 = (s0 + mj) & M64
        h, g, f, e, d, c, b, a = g, f, e, (d + t1) & M64, c, b, a, (t1 + t2) & M64
    return [(x + y) & M64 for x, y in zip(st, (a, b, c, d, e, f, g, h))]


# name -> (compress, block, word fmt char, big-endian?, IV, digest bytes, length-field bytes)
ALGS = {
    "md5": (md5_compress, 64, "I", False, [0x67452301, 0xEFCDAB89, 0x98BADCFE, 0x10325476], 16, 8),
    "sha1": (sha1_compress, 64, "I", True, [0x67452301, 0xEFCDAB89, 0x98BADCFE, 0x10325476, 0xC3D2E1F0], 20, 8),
    "sha224": (sha256_compress, 64, "I", True, H224, 28, 8),
    "sha256": (sha256_compress, 64, "I", True, H256, 32, 8),
    "sha384": (sha512_compress, 128, "Q", True, H384, 48, 16),
    "sha512": (sha512_compress, 128, "Q", True, H512, 64, 16),
}


class MDHash:
    """state: list of chaining words; count: bytes absorbed so far (unbounded int)."""

    def __init__(self, name, data=b"", state=None, count=0):
        (self.compress, self.block_size, self.fmt, self.be, iv, self.digest_size, self.lenbytes) = ALGS[name]
        self.name = name
        self.state = list(iv if state is None else state)
        self.count = count
        if count % self.block_size:
            raise ValueError("midstate must sit on a block boundary")
        self.buf = b""
        if data:
            self.update(data)

    def update(self, data):
        buf = self.buf + bytes(data)
        self.count += len(data)
        bs = self.block_size
        off = 0
        while len(buf) - off >= bs:
            self.state = self.compress(self.state, buf[off:off + bs])
            off += bs
        self.buf = buf[off:]
        return self

    def digest(self):
        bs = self.block_size
        bits = (self.count * 8) & ((1 << (8 * self.lenbytes)) - 1)
        pad = b"\x80" + b"\x00" * ((bs - self.lenbytes - 1 - len(self.buf)) % bs)
        tail = self.buf + pad + bits.to_bytes(self.lenbytes, "big" if self.be else "little")
        st = list(self.state)
        for off in range(0, len(tail), bs):
            st = self.compress(st, tail[off:off + bs])
        out = struct.pack((">" if self.be else "<") + "%d%s" % (len(st), self.fmt), *st)
        return out[:self.digest_size]


def selftest():
    import hashlib
    fails = []
    vec = {
        "md5": "900150983cd24fb0d6963f7d28e17f72",
        "sha1": "a9993e364706816aba3e25717850c26c9cd0d89d",
        "sha224": "23097d223405d8228642a477bda255b32aadbce4bda0b3f7e36c9da7",
        "sha256": "ba7816bf8f01cfea414140de5dae2223b00361a396177a9cb410ff61f20015ad",
        "sha384": "cb00753f45a35e8bb5a03d699ac65007272c32ab0eded1631a8b605a43ff5bed"
                  "8086072ba1e7cc2358baeca134c825a7",
        "sha512": "ddaf35a193617abacc417349ae20413112e6fa4e89a97ea20a9eeee64b55d39a"
                  "2192992a274fc1a836ba3c23a3feebbd454d4423643ce80e2a9ac94fa54ca49f",
    }
    for name, want in vec.items():
        got = MDHash(name, b"abc").digest().hex()
        if got != want:
            fails.append("%s('abc') = %s" % (name, got))
    seed = b"mdhash"
    for name in ALGS:
        for n in list(range(0, 300, 7)) + [55, 56, 57, 63, 64, 65, 111, 112, 113, 127, 128, 129, 1000]:
            seed = hashlib.sha256(seed).digest()
            msg = (seed * (n // 32 + 1))[:n]
            m = MDHash(name)
            m.update(msg[:n // 3]).update(msg[n // 3:])
            if m.digest() != hashlib.new(name, msg).digest():
                fails.append("%s differs from hashlib at length %d" % (name, n))
                break
        # finishing from a midstate equals hashing the whole message
        bs = ALGS[name][1]
        msg = (seed * 40)[:5 * bs + 17]
        first = MDHash(name, msg[:3 * bs])
        cont = MDHash(name, state=first.state, count=3 * bs).update(msg[3 * bs:])
        if cont.digest() != hashlib.new(name, msg).digest():
            fails.append("%s midstate continuation differs" % name)
    return fails


if __name__ == "__main__":
    f = selftest()
    print("mdhash selftest:", "ok" if not f else f)
