"""Reference RFC 1035 message encoder/decoder (plus the RFC 6891 OPT pseudo-RR) for C15.

Independent of the library: written from the RFC text only.

* names: presentation form without trailing dot, labels 1..63 octets, total 1..253
  octets (wire form <= 255); no compression on encode (the library never compresses:
  dns_msg_name2sequence_of_labels returns EOPNOTSUPP for compress != 0), compression
  pointers are followed on decode (RFC 1035 4.1.4).
* header: ID is an opaque 16-bit cookie - the library stores the caller's uint16_t
  without byte swapping, so the reference takes the two ID octets as given; the flag
  word is composed from the individual fields exactly as RFC 1035 4.1.1 / RFC 2535
  (AD, CD) lay them out.
* OPT RR (RFC 6891 6.1.2/6.1.3, same as RFC 2671 4.3/4.6): NAME=0, TYPE=41,
  CLASS=UDP payload size, TTL = EXTENDED-RCODE(8) | VERSION(8) | DO(1) | Z(15).
"""
import struct

MAX_LABEL = 63
MAX_NAME = 253
TYPE_OPT = 41


class DnsError(Exception):
    pass


def name_labels(name):
    """Split presentation-form name into labels; raises DnsError when it is not a valid
    host name in the sense of the property (1..253 octets, labels 1..63)."""
    if not isinstance(name, (bytes, bytearray)):
        raise DnsError("type")
    if len(name) < 1 or len(name) > MAX_NAME:
        raise DnsError("name length %d" % len(name))
    labels = bytes(name).split(b".")
    for l in labels:
        if len(l) < 1 or len(l) > MAX_LABEL:
            raise DnsError("label length %d" % len(l))
    return labels


def name_valid(name):
    try:
        name_labels(name)
        return True
    except DnsError:
        return False


def encode_name(name):
    out = bytearray()
    for l in name_labels(name):
        out.append(len(l))
        out += l
    out.append(0)
    return bytes(out)


def decode_name(msg, off):
    """Returns (presentation name without trailing dot, offset after the name in the
    record).  Follows compression pointers; bounded."""
    labels = []
    end = None
    jumps = 0
    n = len(msg)
    while True:
        if off >= n:
            raise DnsError("name runs out of message")
        b = msg[off]
        if b & 0xC0 == 0xC0:
            if off + 1 >= n:
                raise DnsError("pointer truncated")
            ptr = ((b & 0x3F) << 8) | msg[off + 1]
            if end is None:
                end = off + 2
            jumps += 1
            if jumps > 128:
                raise DnsError("pointer loop")
            off = ptr
            continue
        if b & 0xC0:
            raise DnsError("unsupported label type")
        off += 1
        if b == 0:
            break
        if off + b > n:
            raise DnsError("label runs out of message")
        labels.append(bytes(msg[off:off + b]))
        off += b
    if end is None:
        end = off
    return b".".join(labels), end


def flags_word(qr=0, opcode=0, aa=0, tc=0, rd=0, ra=0, z=0, ad=0, cd=0, rcode=0):
    """RFC 1035 4.1.1 (+ AD/CD of RFC 2535 6.1) as two octets in wire order."""
    b0 = ((qr & 1) << 7) | ((opcode & 0xF) << 3) | ((aa & 1) << 2) | ((tc & 1) << 1) | (rd & 1)
    b1 = ((ra & 1) << 7) | ((z & 1) << 6) | ((ad & 1) << 5) | ((cd & 1) << 4) | (rcode & 0xF)
    return bytes([b0, b1])


def parse_flags(two):
    b0, b1 = two[0], two[1]
    return dict(qr=b0 >> 7, opcode=(b0 >> 3) & 0xF, aa=(b0 >> 2) & 1, tc=(b0 >> 1) & 1, rd=b0 & 1,
                ra=b1 >> 7, z=(b1 >> 6) & 1, ad=(b1 >> 5) & 1, cd=(b1 >> 4) & 1, rcode=b1 & 0xF)


def encode_header(id2, flags2, qd, an, ns, ar):
    return bytes(id2) + bytes(flags2) + struct.pack(">HHHH", qd, an, ns, ar)


def encode_question(name, qtype, qclass):
    return encode_name(name) + struct.pack(">HH", qtype, qclass)


def encode_rr(name, rtype, rclass, ttl, rdata):
    if len(rdata) > 0xFFFF:
        raise DnsError("rdata too long")
    return encode_name(name) + struct.pack(">HHIH", rtype, rclass, ttl & 0xFFFFFFFF, len(rdata)) + bytes(rdata)


def opt_ttl(ext_rcode, version, do, z15=0):
    return bytes([ext_rcode & 0xFF, version & 0xFF, ((do & 1) << 7) | ((z15 >> 8) & 0x7F), z15 & 0xFF])


def encode_opt(udp_size, ext_rcode, version, do, z15, rdata):
    return b"\x00" + struct.pack(">HH", TYPE_OPT, udp_size) + opt_ttl(ext_rcode, version, do, z15) + \
        struct.pack(">H", len(rdata)) + bytes(rdata)


def decode_message(msg):
    """Full decode.  Returns dict(id, flags(dict), counts, questions, records, size)
    where records is the concatenation AN+NS+AR, each a dict with its section, name,
    type, class, ttl (int, big-endian reading), ttl_raw (4 octets), rdata, offset, size."""
    msg = bytes(msg)
    if len(msg) < 12:
        raise DnsError("short header")
    qd, an, ns, ar = struct.unpack(">HHHH", msg[4:12])
    out = dict(id=msg[0:2], flags=parse_flags(msg[2:4]), counts=(qd, an, ns, ar), questions=[], records=[])
    off = 12
    for _ in range(qd):
        start = off
        name, off = decode_name(msg, off)
        if off + 4 > len(msg):
            raise DnsError("question truncated")
        qt, qc = struct.unpack(">HH", msg[off:off + 4])
        off += 4
        out["questions"].append(dict(name=name, type=qt, cls=qc, offset=start, size=off - start))
    out["an_off"] = off
    sec_offs = []
    for sec, cnt in (("an", an), ("ns", ns), ("ar", ar)):
        sec_offs.append(off)
        for _ in range(cnt):
            start = off
            name, off = decode_name(msg, off)
            if off + 10 > len(msg):
                raise DnsError("rr fixed part truncated")
            rt, rc, ttl, rdl = struct.unpack(">HHIH", msg[off:off + 10])
            ttl_raw = msg[off + 4:off + 8]
            off += 10
            if off + rdl > len(msg):
                raise DnsError("rdata truncated")
            out["records"].append(dict(section=sec, name=name, type=rt, cls=rc, ttl=ttl, ttl_raw=ttl_raw,
                                       rdata=msg[off:off + rdl], rdata_off=off, offset=start,
                                       size=off + rdl - start))
            off += rdl
    out["sec_offs"] = tuple(sec_offs)
    out["size"] = off
    return out


def ascii_lower(b):
    return bytes(c + 32 if 65 <= c <= 90 else c for c in b)


def selftest():
    fails = []
    # the canonical "example.com A IN, RD" query as produced by every stub resolver
    q = bytes.fromhex("123401000001000000000000076578616d706c6503636f6d0000010001")
    enc = encode_header(b"\x12\x34", flags_word(rd=1), 1, 0, 0, 0) + encode_question(b"example.com", 1, 1)
    if enc != q:
        fails.append("query encoding: %s" % enc.hex())
    # a response with a compression pointer (c00c) and a 4-octet A record, TTL 3600
    r = bytes.fromhex("123481800001000100000000076578616d706c6503636f6d0000010001"
                      "c00c000100010000 0e10 0004 5db8d822".replace(" ", ""))
    try:
        d = decode_message(r)
        rec = d["records"][0]
        if (d["flags"]["qr"], d["flags"]["rd"], d["flags"]["ra"], d["flags"]["rcode"]) != (1, 1, 1, 0):
            fails.append("response flags %r" % (d["flags"],))
        if rec["name"] != b"example.com" or rec["ttl"] != 3600 or rec["rdata"] != bytes([93, 184, 216, 34]) \
                or rec["type"] != 1 or rec["cls"] != 1 or d["size"] != len(r):
            fails.append("response decode %r" % (rec,))
    except DnsError as e:
        fails.append("response decode raised %s" % e)
    # EDNS0 OPT as sent by `dig +dnssec`: root, type 41, udp 4096, ext-rcode 0, version 0, DO
    if encode_opt(4096, 0, 0, 1, 0, b"") != bytes.fromhex("0000291000000080000000"):
        fails.append("opt encoding")
    # BADVERS reply (RFC 6891 6.1.3): extended rcode 1 in the FIRST ttl octet, version second
    if opt_ttl(1, 0, 0) != b"\x01\x00\x00\x00":
        fails.append("opt ttl order")
    # limits
    if not name_valid(b"a" * 63 + b"." + b"b" * 63 + b"." + b"c" * 63 + b"." + b"d" * 61):
        fails.append("253-octet name refused")
    if name_valid(b"a" * 63 + b"." + b"b" * 63 + b"." + b"c" * 63 + b"." + b"d" * 62):
        fails.append("254-octet name accepted")
    if name_valid(b"a" * 64) or name_valid(b"a..b") or name_valid(b"a.") or name_valid(b""):
        fails.append("invalid label accepted")
    if len(encode_name(b"x" * 63 + b"." + b"y" * 63 + b"." + b"z" * 63 + b"." + b"w" * 61)) != 255:
        fails.append("wire length of max name")
    n, e = decode_name(encode_name(b"www.Example.ORG"), 0)
    if n != b"www.Example.ORG" or e != 17:
        fails.append("name round trip")
    if flags_word(qr=1, opcode=5, aa=1, tc=1, rd=1, ra=1, z=1, ad=1, cd=1, rcode=15) != b"\xaf\xff":
        fails.append("flags word")
    return fails
