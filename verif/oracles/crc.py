"""Bitwise Rocksoft-model CRC (Ross Williams, "A painless guide to CRC error
detection algorithms") plus the CRC-32 catalogue entries that
include/math/crc32.h claims to implement.

The parameters and check values below are those of the RevEng CRC catalogue
(https://reveng.sourceforge.io/crc-catalogue/17plus.htm); they are written here
independently of the header (which quotes the same catalogue in comments), and
`selftest()` re-derives every check value for "123456789" with the bitwise
model, and cross-checks CRC-32/ISO-HDLC against zlib.crc32.
No tables are used: one bit per step."""
import zlib


def _reflect(v, width):
    r = 0
    for i in range(width):
        if v & (1 << i):
            r |= 1 << (width - 1 - i)
    return r


def crc_bitwise(data, width, poly, init, refin, refout, xorout):
    top = 1 << (width - 1)
    mask = (1 << width) - 1
    reg = init
    for byte in data:
        if refin:
            byte = _reflect(byte, 8)
        reg ^= byte << (width - 8)
        for _ in range(8):
            if reg & top:
                reg = ((reg << 1) ^ poly) & mask
            else:
                reg = (reg << 1) & mask
    if refout:
        reg = _reflect(reg, width)
    return (reg ^ xorout) & mask


# name in the driver -> (macro in crc32.h, catalogue name, poly, init, refin, refout, xorout, check)
CATALOGUE = [
    ("crc32a", "CRC-32/BZIP2", 0x04C11DB7, 0xFFFFFFFF, False, False, 0xFFFFFFFF, 0xFC891918),
    ("crc32cksum", "CRC-32/CKSUM", 0x04C11DB7, 0x00000000, False, False, 0xFFFFFFFF, 0x765E7680),
    ("crc32mpeg2", "CRC-32/MPEG-2", 0x04C11DB7, 0xFFFFFFFF, False, False, 0x00000000, 0x0376E6E7),
    ("crc32b", "CRC-32/ISO-HDLC", 0x04C11DB7, 0xFFFFFFFF, True, True, 0xFFFFFFFF, 0xCBF43926),
    ("crc32jamcrc", "CRC-32/JAMCRC", 0x04C11DB7, 0xFFFFFFFF, True, True, 0x00000000, 0x340BC6D9),
    ("crc32c", "CRC-32/ISCSI", 0x1EDC6F41, 0xFFFFFFFF, True, True, 0xFFFFFFFF, 0xE3069283),
    ("crc32d", "CRC-32/BASE91-D", 0xA833982B, 0xFFFFFFFF, True, True, 0xFFFFFFFF, 0x87315576),
    ("crc32q", "CRC-32/AIXM", 0x814141AB, 0x00000000, False, False, 0x00000000, 0x3010BF7F),
]


def crc32_variant(idx, data):
    _, _, poly, init, refin, refout, xorout, _ = CATALOGUE[idx]
    return crc_bitwise(data, 32, poly, init, refin, refout, xorout)


def selftest():
    fails = []
    msg = b"123456789"
    for i, (name, cat, poly, init, refin, refout, xorout, check) in enumerate(CATALOGUE):
        got = crc32_variant(i, msg)
        if got != check:
            fails.append("%s (%s): check 0x%08x != catalogue 0x%08x" % (name, cat, got, check))
    for m in (b"", b"a", msg, bytes(range(256)) * 3):
        if crc32_variant(3, m) != (zlib.crc32(m) & 0xFFFFFFFF):
            fails.append("CRC-32/ISO-HDLC differs from zlib.crc32 on %d bytes" % len(m))
    # 16-bit sanity of the generic model: CRC-16/XMODEM and CRC-16/ARC check values
    if crc_bitwise(msg, 16, 0x1021, 0, False, False, 0) != 0x31C3:
        fails.append("CRC-16/XMODEM check")
    if crc_bitwise(msg, 16, 0x8005, 0, True, True, 0) != 0xBB3D:
        fails.append("CRC-16/ARC check")
    return fails
