"""Shared pieces of the C12 / C14 checks: opcodes of drivers/utils_drv.c, case
builders, observation parsers, small reference models (five-entity XML escape,
tolerant Base64 text generator, integer type table), a runner that keeps the
driver's stderr (to count non-fatal UBSan reports) and the crash-key reducer.
Stdlib only."""
import os
import re
import struct
import subprocess

from verif import common
from verif.common import W, R, Crash

OP_B64_ENC, OP_B64_DEC, OP_HEX, OP_NUM2STR, OP_STR2NUM, OP_UTF8, OP_ASN1, OP_MEM, OP_REPLACE = range(1, 10)
OP_XMLCODEC, OP_XMLGET, OP_INI, OP_BT, OP_ARGS, OP_LINE, OP_CRC, OP_URLDEC, OP_MISC, OP_NUMRT = range(10, 20)

SENT = 0x5E5E5E5E5E5E5E5E
MARK = 0x4F

EINVAL, ENOBUFS, ENOSPC, EOVERFLOW, ESPIPE, EBADMSG, EDOM, ENOENT, ENOMEM = 22, 105, 28, 75, 29, 74, 33, 2, 12

REPO_SOURCES = ["src/utils/buf_str.c", "src/utils/xml.c", "src/utils/ini.c",
                "src/utils/bt_encode.c", "src/proto/http.c"]
# UBSan kinds that cannot leave an object are made non-fatal so that the run goes on to the
# memory access (if any) that ASan / the canary / the CPU alarm then judge; they are counted
# from stderr as observations.
RECOVER = ["-fsanitize-recover=signed-integer-overflow,shift,pointer-overflow,alignment,nonnull-attribute"]

# (name, bits, signed); driver fn index = 2*i (+1 for the uint8_t* "ustr" form)
INT_TYPES = [("u8", 8, False), ("u16", 16, False), ("u32", 32, False), ("u64", 64, False),
             ("usize", 64, False), ("s8", 8, True), ("s16", 16, True), ("s32", 32, True),
             ("s64", 64, True), ("ssize", 64, True)]


def num2str_name(fn):
    t = INT_TYPES[fn // 2][0]
    return "%s2%s" % (t, "ustr" if fn & 1 else "str")


def str2num_name(base, fn):
    t = INT_TYPES[fn // 2][0]
    return "%s%s2%s" % ("ustr" if fn & 1 else "str", "h" if base else "", t)


def type_range(i):
    _, bits, signed = INT_TYPES[i]
    if signed:
        return -(1 << (bits - 1)), (1 << (bits - 1)) - 1
    return 0, (1 << bits) - 1


def interesting_values(i):
    """0, +-1, min, max, every 10^k and 10^k +-1 that fits (both signs for signed types)."""
    lo, hi = type_range(i)
    vals = {0, 1, lo, hi, lo + 1, hi - 1}
    if lo < 0:
        vals.add(-1)
    k = 1
    while 10 ** k - 1 <= hi:
        for d in (-1, 0, 1):
            v = 10 ** k + d
            if v <= hi:
                vals.add(v)
            if lo < 0 and -v >= lo:
                vals.add(-v)
        k += 1
    return sorted(vals)


def value_class(v, i):
    lo, hi = type_range(i)
    a = abs(v)
    if lo < 0 and v == lo:
        return "type-min"
    if a >= 10 and str(a).strip("0") == "1":
        return "pow10"
    if v == hi:
        return "type-max"
    if v == 0:
        return "zero"
    if a >= 10 and (str(a + 1).strip("0") == "1" or str(a - 1).strip("0") == "1"):
        return "pow10-adjacent"
    return "neg" if v < 0 else "pos"


def to_u64(v):
    return v & 0xFFFFFFFFFFFFFFFF


def from_u64(u, i):
    _, bits, signed = INT_TYPES[i]
    if signed:
        u &= (1 << 64) - 1
        if u >> 63:
            u -= 1 << 64
    return u


XML_ENT = {ord("'"): b"&apos;", ord('"'): b"&quot;", ord("&"): b"&amp;", ord("<"): b"&lt;", ord(">"): b"&gt;"}


def xml_escape(s):
    out = bytearray()
    for ch in s:
        e = XML_ENT.get(ch)
        if e:
            out += e
        else:
            out.append(ch)
    return bytes(out)


B64_ALPHA = b"ABCDEFGHIJKLMNOPQRSTUVWXYZabcdefghijklmnopqrstuvwxyz0123456789+/"
NON_ALPHA = bytes(b for b in range(256) if b not in B64_ALPHA)
NON_ALPHA_NOPAD = bytes(b for b in NON_ALPHA if b != 0x3D)


def interleave(rng, text, junk, density_num=1, density_den=4):
    out = bytearray()
    for ch in text:
        while rng.chance(density_num, density_den):
            out.append(rng.choice(junk))
        out.append(ch)
    while rng.chance(density_num, density_den):
        out.append(rng.choice(junk))
    return bytes(out)


# ---------------------------------------------------------------------------
# case builders
# ---------------------------------------------------------------------------
def hdr(op, sub, framed):
    return W().u8(op).u8(sub).u8(1 if framed else 0)


def c_sized(op, sub, framed, aux, want, src, cap):
    return hdr(op, sub, framed).u8(aux).u8(1 if want else 0).blob(src).u32(cap).done()


def c_num2str(fn, framed, v, cap):
    return hdr(OP_NUM2STR, fn, framed).u64(to_u64(v)).u32(cap).done()


def c_numrt(fn, v):
    return hdr(OP_NUMRT, fn, 1).u64(to_u64(v)).done()


def c_str2num(base, fn, text):
    return hdr(OP_STR2NUM, fn, 0).u8(base).blob(text).done()


def c_utf8(framed, src, cap):
    return hdr(OP_UTF8, 0, framed).blob(src).u32(cap).done()


def c_asn1(use_off, start, buf):
    return hdr(OP_ASN1, 1 if use_off else 0, 0).u64(start).blob(buf).done()


def c_mem(sub, framed, pre, off, ch, buf, what=b"", chunks=()):
    ck = b"".join(struct.pack("<I", c) for c in chunks)
    return hdr(OP_MEM, sub, framed).u32(pre).u64(off).u8(ch).blob(buf).blob(what).blob(ck).done()


def c_replace(framed, src, pairs, cap, use_tmp):
    w = hdr(OP_REPLACE, 0, framed).u8(len(pairs)).u8(1 if use_tmp else 0).blob(src)
    for a, b in pairs:
        w.blob(a).blob(b)
    return w.u32(cap).done()


def c_xmlget(sub, xml, tags, np_mode=1, np_off=0, iters=8):
    w = hdr(OP_XMLGET, sub, 0).u8(len(tags)).u8(np_mode).u32(np_off).u8(iters).blob(xml)
    for t in tags:
        w.blob(t)
    return w.done()


def c_ini(framed, text, sets, caps):
    w = hdr(OP_INI, 0, framed).blob(text).u8(len(sets))
    for s, n, v in sets:
        w.blob(s).blob(n).blob(v)
    w.u8(len(caps))
    for isrel, v in caps:
        w.u8(1 if isrel else 0).i32(v)
    return w.done()


def c_bt(buf, key=b"", no_off=False):
    return hdr(OP_BT, 1 if no_off else 0, 0).blob(buf).blob(key).done()


def c_args(framed, buf, max_args):
    return hdr(OP_ARGS, 0, framed).u32(max_args).blob(buf).done()


def c_line(sub, buf, off=None, size=None):
    w = hdr(OP_LINE, sub, 0).blob(buf)
    if sub == 5:
        w.u32(off).u32(size)
    return w.done()


def c_crc(var, align, data, chunks=()):
    ck = b"".join(struct.pack("<I", c) for c in chunks)
    return hdr(OP_CRC, var, 0).u8(align).blob(data).blob(ck).done()


def c_urldec(framed, url, cap):
    return hdr(OP_URLDEC, 0, framed).blob(url).u32(cap).done()


def c_misc(sub, framed, v, cap, a=b"", b=b""):
    return hdr(OP_MISC, sub, framed).u64(v).u32(cap).blob(a).blob(b).done()


# ---------------------------------------------------------------------------
# observation parsers
# ---------------------------------------------------------------------------
class BadObs(Exception):
    pass


def rd(obs):
    if not isinstance(obs, (bytes, bytearray)) or len(obs) < 1 or obs[0] != MARK:
        raise BadObs("driver rejected the case (harness bug): %r" % (bytes(obs[:8]) if obs else obs,))
    r = R(obs)
    r.u8()
    return r


def p_sized(obs):
    r = rd(obs)
    d = {"rc": r.i32(), "ret": r.u64(), "canary": r.u8(), "buf": r.blob(), "second": None}
    if d["ret"] == SENT:
        d["ret"] = None
    if r.u8():
        s = {"rc": r.i32(), "ret": r.u64(), "canary": r.u8(), "buf": r.blob()}
        if s["ret"] == SENT:
            s["ret"] = None
        d["second"] = s
    d["_r"] = r
    return d


# ---------------------------------------------------------------------------
# runner that keeps stderr
# ---------------------------------------------------------------------------
_ub_re = re.compile(r"([^\s:]+):\d+:\d+: runtime error: ([^\n]*)")


def _norm_ub(m):
    f = os.path.basename(m.group(1))
    d = re.sub(r"'[^']*'( \(aka '[^']*'\))?", "T", m.group(2))
    d = re.sub(r"0x[0-9a-f]+", "ADDR", d)
    d = re.sub(r"-?\d+", "N", d)
    return "ubsan:%s:%s" % (f, d[:70].strip().replace(" ", "_"))


# Symbolising inside the dying process costs ~0.15 s per report (llvm-symbolizer start-up); reports
# are therefore printed as module+offset and symbolised here through one long-lived
# llvm-symbolizer per worker with a cache (most crashes share a handful of PCs).
UB_ENV = {"UBSAN_OPTIONS": "print_stacktrace=0:halt_on_error=0:exitcode=87:symbolize=0",
          "ASAN_OPTIONS": common.SAN_ENV["ASAN_OPTIONS"].replace("symbolize=1", "symbolize=0")}
SYMBOLIZER = common.SAN_ENV.get("ASAN_SYMBOLIZER_PATH", "llvm-symbolizer")
_raw_frame_re = re.compile(r"^(\s*)#(\d+) (0x[0-9a-f]+)\s+\((\S+?)\+(0x[0-9a-f]+)\)[^\n]*$", re.M)


class _Symbolizer:
    def __init__(self):
        self.p = None
        self.cache = {}

    def _start(self):
        self.p = subprocess.Popen([SYMBOLIZER, "--inlines", "--functions=linkage", "--demangle"],
                                  stdin=subprocess.PIPE, stdout=subprocess.PIPE, stderr=subprocess.DEVNULL)

    def lookup(self, module, off):
        k = (module, off)
        r = self.cache.get(k)
        if r is not None:
            return r
        r = []
        try:
            if self.p is None or self.p.poll() is not None:
                self._start()
            self.p.stdin.write(('"%s" %s\n' % (module, off)).encode())
            self.p.stdin.flush()
            lines = []
            while True:
                ln = self.p.stdout.readline()
                if not ln or ln.strip() == b"":
                    break
                lines.append(ln.decode("utf-8", "replace").rstrip("\n"))
            for i in range(0, len(lines) - 1, 2):
                r.append((lines[i].strip(), lines[i + 1].strip()))
        except OSError:
            r = []
        self.cache[k] = r
        return r

    def rewrite(self, text, max_frames=16):
        def sub(m):
            ind, idx, addr, module, off = m.groups()
            if int(idx) >= max_frames:
                return m.group(0)
            fr = self.lookup(module, off)
            if not fr:
                return m.group(0)
            return "\n".join("%s#%s %s in %s %s" % (ind, idx, addr, fn.split("(")[0] or "??", loc) for fn, loc in fr)
        return _raw_frame_re.sub(sub, text)


_symbolizer = _Symbolizer()
OP_SELFTEST = 200


def run_cases_obs(exe, cases, args=(), env_extra=None, wall_timeout=900, batch=400):
    """Like common.run_cases (one result per case: observation bytes or Crash; the driver is
    restarted after a crash), but (a) feeds the driver in batches so that a crash re-sends at
    most one batch, (b) makes the recoverable UBSan kinds non-fatal at run time and returns
    {normalised non-fatal UBSan report: number of driver processes that printed it}."""
    results = []
    ub = {}
    ee = dict(UB_ENV)
    if env_extra:
        ee.update(env_extra)
    env = common.run_env(ee)
    pos = 0
    total = len(cases)
    while pos < total:
        end = min(total, pos + batch)
        start = pos
        while start < end:
            data = b"".join(common.pack_case(c) for c in cases[start:end])
            try:
                p = subprocess.run([exe] + list(args), input=data, stdout=subprocess.PIPE,
                                   stderr=subprocess.PIPE, env=env, timeout=wall_timeout)
                rc, out, err = p.returncode, p.stdout, p.stderr
            except subprocess.TimeoutExpired as e:
                rc, out, err = 97, e.stdout or b"", (e.stderr or b"") + b"\nVERIF-HANG wall watchdog"
            obs = common._parse_obs(out)
            results.extend(obs)
            text = err.decode("utf-8", "replace")
            crashed = len(obs) < (end - start)
            body, tail = text, ""
            if crashed:
                cut = max(text.rfind("==ERROR: AddressSanitizer"), text.rfind("VERIF-HANG"))
                if cut >= 0:
                    ls = text.rfind("\n", 0, cut)
                    cut = ls + 1 if ls >= 0 else 0
                else:
                    idx = text.rfind("runtime error:")
                    if idx >= 0:
                        cut = text.rfind("\n", 0, idx) + 1
                if cut >= 0:
                    body, tail = text[:cut], text[cut:]
                else:
                    body, tail = "", text
            for k in set(_norm_ub(m) for m in _ub_re.finditer(body)):
                ub[k] = ub.get(k, 0) + 1
            if not crashed:
                break
            results.append(Crash(common.classify_crash(rc, tail), _symbolizer.rewrite(tail[:8000]), rc))
            start += len(obs) + 1
        pos = end
    return results[:total], ub


_frame_re = re.compile(r"#(\d+) 0x[0-9a-f]+ in (\S+)(?: (\S+))?")
_src_cache = {}


def _site_slug(loc):
    """Slug of the source text at file:line of the faulting in-repo frame: names the statement
    without using its line number (stable when unrelated lines move)."""
    m = re.match(r"(.+?):(\d+)(?::\d+)?$", loc)
    if not m:
        return ""
    path, line = m.group(1), int(m.group(2))
    lines = _src_cache.get(path)
    if lines is None:
        try:
            with open(path, "r", errors="replace") as fh:
                lines = fh.read().splitlines()
        except OSError:
            lines = []
        _src_cache[path] = lines
    if not (1 <= line <= len(lines)):
        return ""
    t = re.sub(r"\s+", "", lines[line - 1])
    t = re.sub(r"[^A-Za-z0-9_]+", "_", t).strip("_")
    return t[:36]


_GENERIC_ERR = {"heap-buffer-overflow": "buffer-overflow", "stack-buffer-overflow": "buffer-overflow",
                "stack-buffer-underflow": "buffer-overflow", "global-buffer-overflow": "buffer-overflow",
                "dynamic-stack-buffer-overflow": "buffer-overflow"}


def crash_key(crash, entry, detail="", site=True):
    """<monitor>:<innermost in-repo function of the report, else the entry point>:<kind>[:READ|WRITE]
    [:<libc routine>][:<slug of the faulting source statement>][:detail]
    heap/stack/global overflow kinds are merged (where the caller keeps its buffer is not a
    property of the defect).  No line numbers, no addresses."""
    text = crash.report or ""
    kind = crash.kind
    if kind == "hang":
        return ":".join(x for x in ("hang", entry, detail) if x)
    parts = [kind, entry]
    if kind == "asan":
        m = re.search(r"ERROR: AddressSanitizer: (\S+)", text)
        err = m.group(1) if m else "unknown"
        frame = ""
        libc = ""
        slug = ""
        first = True
        for fm in _frame_re.finditer(text):
            idx, fn, loc = fm.group(1), fm.group(2), fm.group(3) or ""
            fn = re.sub(r"\.(constprop|isra|part|cold|lto_priv)(\.\d+)?", "", fn)
            if loc.startswith(common.REPO + "/"):
                frame = fn
                slug = _site_slug(loc)
                break
            if first and idx == "0":
                libc = re.sub(r"^(__interceptor_|__asan_|__sanitizer_|__GI_|__)", "", fn)
                libc = re.sub(r"(_avx\w*|_sse\w*|_erms|_evex\w*)$", "", libc)
                libc = {"MemcmpInterceptorCommon": "memcmp"}.get(libc, libc)
            first = False
            if "/drivers/" in loc:
                break
        if err == "stack-overflow":
            return ":".join([kind, entry, err] + ([detail] if detail else []))
        if frame and site:
            parts[1] = frame
        parts.append(_GENERIC_ERR.get(err, err))
        m = re.search(r"\b(READ|WRITE) of size", text)
        if m:
            parts.append(m.group(1))
        if libc and libc not in ("main", "do_case"):
            parts.append(libc)
        if slug and site:
            parts.append(slug)
    elif kind == "ubsan":
        for fm in _frame_re.finditer(text):
            if (fm.group(3) or "").startswith(common.REPO + "/"):
                parts[1] = fm.group(2)
                break
        m = re.search(r"([^\s:]+):\d+:\d+: runtime error: ([^\n]*)", text)
        if m:
            parts.append(_norm_ub(m).split(":", 1)[1])
    else:
        parts.append("rc=%s" % crash.returncode)
    if detail:
        parts.append(detail)
    return ":".join(parts)


def ubsan_is_bounds(crash):
    t = crash.report or ""
    return ("out of bounds" in t) or ("object-size" in t) or ("insufficient space" in t)
