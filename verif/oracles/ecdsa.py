"""Reference ECDSA (FIPS 186-4 / SEC 1 v2) and GOST R 34.10-2012 (RFC 7091) on Python
ints, SEC 1 point encoding, public-key validity, key derivation and (cofactor)
Diffie-Hellman.  Curve constants and the affine group law come from oracles/ec.py;
a Jacobian ladder is added here only for speed and is cross-checked against the
textbook affine `ec.mul` in selftest().

Byte order: the library has *_be and *_le entry points that interpret every byte
string (hash, keys, nonce, r, s, coordinates) big- resp. little-endian.  `order` is
'big' or 'little'.  The little-endian entry point is modelled as the mirror image of
the big-endian one: a hash string denotes the integer int.from_bytes(h, order) of
8*len(h) bits, and "leftmost bits" of the standard are its most significant bits.

Conventions: points are (x, y) tuples, None is the point at infinity.
"""
import hashlib

from verif.oracles import ec

ALGO_ECDSA = ec.ALGO_ECDSA
ALGO_GOST = ec.ALGO_GOST


class Invalid(Exception):
    """An input the standard rejects (bad encoding, invalid key, failed signing)."""


def nbytes(c):
    """EC_CURVE_CALC_BYTES: size of every fixed-width number of the byte API."""
    return (c.bits + 7) // 8


# ---------------------------------------------------------------------------
# fast scalar multiplication (Jacobian, one inversion) + cached fixed-base table
# ---------------------------------------------------------------------------
def _jdbl(c, P):
    X, Y, Z = P
    if Z == 0 or Y == 0:
        return (1, 1, 0)
    p = c.p
    YY = Y * Y % p
    S = 4 * X * YY % p
    ZZ = Z * Z % p
    M = (3 * X * X + c.a * ZZ * ZZ) % p
    X3 = (M * M - 2 * S) % p
    Y3 = (M * (S - X3) - 8 * YY * YY) % p
    Z3 = 2 * Y * Z % p
    return (X3, Y3, Z3)


def _jadd_aff(c, P, Q):
    """Jacobian P + affine Q (Q != infinity)."""
    X1, Y1, Z1 = P
    if Z1 == 0:
        return (Q[0], Q[1], 1)
    p = c.p
    Z1Z1 = Z1 * Z1 % p
    U2 = Q[0] * Z1Z1 % p
    S2 = Q[1] * Z1 * Z1Z1 % p
    H = (U2 - X1) % p
    R = (S2 - Y1) % p
    if H == 0:
        if R == 0:
            return _jdbl(c, P)
        return (1, 1, 0)
    HH = H * H % p
    HHH = H * HH % p
    V = X1 * HH % p
    X3 = (R * R - HHH - 2 * V) % p
    Y3 = (R * (V - X3) - Y1 * HHH) % p
    Z3 = Z1 * H % p
    return (X3, Y3, Z3)


def _jaff(c, P):
    X, Y, Z = P
    if Z == 0:
        return None
    p = c.p
    zi = pow(Z, -1, p)
    zi2 = zi * zi % p
    return (X * zi2 % p, Y * zi2 * zi % p)


def mul(c, k, P):
    """k*P for any integer k >= 0 and any point P satisfying the curve equation."""
    if P is None or k == 0:
        return None
    if k < 0:
        return mul(c, -k, ec.neg(c, P))
    R = (1, 1, 0)
    for i in range(k.bit_length() - 1, -1, -1):
        R = _jdbl(c, R)
        if (k >> i) & 1:
            R = _jadd_aff(c, R, P)
    return _jaff(c, R)


_gtab = {}
_kg_cache = {}


def _g_table(c):
    t = _gtab.get(c.name)
    if t is None:
        t = []
        P = c.G
        for _ in range(max(c.n.bit_length(), c.p.bit_length()) + 8):
            t.append(P)
            P = ec.dbl(c, P)
        _gtab[c.name] = t
    return t


def mul_g(c, k):
    """k*G using a cached table of 2^i*G (k >= 0)."""
    key = (c.name, k)
    r = _kg_cache.get(key)
    if r is not None or key in _kg_cache:
        return r
    t = _g_table(c)
    if k.bit_length() > len(t):
        r = mul(c, k, c.G)
    else:
        R = (1, 1, 0)
        i = 0
        kk = k
        while kk:
            if kk & 1 and t[i] is not None:
                R = _jadd_aff(c, R, t[i])
            kk >>= 1
            i += 1
        r = _jaff(c, R)
    if len(_kg_cache) < 20000:
        _kg_cache[key] = r
    return r


def twin(c, u1, u2, Q):
    """u1*G + u2*Q"""
    return ec.add(c, mul_g(c, u1), mul(c, u2, Q))


# ---------------------------------------------------------------------------
# public key validity (SEC 1 v2 3.2.2.1, with the neutral element reported apart)
# ---------------------------------------------------------------------------
_valid_cache = {}


def valid_point(c, P):
    """C09 predicate: O, or on the curve (coordinates in [0,p-1]) and n*P = O."""
    if P is None:
        return True
    if not ec.on_curve(c, P):
        return False
    key = (c.name, P)
    v = _valid_cache.get(key)
    if v is None:
        v = mul(c, c.n, P) is None
        if len(_valid_cache) < 50000:
            _valid_cache[key] = v
    return v


def valid_public_key(c, Q):
    """A signature/DH public key: as above and not the neutral element."""
    return Q is not None and valid_point(c, Q)


# ---------------------------------------------------------------------------
# hash -> integer
# ---------------------------------------------------------------------------
def bits2int(h, n, order="big"):
    """SEC 1 4.1.3 step 5 / FIPS 186-4 6.4: leftmost min(8*len(h), bitlen n) bits."""
    z = int.from_bytes(h, order)
    hl = 8 * len(h)
    nl = n.bit_length()
    if hl > nl:
        z >>= hl - nl
    return z


def hash_to_e(c, h, order="big"):
    """The integer the standard's equations use for hash string h on curve c."""
    if c.algo == ALGO_GOST:
        e = int.from_bytes(h, order) % c.n      # alpha mod q
        return e if e else 1
    return bits2int(h, c.n, order) % c.n


def reduce_rnd(c, v):
    """How the library documents/implements turning random v into [1, n-1]
    (bn_mod_reduce: unchanged below n, else (v mod (n-1)) + 1).  v == 0 stays 0 = invalid."""
    if v < c.n:
        return v
    return v % (c.n - 1) + 1


# ---------------------------------------------------------------------------
# signatures on integers
# ---------------------------------------------------------------------------
def sign_e(c, e, d, k):
    """Signature (r, s) for reduced hash integer e, private key d, nonce k (both in [1,n-1])."""
    n = c.n
    if not (1 <= d < n) or not (1 <= k < n):
        raise Invalid("key or nonce out of range")
    R = mul_g(c, k)
    if R is None:
        raise Invalid("kG = O")
    r = R[0] % n
    if r == 0:
        raise Invalid("r = 0")
    if c.algo == ALGO_GOST:
        s = (r * d + k * e) % n
    else:
        s = pow(k, -1, n) * (e + r * d) % n
    if s == 0:
        raise Invalid("s = 0")
    return r, s


def verify_e(c, e, r, s, Q):
    """True iff (r, s) is a valid signature of reduced hash integer e under public key Q."""
    n = c.n
    if not valid_public_key(c, Q):
        return False
    if not (1 <= r < n and 1 <= s < n):
        return False
    if c.algo == ALGO_GOST:
        v = pow(e, -1, n)
        z1 = s * v % n
        z2 = (-r * v) % n
        C = twin(c, z1, z2, Q)
    else:
        w = pow(s, -1, n)
        C = twin(c, e * w % n, r * w % n, Q)
    if C is None:
        return False
    return C[0] % n == r


def verify_e_priv(c, e, r, s, d):
    """Verdict of a verifier that knows the private key: Q = d*G."""
    if not (1 <= d < c.n):
        return False
    return verify_e(c, e, r, s, mul_g(c, d))


def sign(c, h, d, k, order="big"):
    return sign_e(c, hash_to_e(c, h, order), d, k)


def verify(c, h, r, s, Q, order="big"):
    return verify_e(c, hash_to_e(c, h, order), r, s, Q)


# ---------------------------------------------------------------------------
# SEC 1 2.3.3 / 2.3.4 point <-> octet string (+ the library's extra layouts)
# ---------------------------------------------------------------------------
def _i2b(v, n, order):
    return v.to_bytes(n, order)


def encode(c, P, form, order="big"):
    """form: 'compressed' (02/03|x), 'packed' (04|x|y), 'concat' (x|y), 'separate' -> (x, y).
    The neutral element is the single byte 00 in every form."""
    nb = nbytes(c)
    if P is None:
        return (b"\x00", b"") if form == "separate" else b"\x00"
    x, y = P
    xb, yb = _i2b(x, nb, order), _i2b(y, nb, order)
    if form == "compressed":
        return bytes([2 + (y & 1)]) + xb
    if form == "packed":
        return b"\x04" + xb + yb
    if form == "concat":
        return xb + yb
    if form == "separate":
        return xb, yb
    raise ValueError(form)


def decode(c, data, ydata=None, order="big", validate=True):
    """Inverse of encode for every layout, selected by total length as the library does.
    Raises Invalid for anything that is not a standard encoding of O or (with validate)
    of a point on the curve that n annihilates.  Hybrid prefixes 06/07 are accepted with
    the parity they announce (SEC 1 2.3.4 step 4)."""
    nb = nbytes(c)
    ln = len(data)
    if ln == 1:
        if data[0] != 0:
            raise Invalid("bad single byte")
        return None
    if ln == nb:
        if ydata is None or len(ydata) != nb:
            raise Invalid("y missing")
        P = (int.from_bytes(data, order), int.from_bytes(ydata, order))
    elif ln == nb + 1:
        if data[0] not in (2, 3):
            raise Invalid("bad prefix")
        x = int.from_bytes(data[1:], order)
        if x >= c.p:
            raise Invalid("x >= p")
        ys = ec.lift_x(c, x)
        if ys is None:
            raise Invalid("no square root")
        want = data[0] & 1
        y = ys[0] if (ys[0] & 1) == want else ys[1]
        if (y & 1) != want:
            raise Invalid("requested parity does not exist (y = 0)")
        P = (x, y)
    elif ln == 2 * nb + 1:
        if data[0] not in (4, 6, 7):
            raise Invalid("bad prefix")
        P = (int.from_bytes(data[1:1 + nb], order), int.from_bytes(data[1 + nb:], order))
        if data[0] in (6, 7) and validate and (P[1] & 1) != (data[0] & 1):
            raise Invalid("hybrid parity mismatch")
    elif ln == 2 * nb:
        P = (int.from_bytes(data[:nb], order), int.from_bytes(data[nb:], order))
    else:
        raise Invalid("bad length")
    if validate and not valid_point(c, P):
        raise Invalid("not a valid point")
    return P


# ---------------------------------------------------------------------------
# key derivation, Diffie-Hellman
# ---------------------------------------------------------------------------
def keygen(c, rnd_int):
    """(d, Q) the library documents for random integer rnd: d = reduce(rnd), Q = d*G."""
    d = reduce_rnd(c, rnd_int)
    if d == 0:
        raise Invalid("d = 0")
    return d, mul_g(c, d)


def pub_from_priv(c, d):
    if not (1 <= d < c.n):
        raise Invalid("d out of range")
    return mul_g(c, d)


def dh(c, d, Q, use_cofactor):
    """x(h^cof * d * Q) as the header documents ("P = h * d * Q"); Invalid if the product is O."""
    if not (0 <= d < c.n):
        raise Invalid("d out of range")
    k = d * c.h if use_cofactor else d
    S = mul(c, k, Q) if Q is not None else None
    if S is None:
        raise Invalid("shared point is O")
    return S[0]


# ---------------------------------------------------------------------------
# self test against published vectors
# ---------------------------------------------------------------------------
def selftest():
    fails = []
    cs = ec.curves()

    def H(x):
        return int(x.replace(" ", ""), 16)

    # Jacobian ladder and fixed-base table against the textbook affine arithmetic
    for name, ks in (("secp112r2", (1, 2, 3, 0xDEADBEEF, 2 ** 109 + 12345)),
                     ("secp256r1", (1, 2, 2 ** 255 + 19, 112233445566778899)),
                     ("secp521r1", (5, 2 ** 520 - 3)),
                     ("id-tc26-gost-3410-2012-512-paramSetTest", (7, 2 ** 500 + 1))):
        c = cs[name]
        for k in ks:
            want = ec.mul(c, k, c.G)
            if mul(c, k, c.G) != want or mul_g(c, k) != want:
                fails.append("%s: %d*G differs from affine reference" % (name, k))
            P = ec.mul(c, 3, c.G)
            if mul(c, k, P) != ec.mul(c, 3 * k, c.G):
                fails.append("%s: k*(3G) != (3k)G" % name)
        if mul(c, c.n, c.G) is not None or mul_g(c, c.n) is not None or mul_g(c, 0) is not None:
            fails.append("%s: n*G != O" % name)
        if mul_g(c, c.n + 5) != ec.mul(c, 5, c.G):
            fails.append("%s: (n+5)G" % name)

    # RFC 6979 A.2.5: P-256, SHA-256, message "sample"
    c = cs["secp256r1"]
    x = H("C9AFA9D845BA75166B5C215767B1D6934E50C3DB36E89B127B8A622B120F6721")
    U = (H("60FED4BA255A9D31C961EB74C6356D68C049B8923B61FA6CE669622E60F29FB6"),
         H("7903FE1008B8BC99A41AE9E95628BC64F2F1B20C2D7E9F5177A3C294D4462299"))
    k = H("A6E3C57DD01ABE90086538398355DD4C3B17AA873382B0F24D6129493D8AAD60")
    r = H("EFD48B2AACB6A8FD1140DD9CD45E81D69D2C877B56AAF991C34D0EA84EAF3716")
    s = H("F7CB1C942D657C41D436C7A1B6E29F65F3E900DBB9AFF4064DC4AB2F843ACDA8")
    h = hashlib.sha256(b"sample").digest()
    if pub_from_priv(c, x) != U:
        fails.append("RFC6979 P-256 public key")
    if sign(c, h, x, k) != (r, s):
        fails.append("RFC6979 P-256 SHA-256 signature")
    if not verify(c, h, r, s, U):
        fails.append("RFC6979 P-256 verify")
    if verify(c, h, r, c.n - s, U) is not True:
        fails.append("ECDSA (r, n-s) must verify")
    if verify(c, h, r, s, ec.neg(c, U)) or verify(c, h[:-1] + bytes([h[-1] ^ 1]), r, s, U) \
            or verify(c, h, s, r, U) or verify(c, h, 0, s, U) or verify(c, h, r, c.n, U) \
            or verify(c, h, r, s, None) or verify(c, h, r, s, (U[0], U[1] ^ 1)):
        fails.append("verify accepts an altered tuple")
    # hash longer than n: RFC 6979 A.2.3 P-192 with SHA-256 (leftmost 192 bits are used)
    c = cs["secp192r1"]
    x = H("6FAB034934E4C0FC9AE67F5B5659A9D7D1FEFD187EE09FD4")
    k = H("32B1B6D7D42A05CB449065727A84804FB1A3E34D8F261496")
    r = H("4B0B8CE98A92866A2820E20AA6B75B56382E0F9BFD5ECB55")
    s = H("CCDB006926EA9565CBADC840829D8C384E06DE1F1E381B85")
    h = hashlib.sha256(b"sample").digest()
    if sign(c, h, x, k) != (r, s):
        fails.append("RFC6979 P-192 SHA-256 signature (hash truncation)")
    if not verify(c, h + b"\xff", r, s, pub_from_priv(c, x)):
        fails.append("bits beyond the truncation length must not matter")
    # X9.62-1998 J.3.1: P-192, SHA-1("abc")
    x = H("1A8D598FC15BF0FD89030B5CB1111AEB92AE8BAF5EA475FB")
    k = H("FA6DE29746BBEB7F8BB1E761F85F7DFB2983169D82FA2F4E")
    if sign(c, hashlib.sha1(b"abc").digest(), x, k) != (
            H("885052380FF147B734C330C43D39B2C4A89F29B0F749FEAD"),
            H("E9ECC78106DEF82BF1070CF1D4D804C3CB390046951DF686")):
        fails.append("X9.62 J.3.1 signature")
    # bits2int with a bit length that is not a multiple of 8 (P-521, 66-byte string)
    c = cs["secp521r1"]
    if bits2int(b"\xff" * 66, c.n) != (1 << 521) - 1 or bits2int(b"\x01" + b"\x00" * 65, c.n) != 1 << 513:
        fails.append("bits2int P-521")
    if bits2int(b"\x80\x00", 0x1ff, "big") != 0x100 or bits2int(b"\x00\x80", 0x1ff, "little") != 0x100:
        fails.append("bits2int order")

    # RFC 7091 / GOST R 34.10-2012 appendix A.1 (256 bit)
    c = cs["id-gostR3410-2001-Test_ParamSet"]
    d = H("7A929ADE789BB9BE10ED359DD39A72C11B60961F49397EEE1D19CE9891EC3B28")
    e = H("2DFBC1B372D89A1188C09C52E0EEC61FCE52032AB1022E8E67ECE6672B043EE5")
    k = H("77105C9B20BCD3122823C8CF6FCC7B956DE33814E95B7FE64FED924594DCEAB3")
    Q = (H("7F2B49E270DB6D90D8595BEC458B50C58585BA1D4E9B788F6689DBD8E56FD80B"),
         H("26F1B489D6701DD185C8413A977B3CBBAF64D1C593D26627DFFB101A87FF77DA"))
    rs = (H("41AA28D2F1AB148280CD9ED56FEDA41974053554A42767B83AD043FD39DC0493"),
          H("01456C64BA4642A1653C235A98A60249BCD6D3F746B631DF928014F6C5BF9C40"))
    if pub_from_priv(c, d) != Q:
        fails.append("RFC7091 256 public key")
    if sign_e(c, e, d, k) != rs:
        fails.append("RFC7091 256 signature")
    if not verify_e(c, e, rs[0], rs[1], Q) or verify_e(c, e, rs[0], c.n - rs[1], Q) or verify_e(c, e ^ 1, rs[0], rs[1], Q):
        fails.append("RFC7091 256 verify")
    eb = e.to_bytes(32, "big")
    if hash_to_e(c, eb, "big") != e or hash_to_e(c, eb[::-1], "little") != e or hash_to_e(c, b"\x00" * 32) != 1:
        fails.append("GOST hash_to_e")
    # RFC 7091 / GOST R 34.10-2012 appendix A.2 (512 bit)
    c = cs["id-tc26-gost-3410-2012-512-paramSetTest"]
    d = H("0BA6048AADAE241BA40936D47756D7C93091A0E8514669700EE7508E508B102072E8123B2200A0563322DAD2827E2714A2636B7BFD18AADFC62967821FA18DD4")
    e = H("3754F3CFACC9E0615C4F4A7C4D8DAB531B09B6F9C170C533A71D147035B0C5917184EE536593F4414339976C647C5D5A407ADEDB1D560C4FC6777D2972075B8C")
    k = H("0359E7F4B1410FEACC570456C6801496946312120B39D019D455986E364F365886748ED7A44B3E794434006011842286212273A6D14CF70EA3AF71BB1AE679F1")
    Q = (H("115DC5BC96760C7B48598D8AB9E740D4C4A85A65BE33C1815B5C320C854621DD5A515856D13314AF69BC5B924C8B4DDFF75C45415C1D9DD9DD33612CD530EFE1"),
         H("37C7C90CD40B0F5621DC3AC1B751CFA0E2634FA0503B3D52639F5D7FB72AFD61EA199441D943FFE7F0C70A2759A3CDB84C114E1F9339FDF27F35ECA93677BEEC"))
    rs = (H("2F86FA60A081091A23DD795E1E3C689EE512A3C82EE0DCC2643C78EEA8FCACD35492558486B20F1C9EC197C90699850260C93BCBCD9C5C3317E19344E173AE36"),
          H("1081B394696FFE8E6585E7A9362D26B6325F56778AADBC081C0BFBE933D52FF5823CE288E8C4F362526080DF7F70CE406A6EEB1F56919CB92A9853BDE73E5B4A"))
    if pub_from_priv(c, d) != Q or sign_e(c, e, d, k) != rs or not verify_e(c, e, rs[0], rs[1], Q):
        fails.append("RFC7091 512 vector")

    # SEC 1 encoding round trips, compressed parity, invalid inputs
    for name in ("secp256r1", "secp112r2", "secp224k1", "secp521r1"):
        c = cs[name]
        for kk in (1, 2, 0xABCDEF):
            P = mul_g(c, kk)
            for order in ("big", "little"):
                for form in ("compressed", "packed", "concat"):
                    if decode(c, encode(c, P, form, order), None, order) != P:
                        fails.append("%s %s %s round trip" % (name, form, order))
                xs, ys = encode(c, P, "separate", order)
                if decode(c, xs, ys, order) != P:
                    fails.append("%s separate round trip" % name)
            comp = encode(c, P, "compressed")
            flip = bytes([comp[0] ^ 1]) + comp[1:]
            if decode(c, flip) != ec.neg(c, P):
                fails.append("%s: other parity must give -P" % name)
        if decode(c, b"\x00") is not None:
            fails.append("O encoding")
        for bad in (b"\x01", b"", b"\x05" + b"\x00" * nbytes(c), b"\x04" + b"\x01" * (2 * nbytes(c)),
                    (c.p).to_bytes(nbytes(c), "big") + (1).to_bytes(nbytes(c), "big")):
            try:
                decode(c, bad)
                fails.append("%s: accepted invalid encoding %s" % (name, bad.hex()[:20]))
            except Invalid:
                pass
    # published compressed form of the P-256 generator (SEC 2): 03 || Gx (Gy is odd)
    c = cs["secp256r1"]
    if encode(c, c.G, "compressed").hex() != "036b17d1f2e12c4247f8bce6e563a440f277037d812deb33a0f4a13945d898c296":
        fails.append("SEC2 compressed P-256 generator")
    # wrong-order point on a cofactor-4 curve is not a valid key
    c = cs["secp112r2"]
    found = False
    for x in range(1, 400):
        ys = ec.lift_x(c, x)
        if ys is None:
            continue
        P = (x, ys[0])
        if mul(c, c.n, P) is not None:
            found = True
            if valid_point(c, P) or not ec.on_curve(c, P):
                fails.append("wrong-order point judged valid")
            break
    if not found:
        fails.append("no wrong-order point found on secp112r2")
    # DH symmetry and key derivation
    c = cs["secp128r2"]
    da, qa = keygen(c, 0x1234567890ABCDEF)
    db, qb = keygen(c, c.n + 5)
    if db != (c.n + 5) % (c.n - 1) + 1 or not (1 <= db < c.n):
        fails.append("reduce_rnd")
    for cof in (0, 1):
        if dh(c, da, qb, cof) != dh(c, db, qa, cof):
            fails.append("DH symmetry cof=%d" % cof)
    if dh(c, da, qb, 1) != mul(c, 4 * da * db, c.G)[0]:
        fails.append("cofactor DH value")
    return fails
