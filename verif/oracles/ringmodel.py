"""Byte-stream model of the packet ring (C19).

The written stream is the concatenation of the committed blocks in commit order; block s
(1, 2, ...) has length blen[s] and starts at absolute stream offset cum[s].  The driver
decodes every region handed to a reader into runs (block, offset, length), so the model
never predicts ring layout: it only judges what readers were given / told.

Clauses (per reader):
 1 no silent gap   - bytes must continue where the reader stands; a forward jump is allowed
                     only if, since the last delivered byte, at least one call on that reader
                     reported a non-zero drop, and it must land on a block boundary; runs of
                     one call must be contiguous; never backwards (repetition), never bytes
                     that are not committed stream bytes, content identical.
 2 resynchronisation as bounded progress - after a drop report a reader that keeps polling
                     (full-size requests, at least twice per ring size of writer progress)
                     must receive bytes again before the writer has written two further ring
                     sizes (+ two maximal blocks).
 3 accounting      - sum of reported drops over a gap >= bytes skipped.
 4 avail           - r_buf_data_avail_size == bytes of a directly following full read.
 5 size report     - data_size_ret == bytes present in the returned iovecs.
The model advances a reader only by what the harness advanced (<= bytes present in iovecs).
"""

SENTINEL = 0xA5A5A5A5A5A5A5A5


class Reader:
    def __init__(self):
        self.pos = None          # absolute stream offset of the next expected byte (None: unknown)
        self.drop_sum = 0        # drops reported since the last delivered byte
        self.drop_calls = 0
        self.stuck_w = None      # stream size when the pending drop episode started
        self.last_poll_w = None
        self.polls_in_episode = 0
        self.tainted = False


class RingModel:
    def __init__(self, size, min_block):
        self.size = size
        self.min_block = min_block
        self.blen = [0]          # block id -> length
        self.cum = [0]           # block id -> absolute offset of its first byte
        self.total = 0           # stream bytes committed so far
        self.maxblock = 0
        self.readers = {}
        self.varying = False
        self.frag = False
        # ring layout as reported by the driver: sorted, non-overlapping [start, end, block id]
        self.live_starts = []
        self.live = []           # parallel to live_starts: (end, block id)
        self.dead = set()        # blocks of which at least one byte has been overwritten

    # ---- writer ------------------------------------------------------------
    def commit(self, bid, length, offset_used, via_set2_gap=False):
        assert bid == len(self.blen), "block ids must be consecutive"
        if self.blen[1:] and length != self.blen[-1]:
            self.varying = True
        if offset_used:
            self.frag = True
        self.blen.append(length)
        self.cum.append(self.total)
        self.total += length
        self.maxblock = max(self.maxblock, length)

    def note_region_written(self, a, b, data_start, bid):
        """the writer touched ring bytes [a, b); [data_start, b) now holds block `bid`
        (bid 0 / data_start == b: nothing committed).  Every older block that lost a byte is dead."""
        import bisect
        i = bisect.bisect_right(self.live_starts, a) - 1
        if i < 0 or self.live[i][0] <= a:
            i += 1
        j = i
        while j < len(self.live_starts) and self.live_starts[j] < b:
            self.dead.add(self.live[j][1])
            j += 1
        del self.live_starts[i:j]
        del self.live[i:j]
        if bid and data_start < b:
            self.live_starts.insert(i, data_start)
            self.live.insert(i, (b, bid))

    def overwritten_in(self, runs, pos):
        """do the regions handed out show that a block-table entry outlived its bytes?  Junk or
        bytes of a (partly) overwritten block, or a region that starts in the middle of a block
        although the reader does not stand there."""
        for n, (bid, off, ln, cok) in enumerate(runs):
            if bid == 0 or bid in self.dead:
                return True
            if bid < len(self.blen) and off + ln != self.blen[bid] and n != len(runs) - 1:
                return True          # blocks are handed out whole: a region that stops inside a block
            if off != 0 and bid < len(self.blen):
                a = self.cum[bid] + off
                if n == 0:
                    if pos is None or pos != a:
                        return True
                else:
                    pb, po, pl, _ = runs[n - 1]
                    if not (pb == bid and po + pl == off):
                        return True
        return False

    def reader(self, r):
        if r not in self.readers:
            self.readers[r] = Reader()
        return self.readers[r]

    def reinit(self, r, pos=None):
        rd = Reader()
        rd.pos = pos
        self.readers[r] = rd
        return rd

    # ---- reader ------------------------------------------------------------
    def judge_read(self, r, runs, drop, size_ret, total_in_iovs, inc, full_request,
                   avail=None, avail_drop=None):
        """runs: [(block id, offset, length, content_ok)] in iovec order.
        Returns list of (clause, expected, observed)."""
        v = []
        rd = self.reader(r)
        drop = 0 if drop == SENTINEL else drop
        if avail_drop is not None and avail_drop != SENTINEL and avail_drop:
            rd.drop_sum += avail_drop
            rd.drop_calls += 1
        if drop:
            rd.drop_sum += drop
            rd.drop_calls += 1
        delivered = 0
        start_abs = None
        cur = None
        bad = False
        pos_before = rd.pos
        # a) every run must be committed stream bytes, identical to what was written
        for (bid, off, ln, cok) in runs:
            if bid == 0 or bid >= len(self.blen):
                v.append(("not-stream-bytes", "committed stream bytes", {"run": [bid, off, ln]}))
                bad = True
            elif off + ln > self.blen[bid]:
                v.append(("run-exceeds-block", self.blen[bid], {"run": [bid, off, ln]}))
                bad = True
            elif not cok:
                v.append(("bytes-differ", "bytes as written", {"run": [bid, off, ln]}))
                bad = True
            if bad:
                break
            delivered += ln
        # b) where the first byte stands relative to the reader's position
        if not bad and runs:
            start_abs = self.cum[runs[0][0]] + runs[0][1]
            if rd.pos is not None:
                if start_abs < rd.pos:
                    v.append(("repetition", "continuation at stream offset %d" % rd.pos,
                              {"got_offset": start_abs, "behind_by": rd.pos - start_abs}))
                    bad = True
                elif start_abs > rd.pos:
                    skipped = start_abs - rd.pos
                    first = runs[0]
                    if rd.drop_calls == 0:
                        v.append(("silent-gap", "continuation at stream offset %d or a drop report" % rd.pos,
                                  {"got_offset": start_abs, "skipped": skipped, "drops_reported": 0}))
                        bad = True
                    elif first[1] != 0:
                        v.append(("resync-mid-block", "resume at a block boundary", {"run": list(first[:3])}))
                        bad = True
                    elif rd.drop_sum < skipped:
                        # accounting only: the stream position is not lost
                        v.append(("drop-under-report", "reported drops >= %d skipped bytes" % skipped,
                                  {"reported_sum": rd.drop_sum, "skipped": skipped}))
        # c) the runs of one call are contiguous
        if not bad and runs:
            cur = None
            for (bid, off, ln, cok) in runs:
                a = self.cum[bid] + off
                if cur is not None and a > cur:
                    v.append(("gap-inside-call", "contiguous continuation at stream offset %d" % cur,
                              {"next_run_at": a, "skipped": a - cur, "run": [bid, off, ln]}))
                    bad = True
                    break
                if cur is not None and a < cur:
                    v.append(("repetition-inside-call", "contiguous continuation at stream offset %d" % cur,
                              {"next_run_at": a, "run": [bid, off, ln]}))
                    bad = True
                    break
                cur = a + ln
        WRONG = ("not-stream-bytes", "run-exceeds-block", "silent-gap", "resync-mid-block", "gap-inside-call",
                 "repetition-inside-call", "repetition")
        if v and v[-1][0] in WRONG:
            if self.overwritten_in(runs, pos_before):
                c, e, ob = v[-1]
                ob = dict(ob)
                ob["first_failing_clause"] = c
                v[-1] = ("overwritten-handed-out", "only bytes of intact blocks, in sequence (or a drop report)", ob)
            if getattr(rd, "tainted", False) and rd.pos is None:
                v.pop()              # follow-up of a violation already reported for this reader
            rd.tainted = True
        elif not bad and delivered > 0:
            rd.tainted = False
        # 5: reported size
        sr = 0 if size_ret == SENTINEL else size_ret
        if not bad and sr != total_in_iovs:
            v.append(("size-ret-differs-from-iovecs", total_in_iovs, {"data_size_ret": sr, "bytes_in_iovecs": total_in_iovs}))
        # 4: avail
        if not bad and avail is not None and full_request and not (avail_drop not in (None, SENTINEL) and avail_drop):
            if avail != delivered:
                v.append(("avail-differs-from-full-read", delivered, {"avail": avail, "full_read_bytes": delivered}))
        # 2: bounded progress
        if delivered > 0:
            rd.drop_sum = 0
            rd.drop_calls = 0
            rd.stuck_w = None
            rd.polls_in_episode = 0
        elif full_request:
            if rd.drop_calls and rd.stuck_w is None:
                rd.stuck_w = self.total
                rd.polls_in_episode = 0
            elif rd.stuck_w is not None:
                if rd.last_poll_w is not None and self.total - rd.last_poll_w > self.size // 2:
                    rd.stuck_w = self.total          # did not keep polling: restart the clock
                    rd.polls_in_episode = 0
                else:
                    rd.polls_in_episode += 1
                    if self.total - rd.stuck_w > 2 * self.size + 2 * self.maxblock:
                        v.append(("no-resync-within-2-rounds", "bytes again within 2 ring sizes of writer progress",
                                  {"written_since_first_drop_report": self.total - rd.stuck_w,
                                   "polls_since": rd.polls_in_episode, "ring_size": self.size}))
                        rd.stuck_w = self.total
        if full_request:
            rd.last_poll_w = self.total
        # advance
        if not bad and start_abs is not None:
            if rd.pos is None or delivered > 0:
                rd.pos = start_abs + inc
        elif bad:
            rd.pos = None
        return v, delivered


def selftest():
    fails = []
    m = RingModel(100, 10)
    for i in range(1, 6):
        m.commit(i, 10, 0)
    m.reinit(0)
    v, d = m.judge_read(0, [(1, 0, 10, 1), (2, 0, 10, 1)], 0, 20, 20, 15, True)
    if v or d != 20 or m.readers[0].pos != 15:
        fails.append("plain read: %r" % (v,))
    v, d = m.judge_read(0, [(2, 5, 5, 1), (3, 0, 10, 1)], 0, 15, 15, 15, True)
    if v:
        fails.append("partial continuation: %r" % (v,))
    v, d = m.judge_read(0, [(4, 0, 10, 1)], 0, 10, 10, 10, True)          # block 3 fully read -> 4 follows
    if v:
        fails.append("continuation: %r" % (v,))
    v, d = m.judge_read(0, [(4, 0, 10, 1)], 0, 10, 10, 10, True)
    if [x[0] for x in v] != ["repetition"]:
        fails.append("repetition not flagged: %r" % (v,))
    m.reinit(1, 0)
    v, d = m.judge_read(1, [(3, 0, 10, 1)], 0, 10, 10, 10, True)
    if [x[0] for x in v] != ["silent-gap"]:
        fails.append("silent gap not flagged: %r" % (v,))
    m.reinit(2, 0)
    v, d = m.judge_read(2, [], 15, 0, 0, 0, True)
    v2, d = m.judge_read(2, [(3, 0, 10, 1)], 0, 10, 10, 10, True)
    if v or [x[0] for x in v2] != ["drop-under-report"]:
        fails.append("accounting: %r %r" % (v, v2))
    m.reinit(3, 0)
    m.judge_read(3, [], 25, 0, 0, 0, True)
    v, d = m.judge_read(3, [(3, 0, 10, 1)], 0, 10, 10, 10, True)
    if v:
        fails.append("reported gap accepted: %r" % (v,))
    m.reinit(4, 0)
    v, d = m.judge_read(4, [(1, 0, 10, 1), (3, 0, 10, 1)], 0, 20, 20, 20, True)
    if [x[0] for x in v] != ["gap-inside-call"]:
        fails.append("gap inside call: %r" % (v,))
    m.reinit(5, 0)
    v, d = m.judge_read(5, [], 0, 7, 0, 0, False)
    if [x[0] for x in v] != ["size-ret-differs-from-iovecs"]:
        fails.append("size report: %r" % (v,))
    v, d = m.judge_read(5, [(1, 0, 10, 1)], 0, 10, 10, 0, True, avail=50, avail_drop=0)
    if [x[0] for x in v] != ["avail-differs-from-full-read"]:
        fails.append("avail: %r" % (v,))
    m3 = RingModel(40, 10)
    m3.commit(1, 10, 0); m3.note_region_written(0, 10, 0, 1)
    m3.commit(2, 10, 0); m3.note_region_written(10, 20, 10, 2)
    m3.commit(3, 15, 5); m3.note_region_written(0, 20, 5, 3)
    if m3.dead != {1, 2} or m3.live_starts != [5] or m3.live != [(20, 3)]:
        fails.append("live map: %r %r %r" % (m3.dead, m3.live_starts, m3.live))
    m3.reinit(0, 0)
    v, d = m3.judge_read(0, [(0, 0, 5, 1), (3, 0, 5, 1)], 0, 10, 10, 10, True)
    if [x[0] for x in v] != ["overwritten-handed-out"]:
        fails.append("overwritten: %r" % (v,))
    # bounded progress
    m2 = RingModel(100, 10)
    m2.commit(1, 10, 0)
    m2.reinit(0, 0)
    bid = 2
    flagged = False
    for step in range(40):
        m2.commit(bid, 10, 0)
        bid += 1
        v, d = m2.judge_read(0, [], 110, 0, 0, 0, True)
        if any(x[0] == "no-resync-within-2-rounds" for x in v):
            flagged = True
            if step < 20:
                fails.append("bounded progress flagged too early at step %d" % step)
            break
    if not flagged:
        fails.append("bounded progress never flagged")
    return fails
