"""Reference for C18: address text, documented spellings for the parsers, prefix arithmetic.

Pure Python.  IPv6 text is produced by an own RFC 5952 formatter (with the mixed
notation for IPv4-mapped / IPv4-compatible addresses that inet_ntop uses) and is
cross-checked against socket.inet_ntop and the `ipaddress` module in selftest().
Address validity for the parser oracle is decided by `ipaddress` alone.
"""
import ipaddress
import socket


# ----------------------------------------------------------------------------
# formatting
# ----------------------------------------------------------------------------
def fmt4(b):
    return "%d.%d.%d.%d" % (b[0], b[1], b[2], b[3])


def fmt6(b, mixed=None):
    """RFC 5952 text.  mixed=None: dotted-quad tail where glibc's inet_ntop uses it
    (::ffff:a.b.c.d and ::a.b.c.d with a non-zero upper half); True/False force it."""
    w = [(b[2 * i] << 8) | b[2 * i + 1] for i in range(8)]
    runs = []
    i = 0
    while i < 8:
        if w[i] == 0:
            j = i
            while j < 8 and w[j] == 0:
                j += 1
            runs.append((i, j - i))
            i = j
        else:
            i += 1
    best = None
    for r in runs:
        if r[1] >= 2 and (best is None or r[1] > best[1]):
            best = r
    can_mix = best is not None and best[0] == 0 and best[1] >= 5 and (best[1] < 8)
    if mixed is None:
        mixed = best is not None and best[0] == 0 and (best[1] == 6 or (best[1] == 5 and w[5] == 0xFFFF))
    elif mixed and not can_mix:
        mixed = False
    nwords = 6 if mixed else 8
    tail = [fmt4(b[12:16])] if mixed else []
    if best is not None and mixed and best[0] + best[1] > 6:
        best = (best[0], 6 - best[0])
    if best is None:
        return ":".join(["%x" % x for x in w[:nwords]] + tail)
    left = ["%x" % x for x in w[:best[0]]]
    right = ["%x" % x for x in w[best[0] + best[1]:nwords]] + tail
    return ":".join(left) + "::" + ":".join(right)


def fmt6_all(b):
    """primary text first, then the other conventional spelling of the low 32 bits (if any)"""
    out = [fmt6(b)]
    for m in (False, True):
        t = fmt6(b, m)
        if t not in out:
            out.append(t)
    return out


def addr_text(fam, ab):
    if fam == 4:
        return fmt4(ab)
    if fam == 6:
        return fmt6(ab)
    return ab.decode("latin-1")


def expected_texts(fam, ab, port, with_port):
    """list of accepted texts, primary first"""
    if fam == 1:
        return [ab.decode("latin-1")]
    if fam == 4:
        a = fmt4(ab)
        if not with_port:
            return [a]
        return [a, a + ":0"] if port == 0 else ["%s:%d" % (a, port)]
    out = []
    for a in fmt6_all(ab):
        if not with_port:
            out.append(a)
        elif port == 0:
            out += ["[%s]" % a, "[%s]:0" % a, a]
        else:
            out.append("[%s]:%d" % (a, port))
    return out


# ----------------------------------------------------------------------------
# prefix arithmetic
# ----------------------------------------------------------------------------
def mask_bytes(fam, plen):
    bits = 32 if fam == 4 else 128
    v = ((1 << plen) - 1) << (bits - plen) if plen else 0
    return v.to_bytes(bits // 8, "big")


def band(a, b):
    return bytes(x & y for x, y in zip(a, b))


# ----------------------------------------------------------------------------
# parser oracle: which texts must be accepted / rejected
# ----------------------------------------------------------------------------
def parse_ip(core):
    """-> (fam, bytes) or None; `ipaddress` decides; scope ids ('%') are not judged here"""
    try:
        s = core.decode("ascii")
    except UnicodeDecodeError:
        return None
    if "%" in s:
        return None
    try:
        ip = ipaddress.ip_address(s)
    except ValueError:
        return None
    return (4 if ip.version == 4 else 6, ip.packed)


LEAD = b" \t["
TRAIL = b" \t]"


def strip_decor(t):
    i, j = 0, len(t)
    while i < j and t[i] in LEAD:
        i += 1
    while j > i and t[j - 1] in TRAIL:
        j -= 1
    return t[:i], t[i:j], t[j:]


def decor_simple(lead, core_fam, trail):
    """documented decoration: optional blanks outside, at most one balanced bracket pair"""
    lb, tb = lead.count(b"["), trail.count(b"]")
    if lb != tb or lb > 1:
        return False
    if lb == 1:
        # blanks only outside the brackets:  ws* '[' core ']' ws*
        if not lead.endswith(b"[") or not trail.startswith(b"]"):
            return False
    return True


def classify_addr_text(t):
    """for sa_addr_from_str.  -> ('accept', fam, bytes, cls) | ('reject', cls) | ('free', cls)"""
    if len(t) == 0:
        return ("reject", "empty")
    lead, core, trail = strip_decor(t)
    if len(core) == 0:
        return ("reject", "only-decoration")
    if b"\0" in t:
        return ("free", "embedded-nul")
    ip = parse_ip(core)
    if ip is not None:
        if decor_simple(lead, ip[0], trail):
            brk = b"[" in lead
            if brk and ip[0] == 4:
                return ("free", "bracketed-v4")
            return ("accept", ip[0], ip[1], ("bracketed" if brk else "plain") + ("-ws" if (lead + trail).strip(b"[]") else ""))
        return ("free", "odd-decoration")
    if core[:1] in (b"/", b"."):
        return ("free", "unix-path")
    if b"%" in core:
        return ("free", "scope-id")
    cls = "bad-address"
    if core.endswith(b":") and parse_ip(core[:-1]) is not None:
        cls = "trailing-colon"
    elif core.startswith(b":") and parse_ip(core[1:]) is not None:
        cls = "leading-colon"
    return ("reject", cls)


def classify_number(p, maxv):
    """-> ('ok', n) | ('reject', cls) | ('free', cls)"""
    if p == b"":
        return ("free", "empty-number")
    if p.isdigit() and p.isascii():
        if len(p) > 1 and p[:1] == b"0":
            return ("free", "leading-zero")
        n = int(p)
        if n > maxv:
            return ("reject", "out-of-range")
        return ("ok", n)
    if all(c in b"0123456789 \t+" for c in p):
        return ("free", "blank-or-sign-in-number")
    return ("reject", "non-numeric")


def classify_addr_port_text(t):
    """for sa_addr_port_from_str -> ('accept', fam, bytes, port, cls) | ('reject', cls) | ('free', cls)"""
    if len(t) == 0:
        return ("reject", "empty")
    if b"\0" in t:
        return ("free", "embedded-nul")
    whole = classify_addr_text(t)
    if whole[0] == "accept":
        if whole[1] == 6 and b"[" not in t:
            return ("free", "unbracketed-v6")
        return ("accept", whole[1], whole[2], 0, whole[3] + "-noport")
    any_valid_prefix = whole[0] == "free"
    verdict = None
    for i in range(len(t)):
        if t[i:i + 1] != b":":
            continue
        a, p = t[:i], t[i + 1:]
        ca = classify_addr_text(a) if a else ("reject", "empty")
        if ca[0] == "reject":
            continue
        any_valid_prefix = True
        if ca[0] == "free":
            continue
        fam, ab = ca[1], ca[2]
        if fam == 6 and not a.rstrip(b" \t").endswith(b"]"):
            continue        # "2001:db8::1:80" - documented as 'wrong, but work': not judged
        if fam == 4 and b"[" in a:
            continue
        pn = classify_number(p, 65535)
        if pn[0] == "ok":
            verdict = ("accept", fam, ab, pn[1], ca[3] + "-port%d" % len(p))
        elif pn[0] == "reject":
            verdict = ("reject", "port-" + pn[1])
        else:
            verdict = ("free", "port-" + pn[1])
        break
    if verdict is not None:
        return verdict
    if any_valid_prefix:
        return ("free", "ambiguous-split")
    cls = whole[1] if whole[0] == "reject" else "bad-address"
    j = t.rfind(b"]")
    if j >= 0 and j + 1 < len(t) and classify_addr_text(t[:j + 1])[0] in ("accept", "free"):
        cls = "junk-after-bracket"
    return ("reject", cls)


def classify_net_text(t):
    """for str_net_to_ss -> ('accept', fam, bytes, preflen, cls) | ('reject', cls) | ('free', cls)"""
    if len(t) == 0:
        return ("reject", "empty")
    if b"\0" in t:
        return ("free", "embedded-nul")
    i = t.rfind(b"/")
    if i < 0:
        ca = classify_addr_text(t)
        if ca[0] == "accept":
            return ("accept", ca[1], ca[2], 32 if ca[1] == 4 else 128, ca[3] + "-nolen")
        return ca
    a, p = t[:i], t[i + 1:]
    ca = classify_addr_text(a) if a else ("reject", "empty")
    if ca[0] != "accept":
        if ca[0] == "reject" and (b"/" in a or a[:1] in (b".", b"/")):
            return ("free", "path-like")
        return ca
    pn = classify_number(p, 32 if ca[1] == 4 else 128)
    if pn[0] == "ok":
        return ("accept", ca[1], ca[2], pn[1], ca[3] + "-len")
    if pn[0] == "reject":
        return ("reject", "preflen-" + pn[1])
    return ("free", "preflen-" + pn[1])


# ----------------------------------------------------------------------------
# alternative spellings of one IPv6 value (all valid)
# ----------------------------------------------------------------------------
def v6_spellings(b):
    w = [(b[2 * i] << 8) | b[2 * i + 1] for i in range(8)]
    out = [fmt6(b)]
    out.append(":".join("%x" % x for x in w))
    out.append(":".join("%04x" % x for x in w))
    out.append(":".join("%X" % x for x in w))
    out.append(":".join("%x" % x for x in w[:6]) + ":" + fmt4(b[12:16]))
    # every possible '::' placement over a zero run (including a single zero group)
    for i in range(8):
        if w[i] != 0:
            continue
        for j in range(i + 1, 9):
            if any(w[i:j]):
                break
            out.append(":".join("%x" % x for x in w[:i]) + "::" + ":".join("%x" % x for x in w[j:]))
    seen = []
    for s in out:
        if s not in seen:
            seen.append(s)
    return seen


# ----------------------------------------------------------------------------
def selftest():
    fails = []
    vec = {
        "2001:db8::1": "20010db8000000000000000000000001",
        "::": "00" * 16, "::1": "00" * 15 + "01",
        "2001:db8:0:1:1:1:1:1": "20010db8000000010001000100010001",     # single zero group not compressed
        "2001:0:0:1::1": "20010000000000010000000000000001",            # longest run wins
        "2001:db8::1:0:0:1": "20010db8000000000001000000000001",        # first of equal runs
        "::ffff:1.2.3.4": "00000000000000000000ffff01020304",
        "1::": "0001" + "00" * 14,
    }
    for text, hx in vec.items():
        b = bytes.fromhex(hx)
        if fmt6(b) != text:
            fails.append("fmt6 %s -> %s" % (text, fmt6(b)))
    # every zero-run shape against inet_ntop and ipaddress
    for base in range(8):
        for ln in range(0, 9 - base):
            for fill in (1, 0xabcd, 0xffff):
                w = [fill] * 8
                for k in range(base, base + ln):
                    w[k] = 0
                b = b"".join(x.to_bytes(2, "big") for x in w)
                t = fmt6(b)
                if t != socket.inet_ntop(socket.AF_INET6, b):
                    fails.append("fmt6 vs inet_ntop %s %s" % (t, socket.inet_ntop(socket.AF_INET6, b)))
                if ipaddress.IPv6Address(t).packed != b:
                    fails.append("fmt6 text does not parse back: %s" % t)
                for s in v6_spellings(b):
                    if ipaddress.IPv6Address(s).packed != b:
                        fails.append("spelling %s" % s)
    x = 0x9E3779B97F4A7C15
    for _ in range(3000):
        x = (x * 6364136223846793005 + 1442695040888963407) & ((1 << 64) - 1)
        b = bytearray((x >> (8 * (i % 8))) & 0xFF for i in range(16))
        for k in range(16):
            if (x >> (k + 20)) & 3:
                b[k] = 0 if (x >> (k + 3)) & 1 else b[k]
        b = bytes(b)
        if fmt6(b) != socket.inet_ntop(socket.AF_INET6, b):
            fails.append("fmt6 random %s" % b.hex())
            break
    if fmt4(bytes([10, 1, 2, 3])) != "10.1.2.3":
        fails.append("fmt4")
    if mask_bytes(4, 0) != b"\0\0\0\0" or mask_bytes(4, 32) != b"\xff" * 4 or mask_bytes(4, 9) != b"\xff\x80\0\0" \
            or mask_bytes(6, 128) != b"\xff" * 16 or mask_bytes(6, 33)[:5] != b"\xff\xff\xff\xff\x80":
        fails.append("mask_bytes")
    for l in range(33):
        if ipaddress.ip_network("0.0.0.0/%d" % l).netmask.packed != mask_bytes(4, l):
            fails.append("mask4 %d" % l)
    for l in range(129):
        if ipaddress.ip_network("::/%d" % l).netmask.packed != mask_bytes(6, l):
            fails.append("mask6 %d" % l)
    checks = [
        (classify_addr_text(b"127.0.0.1")[0], "accept"), (classify_addr_text(b"[2001:4f8:fff6::28]")[0], "accept"),
        (classify_addr_text(b"2001:4f8:fff6::28")[0], "accept"), (classify_addr_text(b" 1.2.3.4\t")[0], "accept"),
        (classify_addr_text(b"1.2.3")[0], "reject"), (classify_addr_text(b"2001:db8::1:")[:2], ("reject", "trailing-colon")),
        (classify_addr_text(b"[[::1]")[0], "free"), (classify_addr_text(b"/tmp/x")[0], "free"),
        (classify_addr_text(b"[1.2.3.4]")[0], "free"), (classify_addr_text(b"::1%eth0")[0], "free"),
        (classify_addr_port_text(b"127.0.0.1:1234")[:4], ("accept", 4, bytes([127, 0, 0, 1]), 1234)),
        (classify_addr_port_text(b"[2001:4f8:fff6::28]:1234")[3], 1234),
        (classify_addr_port_text(b"2001:4f8:fff6::28:1234")[0], "free"),
        (classify_addr_port_text(b"1.2.3.4:65536"), ("reject", "port-out-of-range")),
        (classify_addr_port_text(b"1.2.3.4:http"), ("reject", "port-non-numeric")),
        (classify_addr_port_text(b"1.2.3.4:")[0], "free"), (classify_addr_port_text(b"1.2.3.4:080")[0], "free"),
        (classify_addr_port_text(b"1.2.3:80")[0], "reject"), (classify_addr_port_text(b"[::1]")[:4], ("accept", 6, b"\0" * 15 + b"\1", 0)),
        (classify_addr_port_text(b"::1")[0], "free"),
        (classify_net_text(b"127.0.0.0/8")[:4], ("accept", 4, bytes([127, 0, 0, 0]), 8)),
        (classify_net_text(b"[2001:4f8:fff6::]/32")[3], 32), (classify_net_text(b"2001:4f8:fff6::28/32")[3], 32),
        (classify_net_text(b"1.2.3.4/33"), ("reject", "preflen-out-of-range")),
        (classify_net_text(b"1.2.3.4")[3], 32), (classify_net_text(b"::/129"), ("reject", "preflen-out-of-range")),
        (classify_net_text(b"1.2.3.4/x"), ("reject", "preflen-non-numeric")),
    ]
    for n, (got, want) in enumerate(checks):
        if got != want:
            fails.append("classify #%d: %r != %r" % (n, got, want))
    return fails
