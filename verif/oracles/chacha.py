"""From-scratch ChaCha / HChaCha / XChaCha reference (stdlib only).

Layout is Bernstein's original one, which is what include/crypto/cipher/chacha.h
implements:

    state[0..3]   constants  "expand 32-byte k" (256-bit key) or
                             "expand 16-byte k" (128-bit key, key words repeated)
    state[4..11]  key
    state[12..13] 64-bit block counter, low word first
    state[14..15] 64-bit nonce

    block(n) = serialize_le32( rounds(state) + state ),  counter += 1 (mod 2^64)

    HChaCha(key, iv16)   = words 0..3 and 12..15 of rounds(state) with
                           state[12..15] = iv16, no feed-forward   (draft-irtf-cfrg-xchacha 2.2)
    XChaCha(key, ctr, iv24) = ChaCha(HChaCha(key, iv24[0:16]), ctr, iv24[16:24])
                           (sub-key always used as a 256-bit key; same number of rounds)

The RFC 7539/8439 layout (32-bit counter, 96-bit nonce) is the same state with
counter64 = counter32 | nonce[0:4] << 32 and nonce64 = nonce[4:12]; the RFC
vectors are mapped that way in selftest().

Nothing here is derived from the library's code: the quarter round is written
with an explicit rotate helper over Python ints and the state is a list.
"""
import struct

M32 = 0xFFFFFFFF
M64 = (1 << 64) - 1

SIGMA = struct.unpack("<4I", b"expand 32-byte k")
TAU = struct.unpack("<4I", b"expand 16-byte k")


def _rotl(v, n):
    return ((v << n) & M32) | (v >> (32 - n))


def _qr(s, a, b, c, d):
    s[a] = (s[a] + s[b]) & M32
    s[d] = _rotl(s[d] ^ s[a], 16)
    s[c] = (s[c] + s[d]) & M32
    s[b] = _rotl(s[b] ^ s[c], 12)
    s[a] = (s[a] + s[b]) & M32
    s[d] = _rotl(s[d] ^ s[a], 8)
    s[c] = (s[c] + s[d]) & M32
    s[b] = _rotl(s[b] ^ s[c], 7)


def _permute(state, rounds):
    if rounds % 2 or rounds <= 0:
        raise ValueError("rounds must be a positive even number")
    s = list(state)
    for _ in range(rounds // 2):
        # column round
        _qr(s, 0, 4, 8, 12)
        _qr(s, 1, 5, 9, 13)
        _qr(s, 2, 6, 10, 14)
        _qr(s, 3, 7, 11, 15)
        # diagonal round
        _qr(s, 0, 5, 10, 15)
        _qr(s, 1, 6, 11, 12)
        _qr(s, 2, 7, 8, 13)
        _qr(s, 3, 4, 9, 14)
    return s


def key_words(key):
    """-> (constants, 8 key words) for a 16- or 32-byte key."""
    if len(key) == 32:
        return SIGMA, struct.unpack("<8I", key)
    if len(key) == 16:
        k = struct.unpack("<4I", key)
        return TAU, k + k
    raise ValueError("key must be 16 or 32 bytes")


def initial_state(key, counter, nonce8):
    const, kw = key_words(key)
    n = struct.unpack("<2I", nonce8)
    return list(const) + list(kw) + [counter & M32, (counter >> 32) & M32, n[0], n[1]]


def block(key, counter, nonce8, rounds=20):
    """One 64-byte key-stream block for 64-bit `counter` and 8-byte `nonce8`."""
    st = initial_state(key, counter, nonce8)
    w = _permute(st, rounds)
    return struct.pack("<16I", *[(w[i] + st[i]) & M32 for i in range(16)])


def keystream(key, counter, nonce8, rounds, nbytes):
    """Key stream of `nbytes` bytes starting at block `counter`; the counter wraps mod 2^64."""
    out = []
    c = counter & M64
    for _ in range((nbytes + 63) // 64):
        out.append(block(key, c, nonce8, rounds))
        c = (c + 1) & M64
    return b"".join(out)[:nbytes]


def xor(data, ks):
    n = len(data)
    return (int.from_bytes(data, "little") ^ int.from_bytes(ks[:n], "little")).to_bytes(n, "little")


def crypt(key, counter, nonce8, rounds, data):
    return xor(data, keystream(key, counter, nonce8, rounds, len(data)))


def blocks_used(nbytes):
    return (nbytes + 63) // 64


def hchacha(key, iv16, rounds=20):
    const, kw = key_words(key)
    st = list(const) + list(kw) + list(struct.unpack("<4I", iv16))
    w = _permute(st, rounds)
    return struct.pack("<8I", *(w[0:4] + w[12:16]))


def xchacha_subkey_nonce(key, iv24, rounds=20):
    return hchacha(key, iv24[:16], rounds), iv24[16:24]


def xchacha_keystream(key, counter, iv24, rounds, nbytes):
    sk, n8 = xchacha_subkey_nonce(key, iv24, rounds)
    return keystream(sk, counter, n8, rounds, nbytes)


# ----------------------------------------------------------------------------
# validation against published vectors (values typed in from the documents)
# ----------------------------------------------------------------------------
def _h(s):
    return bytes.fromhex(s.replace(" ", "").replace("\n", "").replace(":", ""))


def _rfc_map(counter32, nonce12):
    """RFC 7539 (32-bit counter, 96-bit nonce) -> (counter64, nonce8) of the original layout."""
    return counter32 | (int.from_bytes(nonce12[0:4], "little") << 32), nonce12[4:12]


def selftest():
    fails = []

    def expect(name, got, want):
        if got != want:
            fails.append("%s: got %s want %s" % (name, got.hex()[:96], want.hex()[:96]))

    k0_32 = bytes(32)
    k0_16 = bytes(16)
    n0 = bytes(8)
    kseq = bytes(range(32))

    # RFC 7539 / RFC 8439 section 2.1.1: quarter round on a=11111111 b=01020304 c=9b8d6f43 d=01234567
    s = [0x11111111, 0x01020304, 0x9b8d6f43, 0x01234567]
    _qr(s, 0, 1, 2, 3)
    if s != [0xea2a92f4, 0xcb1cf8ce, 0x4581472e, 0x5881c4bb]:
        fails.append("RFC7539 2.1.1 quarter round: %s" % [hex(x) for x in s])

    # RFC 7539 / 8439 section 2.3.2: block function, key 00..1f, nonce 000000090000004a00000000, counter 1
    c64, n8 = _rfc_map(1, _h("000000090000004a00000000"))
    expect("RFC7539 2.3.2 block", block(kseq, c64, n8, 20), _h(
        "10f1e7e4d13b5915500fdd1fa32071c4c7d1f4c733c068030422aa9ac3d46c4e"
        "d2826446079faa0914c2d705d98b02a2b5129cd1de164eb9cbd083e8a2503c4e"))

    # RFC 7539 / 8439 section 2.4.2: encryption, nonce 000000000000004a00000000, initial counter 1
    pt = (b"Ladies and Gentlemen of the class of '99: If I could offer you only one tip for the "
          b"future, sunscreen would be it.")
    c64, n8 = _rfc_map(1, _h("000000000000004a00000000"))
    expect("RFC7539 2.4.2 encryption", crypt(kseq, c64, n8, 20, pt), _h(
        "6e2e359a2568f98041ba0728dd0d6981e97e7aec1d4360c20a27afccfd9fae0b"
        "f91b65c5524733ab8f593dabcd62b3571639d624e65152ab8f530c359f0861d8"
        "07ca0dbf500d6a6156a38e088a22b65e52bc514d16ccf806818ce91ab7793736"
        "5af90bbf74a35be6b40b8eedf2785e42874d"))

    # RFC 7539 Appendix A.1 #1 == Bernstein's ChaCha20 64/64 zero key / zero nonce / counter 0
    expect("ChaCha20 zero key block 0", keystream(k0_32, 0, n0, 20, 64), _h(
        "76b8e0ada0f13d90405d6ae55386bd28bdd219b8a08ded1aa836efcc8b770dc7"
        "da41597c5157488d7724e03fb8d84a376a43b8f41518a11cc387b669b2ee6586"))
    # RFC 7539 Appendix A.1 #2: same key, counter 1
    expect("ChaCha20 zero key block 1", keystream(k0_32, 1, n0, 20, 64), _h(
        "9f07e7be5551387a98ba977c732d080dcb0f29a048e3656912c6533e32ee7aed"
        "29b721769ce64e43d57133b074d839d531ed1f28510afb45ace10a1f4b794d6f"))
    # multi-block continuity: blocks 0 and 1 in one call
    expect("ChaCha20 zero key 128 bytes", keystream(k0_32, 0, n0, 20, 128)[64:],
           keystream(k0_32, 1, n0, 20, 64))
    # RFC 7539 Appendix A.1 #3: key 00..01, counter 1
    expect("RFC7539 A.1 #3", keystream(bytes(31) + b"\x01", 1, n0, 20, 64), _h(
        "3aeb5224ecf849929b9d828db1ced4dd832025e8018b8160b82284f3c949aa5a"
        "8eca00bbb4a73bdad192b5c42f73f2fd4e273644c8b36125a64addeb006c13a0"))
    # RFC 7539 Appendix A.1 #5: zero key, nonce ..02 (last byte of the 96-bit nonce), counter 0
    expect("RFC7539 A.1 #5", keystream(k0_32, 0, bytes(7) + b"\x02", 20, 64), _h(
        "c2c64d378cd536374ae204b9ef933fcd1a8b2288b3dfa49672ab765b54ee27c7"
        "8a970e0e955c14f3a88e741b97c286f75f8fc299e8148362fa198a39531bed6d"))

    # draft-strombergson-chacha-test-vectors-01, TC1 (all-zero key and IV), first 32 bytes:
    # the reduced-round and 128-bit-key ("expand 16-byte k") variants.
    tc1 = [
        (k0_16, 8, "e28a5fa4a67f8c5defed3e6fb7303486aa8427d31419a729572d777953491120"),
        (k0_16, 12, "e1047ba9476bf8ff312c01b4345a7d8ca5792b0ad467313f1dc412b5fdce3241"),
        (k0_16, 20, "89670952608364fd00b2f90936f031c8e756e15dba04b8493d00429259b20f46"),
        (k0_32, 8, "3e00ef2f895f40d67f5bb8e81f09a5a12c840ec3ce9a7f3b181be188ef711a1e"),
        (k0_32, 12, "9bf49a6a0755f953811fce125f2683d50429c3bb49e074147e0089a52eae155f"),
    ]
    for key, r, hx in tc1:
        expect("strombergson TC1 key%d r%d" % (len(key) * 8, r), keystream(key, 0, n0, r, 32), _h(hx))
    # TC8 (random key c46ec1b1..., IV 1ada31d5cf688221), first 32 bytes
    k8 = _h("c46ec1b18ce8a878725a37e780dfb7351f68ed2e194c79fbc6aebee1a667975d")
    iv8 = _h("1ada31d5cf688221")
    tc8 = [
        (k8[:16], 8, "6a870108859f679118f3e205e2a56a6826ef5a60a4102ac8d4770059fcb7c7ba"),
        (k8[:16], 20, "826abdd84460e2e9349f0ef4af5b179b426e4b2d109a9c5bb44000ae51bea90a"),
        (k8, 8, "838751b42d8ddd8a3d77f48825a2ba752cf4047cb308a5978ef274973be374c9"),
        (k8, 12, "1482072784bc6d06b4e73bdc118bc0103c7976786ca918e06986aa251f7e9cc1"),
        (k8, 20, "f63a89b75c2271f9368816542ba52f06ed49241792302b00b5e8f80ae9a473af"),
    ]
    for key, r, hx in tc8:
        expect("strombergson TC8 key%d r%d" % (len(key) * 8, r), keystream(key, 0, iv8, r, 32), _h(hx))

    # draft-irtf-cfrg-xchacha-03 section 2.2.1: HChaCha20
    expect("xchacha draft 2.2.1 HChaCha20",
           hchacha(kseq, _h("000000090000004a0000000031415927"), 20),
           _h("82413b4227b27bfed30e42508a877d73a0f9e4d58a74a853c12ec41326d3ecdc"))
    # draft-irtf-cfrg-xchacha-03 A.3.1 (AEAD_XChaCha20_Poly1305, key 80..9f, nonce 40..57): the
    # ciphertext part is XChaCha20 with block counter 1 over the "Ladies and Gentlemen" text
    kx = bytes(range(0x80, 0xa0))
    nx = bytes(range(0x40, 0x58))
    expect("xchacha draft A.3.1 ciphertext", xor(pt, xchacha_keystream(kx, 1, nx, 20, len(pt))), _h(
        "bd6d179d3e83d43b9576579493c0e939572a1700252bfaccbed2902c21396cbb"
        "731c7f1b0b4aa6440bf3a82f4eda7e39ae64c6708c54c216cb96b72e1213b452"
        "2f8c9ba40db5d945b11b69b982c1bb9e3f3fac2bc369488f76b2383565d3fff9"
        "21f9664c97637da9768812f615c68b13b52e"))
    # draft A.3.2 (XChaCha20, nonce 40..56 58, block counter 0): first bytes of the ciphertext of
    # "The dhole (pronounced ..."
    nx = bytes(range(0x40, 0x57)) + b"\x58"
    expect("xchacha draft A.3.2 ciphertext",
           xor(b"The dhole (prono", xchacha_keystream(kx, 0, nx, 20, 16)),
           _h("4559abba4e48c16102e8bb2c05e6947f"))

    # counter arithmetic of the model itself: 2^32 carry and 2^64 wrap
    for c0 in ((1 << 32) - 1, M64):
        two = keystream(kseq, c0, iv8, 20, 128)
        if two[64:] != block(kseq, (c0 + 1) & M64, iv8, 20) or two[:64] != block(kseq, c0, iv8, 20):
            fails.append("counter carry model at %#x" % c0)
    if block(kseq, 1 << 32, iv8, 20) == block(kseq, 0, iv8, 20):
        fails.append("high counter word ignored")

    fails.extend(_openssl_crosscheck())
    return fails


def _openssl_crosscheck():
    """Optional: `openssl enc -chacha20` takes a 16-byte IV that is loaded into state[12..15]
    verbatim, i.e. counter64 || nonce64 of the original layout (as long as the low 32-bit
    counter word does not wrap, which OpenSSL treats differently).  Skipped when the CLI is
    absent; a disagreement is a failure."""
    import shutil
    import subprocess
    exe = shutil.which("openssl")
    if not exe:
        return []
    out = []
    seedv = 0x1234567
    for i in range(4):
        raw = b""
        while len(raw) < 48 + 300:
            seedv = (seedv * 6364136223846793005 + 1442695040888963407) & M64
            raw += seedv.to_bytes(8, "little")
        key, iv = raw[:32], raw[32:48]
        data = raw[48:48 + 130 + 37 * i]
        ctr = int.from_bytes(iv[:8], "little")
        if (ctr & M32) > M32 - 16:
            continue
        try:
            p = subprocess.run([exe, "enc", "-chacha20", "-K", key.hex(), "-iv", iv.hex()],
                               input=data, stdout=subprocess.PIPE, stderr=subprocess.PIPE, timeout=20)
        except (OSError, subprocess.SubprocessError):
            return out
        if p.returncode != 0:
            return out           # cipher not available in this build: skip silently
        if p.stdout != crypt(key, ctr, iv[8:], 20, data):
            out.append("openssl enc -chacha20 cross-check %d disagrees" % i)
    return out


if __name__ == "__main__":
    f = selftest()
    print("\n".join(f) if f else "chacha oracle ok")
