"""Validates every reference oracle against published vectors (run by `python3 -m verif.setup`).

Each oracle module that wants validation defines `selftest() -> list[str]` returning
a list of failure messages (empty = ok).  Add the module name to MODULES."""
import importlib

MODULES = [
    "bn",
    "ec",
    "ecdsa",
    "streebog",
    "mdhash",
    "chacha",
    "gost28147",
    "dnsref",
    "radiusref",
    "httpgen",
    "inimodel",
    "netaddr",
    "ringmodel",
    "crc",
]


def main():
    ok = True
    for name in MODULES:
        try:
            mod = importlib.import_module("verif.oracles." + name)
            fails = mod.selftest()
        except Exception as e:  # a broken oracle must fail setup loudly
            fails = ["exception: %r" % (e,)]
        if fails:
            ok = False
            for f in fails:
                print("oracle selftest FAILED: %s: %s" % (name, f))
        else:
            print("oracle selftest ok: %s" % name)
    return ok
