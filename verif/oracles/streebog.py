"""GOST R 34.11-2012 ("Streebog", RFC 6986) and HMAC_GOSTR3411_2012 (RFC 7836) reference.

Written from the standard's definition, stdlib only, no dependence on /repo at run time:
  * Pi (S-box), Tau (byte transposition), the 64-row GF(2) matrix A and the twelve
    iteration constants C are the standard's small tables (literals below);
  * the fast path precomputes T[j][b] = l-contribution of byte value Pi[b] standing at
    byte position j of a 64-bit word, by GF(2) vector-matrix multiplication with A at
    import time; `lps_slow` evaluates S, P, L separately bit by bit and is used by
    `selftest` to validate the fast tables;
  * `selftest()` checks the RFC 6986 digests of M1/M2 (256 and 512 bit), the RFC 7836
    HMAC vectors, structural facts (Pi is a permutation, A is invertible over GF(2),
    Tau is the 8x8 transposition) and fast == slow on random blocks.

Byte convention: messages and digests are byte strings in stream order (the order
OpenSSL/gostsum print); the RFC prints the same values as big-endian numbers, i.e.
byte-reversed.  Internally a 512-bit vector is eight little-endian 64-bit words.
"""

PI = bytes.fromhex(
    "fceedd11cf6e3116fbc4fada23c5044de977f0db932e99ba1736f1bb14cd5fc1"
    "f918655ae25cef21811c3c428b018e4f058402aee36a8fa0060bed987fd4d31f"
    "eb342c51eac848abf22a68a2fd3aceccb5700e56080c7612bf7213479cb75d87"
    "15a19629107b9ac7f391786f9d9eb2b13275193dff358a7e6d54c680c3bd0d57"
    "dff524a93ea843c9d779d6f67c22b903e00fecde7a94b0bcdce828504e330a4a"
    "a79760731e0062441ab83882649f2641ad454692275e552f8ca3a57d69d5953b"
    "0758b34086ac1df730376be488d9e789e11b83494c3ff8fe8d53aa90cad88561"
    "207167a42d2b095bcb9b25d0bee56c5259a674d2e6f4b4c0d166afc2394b63b6"
)

# Tau: byte i of the result is byte TAU[i] of the argument (transposition of the 8x8 byte matrix).
TAU = tuple((i % 8) * 8 + i // 8 for i in range(64))

# Rows of the linear transformation l: bit 63 (most significant) of the argument selects A[0].
A = (
    0x8e20faa72ba0b470, 0x47107ddd9b505a38, 0xad08b0e0c3282d1c, 0xd8045870ef14980e,
    0x6c022c38f90a4c07, 0x3601161cf205268d, 0x1b8e0b0e798c13c8, 0x83478b07b2468764,
    0xa011d380818e8f40, 0x5086e740ce47c920, 0x2843fd2067adea10, 0x14aff010bdd87508,
    0x0ad97808d06cb404, 0x05e23c0468365a02, 0x8c711e02341b2d01, 0x46b60f011a83988e,
    0x90dab52a387ae76f, 0x486dd4151c3dfdb9, 0x24b86a840e90f0d2, 0x125c354207487869,
    0x092e94218d243cba, 0x8a174a9ec8121e5d, 0x4585254f64090fa0, 0xaccc9ca9328a8950,
    0x9d4df05d5f661451, 0xc0a878a0a1330aa6, 0x60543c50de970553, 0x302a1e286fc58ca7,
    0x18150f14b9ec46dd, 0x0c84890ad27623e0, 0x0642ca05693b9f70, 0x0321658cba93c138,
    0x86275df09ce8aaa8, 0x439da0784e745554, 0xafc0503c273aa42a, 0xd960281e9d1d5215,
    0xe230140fc0802984, 0x71180a8960409a42, 0xb60c05ca30204d21, 0x5b068c651810a89e,
    0x456c34887a3805b9, 0xac361a443d1c8cd2, 0x561b0d22900e4669, 0x2b838811480723ba,
    0x9bcf4486248d9f5d, 0xc3e9224312c8c1a0, 0xeffa11af0964ee50, 0xf97d86d98a327728,
    0xe4fa2054a80b329c, 0x727d102a548b194e, 0x39b008152acb8227, 0x9258048415eb419d,
    0x492c024284fbaec0, 0xaa16012142f35760, 0x550b8e9e21f7a530, 0xa48b474f9ef5dc18,
    0x70a6a56e2440598e, 0x3853dc371220a247, 0x1ca76e95091051ad, 0x0edd37c48a08a6d8,
    0x07e095624504536c, 0x8d70c431ac02a736, 0xc83862965601dd1b, 0x641c314b2b8ee083,
)

# Iteration constants C1..C12 as printed in RFC 6986 (big-endian 512-bit numbers).
C_HEX = (
    "b1085bda1ecadae9ebcb2f81c0657c1f2f6a76432e45d016714eb88d7585c4fc"
    "4b7ce09192676901a2422a08a460d31505767436cc744d23dd806559f2a64507",
    "6fa3b58aa99d2f1a4fe39d460f70b5d7f3feea720a232b9861d55e0f16b50131"
    "9ab5176b12d699585cb561c2db0aa7ca55dda21bd7cbcd56e679047021b19bb7",
    "f574dcac2bce2fc70a39fc286a3d843506f15e5f529c1f8bf2ea7514b1297b7b"
    "d3e20fe490359eb1c1c93a376062db09c2b6f443867adb31991e96f50aba0ab2",
    "ef1fdfb3e81566d2f948e1a05d71e4dd488e857e335c3c7d9d721cad685e353f"
    "a9d72c82ed03d675d8b71333935203be3453eaa193e837f1220cbebc84e3d12e",
    "4bea6bacad4747999a3f410c6ca923637f151c1f1686104a359e35d7800fffbd"
    "bfcd1747253af5a3dfff00b723271a167a56a27ea9ea63f5601758fd7c6cfe57",
    "ae4faeae1d3ad3d96fa4c33b7a3039c02d66c4f95142a46c187f9ab49af08ec6"
    "cffaa6b71c9ab7b40af21f66c2bec6b6bf71c57236904f35fa68407a46647d6e",
    "f4c70e16eeaac5ec51ac86febf240954399ec6c7e6bf87c9d3473e33197a93c9"
    "0992abc52d822c3706476983284a05043517454ca23c4af38886564d3a14d493",
    "9b1f5b424d93c9a703e7aa020c6e41414eb7f8719c36de1e89b4443b4ddbc49a"
    "f4892bcb929b069069d18d2bd1a5c42f36acc2355951a8d9a47f0dd4bf02e71e",
    "378f5a541631229b944c9ad8ec165fde3a7d3a1b258942243cd955b7e00d0984"
    "800a440bdbb2ceb17b2b8a9aa6079c540e38dc92cb1f2a607261445183235adb",
    "abbedea680056f52382ae548b2e4f3f38941e71cff8a78db1fffe18a1b336103"
    "9fe76702af69334b7a1e6c303b7652f43698fad1153bb6c374b4c7fb98459ced",
    "7bcd9ed0efc889fb3002c6cd635afe94d8fa6bbbebab07612001802114846679"
    "8a1d71efea48b9caefbacd1d7d476e98dea2594ac06fd85d6bcaa4cd81f32d1b",
    "378ee767f11631bad21380b00449b17acda43c32bcdf1d77f82012d430219f9b"
    "5d80ef9d1891cc86e71da4aa88e12852faf417d5d9b21b9948bc924af11bd720",
)

M64 = (1 << 64) - 1
M512 = (1 << 512) - 1
BLOCK = 64


def _words(b):
    """64 bytes (stream order) -> eight little-endian 64-bit words."""
    return [int.from_bytes(b[i:i + 8], "little") for i in range(0, 64, 8)]


def _bytes(w):
    return b"".join(x.to_bytes(8, "little") for x in w)


def _int_to_words(v):
    return [(v >> (64 * i)) & M64 for i in range(8)]


C = tuple(_int_to_words(int(h, 16)) for h in C_HEX)


def l_word(v):
    """l: 64-bit vector times the GF(2) matrix A (row A[0] belongs to the top bit)."""
    r = 0
    for i in range(64):
        if (v >> (63 - i)) & 1:
            r ^= A[i]
    return r


def lps_slow(w):
    """Definition-level L(P(S(w))) on eight words; used to validate the tables."""
    b = _bytes(w)
    s = bytes(PI[x] for x in b)
    p = bytes(s[TAU[i]] for i in range(64))
    return [l_word(x) for x in _words(p)]


def _build_tables():
    t = []
    for j in range(8):
        row = []
        for b in range(256):
            row.append(l_word(PI[b] << (8 * j)))
        t.append(tuple(row))
    return t


_T0, _T1, _T2, _T3, _T4, _T5, _T6, _T7 = _build_tables()
_SHIFTS = (0, 8, 16, 24, 32, 40, 48, 56)


def lps(w):
    """After S and the transposition P, byte j of result word i is S[byte i of word j];
    l is linear, so the word is the XOR of the per-byte contributions."""
    w0, w1, w2, w3, w4, w5, w6, w7 = w
    return [_T0[(w0 >> s) & 255] ^ _T1[(w1 >> s) & 255] ^ _T2[(w2 >> s) & 255] ^ _T3[(w3 >> s) & 255] ^
            _T4[(w4 >> s) & 255] ^ _T5[(w5 >> s) & 255] ^ _T6[(w6 >> s) & 255] ^ _T7[(w7 >> s) & 255]
            for s in _SHIFTS]


def _xor(a, b):
    return [x ^ y for x, y in zip(a, b)]


def g(h, n_words, m, _lps=lps):
    """Compression g_N(h, m) = E(LPS(h xor N), m) xor h xor m."""
    k = _lps(_xor(h, n_words))
    s = m
    for i in range(12):
        s = _lps(_xor(s, k))
        k = _lps(_xor(k, C[i]))
    s = _xor(s, k)
    return [a ^ b ^ c for a, b, c in zip(s, h, m)]


class Streebog:
    """Streaming interface: Streebog(bits).update(data)...digest().
    Midstate is exposed (h, n, sigma as ints / word lists) for state-injection tests."""

    def __init__(self, bits=512, data=b""):
        if bits not in (256, 512):
            raise ValueError("bits")
        self.bits = bits
        self.digest_size = bits // 8
        self.block_size = BLOCK
        self.h = _words(b"\x01" * 64) if bits == 256 else [0] * 8
        self.n = 0        # 512-bit counter of processed bits
        self.sigma = 0    # 512-bit checksum
        self.buf = b""
        if data:
            self.update(data)

    def copy(self):
        o = Streebog.__new__(Streebog)
        o.__dict__.update(self.__dict__)
        o.h = list(self.h)
        return o

    def _block(self, blk, nbits):
        m = _words(blk)
        self.h = g(self.h, _int_to_words(self.n), m)
        self.n = (self.n + nbits) & M512
        self.sigma = (self.sigma + int.from_bytes(blk, "little")) & M512

    def update(self, data):
        buf = self.buf + bytes(data)
        off = 0
        n = len(buf)
        while n - off >= 64:
            self._block(buf[off:off + 64], 512)
            off += 64
        self.buf = buf[off:]
        return self

    def digest(self):
        c = self.copy()
        r = len(c.buf)
        blk = c.buf + b"\x01" + b"\x00" * (63 - r)
        c._block(blk, 8 * r)
        zero = [0] * 8
        c.h = g(c.h, zero, _int_to_words(c.n))
        c.h = g(c.h, zero, _int_to_words(c.sigma))
        out = _bytes(c.h)
        return out if self.bits == 512 else out[32:]

    def hexdigest(self):
        return self.digest().hex()


def streebog256(data=b""):
    return Streebog(256, data).digest()


def streebog512(data=b""):
    return Streebog(512, data).digest()


def hmac_streebog(bits, key, msg):
    """RFC 2104 over Streebog-<bits> (RFC 7836 HMAC_GOSTR3411_2012_<bits>), block size 64."""
    key = bytes(key)
    if len(key) > BLOCK:
        key = Streebog(bits, key).digest()
    key = key + b"\x00" * (BLOCK - len(key))
    inner = Streebog(bits, bytes(x ^ 0x36 for x in key) + bytes(msg)).digest()
    return Streebog(bits, bytes(x ^ 0x5C for x in key) + inner).digest()


# ----------------------------------------------------------------------------
# Published vectors (hard-coded from the RFCs; RFC prints numbers, i.e. reversed bytes)
# ----------------------------------------------------------------------------
_M1 = b"012345678901234567890123456789012345678901234567890123456789012"
_M2_RFC = ("fbe2e5f0eee3c820fbeafaebef20fffbf0e1e0f0f520e0ed20e8ece0ebe5f0f2f120fff0eeec20f1"
           "20faf2fee5e2202ce8f6f3ede220e8e6eee1e8f0f2d1202ce8f0f2e5e220e5d1")
_VECTORS = (
    # (name, message bytes, bits, digest as printed in RFC 6986)
    ("rfc6986-M1-512", _M1, 512,
     "486f64c1917879417fef082b3381a4e211c324f074654c38823a7b76f830ad00"
     "fa1fbae42b1285c0352f227524bc9ab16254288dd6863dccd5b9f54a1ad0541b"),
    ("rfc6986-M1-256", _M1, 256,
     "00557be5e584fd52a449b16b0251d05d27f94ab76cbaa6da890b59d8ef1e159d"),
    ("rfc6986-M2-512", bytes.fromhex(_M2_RFC)[::-1], 512,
     "28fbc9bada033b1460642bdcddb90c3fb3e56c497ccd0f62b8a2ad4935e85f03"
     "7613966de4ee00531ae60f3b5a47f8dae06915d5f2f194996fcabf2622e6881e"),
    ("rfc6986-M2-256", bytes.fromhex(_M2_RFC)[::-1], 256,
     "508f7e553c06501d749a66fc28c6cac0b005746d97537fa85d9e40904efed29d"),
)
_HMAC_KEY = bytes(range(32))
_HMAC_T = bytes.fromhex("0126bdb87800af214341456563780100")
_HMAC_VECTORS = (
    ("rfc7836-hmac-256", 256, "a1aa5f7de402d7b3d323f2991c8d4534013137010a83754fd0af6d7cd4922ed9"),
    ("rfc7836-hmac-512", 512, "a59bab22ecae19c65fbde6e5f4e9f5d8549d31f037f9df9b905500e171923a77"
                               "3d5f1530f2ed7e964cb2eedc29e9ad2f3afe93b2814f79f5000ffc0366c251e6"),
)


def selftest():
    fails = []
    # structure of the small tables
    if sorted(PI) != list(range(256)):
        fails.append("Pi is not a permutation of 0..255")
    if any(TAU[TAU[i]] != i for i in range(64)) or sorted(TAU) != list(range(64)):
        fails.append("Tau is not an involutive permutation")
    rows = list(A)
    rank = 0
    for bit in range(63, -1, -1):
        piv = None
        for i in range(rank, 64):
            if (rows[i] >> bit) & 1:
                piv = i
                break
        if piv is None:
            continue
        rows[rank], rows[piv] = rows[piv], rows[rank]
        for i in range(64):
            if i != rank and (rows[i] >> bit) & 1:
                rows[i] ^= rows[rank]
        rank += 1
    if rank != 64:
        fails.append("matrix A is singular over GF(2) (rank %d)" % rank)
    if _words(b"\x01" * 64) != [0x0101010101010101] * 8:
        fails.append("word packing")
    # fast tables == definition
    import hashlib
    seed = b"streebog-selftest"
    for i in range(24):
        seed = hashlib.sha512(seed).digest()
        w = _words(seed)
        if lps(w) != lps_slow(w):
            fails.append("lps fast != slow on sample %d" % i)
            break
    h0 = _words(hashlib.sha512(b"h").digest())
    m0 = _words(hashlib.sha512(b"m").digest())
    if g(h0, _int_to_words(512), m0) != g(h0, _int_to_words(512), m0, _lps=lps_slow):
        fails.append("g fast != slow")
    # RFC 6986
    for name, msg, bits, rfc_hex in _VECTORS:
        want = bytes.fromhex(rfc_hex)[::-1]
        got = Streebog(bits, msg).digest()
        if got != want:
            fails.append("%s: got %s want %s" % (name, got.hex(), want.hex()))
        # chunked update must agree with one-shot
        s = Streebog(bits)
        for i in range(0, len(msg), 7):
            s.update(msg[i:i + 7])
        if s.digest() != want:
            fails.append("%s: chunked update differs" % name)
    # RFC 7836
    for name, bits, hexd in _HMAC_VECTORS:
        got = hmac_streebog(bits, _HMAC_KEY, _HMAC_T)
        if got.hex() != hexd:
            fails.append("%s: got %s want %s" % (name, got.hex(), hexd))
    return fails


if __name__ == "__main__":
    f = selftest()
    print("streebog selftest:", "ok" if not f else f)
