"""Reference RADIUS packet model for C15: RFC 2865 (packet layout, 5.2 User-Password
hiding, Response Authenticator), RFC 2866 (Accounting Request/Response Authenticator),
RFC 2869 5.14 / RFC 3579 3.2 (Message-Authenticator), RFC 5176 (CoA / Disconnect),
RFC 5997 (Status-Server).  hashlib.md5 / hmac only; independent of the library."""
import hashlib
import hmac
import struct

ACCESS_REQUEST, ACCESS_ACCEPT, ACCESS_REJECT = 1, 2, 3
ACCT_REQUEST, ACCT_RESPONSE = 4, 5
ACCESS_CHALLENGE, STATUS_SERVER, STATUS_CLIENT = 11, 12, 13
DISC_REQUEST, DISC_ACK, DISC_NAK = 40, 41, 42
COA_REQUEST, COA_ACK, COA_NAK = 43, 44, 45

ALL_CODES = (1, 2, 3, 4, 5, 11, 12, 13, 40, 41, 42, 43, 44, 45)
RANDOM_AUTH_CODES = (ACCESS_REQUEST, STATUS_SERVER, STATUS_CLIENT)   # Request Authenticator is a nonce
ZERO_AUTH_REQ_CODES = (ACCT_REQUEST, DISC_REQUEST, COA_REQUEST)        # MD5 over 16 zero octets
REPLY_CODES = (ACCESS_ACCEPT, ACCESS_REJECT, ACCESS_CHALLENGE, ACCT_RESPONSE,
               DISC_ACK, DISC_NAK, COA_ACK, COA_NAK)                   # MD5 over the request's authenticator
REPLY_TO = {ACCESS_ACCEPT: ACCESS_REQUEST, ACCESS_REJECT: ACCESS_REQUEST, ACCESS_CHALLENGE: ACCESS_REQUEST,
            ACCT_RESPONSE: ACCT_REQUEST, DISC_ACK: DISC_REQUEST, DISC_NAK: DISC_REQUEST,
            COA_ACK: COA_REQUEST, COA_NAK: COA_REQUEST}

T_USER_PASSWORD = 2
T_CHAP_PASSWORD = 3
T_EAP_MESSAGE = 79
T_MSG_AUTH = 80
MAX_PKT = 4096
ZERO16 = b"\x00" * 16


class RadiusError(Exception):
    pass


# ---------------------------------------------------------------------------
# RFC length rules (value length, i.e. Length - 2) of well-known attributes, taken from
# the attribute definitions in RFC 2865 ch.5, RFC 2866 ch.5, RFC 2869 ch.5, RFC 3162.
# Only these are in the oracle's must-accept set; everything else is checked for
# consistency only.  (min, max)
# ---------------------------------------------------------------------------
_STR = (1, 253)
_INT = (4, 4)
RFC_VALUE_LEN = {
    1: _STR, 3: (17, 17), 4: _INT, 5: _INT, 6: _INT, 7: _INT, 8: _INT, 9: _INT, 10: _INT, 11: _STR,
    12: _INT, 13: _INT, 14: _INT, 15: _INT, 16: _INT, 18: _STR, 19: _STR, 20: _STR, 22: _STR, 23: _INT,
    24: _STR, 25: _STR, 26: (5, 253), 27: _INT, 28: _INT, 29: _INT, 30: _STR, 31: _STR, 32: _STR, 33: _STR,
    34: _STR, 35: _STR, 36: (32, 32), 37: _INT, 38: _INT, 39: _STR,
    40: _INT, 41: _INT, 42: _INT, 43: _INT, 44: _STR, 45: _INT, 46: _INT, 47: _INT, 48: _INT, 49: _INT,
    50: _STR, 51: _INT, 52: _INT, 53: _INT, 55: _INT,
    60: (5, 253), 61: _INT, 62: _INT, 63: _STR, 77: _STR, 79: _STR, 85: _INT, 87: _STR, 88: _STR,
    95: (16, 16), 96: (8, 8), 97: (2, 18), 98: (16, 16), 99: _STR, 100: _STR, 101: _INT,
}


def rfc_len_ok(atype, n):
    r = RFC_VALUE_LEN.get(atype)
    return r is not None and r[0] <= n <= r[1]


# ---------------------------------------------------------------------------
# RFC 2865 5.2
# ---------------------------------------------------------------------------
def pad_password(pw):
    if len(pw) > 128:
        raise RadiusError("password longer than 128")
    n = max(16, (len(pw) + 15) // 16 * 16)
    return bytes(pw) + b"\x00" * (n - len(pw))


def hide_password(pw, secret, req_auth):
    p = pad_password(pw)
    out = bytearray()
    prev = bytes(req_auth)
    for i in range(0, len(p), 16):
        b = hashlib.md5(bytes(secret) + prev).digest()
        c = bytes(x ^ y for x, y in zip(p[i:i + 16], b))
        out += c
        prev = c
    return bytes(out)


def unhide_password(enc, secret, req_auth):
    if len(enc) == 0 or len(enc) % 16 or len(enc) > 128:
        raise RadiusError("hidden password length")
    out = bytearray()
    prev = bytes(req_auth)
    for i in range(0, len(enc), 16):
        b = hashlib.md5(bytes(secret) + prev).digest()
        c = bytes(enc[i:i + 16])
        out += bytes(x ^ y for x, y in zip(c, b))
        prev = c
    return bytes(out)


# ---------------------------------------------------------------------------
# packets
# ---------------------------------------------------------------------------
def build(code, ident, auth16, attrs):
    body = bytearray()
    for t, v in attrs:
        if not (0 <= len(v) <= 253) or not (0 <= t <= 255):
            raise RadiusError("attribute size")
        body += bytes([t, len(v) + 2]) + bytes(v)
    ln = 20 + len(body)
    if ln > 0xFFFF:
        raise RadiusError("packet too long")
    return bytes([code, ident]) + struct.pack(">H", ln) + bytes(auth16) + bytes(body)


def parse(pkt, recv_size=None):
    """Structural parse per RFC 2865 ch.3: Length 20..4096 and <= received octets
    (octets beyond Length are padding and ignored), every attribute Length >= 2 and
    inside the packet.  Returns (code, id, length, auth, [(type, value, offset)])."""
    pkt = bytes(pkt)
    if recv_size is None:
        recv_size = len(pkt)
    if recv_size < 20 or len(pkt) < 20:
        raise RadiusError("short")
    code, ident, ln = pkt[0], pkt[1], struct.unpack(">H", pkt[2:4])[0]
    if ln < 20 or ln > MAX_PKT or ln > recv_size:
        raise RadiusError("length field")
    attrs = []
    off = 20
    while off < ln:
        if ln - off < 2:
            raise RadiusError("attribute header")
        t, l = pkt[off], pkt[off + 1]
        if l < 2 or off + l > ln:
            raise RadiusError("attribute length")
        attrs.append((t, pkt[off + 2:off + l], off))
        off += l
    return code, ident, ln, pkt[4:20], attrs


def _auth_for_digest(code, pkt_auth, req_auth, req_code=None):
    """Which 16 octets stand in the Authenticator position when the MD5 / HMAC-MD5 of a
    packet with this code is computed.  None = not computable (request missing)."""
    if code in RANDOM_AUTH_CODES:
        return bytes(pkt_auth)
    if code in ZERO_AUTH_REQ_CODES:
        return ZERO16
    if code in REPLY_CODES:
        return None if req_auth is None else bytes(req_auth)
    return None


def message_authenticator(pkt, ln, attrs, auth_field, secret):
    """HMAC-MD5 over Code..Length, the given Authenticator octets and the attributes with
    the (first) Message-Authenticator value replaced by 16 zero octets."""
    ma = [a for a in attrs if a[0] == T_MSG_AUTH]
    if not ma:
        return None
    t, v, off = ma[0]
    if len(v) != 16:
        raise RadiusError("Message-Authenticator length")
    body = bytearray(pkt[20:ln])
    body[off + 2 - 20:off + 18 - 20] = ZERO16
    return hmac.new(bytes(secret), bytes(pkt[0:4]) + bytes(auth_field) + bytes(body), hashlib.md5).digest()


def packet_authenticator(pkt, ln, auth_field, secret):
    return hashlib.md5(bytes(pkt[0:4]) + bytes(auth_field) + bytes(pkt[20:ln]) + bytes(secret)).digest()


def sign(code, ident, auth16, attrs, secret, req_auth=None):
    """attrs: list of (type, value) with User-Password given in clear and
    Message-Authenticator (if wanted) present with any 16-octet value.  auth16 is the
    Request Authenticator nonce for codes 1/12/13 (ignored otherwise).  Returns the
    signed packet octets."""
    if code in RANDOM_AUTH_CODES:
        field = bytes(auth16)
    elif code in ZERO_AUTH_REQ_CODES:
        field = ZERO16
    else:
        if req_auth is None:
            raise RadiusError("reply needs the request authenticator")
        field = bytes(req_auth)
    out = []
    seen_pw = False
    seen_ma = False
    for t, v in attrs:
        if t == T_USER_PASSWORD and not seen_pw:
            seen_pw = True
            v = hide_password(v, secret, field)
        elif t == T_MSG_AUTH and not seen_ma:
            seen_ma = True
            v = ZERO16
        out.append((t, v))
    pkt = bytearray(build(code, ident, field, out))
    c, i, ln, a, parsed = parse(pkt)
    mac = message_authenticator(pkt, ln, parsed, field, secret)
    if mac is not None:
        off = [p for p in parsed if p[0] == T_MSG_AUTH][0][2]
        pkt[off + 2:off + 18] = mac
    if code not in RANDOM_AUTH_CODES:
        pkt[4:20] = packet_authenticator(pkt, ln, field, secret)
    return bytes(pkt)


def must_reject(pkt, secret, req_auth, recv_size=None):
    """True when RFC processing has to discard the packet: malformed, a present
    Message-Authenticator that does not match, or a computed (Request/Response)
    Authenticator that does not match.  False = nothing the RFCs define detects a
    problem (e.g. any octet of an Access-Request without Message-Authenticator, whose
    Authenticator is a nonce).  Returns (bool, reason)."""
    try:
        code, ident, ln, auth, attrs = parse(pkt, recv_size)
    except RadiusError as e:
        return True, "malformed:%s" % e
    if code not in ALL_CODES:
        return True, "unknown-code"
    field = _auth_for_digest(code, auth, req_auth)
    has_ma = any(a[0] == T_MSG_AUTH for a in attrs)
    if has_ma:
        if field is None:
            return True, "reply-without-request"
        try:
            mac = message_authenticator(pkt, ln, attrs, field, secret)
        except RadiusError as e:
            return True, "malformed:%s" % e
        got = [a for a in attrs if a[0] == T_MSG_AUTH][0][1]
        if not hmac.compare_digest(mac, got):
            return True, "message-authenticator"
    if code not in RANDOM_AUTH_CODES:
        if field is None:
            return True, "reply-without-request"
        if not hmac.compare_digest(packet_authenticator(pkt, ln, field, secret), auth):
            return True, "authenticator"
    if code == STATUS_SERVER and not has_ma:
        return True, "status-server-without-ma"       # RFC 5997 3
    if any(a[0] == T_EAP_MESSAGE for a in attrs) and not has_ma:
        return True, "eap-without-ma"                  # RFC 3579 3.1
    return False, "nothing-covers-it"


def selftest():
    fails = []
    # RFC 2202 test case 1 for HMAC-MD5 (guards the hmac module binding)
    if hmac.new(b"\x0b" * 16, b"Hi There", hashlib.md5).hexdigest() != "9294727a3638bb1c13f48ef8158bfc9d":
        fails.append("hmac-md5 rfc2202")
    # RFC 2865 7.1: user nemo, password "arctangent", secret "xyzzy5461"
    secret = b"xyzzy5461"
    ra = bytes.fromhex("0f403f9473978057bd83d5cb98f4227a")
    req = bytes.fromhex("010000380f403f9473978057bd83d5cb98f4227a01066e656d6f02120dbe708d93d413ce3196e43f782a0aee"
                        "0406c0a80110050600000003")
    mine = sign(1, 0, ra, [(1, b"nemo"), (2, b"arctangent"), (4, bytes([192, 168, 1, 16])), (5, b"\0\0\0\x03")],
                secret)
    if mine != req:
        fails.append("rfc2865 7.1 request: %s" % mine.hex())
    if hide_password(b"arctangent", secret, ra).hex() != "0dbe708d93d413ce3196e43f782a0aee":
        fails.append("rfc2865 7.1 hidden password")
    if unhide_password(bytes.fromhex("0dbe708d93d413ce3196e43f782a0aee"), secret, ra).rstrip(b"\0") != b"arctangent":
        fails.append("rfc2865 7.1 unhide")
    rsp = bytes.fromhex("0200002686fe220e7624ba2a1005f6bf9b55e0b20606000000010f06000000000e06c0a80103")
    mine = sign(2, 0, None, [(6, b"\0\0\0\x01"), (15, b"\0\0\0\0"), (14, bytes([192, 168, 1, 3]))], secret, req_auth=ra)
    if mine != rsp:
        fails.append("rfc2865 7.1 response: %s" % mine.hex())
    if must_reject(rsp, secret, ra)[0]:
        fails.append("rfc2865 7.1 response rejected")
    bad = bytearray(rsp)
    bad[25] ^= 1
    if not must_reject(bytes(bad), secret, ra)[0] or not must_reject(rsp, b"xyzzy5462", ra)[0]:
        fails.append("corrupted response accepted")
    # multi-block chaining: block i uses ciphertext block i-1
    pw = bytes(range(1, 41))
    h = hide_password(pw, secret, ra)
    if len(h) != 48 or unhide_password(h, secret, ra) != pad_password(pw):
        fails.append("3-block password")
    b3 = hashlib.md5(secret + h[16:32]).digest()
    if bytes(x ^ y for x, y in zip(h[32:48], b3)) != pad_password(pw)[32:48]:
        fails.append("block 3 chaining")
    # Message-Authenticator round trip on every code
    for code in ALL_CODES:
        rq = ra if code in REPLY_CODES else None
        p = sign(code, 7, ra, [(1, b"x"), (T_MSG_AUTH, ZERO16), (18, b"hello")], secret, req_auth=rq)
        if must_reject(p, secret, rq)[0]:
            fails.append("signed code %d rejected" % code)
        for pos in (0, 1, 3, 5, 21, 24, 30, len(p) - 1):
            q = bytearray(p)
            q[pos] ^= 0x40
            if not must_reject(bytes(q), secret, rq)[0]:
                fails.append("code %d: corruption at %d accepted" % (code, pos))
    return fails
