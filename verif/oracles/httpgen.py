"""RFC 7230 / RFC 3986 grammar-based generator of HTTP request heads and status lines for
C20.  Every generated block comes with its own AST: the exact sub-spans (offset, length)
of method, request-target, scheme, authority, path, query, version, status code, reason
phrase, and for every header field its name and the span of its value with optional
whitespace (SP / HTAB and obs-fold line breaks) trimmed from both ends.

The block is what src/proto/http_server.c hands to the parser: start line and header
fields joined by CRLF, *without* the terminating CRLF CRLF.

Grammar used (RFC 7230 3.1.1, 3.1.2, 3.2, 5.3; RFC 3986 3):
  request-line = method SP request-target SP HTTP-version
  method       = token
  request-target = origin-form / absolute-form / authority-form / asterisk-form
  origin-form  = absolute-path [ "?" query ]      absolute-path = 1*( "/" segment )
  absolute-form = scheme ":" "//" authority path-abempty [ "?" query ]
  authority-form = host ":" port  (CONNECT only)   asterisk-form = "*" (OPTIONS only)
  status-line  = HTTP-version SP 3DIGIT SP *( HTAB / SP / VCHAR / obs-text )
  header-field = field-name ":" OWS field-value OWS
  field-value  = *( field-content / obs-fold )     obs-fold = CRLF 1*( SP / HTAB )
"""

TCHAR = b"!#$%&'*+-.^_`|~0123456789abcdefghijklmnopqrstuvwxyzABCDEFGHIJKLMNOPQRSTUVWXYZ"
UPPER = b"ABCDEFGHIJKLMNOPQRSTUVWXYZ"
ALPHA = b"abcdefghijklmnopqrstuvwxyzABCDEFGHIJKLMNOPQRSTUVWXYZ"
DIGIT = b"0123456789"
UNRESERVED = ALPHA + DIGIT + b"-._~"
SUBDELIMS = b"!$&'()*+,;="
PCHAR = UNRESERVED + SUBDELIMS + b":@"
QCHAR = PCHAR + b"/?"
VCHAR = bytes(range(0x21, 0x7F))

KNOWN_METHODS = (b"OPTIONS", b"GET", b"HEAD", b"POST", b"PUT", b"DELETE", b"TRACE", b"CONNECT", b"NOTIFY",
                 b"M-SEARCH", b"M-POST", b"SUBSCRIBE", b"UNSUBSCRIBE")
METHOD_CODE = {m: i + 1 for i, m in enumerate(KNOWN_METHODS)}     # include/proto/http.h HTTP_REQ_METHOD_*
OTHER_METHODS = (b"PATCH", b"PROPFIND", b"MKCOL", b"LOCK", b"REPORT", b"PURGE", b"GETX", b"PUTS", b"M-GET",
                 b"NOTIFYX", b"G", b"POS", b"SUBSCRIBER", b"UNSUBSCRIBED", b"OPTION", b"CONNECTS")

COMMON_HEADERS = (b"Accept", b"Accept-Encoding", b"Accept-Language", b"User-Agent", b"Connection", b"Cookie",
                  b"Referer", b"Cache-Control", b"Pragma", b"Range", b"If-Modified-Since", b"Upgrade", b"Via",
                  b"X-Forwarded-For", b"Content-Type", b"Authorization", b"ST", b"MAN", b"MX", b"NT", b"NTS", b"SID",
                  b"CALLBACK", b"TIMEOUT", b"SOAPAction", b"Date", b"Server", b"Location")
# names that contain / extend / are contained in the three names the security check counts
NEAR_MISS = (b"Hostname", b"Hos", b"X-Host", b"Host-Id", b"Hosts", b"Content-Lengt", b"Content-Length2",
             b"X-Content-Length", b"Content-Length-Hint", b"Transfer-Encodin", b"Transfer-Encodings",
             b"X-Transfer-Encoding", b"Transfer", b"Content", b"TE", b"ost")


class Span:
    __slots__ = ("off", "len")

    def __init__(self, off, ln):
        self.off = off
        self.len = ln

    def of(self, buf):
        return buf[self.off:self.off + self.len]

    def t(self):
        return (self.off, self.len)


def rnd_from(rng, alphabet, n):
    return bytes(alphabet[rng.below(len(alphabet))] for _ in range(n))


def rnd_case(rng, b):
    out = bytearray(b)
    for i, c in enumerate(out):
        if (65 <= c <= 90 or 97 <= c <= 122) and rng.chance(1, 2):
            out[i] = c ^ 0x20
    return bytes(out)


def pct(rng):
    return b"%" + rnd_from(rng, b"0123456789ABCDEFabcdef", 2)


def gen_chars(rng, alphabet, n, pct_rate=8):
    out = bytearray()
    for _ in range(n):
        if rng.below(100) < pct_rate:
            out += pct(rng)
        else:
            out.append(alphabet[rng.below(len(alphabet))])
    return bytes(out)


# ----------------------------------------------------------------------------
# request-target
# ----------------------------------------------------------------------------
def gen_segment(rng):
    m = rng.below(10)
    if m == 0:
        return b""
    if m < 7:
        return gen_chars(rng, UNRESERVED, rng.range(1, 10), 5)
    return gen_chars(rng, PCHAR, rng.range(1, 12))


def gen_path(rng, allow_empty):
    """path-abempty; returns bytes ('' or starting with '/')"""
    m = rng.below(100)
    if allow_empty and m < 18:
        return b""
    if m < 30:
        return b"/"
    if m < 40:
        return b"/" * rng.range(2, 5)                       # only slashes
    segs = [gen_segment(rng) for _ in range(rng.range(1, 6))]
    p = b"".join(b"/" + s for s in segs)
    m = rng.below(10)
    if m < 2:
        p = b"/" * rng.range(1, 3) + p                      # redundant leading slashes
    if m in (1, 2, 3):
        p = p + b"/" * rng.range(1, 3)                      # trailing slashes
    if m == 4:
        p = p.replace(b"/", b"//", 1)
    return p


def gen_query(rng):
    m = rng.below(100)
    if m < 10:
        return b""
    if m < 20:
        return gen_chars(rng, QCHAR, rng.range(1, 20))
    pairs = []
    keys = [gen_chars(rng, UNRESERVED, rng.range(1, 6), 0) for _ in range(rng.range(1, 4))]
    for _ in range(rng.range(1, 6)):
        k = rng.choice(keys) if rng.chance(3, 4) else b""     # duplicate and empty keys
        f = rng.below(10)
        if f < 6:
            pairs.append(k + b"=" + gen_chars(rng, UNRESERVED + b":/?@", rng.range(0, 10)))
        elif f < 8:
            pairs.append(k)                                   # key without value
        else:
            pairs.append(k + b"=")
    q = b"&".join(pairs)
    if rng.chance(1, 12):
        q += b"&" + rng.choice((b"u=http://example.org/x", b"next=https://a.b/?c=d", b"r=ftp://h"))
    if rng.chance(1, 15):
        q = b"&" + q + b"&&"
    return q


def gen_host(rng):
    m = rng.below(10)
    if m < 5:
        return b".".join(gen_chars(rng, ALPHA + DIGIT + b"-", rng.range(1, 10), 0) for _ in range(rng.range(1, 4)))
    if m < 7:
        return b".".join(str(rng.below(256)).encode() for _ in range(4))
    if m < 9:
        return b"[" + rng.choice((b"::1", b"2001:db8::1", b"fe80::1%25eth0", b"::ffff:1.2.3.4")) + b"]"
    return gen_chars(rng, UNRESERVED + SUBDELIMS, rng.range(1, 12))


def gen_authority(rng, need_port=False):
    a = b""
    if not need_port and rng.chance(1, 8):
        a = gen_chars(rng, UNRESERVED + SUBDELIMS + b":", rng.range(1, 8)) + b"@"
    a += gen_host(rng)
    if need_port or rng.chance(1, 2):
        a += b":" + (str(rng.choice((80, 443, 8080, 1900, 0, 65535, rng.below(65536)))).encode()
                     if (need_port or rng.chance(9, 10)) else b"")
    return a


def gen_scheme(rng):
    m = rng.below(10)
    if m < 6:
        return rng.choice((b"http", b"https", b"HTTP", b"Http"))
    if m < 8:
        return rng.choice((b"ws", b"wss", b"ftp", b"rtsp"))
    return rnd_from(rng, ALPHA, 1) + rnd_from(rng, ALPHA + DIGIT + b"+-.", rng.range(0, 6))


class Target:
    """form, raw octets and spans relative to the start of the target"""

    def __init__(self, form, raw, scheme=None, authority=None, path=None, query=None):
        self.form, self.raw = form, raw
        self.scheme, self.authority, self.path, self.query = scheme, authority, path, query


def gen_target(rng, method):
    if method == b"CONNECT":
        a = gen_authority(rng, need_port=True)
        return Target("authority", a, authority=Span(0, len(a)))
    if method == b"OPTIONS" and rng.chance(1, 3):
        return Target("asterisk", b"*")
    if rng.chance(3, 10):
        sch = gen_scheme(rng)
        auth = gen_authority(rng)
        path = gen_path(rng, allow_empty=True)
        raw = sch + b"://" + auth + path
        t = Target("absolute", raw, scheme=Span(0, len(sch)), authority=Span(len(sch) + 3, len(auth)),
                   path=Span(len(sch) + 3 + len(auth), len(path)))
    else:
        path = gen_path(rng, allow_empty=False)
        raw = path
        t = Target("origin", raw, path=Span(0, len(path)))
    if rng.chance(2, 5):
        q = gen_query(rng)
        t.query = Span(len(t.raw) + 1, len(q))
        t.raw = t.raw + b"?" + q
    return t


def gen_method(rng):
    m = rng.below(100)
    if m < 70:
        return rng.choice(KNOWN_METHODS), "known"
    if m < 85:
        return rng.choice(OTHER_METHODS), "other-upper"
    if m < 93:
        return rnd_from(rng, UPPER, 1) + rnd_from(rng, TCHAR, rng.range(0, 10)), "token-upper-first"
    # RFC-valid tokens that do not start with an upper-case letter (the parser refuses them by design)
    return rnd_from(rng, b"abcdefghijklmnopqrstuvwxyz!#$%&'*+-.^_`|~0123456789", 1) + rnd_from(rng, TCHAR, rng.range(1, 8)), \
        "token-other-first"


def gen_version(rng):
    m = rng.below(10)
    if m < 5:
        return (1, 1)
    if m < 8:
        return (1, 0)
    return (rng.below(10), rng.below(10))


# ----------------------------------------------------------------------------
# header fields
# ----------------------------------------------------------------------------
class Field:
    """name, raw = everything between ':' and the CRLF that ends the field (may contain
    obs-fold), value span (trimmed) is filled in when the block is assembled"""

    def __init__(self, name, raw):
        self.name = name
        self.raw = raw
        self.name_off = None
        self.value = None     # Span in block

    def trimmed_bounds(self):
        r = self.raw
        a, b = 0, len(r)
        while a < b and r[a] in b" \t\r\n":
            a += 1
        while b > a and r[b - 1] in b" \t\r\n":
            b -= 1
        return a, b


def gen_ows(rng):
    m = rng.below(10)
    if m < 2:
        return b""
    if m < 7:
        return b" "
    if m < 8:
        return b"\t"
    return rnd_from(rng, b" \t", rng.range(2, 4))


def gen_fold(rng):
    return b"\r\n" + rnd_from(rng, b" \t", rng.range(1, 3))


def gen_word(rng, obs_text=False):
    m = rng.below(10)
    if m < 6:
        return rnd_from(rng, ALPHA + DIGIT + b"-_./", rng.range(1, 12))
    if m < 8:
        return rng.choice((b"a:b", b"http://h/p", b"12:34:56", b"x=y;q=0.5", b"\"q s\"", b"Host:", b"host:x",
                           b"Content-Length:5", b"*/*", b"chunked", b"gzip,", b"0", b"close", b"ssdp:all",
                           b"\"ssdp:discover\"", b"uuid:1-2"))
    if obs_text and m == 8:
        return rnd_from(rng, bytes(range(0x80, 0x100)), rng.range(1, 4))
    return rnd_from(rng, VCHAR, rng.range(1, 10))


def gen_value(rng, kind=None, obs_text=False):
    """raw field value (after the colon) with OWS and possibly obs-fold"""
    m = rng.below(100)
    if kind == "cl":
        core = str(rng.choice((0, 5, 42, 1024, 4294967296, rng.below(100000)))).encode()
        words = [core]
    elif kind == "te":
        words = [rng.choice((b"chunked", b"Chunked", b"gzip, chunked", b"identity", b"gzip"))]
    elif kind == "host":
        words = [gen_authority(rng)]
    elif m < 8:
        words = []
    else:
        words = [gen_word(rng, obs_text) for _ in range(rng.range(1, 5))]
    folding = rng.chance(1, 5)
    out = bytearray()
    # leading OWS (possibly a fold directly after the colon)
    if folding and rng.chance(1, 4):
        out += gen_ows(rng) + gen_fold(rng)
    else:
        out += gen_ows(rng)
    for i, w in enumerate(words):
        if i:
            if folding and rng.chance(1, 2):
                out += gen_ows(rng) + gen_fold(rng)
            else:
                out += rnd_from(rng, b" \t", 1) if rng.chance(9, 10) else b"  "
        out += w
    if folding and rng.chance(1, 4):
        out += gen_fold(rng)                         # trailing fold: continuation line of blanks only
    else:
        out += gen_ows(rng) if rng.chance(1, 3) else b""
    return bytes(out)


def gen_field_name(rng):
    m = rng.below(100)
    if m < 60:
        return rnd_case(rng, rng.choice(COMMON_HEADERS)) if rng.chance(1, 3) else rng.choice(COMMON_HEADERS)
    if m < 80:
        return rnd_case(rng, rng.choice(NEAR_MISS)) if rng.chance(1, 2) else rng.choice(NEAR_MISS)
    if m < 92:
        return b"X-" + rnd_from(rng, ALPHA + DIGIT + b"-", rng.range(1, 10))
    return rnd_from(rng, TCHAR, rng.range(1, 12))


SPECIAL = {"host": b"Host", "cl": b"Content-Length", "te": b"Transfer-Encoding"}


def gen_fields(rng, method, obs_text=False, want=None):
    """a header set free of the seven patterns: at most one Host / Content-Length /
    Transfer-Encoding, not both framing fields, no Content-Length with GET.
    want: dict overriding presence of host/cl/te (True/False)."""
    want = dict(want or {})
    fields = []
    for _ in range(rng.choice((0, 1, 2, 3, 4, 5, 6, 8, 12))):
        nm = gen_field_name(rng)
        if nm.lower() in (b"host", b"content-length", b"transfer-encoding"):
            continue
        fields.append(Field(nm, gen_value(rng, obs_text=obs_text)))
        if rng.chance(1, 6):                          # repeated ordinary field, other letter case
            fields.append(Field(rnd_case(rng, nm), gen_value(rng, obs_text=obs_text)))
    host = want.get("host", rng.chance(4, 5))
    framing = want.get("framing")
    if framing is None:
        r = rng.below(10)
        framing = None if r < 5 else "cl" if r < 8 else "te"
        if method == b"GET" and framing == "cl":
            framing = None
    for kind in (("host",) if host else ()) + ((framing,) if framing else ()):
        nm = SPECIAL[kind]
        nm = rnd_case(rng, nm) if rng.chance(1, 2) else nm
        fields.insert(rng.below(len(fields) + 1), Field(nm, gen_value(rng, kind)))
    return fields


# ----------------------------------------------------------------------------
# blocks
# ----------------------------------------------------------------------------
class Block:
    def __init__(self):
        self.kind = None          # 'request' / 'status'
        self.data = b""
        self.spans = {}           # name -> Span or None
        self.fields = []
        self.method = None
        self.method_class = None
        self.form = None
        self.version = None
        self.status = None

    def assemble(self, line, fields):
        out = bytearray(line)
        for f in fields:
            out += b"\r\n"
            f.name_off = len(out)
            out += f.name + b":"
            base = len(out)
            a, b = f.trimmed_bounds()
            f.value = Span(base + a, b - a)
            out += f.raw
        self.data = bytes(out)
        self.fields = fields
        return self

    def lookup(self, name):
        """trimmed value spans of the fields whose name equals `name` ignoring ASCII case"""
        low = name.lower()
        return [f.value for f in self.fields if f.name.lower() == low]


def gen_request(rng, obs_text=False, want=None, method=None):
    b = Block()
    b.kind = "request"
    if method is None:
        b.method, b.method_class = gen_method(rng)
    else:
        b.method, b.method_class = method, "known" if method in METHOD_CODE else "other-upper"
    t = gen_target(rng, b.method)
    b.form = t.form
    b.version = gen_version(rng)
    ver = b"HTTP/%d.%d" % b.version
    line = b.method + b" " + t.raw + b" " + ver
    toff = len(b.method) + 1
    b.spans["line"] = Span(0, len(line))
    b.spans["method"] = Span(0, len(b.method))
    b.spans["target"] = Span(toff, len(t.raw))
    for k in ("scheme", "authority", "path", "query"):
        s = getattr(t, k)
        b.spans[k] = Span(toff + s.off, s.len) if s is not None else None
    b.spans["version"] = Span(toff + len(t.raw) + 1, len(ver))
    return b.assemble(line, gen_fields(rng, b.method, obs_text=obs_text, want=want))


REASONS = (b"OK", b"Not Found", b"Partial Content", b"", b"Moved Permanently", b"Internal Server Error",
           b"Non-Authoritative Information", b"  spaced  ", b"tab\there", b"I'm a teapot")


def gen_status(rng, obs_text=False):
    b = Block()
    b.kind = "status"
    b.version = gen_version(rng)
    ver = b"HTTP/%d.%d" % b.version
    b.status = rng.choice((100, 101, 200, 204, 206, 301, 304, 400, 404, 500, 505, 599, 999, 0, rng.below(1000)))
    code = b"%03d" % b.status
    m = rng.below(10)
    if m < 7:
        reason = rng.choice(REASONS)
    elif obs_text and m == 7:
        reason = b"caf\xe9"
    else:
        reason = rnd_from(rng, VCHAR + b" \t", rng.range(0, 20))
    line = ver + b" " + code + b" " + reason
    b.spans["line"] = Span(0, len(line))
    b.spans["version"] = Span(0, len(ver))
    b.spans["status"] = Span(len(ver) + 1, 3)
    b.spans["reason"] = Span(len(ver) + 5, len(reason))
    fields = gen_fields(rng, None, obs_text=obs_text) if rng.chance(4, 5) else []
    return b.assemble(line, fields)


# ----------------------------------------------------------------------------
# the seven patterns, detected on raw octets (independent of the AST)
# ----------------------------------------------------------------------------
def has_ctl(data):
    """control octet other than HTAB and the CR LF pair: 0x00-0x08, 0x0A-0x1F, 0x7F, where CR
    directly followed by LF (and that LF) is a line break, not a control octet"""
    n = len(data)
    i = 0
    while i < n:
        c = data[i]
        if c == 13 and i + 1 < n and data[i + 1] == 10:
            i += 2
            continue
        if (c < 32 and c != 9) or c == 127:
            return True
        i += 1
    return False


def has_sp_colon(data):
    return b" :" in data


def field_names(data):
    """names of the header fields of a raw block (lines after the first that do not start
    with SP/HTAB, up to the first ':'), lower-cased"""
    out = []
    lines = data.split(b"\r\n")
    for ln in lines[1:]:
        if ln[:1] in (b" ", b"\t"):
            continue
        if b":" in ln:
            out.append(ln.split(b":", 1)[0].lower())
    return out


def patterns(data, method):
    """set of the property's seven patterns present in the raw block"""
    p = set()
    if has_ctl(data):
        p.add("ctl")
    if has_sp_colon(data):
        p.add("sp-colon")
    names = field_names(data)
    h, cl, te = names.count(b"host"), names.count(b"content-length"), names.count(b"transfer-encoding")
    if h > 1:
        p.add("dup-host")
    if cl > 1:
        p.add("dup-cl")
    if te > 1:
        p.add("dup-te")
    if cl and te:
        p.add("cl+te")
    if cl and method == b"GET":
        p.add("cl-on-get")
    return p


def has_high(data):
    return any(c > 126 for c in data)


def selftest():
    from verif.common import Rng
    fails = []
    rng = Rng("httpgen-selftest")
    for i in range(3000):
        b = gen_request(rng) if i % 4 else gen_status(rng)
        d = b.data
        # spans are inside the block and re-assemble the start line
        line = d.split(b"\r\n", 1)[0]
        if b.spans["line"].of(d) != line:
            fails.append("line span")
            break
        if b.kind == "request":
            parts = line.split(b" ")
            if len(parts) != 3 or parts[0] != b.spans["method"].of(d) or parts[1] != b.spans["target"].of(d) \
                    or parts[2] != b.spans["version"].of(d):
                fails.append("request line split %r" % line)
                break
            tgt = parts[1]
            sp = b.spans
            rebuilt = b""
            if sp["scheme"]:
                rebuilt += sp["scheme"].of(d) + b"://"
            if sp["authority"]:
                rebuilt += sp["authority"].of(d)
            if sp["path"]:
                rebuilt += sp["path"].of(d)
            if sp["query"] is not None:
                rebuilt += b"?" + sp["query"].of(d)
            if b.form == "asterisk":
                rebuilt = b"*"
            if rebuilt != tgt:
                fails.append("target reassembly %r vs %r" % (rebuilt, tgt))
                break
            if b.form in ("origin", "absolute") and sp["path"].len and not sp["path"].of(d).startswith(b"/"):
                fails.append("path does not start with slash")
                break
            if sp["path"] is not None and (b"?" in sp["path"].of(d) or b" " in tgt):
                fails.append("path/target alphabet")
                break
        else:
            if line != sp_join(b):
                fails.append("status line reassembly")
                break
        # field spans: value is the raw value without surrounding blanks
        for f in b.fields:
            v = f.value.of(d)
            if v != f.raw.strip(b" \t\r\n") or d[f.name_off:f.name_off + len(f.name) + 1] != f.name + b":":
                fails.append("field span %r" % f.raw)
                break
        pats = patterns(d, b.method)
        if pats - {"sp-colon"}:
            fails.append("generated block contains pattern %s: %r" % (pats, d))
            break
        if has_high(d):
            fails.append("high octet without obs_text")
            break
    # hand-written AST check (RFC 7230 5.3.2 example)
    if patterns(b"GET / HTTP/1.1\r\nHost: a\r\nhOSt: b", b"GET") != {"dup-host"}:
        fails.append("dup-host detection")
    if patterns(b"GET / HTTP/1.1\r\nX: a\r\n Host: b\r\nHost: c", b"GET") != set():
        fails.append("folded continuation counted as a field")
    if patterns(b"POST / HTTP/1.1\r\nContent-Length: 1\r\nTransfer-Encoding: chunked", b"POST") != {"cl+te"}:
        fails.append("cl+te detection")
    if not has_ctl(b"a\rb") or not has_ctl(b"a\nb") or has_ctl(b"a\r\nb\tc") or not has_ctl(b"a\x7f") or not has_ctl(b"a\r"):
        fails.append("ctl detection")
    return fails


def sp_join(b):
    d = b.data
    return b.spans["version"].of(d) + b" " + b.spans["status"].of(d) + b" " + b.spans["reason"].of(d)
