"""Textbook affine short-Weierstrass arithmetic over Python ints + the built-in
curve table parsed from the library header (constants are never copied by hand).

Stable API (used by C02, C03, C09):

    Curve(p, a, b, gx, gy, n, h, bits, name, algo, flags)   namedtuple
        .G            -> (gx, gy)
        .index        -> position in the header table (-1 for synthetic curves)
        h is the value written in the table (one entry is wrong there, see curve_notes)
        algo: 0 = EC_CURVE_ALGO_ECDSA, 1 = EC_CURVE_ALGO_GOST20XX
        flags: bit 0 = EC_CURVE_FLAG_A_M3
    curves()          -> dict name -> Curve, in header order (32 entries)
    curve_list()      -> list of Curve in header order
    add(c, P, Q), dbl(c, P), neg(c, P), sub(c, P, Q), mul(c, k, P), twin(c, k1, P, k2, Q)
    on_curve(c, P)
    points are (x, y) tuples of ints, None is the point at infinity.
    point_order(c, P), all_points(c), group_order(c)  (brute force, tiny curves only)
    is_probable_prime(n), validate_curve(c) -> list[str] problems,
    true_cofactor(c), curve_notes(c) -> list[str] informational oddities, TABLE_NOTES
    sqrt_mod(a, p) (Tonelli-Shanks), lift_x(c, x) -> (y0, y1) or None
    selftest() -> list[str]
"""
import os
import re
from collections import namedtuple

FLAG_A_M3 = 1
ALGO_ECDSA = 0
ALGO_GOST = 1

_CurveBase = namedtuple("Curve", "p a b gx gy n h bits name algo flags")


class Curve(_CurveBase):
    __slots__ = ()

    @property
    def G(self):
        return (self.gx, self.gy)

    @property
    def index(self):
        return _INDEX.get(self.name, -1)


_INDEX = {}


# ---------------------------------------------------------------------------
# group law
# ---------------------------------------------------------------------------
def on_curve(c, P):
    if P is None:
        return True
    x, y = P
    if not (0 <= x < c.p and 0 <= y < c.p):
        return False
    return (y * y - (x * x * x + c.a * x + c.b)) % c.p == 0


def neg(c, P):
    if P is None:
        return None
    return (P[0], (-P[1]) % c.p)


def dbl(c, P):
    if P is None:
        return None
    x, y = P
    p = c.p
    if y % p == 0:
        return None
    lam = (3 * x * x + c.a) * pow(2 * y, -1, p) % p
    x3 = (lam * lam - 2 * x) % p
    y3 = (lam * (x - x3) - y) % p
    return (x3, y3)


def add(c, P, Q):
    if P is None:
        return Q
    if Q is None:
        return P
    p = c.p
    x1, y1 = P
    x2, y2 = Q
    if (x1 - x2) % p == 0:
        if (y1 + y2) % p == 0:
            return None
        return dbl(c, P)
    lam = (y2 - y1) * pow(x2 - x1, -1, p) % p
    x3 = (lam * lam - x1 - x2) % p
    y3 = (lam * (x1 - x3) - y1) % p
    return (x3, y3)


def sub(c, P, Q):
    return add(c, P, neg(c, Q))


def mul(c, k, P):
    """k*P by left-to-right double-and-add on the integer k (k >= 0; negative k negates)."""
    if k < 0:
        return mul(c, -k, neg(c, P))
    R = None
    for i in range(k.bit_length() - 1, -1, -1):
        R = dbl(c, R)
        if (k >> i) & 1:
            R = add(c, R, P)
    return R


def twin(c, k1, P, k2, Q):
    return add(c, mul(c, k1, P), mul(c, k2, Q))


# ---------------------------------------------------------------------------
# brute force helpers for tiny curves
# ---------------------------------------------------------------------------
def all_points(c):
    """Every point of E(F_p) (tiny p only), infinity first."""
    p = c.p
    sq = {}
    for y in range(p):
        sq.setdefault(y * y % p, []).append(y)
    pts = [None]
    for x in range(p):
        r = (x * x * x + c.a * x + c.b) % p
        for y in sq.get(r, ()):
            pts.append((x, y))
    return pts


def group_order(c):
    return len(all_points(c))


def point_order(c, P, limit=1 << 20):
    if P is None:
        return 1
    Q = P
    k = 1
    while Q is not None:
        Q = add(c, Q, P)
        k += 1
        if k > limit:
            raise ValueError("order search limit")
    return k


# ---------------------------------------------------------------------------
# number theory
# ---------------------------------------------------------------------------
_SMALL_PRIMES = [2, 3, 5, 7, 11, 13, 17, 19, 23, 29, 31, 37, 41, 43, 47, 53, 59, 61, 67, 71, 73, 79, 83, 89, 97]


def is_probable_prime(n):
    if n < 2:
        return False
    for q in _SMALL_PRIMES:
        if n == q:
            return True
        if n % q == 0:
            return False
    d = n - 1
    s = 0
    while d % 2 == 0:
        d //= 2
        s += 1
    # fixed bases (deterministic below 3.3e24, overwhelming beyond) + a few derived ones
    bases = _SMALL_PRIMES[:13] + [(n >> 3) % (n - 3) + 2, (n >> 7) % (n - 3) + 2, pow(3, 65, n - 3) + 2]
    for a in bases:
        a %= n
        if a in (0, 1, n - 1):
            continue
        x = pow(a, d, n)
        if x in (1, n - 1):
            continue
        for _ in range(s - 1):
            x = x * x % n
            if x == n - 1:
                break
        else:
            return False
    return True


def isqrt(n):
    import math
    return math.isqrt(n)


def sqrt_mod(a, p):
    """Tonelli-Shanks: a square root of a mod odd prime p, or None."""
    a %= p
    if a == 0:
        return 0
    if pow(a, (p - 1) // 2, p) != 1:
        return None
    if p % 4 == 3:
        return pow(a, (p + 1) // 4, p)
    q = p - 1
    s = 0
    while q % 2 == 0:
        q //= 2
        s += 1
    z = 2
    while pow(z, (p - 1) // 2, p) != p - 1:
        z += 1
    m = s
    cc = pow(z, q, p)
    t = pow(a, q, p)
    r = pow(a, (q + 1) // 2, p)
    while t != 1:
        i = 0
        t2 = t
        while t2 != 1:
            t2 = t2 * t2 % p
            i += 1
        b = pow(cc, 1 << (m - i - 1), p)
        m = i
        cc = b * b % p
        t = t * cc % p
        r = r * b % p
    return r


def lift_x(c, x):
    r = sqrt_mod(x * x * x + c.a * x + c.b, c.p)
    if r is None:
        return None
    return tuple(sorted((r, (-r) % c.p)))


def true_cofactor(c, hmax=8):
    """The h' in 1..hmax for which n*h' satisfies the Hasse bound (unique when n > 4 sqrt p)."""
    for h in range(1, hmax + 1):
        t = c.n * h - (c.p + 1)
        if t * t <= 4 * c.p:
            return h
    return None


def curve_notes(c):
    """Oddities of a table entry that do not make the group law wrong (informational)."""
    notes = []
    h = true_cofactor(c)
    if h is not None and h != c.h:
        notes.append("%s: table says h=%d but Hasse bound gives cofactor %d" % (c.name, c.h, h))
    if c.a == c.p - 3 and not (c.flags & FLAG_A_M3):
        notes.append("%s: a == p-3 but EC_CURVE_FLAG_A_M3 not set (generic formula used)" % c.name)
    return notes


def validate_curve(c):
    """Re-derive what the table claims.  Returns a list of problems (empty = consistent)."""
    bad = []
    p = c.p
    if not is_probable_prime(p):
        bad.append("p not prime")
    if p.bit_length() > c.bits:
        bad.append("p wider than m")
    if not (0 <= c.a < p and 0 <= c.b < p):
        bad.append("a/b out of range")
    if (4 * c.a ** 3 + 27 * c.b ** 2) % p == 0:
        bad.append("singular")
    if not on_curve(c, c.G):
        bad.append("G not on curve")
    if not is_probable_prime(c.n):
        bad.append("n not prime")
    if mul(c, c.n, c.G) is not None:
        bad.append("n*G != O")
    if mul(c, c.n - 1, c.G) != neg(c, c.G):
        bad.append("(n-1)*G != -G")
    # Hasse: |n*h' - (p+1)| <= 2 sqrt p   <=>   (n*h' - p - 1)^2 <= 4p  for the true cofactor h'
    if true_cofactor(c) is None:
        bad.append("Hasse bound violated: no cofactor 1..8 puts n*h within 2*sqrt(p) of p+1")
    if (c.flags & FLAG_A_M3) and c.a != p - 3:
        bad.append("A_M3 flag set but a != p-3")
    return bad


# ---------------------------------------------------------------------------
# header parser
# ---------------------------------------------------------------------------
def _repo():
    try:
        from verif import common
        return common.REPO
    except Exception:
        return os.environ.get("VERIF_REPO", "/repo")


_FIELD_RE = re.compile(r"/\*\s*\.(\w+)\s*=\s*\*/\s*(.*?),\s*$")
_CONST = {"EC_CURVE_ALGO_ECDSA": ALGO_ECDSA, "EC_CURVE_ALGO_GOST20XX": ALGO_GOST,
          "EC_CURVE_FLAG_A_M3": FLAG_A_M3}


def _cval(tok):
    tok = tok.strip()
    if tok.startswith('"'):
        return tok.strip('"')
    if tok.startswith("{") or tok == "NULL":
        return tok
    total = 0
    for part in tok.split("|"):
        part = part.strip()
        if part in _CONST:
            total |= _CONST[part]
        else:
            total |= int(part, 0)
    return total


def parse_header(text):
    """Extract the ec_curve_str[] initialiser.  Every field is labelled in the source
    (/*.name =*/ value,) so the parse is by label, not by position."""
    m = re.search(r"static\s+ec_curve_str_t\s+ec_curve_str\[\]\s*=\s*\{", text)
    if not m:
        raise ValueError("ec_curve_str[] not found")
    body = text[m.end():]
    end = re.search(r"^\};", body, re.M)
    body = body[:end.start()]
    out = []
    cur = None
    for line in body.splitlines():
        fm = _FIELD_RE.search(line)
        if not fm:
            continue
        k, v = fm.group(1), _cval(fm.group(2))
        if k == "name":
            cur = {}
            out.append(cur)
        if cur is None:
            raise ValueError("field before name")
        cur[k] = v
    res = []
    for d in out:
        need = ("name", "name_size", "num_size", "m", "p", "a", "b", "Gx", "Gy", "n", "h", "algo", "flags")
        for k in need:
            if k not in d:
                raise ValueError("curve %r lacks field %s" % (d.get("name"), k))
        if len(d["name"]) != d["name_size"]:
            # library oddity (lookup by strlen(name) cannot find the entry); not an oracle matter
            TABLE_NOTES.append("name_size %d != strlen(%r) = %d" % (d["name_size"], d["name"], len(d["name"])))
        for k in ("p", "a", "b", "Gx", "Gy"):
            if len(d[k]) != d["num_size"]:
                raise ValueError("num_size mismatch for %s.%s" % (d["name"], k))
        res.append(Curve(p=int(d["p"], 16), a=int(d["a"], 16), b=int(d["b"], 16),
                         gx=int(d["Gx"], 16), gy=int(d["Gy"], 16), n=int(d["n"], 16),
                         h=int(d["h"]), bits=int(d["m"]), name=d["name"], algo=int(d["algo"]),
                         flags=int(d["flags"])))
    return res


_cache = {}
TABLE_NOTES = []


def curve_list(path=None):
    if path is None:
        path = os.path.join(_repo(), "include", "crypto", "dsa", "ecdsa.h")
    if path not in _cache:
        with open(path, encoding="utf-8", errors="replace") as fh:
            lst = parse_header(fh.read())
        _cache[path] = lst
        for i, c in enumerate(lst):
            _INDEX[c.name] = i
    return list(_cache[path])


def curves(path=None):
    return {c.name: c for c in curve_list(path)}


def synthetic(p, a, b, G, n, h, flags=0, name=None, bits=None):
    return Curve(p=p, a=a % p, b=b % p, gx=G[0], gy=G[1], n=n, h=h,
                 bits=bits if bits is not None else p.bit_length(),
                 name=name or "syn-p%d-a%d-b%d" % (p, a % p, b % p), algo=ALGO_ECDSA, flags=flags)


# ---------------------------------------------------------------------------
# self test
# ---------------------------------------------------------------------------
def selftest():
    fails = []
    try:
        cs = curves()
    except Exception as e:
        return ["cannot parse curve table: %r" % (e,)]
    if len(cs) != 32:
        fails.append("expected 32 built-in curves, parsed %d" % len(cs))
    for c in cs.values():
        for msg in validate_curve(c):
            fails.append("%s: %s" % (c.name, msg))
    c = cs.get("secp256r1")
    if c is None:
        fails.append("secp256r1 missing")
        return fails
    # published P-256 multiples of G (NIST / point-at-infinity.org test vectors)
    kv = {
        2: (0x7CF27B188D034F7E8A52380304B51AC3C08969E277F21B35A60B48FC47669978,
            0x07775510DB8ED040293D9AC69F7430DBBA7DADE63CE982299E04B79D227873D1),
        3: (0x5ECBE4D1A6330A44C8F7EF951D4BF165E6C6B721EFADA985FB41661BC6E7FD6C,
            0x8734640C4998FF7E374B06CE1A64A2ECD82AB036384FB83D9A79B127A27D5032),
        112233445566778899: (0x339150844EC15234807FE862A86BE77977DBFB3AE3D96F4C22795513AEAAB82F,
                             0xB1C14DDFDC8EC1B2583F51E85A5EB3A155840F2034730E9B5ADA38B674336A21),
    }
    for k, want in kv.items():
        if mul(c, k, c.G) != want:
            fails.append("P-256 %d*G mismatch" % k)
    if dbl(c, c.G) != kv[2] or add(c, c.G, c.G) != kv[2] or add(c, kv[2], c.G) != kv[3]:
        fails.append("P-256 add/dbl mismatch")
    if mul(c, c.n - 1, c.G) != neg(c, c.G) or add(c, c.G, neg(c, c.G)) is not None:
        fails.append("P-256 inverse handling")
    # secp256k1 2G (SEC2 / widely published)
    k1 = cs.get("secp256k1")
    if k1 and dbl(k1, k1.G) != (0xC6047F9441ED7D6D3045406E95C07CD85C778E4B8CEF3CA7ABAC09B95C709EE5,
                               0x1AE168FEA63DC339A3C58419466CEAEEF7F632653266D0E1236431A950CFE52A):
        fails.append("secp256k1 2G mismatch")
    # tiny curve: y^2 = x^3 + 2x + 3 over F_97 has 100 points (classic textbook example)
    t = synthetic(97, 2, 3, (3, 6), 5, 20)
    if group_order(t) != 100:
        fails.append("F_97 example group order %d != 100" % group_order(t))
    if not on_curve(t, (3, 6)) or point_order(t, (3, 6)) != 5:
        fails.append("F_97 example point order")
    pts = all_points(t)
    for P in pts[:20]:
        for Q in pts[:20]:
            R = add(t, P, Q)
            if not on_curve(t, R) or add(t, Q, P) != R or sub(t, R, Q) != P:
                fails.append("F_97 group axioms")
                break
    for a in (2, 3, 5, 10, 96):
        r = sqrt_mod(a * a, 97)
        if r is None or r * r % 97 != a * a % 97:
            fails.append("sqrt_mod")
    if not is_probable_prime(2 ** 127 - 1) or is_probable_prime((2 ** 61 - 1) * (2 ** 31 - 1)) or is_probable_prime(561):
        fails.append("miller-rabin")
    return fails
