"""Integer reference model for include/math/big_num.h (C01).

Python `int` is the oracle for every arithmetic result.  This module adds what the
check needs around it: Miller-Rabin and prime generation by residue class, a
Tonelli-Shanks reference, checkers for NAF / JSF digit strings (checked by their
defining properties, not by re-running the library's algorithm), and the
boundary-biased operand generator.  Stdlib only.
"""
import math

# ---------------------------------------------------------------------------
# primes
# ---------------------------------------------------------------------------
_SMALL_PRIMES = [2, 3, 5, 7, 11, 13, 17, 19, 23, 29, 31, 37, 41, 43, 47, 53, 59, 61, 67, 71, 73, 79, 83, 89, 97]


def is_prime(n, rounds=24):
    if n < 2:
        return False
    for p in _SMALL_PRIMES:
        if n == p:
            return True
        if n % p == 0:
            return False
    d, s = n - 1, 0
    while d % 2 == 0:
        d //= 2
        s += 1
    # deterministic bases: the first `rounds` primes (correct far beyond 2^64; for larger n
    # the error bound is 4^-rounds)
    for a in _SMALL_PRIMES[:rounds]:
        x = pow(a, d, n)
        if x == 1 or x == n - 1:
            continue
        for _ in range(s - 1):
            x = x * x % n
            if x == n - 1:
                break
        else:
            return False
    return True


def gen_prime(rng, bits, cls):
    """cls: '3mod4', '5mod8', '1mod8', '2adic' (p-1 divisible by a large power of two)."""
    bits = max(bits, 5)
    while True:
        if cls == "2adic":
            s = min(max(3, bits // 2), bits - 2, 40)
            k = rng.bits(bits - s) | (1 << (bits - s - 1)) | 1
            p = (k << s) + 1
        else:
            p = rng.bits(bits) | (1 << (bits - 1)) | 1
            if cls == "3mod4":
                p |= 3
            elif cls == "5mod8":
                p = (p & ~7) | 5
            elif cls == "1mod8":
                p = (p & ~7) | 1
        if p.bit_length() == bits and is_prime(p, 12):
            return p


P256 = 2**256 - 2**224 + 2**192 + 2**96 - 1
P384 = 2**384 - 2**128 - 2**96 + 2**32 - 1
P521 = 2**521 - 1
P25519 = 2**255 - 19
P224 = 2**224 - 2**96 + 1            # 1 mod 8 with 2-adic part 2^96
N256 = 0xffffffff00000000ffffffffffffffffbce6faada7179e84f3b9cac2fc632551
SECP256K1 = 2**256 - 2**32 - 977
CURVE_PRIMES = [P256, P384, P521, P25519, P224, N256, SECP256K1]


def legendre(a, p):
    a %= p
    if a == 0:
        return 0
    return 1 if pow(a, (p - 1) // 2, p) == 1 else -1


def tonelli(a, p):
    """reference square root modulo an odd prime, None if a is a non-residue"""
    a %= p
    if a == 0:
        return 0
    if legendre(a, p) != 1:
        return None
    if p % 4 == 3:
        return pow(a, (p + 1) // 4, p)
    q, s = p - 1, 0
    while q % 2 == 0:
        q //= 2
        s += 1
    z = 2
    while legendre(z, p) != -1:
        z += 1
    m, c, t, r = s, pow(z, q, p), pow(a, q, p), pow(a, (q + 1) // 2, p)
    while t != 1:
        i, t2 = 0, t
        while t2 != 1:
            t2 = t2 * t2 % p
            i += 1
        b = pow(c, 1 << (m - i - 1), p)
        m, c = i, b * b % p
        t, r = t * c % p, r * b % p
    return r


# ---------------------------------------------------------------------------
# recoding checkers
# ---------------------------------------------------------------------------
def check_naf(digs, w, value):
    """digs: list of signed ints, least significant first.  Returns '' or a reason."""
    if sum(d << i for i, d in enumerate(digs)) != value:
        return "does-not-resum"
    lim = 1 << (w - 1)
    last = -w
    for i, d in enumerate(digs):
        if d == 0:
            continue
        if d % 2 == 0 or not (-lim < d < lim):
            return "digit-outside-alphabet"
        if i - last < w:
            return "nonzero-digits-closer-than-w"
        last = i
    if digs and digs[-1] == 0:
        return "leading-zero-counted"
    return ""


def check_jsf(r0, r1, a, b):
    """Solinas' joint sparse form, checked by its defining properties."""
    if sum(d << i for i, d in enumerate(r0)) != a or sum(d << i for i, d in enumerate(r1)) != b:
        return "does-not-resum"
    n = len(r0)
    for row in (r0, r1):
        for d in row:
            if d not in (-1, 0, 1):
                return "digit-outside-alphabet"
    rows = (r0 + [0, 0], r1 + [0, 0])
    for j in range(n):
        # (1) of any three consecutive columns at least one is zero in both rows
        if all(rows[0][j + k] != 0 or rows[1][j + k] != 0 for k in range(3)) and j + 2 < n:
            return "three-nonzero-columns"
        for i in (0, 1):
            p = rows[i][j + 1] * rows[i][j]
            if p == -1:
                return "adjacent-opposite-signs"
            if p != 0:
                if rows[1 - i][j + 1] == 0 or rows[1 - i][j] != 0:
                    return "adjacent-nonzero-without-partner-pattern"
    if n and r0[-1] == 0 and r1[-1] == 0:
        return "leading-zero-column-counted"
    return ""


def ref_jsf(a, b):
    """Textbook algorithm (Hankerson/Menezes/Vanstone 3.50) - used only by selftest to
    validate check_jsf."""
    r0, r1 = [], []
    d0 = d1 = 0
    l0, l1 = a, b
    while l0 + d0 > 0 or l1 + d1 > 0:
        x0, x1 = d0 + l0, d1 + l1
        u = []
        for (x, y) in ((x0, x1), (x1, x0)):
            if x % 2 == 0:
                ui = 0
            else:
                ui = 2 - (x % 4)
                if x % 8 in (3, 5) and y % 4 == 2:
                    ui = -ui
            u.append(ui)
        r0.append(u[0])
        r1.append(u[1])
        if 2 * d0 == 1 + u[0]:
            d0 = 1 - d0
        if 2 * d1 == 1 + u[1]:
            d1 = 1 - d1
        l0 >>= 1
        l1 >>= 1
    return r0, r1


def ref_naf(k, w):
    out = []
    while k > 0:
        if k & 1:
            d = k % (1 << w)
            if d >= (1 << (w - 1)):
                d -= 1 << w
            k -= d
        else:
            d = 0
        out.append(d)
        k >>= 1
    return out


# ---------------------------------------------------------------------------
# operand generator (boundary biased)
# ---------------------------------------------------------------------------
GRAINS = (8, 16, 32, 64, 128)


def gen_value(rng, maxbits):
    """value in [0, 2^maxbits)"""
    if maxbits <= 0:
        return 0
    t = rng.below(20)
    if t == 0:
        return rng.choice((0, 1, 2, 3)) % (1 << maxbits)
    if t <= 4:                                  # 2^k-1, 2^k, 2^k+1 at digit boundaries
        g = rng.choice(GRAINS)
        ks = list(range(g, maxbits + 1, g)) or [maxbits]
        k = rng.choice(ks)
        v = (1 << k) + rng.choice((-1, 0, 1, -2, 2))
    elif t == 5:                                # all ones of d digits
        g = rng.choice(GRAINS)
        d = rng.range(1, max(1, maxbits // g))
        v = (1 << (d * g)) - 1
    elif t == 6:                                # single bit
        v = 1 << rng.below(maxbits)
    elif t <= 8:                                # sparse
        v = 0
        for _ in range(rng.range(1, 4)):
            v |= 1 << rng.below(maxbits)
    elif t == 9:                                # dense with holes (all ones minus a few bits)
        b = rng.range(1, maxbits)
        v = (1 << b) - 1
        for _ in range(rng.range(1, 3)):
            v &= ~(1 << rng.below(b))
    elif t == 10:                               # digits that are all 0x00 / 0xff / 0x80 / 0x01 bytes
        nb = rng.range(1, max(1, maxbits // 8))
        v = int.from_bytes(bytes(rng.choice((0, 0xff, 0x80, 0x01, 0x7f, 0xfe)) for _ in range(nb)), "little")
    elif t == 11:                               # full capacity
        v = (1 << maxbits) - 1 - rng.below(4)
    elif t <= 13:                               # small
        v = rng.bits(rng.range(1, min(maxbits, 16)))
    else:                                       # dense random of random length
        v = rng.bits(rng.range(1, maxbits))
        if rng.chance(1, 2):
            v |= 1 << (v.bit_length() - 1 if v else 0)
    return v % (1 << maxbits) if v >= 0 else 0


def gen_divisor(rng, maxbits):
    """divisor whose top digit (at some digit width) is MAX / HI_BIT / 1 / random"""
    t = rng.below(8)
    g = rng.choice(GRAINS)
    nd = rng.range(1, max(1, maxbits // g))
    low = rng.bits(g * (nd - 1)) if nd > 1 else 0
    if rng.chance(1, 4):
        low = rng.choice((0, (1 << (g * (nd - 1))) - 1)) if nd > 1 else 0
    if t == 0:
        top = (1 << g) - 1
    elif t == 1:
        top = 1 << (g - 1)
    elif t == 2:
        top = 1
    elif t == 3:
        top = (1 << (g - 1)) + rng.below(4)
    elif t == 4:
        top = (1 << g) - 1 - rng.below(4)
    else:
        v = gen_value(rng, maxbits)
        return v if v else 1
    v = (top << (g * (nd - 1))) | low
    v %= 1 << maxbits
    return v if v else 1


def gen_knuth_pair(rng, maxbits):
    """dividend/divisor pairs that stress quotient-digit estimation: divisor with top digit
    HI_BIT or HI_BIT+small and low digits all ones / zero, dividend just below q*divisor
    boundaries so that under-estimated quotient digits need one or two corrections."""
    g = rng.choice(GRAINS)
    nd = rng.range(2, max(2, min(6, maxbits // (2 * g))))
    top = rng.choice(((1 << (g - 1)), (1 << (g - 1)) + 1, (1 << g) - 2, (1 << (g - 1)) - 1 + rng.below(3), 1, 3))
    low = rng.choice((0, (1 << (g * (nd - 1))) - 1, rng.bits(g * (nd - 1))))
    d = (top << (g * (nd - 1))) | low
    d = max(d, 1)
    qd = rng.range(1, 3)
    q = 0
    for _ in range(qd):
        q = (q << g) | rng.choice(((1 << g) - 1, (1 << g) - 2, 1 << (g - 1), rng.bits(g), 0, 1))
    r = rng.choice((0, 1, d - 1, d - 2 if d > 1 else 0, rng.below(d)))
    n = q * d + r
    if n.bit_length() > maxbits or d.bit_length() > maxbits:
        return gen_value(rng, maxbits), gen_divisor(rng, maxbits)
    return n, d


# ---------------------------------------------------------------------------
def selftest():
    fails = []
    known_primes = [2, 3, 65537, 2**61 - 1, 2**127 - 1, P256, P384, P521, P25519, P224, N256, SECP256K1]
    known_comp = [1, 561, 1105, 2**61 + 1, 3215031751, 3825123056546413051, P256 * P224, 2**256 - 1]
    for p in known_primes:
        if not is_prime(p):
            fails.append("is_prime rejects %d" % p)
    for c in known_comp:
        if is_prime(c):
            fails.append("is_prime accepts %d" % c)
    for p in (7, 13, 17, 113, 65537, P224, P25519):
        for a in range(1, 40):
            r = tonelli(a, p)
            if (r is None) != (legendre(a, p) == -1) or (r is not None and r * r % p != a % p):
                fails.append("tonelli %d mod %d" % (a, p))
    for k in list(range(0, 600)) + [2**255 - 19, 2**64 - 1, 0xdeadbeefcafebabe1234]:
        for w in range(2, 9):
            if check_naf(ref_naf(k, w), w, k):
                fails.append("check_naf rejects reference NAF_%d(%d)" % (w, k))
    if not check_naf([1, 1], 2, 3) or not check_naf([3], 2, 3) or not check_naf([1, 0, 0], 2, 1):
        fails.append("check_naf accepts an invalid string")
    for a in range(0, 70):
        for b in range(0, 70):
            r0, r1 = ref_jsf(a, b)
            why = check_jsf(r0, r1, a, b)
            if why:
                fails.append("check_jsf rejects reference JSF(%d,%d): %s" % (a, b, why))
    if not check_jsf([1, 1], [0, 0], 3, 0):
        fails.append('check_jsf accepts the binary expansion of 3')
    if math.isqrt(24) != 4 or math.isqrt(25) != 5:
        fails.append("isqrt")
    return fails
