"""Common machinery for the liblcb runtime-monitoring checks.

Build layer (always from /repo's working tree), seeded PRNG, driver case
protocol with crash attribution, known-findings matching, evidence writer.
Stdlib only.
"""
import hashlib
import json
import os
import re
import struct
import subprocess
import sys
import time
import fnmatch

ROOT = os.path.dirname(os.path.dirname(os.path.abspath(__file__)))
REPO = os.environ.get("VERIF_REPO", "/repo")
BUILD_DIR = os.path.join(ROOT, ".build")
DRIVERS = os.path.join(ROOT, "drivers")
EVIDENCE_DIR = os.environ.get("VERIF_EVIDENCE_DIR") or os.path.join(ROOT, "evidence")
REPLAY_DIR = os.environ.get("VERIF_REPLAY_DIR") or os.path.join(ROOT, "replay")
FINDINGS_FILE = os.path.join(ROOT, "known_findings.json")
GUARD = "LIBLCB_VERIF"
NCPU = min(16, os.cpu_count() or 1)

BASE_DEFS = [
    "-I" + os.path.join(REPO, "include"), "-I" + DRIVERS,
    "-D_GNU_SOURCE", "-DLINUX", "-D__USE_GNU=1", "-DHAVE_PIPE2", "-DHAVE_ACCEPT4",
    "-DHAVE_MEMRCHR", "-DHAVE_MEMMEM", "-DHAVE_STRNCASECMP", "-DHAVE_REALLOCARRAY",
    "-DHAVE_EXPLICIT_BZERO", "-DHAVE_PTHREAD_SETNAME_NP", "-DHAVE_SOCK_CLOEXEC",
    "-DHAVE_SOCK_NONBLOCK", "-D" + GUARD,
]

SAN_FLAGS = {
    "asu": ["-O1", "-g", "-fno-omit-frame-pointer", "-fsanitize=address,undefined",
            "-fno-sanitize-recover=all", "-fsanitize-address-use-after-scope"],
    "asan": ["-O1", "-g", "-fno-omit-frame-pointer", "-fsanitize=address"],
    "tsan": ["-O1", "-g", "-fno-omit-frame-pointer", "-fsanitize=thread"],
    "msan": ["-O1", "-g", "-fno-omit-frame-pointer", "-fsanitize=memory",
             "-fsanitize-memory-track-origins"],
    "plain": [],
}

SAN_ENV = {
    "ASAN_OPTIONS": "abort_on_error=0:exitcode=86:detect_leaks=0:detect_stack_use_after_return=1:"
                    "allocator_may_return_null=1:handle_segv=1:symbolize=1",
    "UBSAN_OPTIONS": "print_stacktrace=1:halt_on_error=1:exitcode=87",
    "MSAN_OPTIONS": "exitcode=88",
    "TSAN_OPTIONS": "halt_on_error=0:exitcode=0:report_signal_unsafe=0:history_size=7",
    "ASAN_SYMBOLIZER_PATH": "/usr/bin/llvm-symbolizer-14",
    "MSAN_SYMBOLIZER_PATH": "/usr/bin/llvm-symbolizer-14",
}


class Inconclusive(Exception):
    pass


class BuildError(Exception):
    pass


# ----------------------------------------------------------------------------
# PRNG: splitmix64 stream per (property, worker, purpose)
# ----------------------------------------------------------------------------
M64 = (1 << 64) - 1


class Rng:
    def __init__(self, *seed_parts):
        h = hashlib.sha256(repr(seed_parts).encode()).digest()
        self.s = int.from_bytes(h[:8], "little")

    def u64(self):
        self.s = (self.s + 0x9E3779B97F4A7C15) & M64
        z = self.s
        z = ((z ^ (z >> 30)) * 0xBF58476D1CE4E5B9) & M64
        z = ((z ^ (z >> 27)) * 0x94D049BB133111EB) & M64
        return z ^ (z >> 31)

    def below(self, n):
        if n <= 0:
            return 0
        if n <= M64:
            return self.u64() % n
        return self.bits(n.bit_length() + 64) % n

    def range(self, lo, hi):
        """inclusive"""
        return lo + self.below(hi - lo + 1)

    def bits(self, k):
        v = 0
        got = 0
        while got < k:
            v = (v << 64) | self.u64()
            got += 64
        return v >> (got - k)

    def bytes(self, n):
        out = bytearray()
        while len(out) < n:
            out += self.u64().to_bytes(8, "little")
        return bytes(out[:n])

    def choice(self, seq):
        return seq[self.below(len(seq))]

    def chance(self, num, den):
        return self.below(den) < num

    def shuffle(self, lst):
        for i in range(len(lst) - 1, 0, -1):
            j = self.below(i + 1)
            lst[i], lst[j] = lst[j], lst[i]


def seed():
    try:
        return int(os.environ.get("VERIF_SEED", "1"))
    except ValueError:
        return 1


# ----------------------------------------------------------------------------
# Build layer
# ----------------------------------------------------------------------------
_tree_hash = None


def repo_tree_hash():
    global _tree_hash
    if _tree_hash is None:
        h = hashlib.sha256()
        for sub in ("include", "src"):
            for dp, dn, fn in sorted(os.walk(os.path.join(REPO, sub))):
                dn.sort()
                for f in sorted(fn):
                    p = os.path.join(dp, f)
                    h.update(p.encode())
                    try:
                        with open(p, "rb") as fh:
                            h.update(fh.read())
                    except OSError:
                        pass
        _tree_hash = h.hexdigest()
    return _tree_hash


def _driver_hash(paths):
    h = hashlib.sha256()
    for p in paths:
        h.update(p.encode())
        with open(p, "rb") as fh:
            h.update(fh.read())
    # headers shared by all drivers
    for f in sorted(os.listdir(DRIVERS)):
        if f.endswith(".h"):
            with open(os.path.join(DRIVERS, f), "rb") as fh:
                h.update(fh.read())
    return h.hexdigest()


def build(name, sources, san="asu", cc="gcc", flags=(), libs=(), repo_sources=()):
    """Compile driver `sources` (paths relative to /verif/drivers) plus
    `repo_sources` (relative to /repo) into an executable.  Returns path.
    Raises BuildError with the first error line when it does not compile."""
    srcs = [os.path.join(DRIVERS, s) for s in sources]
    rsrcs = [os.path.join(REPO, s) for s in repo_sources]
    sflags = list(SAN_FLAGS[san])
    if san == "msan":
        cc = "clang"
    if cc == "clang":
        sflags = [f for f in sflags if f != "-fsanitize-address-use-after-scope"]
        if san == "asu":
            sflags.append("-fno-sanitize=object-size")
    allflags = sflags + list(flags)
    key = hashlib.sha256(json.dumps(
        [repo_tree_hash(), _driver_hash(srcs), cc, allflags, list(libs), list(repo_sources)]
    ).encode()).hexdigest()[:20]
    outdir = os.path.join(BUILD_DIR, key)
    exe = os.path.join(outdir, name)
    if os.path.exists(exe):
        return exe
    os.makedirs(outdir, exist_ok=True)
    tmp = exe + ".tmp%d" % os.getpid()
    cmd = [cc, "-std=gnu11", "-w"] + BASE_DEFS + allflags + srcs + rsrcs + ["-o", tmp] + list(libs)
    p = subprocess.run(cmd, stdout=subprocess.PIPE, stderr=subprocess.STDOUT, text=True)
    if p.returncode != 0:
        try:
            os.unlink(tmp)
        except OSError:
            pass
        first = ""
        for line in p.stdout.splitlines():
            if "error" in line or "undefined reference" in line:
                first = line.strip()
                break
        raise BuildError("%s: %s" % (name, first or p.stdout[-400:]))
    os.rename(tmp, exe)
    return exe


def clean_old_builds(keep_hours=6):
    """Remove cached builds that were not produced from the current tree hash and are old."""
    if not os.path.isdir(BUILD_DIR):
        return
    now = time.time()
    import shutil
    for d in os.listdir(BUILD_DIR):
        p = os.path.join(BUILD_DIR, d)
        try:
            if now - os.path.getmtime(p) > keep_hours * 3600:
                shutil.rmtree(p, ignore_errors=True)
        except OSError:
            pass


# ----------------------------------------------------------------------------
# Driver case protocol
# ----------------------------------------------------------------------------
class Crash:
    """A case that did not produce an observation: sanitizer abort, signal, hang."""

    def __init__(self, kind, report, returncode):
        self.kind = kind          # 'asan' 'ubsan' 'msan' 'signal' 'hang' 'exit'
        self.report = report
        self.returncode = returncode

    def __repr__(self):
        return "Crash(%s rc=%s)" % (self.kind, self.returncode)


def pack_case(payload):
    return struct.pack("<I", len(payload)) + payload


def _parse_obs(buf):
    out = []
    off = 0
    n = len(buf)
    while off + 4 <= n:
        (l,) = struct.unpack_from("<I", buf, off)
        if off + 4 + l > n:
            break
        out.append(buf[off + 4: off + 4 + l])
        off += 4 + l
    return out


def run_env(extra=None):
    env = dict(os.environ)
    env.update(SAN_ENV)
    if extra:
        env.update(extra)
    return env


def classify_crash(rc, err):
    text = err.decode("utf-8", "replace") if isinstance(err, (bytes, bytearray)) else err
    if "VERIF-HANG" in text or rc == 97:
        return "hang"
    if "AddressSanitizer" in text:
        return "asan"
    if "MemorySanitizer" in text:
        return "msan"
    if "runtime error:" in text:
        return "ubsan"
    if "ThreadSanitizer" in text:
        return "tsan"
    if rc is not None and rc < 0:
        return "signal"
    return "exit"


def run_cases(exe, cases, env_extra=None, args=(), wall_timeout=1800):
    """Feed `cases` (list of bytes payloads) to driver `exe`; return list with one
    entry per case: observation bytes or Crash.  A crash is attributed to the
    first case without an observation; the driver is restarted after it."""
    results = []
    start = 0
    env = run_env(env_extra)
    while start < len(cases):
        data = b"".join(pack_case(c) for c in cases[start:])
        try:
            p = subprocess.run([exe] + list(args), input=data, stdout=subprocess.PIPE,
                               stderr=subprocess.PIPE, env=env, timeout=wall_timeout)
            rc, out, err = p.returncode, p.stdout, p.stderr
        except subprocess.TimeoutExpired as e:
            rc, out, err = 97, e.stdout or b"", (e.stderr or b"") + b"\nVERIF-HANG wall watchdog"
        obs = _parse_obs(out)
        results.extend(obs)
        remaining = len(cases) - start
        if len(obs) >= remaining:
            break
        text = err.decode("utf-8", "replace")
        results.append(Crash(classify_crash(rc, text), text[-6000:], rc))
        start += len(obs) + 1
    return results[:len(cases)]


_frame_re = re.compile(r"#\d+ 0x[0-9a-f]+ in (\S+) (\S+)")


def crash_key(crash, entry=""):
    """Reduce a sanitizer report to kind + first in-repo frame (line numbers stripped)."""
    kind = crash.kind
    detail = ""
    text = crash.report or ""
    m = re.search(r"ERROR: AddressSanitizer: (\S+)", text)
    if m:
        detail = m.group(1)
    m2 = re.search(r"runtime error: ([^\n]*)", text)
    if kind == "ubsan" and m2:
        d = m2.group(1)
        d = re.sub(r"0x[0-9a-f]+", "ADDR", d)
        d = re.sub(r"-?\d+", "N", d)
        detail = d[:60].strip().replace(" ", "_")
    frame = ""
    for fm in _frame_re.finditer(text):
        fn, loc = fm.group(1), fm.group(2)
        if REPO in loc:
            frame = fn
            break
    if not frame:
        m3 = re.search(r"(/repo/\S+?):\d+", text)
        if m3 and kind == "ubsan":
            frame = os.path.basename(m3.group(1))
    return ":".join(x for x in (kind, entry, frame, detail) if x)


# ----------------------------------------------------------------------------
# Byte packing helpers for cases / observations
# ----------------------------------------------------------------------------
class W:
    def __init__(self):
        self.b = bytearray()

    def u8(self, v):
        self.b.append(v & 0xFF)
        return self

    def u16(self, v):
        self.b += struct.pack("<H", v & 0xFFFF)
        return self

    def u32(self, v):
        self.b += struct.pack("<I", v & 0xFFFFFFFF)
        return self

    def i32(self, v):
        self.b += struct.pack("<i", v)
        return self

    def u64(self, v):
        self.b += struct.pack("<Q", v & M64)
        return self

    def i64(self, v):
        self.b += struct.pack("<q", v)
        return self

    def blob(self, data):
        self.b += struct.pack("<I", len(data))
        self.b += data
        return self

    def raw(self, data):
        self.b += data
        return self

    def done(self):
        return bytes(self.b)


class R:
    def __init__(self, b):
        self.b = b
        self.o = 0

    def u8(self):
        v = self.b[self.o]
        self.o += 1
        return v

    def u16(self):
        (v,) = struct.unpack_from("<H", self.b, self.o)
        self.o += 2
        return v

    def u32(self):
        (v,) = struct.unpack_from("<I", self.b, self.o)
        self.o += 4
        return v

    def i32(self):
        (v,) = struct.unpack_from("<i", self.b, self.o)
        self.o += 4
        return v

    def u64(self):
        (v,) = struct.unpack_from("<Q", self.b, self.o)
        self.o += 8
        return v

    def i64(self):
        (v,) = struct.unpack_from("<q", self.b, self.o)
        self.o += 8
        return v

    def blob(self):
        n = self.u32()
        v = self.b[self.o:self.o + n]
        self.o += n
        return bytes(v)

    def rest(self):
        return bytes(self.b[self.o:])

    def eof(self):
        return self.o >= len(self.b)


# ----------------------------------------------------------------------------
# Findings, violations, evidence
# ----------------------------------------------------------------------------
def load_findings():
    try:
        with open(FINDINGS_FILE) as fh:
            return json.load(fh)
    except (OSError, ValueError):
        return {"findings": [], "fixed": []}


class Report:
    """Collects what one check run observed; writes evidence and prints verdict lines."""

    def __init__(self, prop, tier, level="exploration"):
        self.prop = prop
        self.tier = tier
        self.level = level
        self.t0 = time.time()
        self.evaluations = 0
        self.classes = set()
        self.samples = []
        self.violations = {}      # key -> dict(count, witness)
        self.observations = {}    # non-gating sanitizer observations key -> count
        self.extra = {}
        self.rule = ""
        self.assumptions = []
        self.inconclusive = []
        self.exhaustive = None
        self.builds = {}          # variant -> 'ok' / 'not_selectable: ...'

    # -- accumulation ------------------------------------------------------
    def add_eval(self, n=1):
        self.evaluations += n

    def add_class(self, c):
        self.classes.add(c)

    def add_sample(self, s, limit=12):
        if len(self.samples) < limit:
            self.samples.append(s)

    def violation(self, key, witness):
        v = self.violations.get(key)
        if v is None:
            self.violations[key] = {"count": 1, "witness": witness}
        else:
            v["count"] += 1

    def observe(self, key, n=1):
        self.observations[key] = self.observations.get(key, 0) + n

    def merge(self, part):
        """part: dict produced by a worker: evaluations, classes, samples, violations, observations, extra counters"""
        self.evaluations += part.get("evaluations", 0)
        self.classes.update(part.get("classes", ()))
        for s in part.get("samples", ()):
            self.add_sample(s)
        for k, w in part.get("violations", ()):
            self.violation(k, w)
        for k, n in part.get("observations", {}).items():
            self.observe(k, n)
        for k, n in part.get("counters", {}).items():
            self.extra[k] = self.extra.get(k, 0) + n
        for m in part.get("inconclusive", ()):
            self.inconclusive.append(m)

    # -- output ------------------------------------------------------------
    def finish(self):
        findings = load_findings()
        known = [f for f in findings.get("findings", []) if f.get("property") == self.prop]
        new_viol = []
        known_hit = {}
        for key, v in sorted(self.violations.items()):
            hit = None
            for f in known:
                if fnmatch.fnmatchcase(key, f["key"]):
                    hit = f
                    break
            if hit is not None:
                known_hit.setdefault(hit["key"], [hit, 0])[1] += v["count"]
            else:
                new_viol.append((key, v))
        os.makedirs(EVIDENCE_DIR, exist_ok=True)
        rdir = os.path.join(REPLAY_DIR, self.prop)
        lines = []
        for key, v in new_viol:
            os.makedirs(rdir, exist_ok=True)
            hh = hashlib.sha1(key.encode()).hexdigest()[:12]
            path = os.path.join(rdir, hh + ".json")
            with open(path, "w") as fh:
                json.dump({"property": self.prop, "key": key, "count": v["count"],
                           "seed": seed(), "tier": self.tier, "witness": v["witness"]}, fh, indent=1,
                          default=_jsonable)
            lines.append("VIOLATION property=%s replay=%s key=%s count=%d" % (self.prop, path, key, v["count"]))
        for k, (f, n) in sorted(known_hit.items()):
            print("KNOWN-FINDING: property=%s %s (key=%s, seen %d times)" % (self.prop, f.get("what", ""), k, n))
        cov = {
            "evaluations": int(self.evaluations),
            "distinct_nontrivial": len(self.classes),
            "rule": self.rule,
            "samples": self.samples[:12] if self.samples else [],
            "builds": self.builds,
            "sanitizer_observations_non_gating": self.observations,
            "known_findings_seen": {k: n for k, (f, n) in known_hit.items()},
            "violation_keys": [k for k, _ in new_viol],
            "inconclusive": self.inconclusive,
            "class_examples": sorted(str(c) for c in self.classes)[:40],
        }
        if self.exhaustive is not None:
            cov["exhaustive"] = bool(self.exhaustive)
        cov.update(self.extra)
        ev = {
            "property_id": self.prop, "tier": self.tier, "seed": seed(), "level": self.level,
            "coverage": cov, "assumptions": self.assumptions,
            "wall_s": round(time.time() - self.t0, 2), "violations": len(new_viol),
        }
        with open(os.path.join(EVIDENCE_DIR, self.prop + ".json"), "w") as fh:
            json.dump(ev, fh, indent=1, default=_jsonable)
        for l in lines:
            print(l)
        print("%s tier=%s seed=%d evaluations=%d distinct=%d violations=%d known=%d observations=%d wall=%.1fs" % (
            self.prop, self.tier, seed(), self.evaluations, len(self.classes), len(new_viol),
            len(known_hit), sum(self.observations.values()), time.time() - self.t0))
        if new_viol:
            return 1
        if self.inconclusive or self.evaluations == 0 or len(self.classes) < 2:
            for m in self.inconclusive:
                print("INCONCLUSIVE property=%s %s" % (self.prop, m))
            if self.evaluations == 0 or len(self.classes) < 2:
                print("INCONCLUSIVE property=%s monitors observed too little" % self.prop)
            return 2
        return 0


def _jsonable(o):
    if isinstance(o, (bytes, bytearray)):
        return o.hex()
    if isinstance(o, (set, frozenset)):
        return sorted(map(str, o))
    if isinstance(o, tuple):
        return list(o)
    return str(o)


def new_part():
    return {"evaluations": 0, "classes": set(), "samples": [], "violations": [], "observations": {},
            "counters": {}, "inconclusive": []}


def part_count(part, name, n=1):
    part["counters"][name] = part["counters"].get(name, 0) + n


def parallel(fn, jobs, nproc=NCPU):
    """Run fn(job) for each job in a process pool; yields results in completion order."""
    import concurrent.futures as cf
    if len(jobs) <= 1 or nproc <= 1:
        for j in jobs:
            yield fn(j)
        return
    with cf.ProcessPoolExecutor(max_workers=min(nproc, len(jobs))) as ex:
        futs = [ex.submit(fn, j) for j in jobs]
        for f in cf.as_completed(futs):
            yield f.result()


def try_builds(report, specs):
    """specs: list of (variant_name, kwargs for build()).  Builds in parallel (threads);
    returns dict variant -> exe for those that compiled; records the rest as not_selectable."""
    import concurrent.futures as cf
    out = {}

    def one(spec):
        vname, kw = spec
        try:
            return vname, build(**kw), None
        except BuildError as e:
            return vname, None, str(e)
    with cf.ThreadPoolExecutor(max_workers=NCPU) as ex:
        for vname, exe, err in ex.map(one, specs):
            if exe:
                out[vname] = exe
                report.builds[vname] = "ok"
            else:
                report.builds[vname] = "not_selectable: " + (err or "")[:200]
    return out
