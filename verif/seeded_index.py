#!/usr/bin/env python3
"""Regenerates /verif/seeded/INDEX.md from the meta.json files (python3 -m verif.seeded_index)."""
import json
import os

ROOT = os.path.dirname(os.path.dirname(os.path.abspath(__file__)))


def main():
    rows = []
    sd = os.path.join(ROOT, "seeded")
    for d in sorted(os.listdir(sd)):
        mp = os.path.join(sd, d, "meta.json")
        if not os.path.exists(mp):
            continue
        m = json.load(open(mp))
        det = m.get("detected_by", {})
        cells = []
        for run, res in sorted(det.items()):
            for chk, r in sorted(res.items()):
                cells.append("%s %s: %s" % (chk, run.split(":")[0], ("caught — " + ", ".join(r["keys"][:3])) if r["exit"] == 1 else ("MISSED" if r["exit"] == 0 else "inconclusive")))
        hist = m.get("history", "")
        rows.append("| `%s` | %s | %s | %s%s |" % (d, m["property"], m["needs_to_manifest"].replace("|", "/"), "<br>".join(cells) or "not run yet",
                                                 ("<br>" + hist) if hist else ""))
    with open(os.path.join(sd, "INDEX.md"), "w") as fh:
        fh.write("# Seeded property-breaking changes\n\nEach directory holds `patch.diff`, the demonstration (`demo.c`, `README.txt`) and `meta.json`. "
                 "All were produced by sub-agents that saw only the property text and a scratch worktree, compile, pass the pinned suite, and were "
                 "re-verified (demo fails with / passes without the change) before being kept. `python3 -m verif.seeded_eval <id> [--scratch]` re-runs the "
                 "check(s).\n\n| id | property | needs, to manifest | outcome of the registered check |\n|---|---|---|---|\n")
        fh.write("\n".join(rows) + "\n")
    print("%d seeded changes indexed" % len(rows))


if __name__ == "__main__":
    main()
