"""C08 -- ChaCha / HChaCha / XChaCha and GOST 28147-89 match their specifications.

Every case is executed by drivers/c08_cipher.c in every selected build variant
({gcc,clang} x -O0..-O3 x {default,-fno-strict-aliasing} x {expanded,small GOST tables},
ASan+UBSan and MSan builds) and each observation is compared with the from-scratch
Python references in verif/oracles/{chacha,gost28147}.py -- hence all builds are also
compared with each other.  See DESIGN.md section 4, C08.
"""
import json
import os

from verif import common
from verif.common import W, R, Rng, Crash, M64
from verif.oracles import chacha as CH
from verif.oracles import gost28147 as GO

PROP = "C08"
DRIVER = "c08_cipher.c"
EXE = "c08_cipher"

OP_HELLO, OP_CHACHA, OP_HCHACHA, OP_GCRYPT, OP_GMAC = 0, 1, 2, 16, 17

API_STREAM, API_ONESHOT, API_BLOCKS = 0, 1, 2
SRC_SEP, SRC_NULL, SRC_INPLACE = 0, 1, 2

# UBSan `alignment` reports raised inside the two cipher headers gate the verdict: the property's
# anchored mechanism "alignment dispatch" exists to keep word accesses aligned, the unchanged tree
# produces no such report, and on x86 a wrong dispatch is invisible in the output bytes.  Every other
# UBSan kind, ASan reads and MSan reports stay non-gating observations.  Set to False to make
# alignment reports observations as well.
UBSAN_ALIGNMENT_GATES = True

COMBOS = [(r, kb) for r in (8, 12, 20) for kb in (128, 256)]
EDGE_COUNTERS = [0, 1, (1 << 32) - 2, (1 << 32) - 1, 1 << 32, (1 << 32) + 1, M64 - 1, M64]


# ----------------------------------------------------------------------------
# build matrix
# ----------------------------------------------------------------------------
def _spec(cc, olevel, nsa, small, san="plain"):
    if san == "plain":
        name = "plain-%s-O%d%s-%s" % (cc, olevel, "-nsa" if nsa else "", "small" if small else "exp")
        flags = ["-O%d" % olevel]
    else:
        name = "%s-%s-%s" % (san, "clang" if san == "msan" else cc, "small" if small else "exp")
        flags = []
    if nsa:
        flags.append("-fno-strict-aliasing")
    if small:
        flags.append("-DGOST28147_USE_SMALL_TABLES=1")
    kw = dict(name=EXE, sources=[DRIVER], san=san, cc=cc, flags=flags)
    info = dict(cc=("clang" if san == "msan" else cc), olevel=(olevel if san == "plain" else 1),
                nsa=nsa, small=small, san=san, flags=flags)
    return name, kw, info


def build_matrix(tier):
    out = []
    if tier == "quick":
        for cc, o, nsa, small in (("gcc", 0, False, False), ("gcc", 2, False, False), ("gcc", 3, False, True),
                                  ("gcc", 3, True, False), ("clang", 0, False, True), ("clang", 2, False, False),
                                  ("clang", 3, True, True)):
            out.append(_spec(cc, o, nsa, small))
        out.append(_spec("gcc", 1, False, False, "asu"))
        out.append(_spec("clang", 1, False, True, "asu"))
        out.append(_spec("clang", 1, False, False, "msan"))
    else:
        for cc in ("gcc", "clang"):
            for o in (0, 1, 2, 3):
                for nsa in (False, True):
                    for small in (False, True):
                        out.append(_spec(cc, o, nsa, small))
        for cc in ("gcc", "clang"):
            for small in (False, True):
                out.append(_spec(cc, 1, False, small, "asu"))
        for small in (False, True):
            out.append(_spec("clang", 1, False, small, "msan"))
    # ChaCha code does not depend on the GOST table switch: run the ChaCha cases once per
    # (compiler, -O, aliasing, sanitizer) combination, GOST cases on every build.
    seen = set()
    res = []
    for name, kw, info in out:
        k = (info["cc"], info["olevel"], info["nsa"], info["san"])
        info["chacha"] = k not in seen
        seen.add(k)
        res.append((name, kw, info))
    return res


# ----------------------------------------------------------------------------
# JSON-able specs
# ----------------------------------------------------------------------------
def enc(o):
    if isinstance(o, (bytes, bytearray)):
        return {"__b": bytes(o).hex()}
    if isinstance(o, dict):
        return {k: enc(v) for k, v in o.items()}
    if isinstance(o, (list, tuple)):
        return [enc(v) for v in o]
    return o


def dec(o):
    if isinstance(o, dict):
        if set(o.keys()) == {"__b"}:
            return bytes.fromhex(o["__b"])
        return {k: dec(v) for k, v in o.items()}
    if isinstance(o, list):
        return [dec(v) for v in o]
    return o


# ----------------------------------------------------------------------------
# payloads
# ----------------------------------------------------------------------------
def sbox_field(w, spec, names):
    if spec["sbox"] == "custom":
        w.u8(255).blob(spec["sbox_tab"])
    else:
        w.u8(names.index(spec["sbox"]))


def payload(spec, names):
    k = spec["kind"]
    w = W()
    if k == "chacha":
        w.u8(OP_CHACHA).u8(spec["pat"]).u8(spec["api"]).u8(spec["x"]).u8(spec["rounds"]).u16(spec["key_size"])
        w.blob(spec["key"]).u8(spec["ctr_mode"]).u64(spec["counter"]).u8(1 if spec["iv"] is not None else 0)
        w.blob(spec["iv"] or b"").u8(spec["src_mode"]).blob(spec["data"]).u16(len(spec["chunks"]))
        for ln, sa, da in spec["chunks"]:
            w.u32(ln).u8(sa).u8(da)
    elif k == "hchacha":
        w.u8(OP_HCHACHA).u8(spec["pat"]).u8(spec["rounds"]).u16(spec["key_size"]).blob(spec["key"])
        w.u8(1 if spec["iv"] is not None else 0).blob(spec["iv"] or b"").u8(spec["da"])
    elif k == "gcrypt":
        w.u8(OP_GCRYPT).u8(spec["pat"]).u8(spec["be"]).u8(spec["dir"])
        sbox_field(w, spec, names)
        w.u16(spec["key_size"]).blob(spec["key"]).u8(spec["ka"]).u8(spec["sa"]).u8(spec["da"])
        w.u8(spec["sa2"]).u8(spec["da2"]).blob(spec["data"])
    elif k == "gmac":
        w.u8(OP_GMAC).u8(spec["pat"]).u8(spec["be"])
        sbox_field(w, spec, names)
        w.u16(spec["key_size"]).blob(spec["key"]).u8(spec["ka"]).u8(spec["mac_size"]).u8(spec["mac_align"])
        w.u8(spec["mac_null"]).u16(len(spec["chunks"]))
        for sa, data in spec["chunks"]:
            w.u8(sa).blob(data)
    else:
        raise ValueError(k)
    return w.done()


# ----------------------------------------------------------------------------
# expectations, classes
# ----------------------------------------------------------------------------
def chacha_entry(spec):
    if spec["kind"] == "hchacha":
        return "hchacha"
    if spec["api"] == API_STREAM:
        return "xchacha_str_init+chacha_str_data_crypt" if spec["x"] else "chacha_str_data_crypt"
    if spec["api"] == API_ONESHOT:
        return "xchacha" if spec["x"] else "chacha"
    return "xchacha_init+chacha_blocks_transform" if spec["x"] else "chacha_blocks_transform"


def chacha_params(spec):
    key = spec["key"]
    ctr = spec["counter"] if spec["ctr_mode"] in (1, 2) else 0
    if spec["x"]:
        iv = spec["iv"] if spec["iv"] is not None else bytes(24)
        k, n8 = CH.xchacha_subkey_nonce(key, iv, spec["rounds"])
    else:
        k, n8 = key, (spec["iv"] if spec["iv"] is not None else bytes(8))
    return k, ctr, n8


def chacha_expect(spec):
    k, ctr, n8 = chacha_params(spec)
    data = spec["data"]
    r = spec["rounds"]
    if spec["api"] == API_ONESHOT:
        out = []
        off = 0
        for ln, _, _ in spec["chunks"]:
            ks = CH.keystream(k, ctr, n8, r, ln)
            out.append(ks if spec["src_mode"] == SRC_NULL else CH.xor(data[off:off + ln], ks))
            off += ln
        return {"out": b"".join(out), "ctr": None}
    ks = CH.keystream(k, ctr, n8, r, len(data))
    out = ks if spec["src_mode"] == SRC_NULL else CH.xor(data, ks)
    return {"out": out, "ctr": (ctr + CH.blocks_used(len(data))) & M64}


def path_of(sa, da, src_null):
    s = 0 if src_null else sa
    if s % 8 == 0 and da % 8 == 0:
        return "a8"
    if s % 4 == 0 and da % 4 == 0:
        return "a4"
    return "un"


def chacha_class(spec):
    total = len(spec["data"])
    nb = CH.blocks_used(total)
    if spec["ctr_mode"] == 0:
        cc = "null"
    else:
        c = spec["counter"]
        lo = c & 0xFFFFFFFF
        if c + nb > M64:
            cc = "wrap64"
        elif lo + nb > 0xFFFFFFFF:
            cc = "carry32"
        elif c == 0:
            cc = "zero"
        elif c > M64 - 16:
            cc = "near64"
        elif c >> 32:
            cc = "high"
        elif lo > 0xFFFFFFFF - 16:
            cc = "near32"
        else:
            cc = "low"
        cc += "/set64" if spec["ctr_mode"] == 2 else ""
    if total == 0:
        lc = "0"
    elif total < 64:
        lc = "sub"
    elif total == 64:
        lc = "one"
    elif total % 64 == 0:
        lc = "multi"
    else:
        lc = "multi+tail"
    n = len(spec["chunks"])
    sc = "1" if n == 1 else ("2" if n == 2 else "3+")
    off = 0
    carry = set()
    paths = set()
    null = spec["src_mode"] == SRC_NULL
    for ln, sa, da in spec["chunks"]:
        avail = (64 - off % 64) % 64 if spec["api"] == API_STREAM else 0
        if avail and ln:
            carry.add("part" if ln < avail else ("exact" if ln == avail else "over"))
        rest = max(0, ln - avail)
        if rest >= 64:
            paths.add(path_of(sa + min(ln, avail), (sa if spec["src_mode"] == SRC_INPLACE else da) + min(ln, avail), null))
        if ln == 0:
            carry.add("empty-call")
        off += ln
    return ("chacha", spec["api"], spec["x"], spec["rounds"], spec["key_size"], spec["src_mode"], cc, lc, sc,
            "+".join(sorted(carry)) or "-", "+".join(sorted(paths)) or "-", "iv0" if spec["iv"] is None else "iv")


def gost_tab(spec, sboxes):
    """S-box the reference uses: for built-in sets the independently transcribed table (oracles/gost28147.REFERENCE_TABLES),
    so that a wrong entry in the header is seen as wrong cipher output; the header-parsed table only where no transcription exists."""
    if spec["sbox"] == "custom":
        return spec["sbox_tab"]
    for fragment, ref in GO.REFERENCE_TABLES.items():
        if fragment in spec["sbox"].lower():
            return ref
    return sboxes[spec["sbox"]]


def gpath(sa, da):
    return "al" if (sa % 4 == 0 and da % 4 == 0) else "un"


def nb_bucket(n):
    for lim, name in ((0, "0"), (1, "1"), (2, "2"), (4, "3-4"), (8, "5-8")):
        if n <= lim:
            return name
    return "9-16"


def gost_entry(spec, phase=0):
    suf = "_be" if spec["be"] else ""
    if spec["kind"] == "gmac":
        return "gost28147_blocks_mac" + suf
    if spec["dir"] == 1 or phase == 1:
        return "gost28147_blocks_decrypt" + suf
    return "gost28147_blocks_encrypt" + suf


# ----------------------------------------------------------------------------
# case generators (parent process; cheap, no oracle work)
# ----------------------------------------------------------------------------
def rkey(rng, kb):
    e = rng.below(40)
    n = kb // 8
    if e == 0:
        return bytes(n)
    if e == 1:
        return b"\xff" * n
    if e == 2:
        return bytes(range(n))
    return rng.bytes(n)


def key_size_param(rng, kb):
    # documented forms: length in bytes (16/32); the self test also passes the size in bits
    return rng.choice([kb // 8, kb // 8, kb])


def mk_chacha(rng, api, x, rounds, kb, counter, ctr_mode, src_mode, data, chunks, iv="rand"):
    if iv == "rand":
        e = rng.below(12)
        n = 24 if x else 8
        iv = None if e == 0 else (bytes(n) if e == 1 else (b"\xff" * n if e == 2 else rng.bytes(n)))
    return {"kind": "chacha", "pat": rng.below(256), "api": api, "x": x, "rounds": rounds,
            "key_size": key_size_param(rng, kb), "key": rkey(rng, kb), "ctr_mode": ctr_mode,
            "counter": counter, "iv": iv, "src_mode": src_mode, "data": data, "chunks": chunks}


def rcounter(rng):
    e = rng.below(10)
    if e < 3:
        return rng.choice(EDGE_COUNTERS)
    if e == 3:
        return ((1 << 32) - 1 - rng.below(70)) + (rng.below(4) << 32)
    if e == 4:
        return M64 - rng.below(70)
    if e == 5:
        return rng.below(1 << 20)
    return rng.u64()


def gen_chacha(tier, rng):
    cases = []
    thorough = tier == "thorough"
    # F1: every length 0..5 blocks in one call
    for ln in range(0, 5 * 64 + 1):
        combos = COMBOS if thorough else [COMBOS[(ln + j * 2) % 6] for j in range(3)]
        for j, (r, kb) in enumerate(combos):
            api = (API_STREAM, API_ONESHOT)[(ln + j) % 2]
            x = 1 if rng.below(4) == 0 else 0
            sm = (ln + j) % 3
            cm = 1 if api == API_ONESHOT else rng.choice([1, 2])
            c = mk_chacha(rng, api, x, r, kb, rcounter(rng), cm, sm, rng.bytes(ln),
                          [(ln, rng.below(16), rng.below(16))])
            c["fam"] = "len"
            cases.append(c)
    # F2: every split of every length <= 3 blocks into two stream calls
    for ln in range(0, 3 * 64 + 1):
        for (r, kb) in (COMBOS if thorough else [COMBOS[ln % 6]]):
            base = mk_chacha(rng, API_STREAM, 1 if (ln + r) % 5 == 0 else 0, r, kb, rcounter(rng), 1, SRC_SEP,
                             rng.bytes(ln), [])
            for s in range(0, ln + 1):
                c = dict(base)
                c["pat"] = (s * 7 + ln) & 255
                c["src_mode"] = (s + ln) % 3
                c["chunks"] = [(s, rng.below(8), rng.below(8)), (ln - s, rng.below(8), rng.below(8))]
                c["fam"] = "split2"
                cases.append(c)
    # F3: all 8x8 (src,dst) alignments for every API and source mode
    combos = COMBOS if thorough else None
    for sa in range(8):
        for da in range(8):
            for api in (API_STREAM, API_ONESHOT, API_BLOCKS):
                for sm in (SRC_SEP, SRC_NULL, SRC_INPLACE):
                    for (r, kb) in (combos or [COMBOS[(sa * 8 + da + api + sm) % 6]]):
                        hi = 8 * rng.below(2)
                        if api == API_BLOCKS:
                            ln = 64 * rng.range(1, 3)
                            chunks = [(ln, sa + hi, da + hi)]
                        elif api == API_ONESHOT:
                            ln = 64 * rng.range(1, 2) + rng.below(64)
                            chunks = [(ln, sa + hi, da + hi)]
                        else:
                            a = rng.range(1, 63)
                            ln = a + 128 + rng.below(64)
                            # first call ends mid-block; the second consumes the carry-over and then
                            # runs whole blocks from pointers whose alignment is exactly (sa, da)
                            av = 64 - a
                            chunks = [(a, rng.below(8), rng.below(8)), (ln - a, (sa - av) % 8 + hi, (da - av) % 8 + hi)]
                        c = mk_chacha(rng, api, rng.below(2) if thorough else 0, r, kb, rcounter(rng),
                                      1, sm, rng.bytes(ln), chunks)
                        c["fam"] = "align"
                        cases.append(c)
    # F4: counters at the 2^32 and 2^64 boundaries
    for ctr in EDGE_COUNTERS:
        for (r, kb) in COMBOS:
            for x in (0, 1):
                for api in (API_STREAM, API_ONESHOT, API_BLOCKS):
                    for cm in ((1,) if api == API_ONESHOT else (1, 2)):
                        nb = rng.range(3, 5)
                        ln = nb * 64 + (0 if api == API_BLOCKS else rng.below(64))
                        chunks = [(ln, rng.below(8), rng.below(8))]
                        if api == API_STREAM and rng.below(2):
                            a = rng.range(1, ln - 1)
                            chunks = [(a, rng.below(8), rng.below(8)), (ln - a, rng.below(8), rng.below(8))]
                        c = mk_chacha(rng, api, x, r, kb, ctr, cm, rng.below(3), rng.bytes(ln), chunks)
                        c["fam"] = "counter"
                        cases.append(c)
    # F6: HChaCha
    edge = [bytes(32), b"\xff" * 32, bytes(range(32)), bytes(range(192, 224))]
    ivs = [None, bytes(16), b"\xff" * 16, bytes(range(16, 32)), bytes.fromhex("000000090000004a0000000031415927")]
    for k in edge:
        for iv in ivs:
            for (r, kb) in COMBOS:
                key = k[:kb // 8]
                cases.append({"kind": "hchacha", "fam": "hchacha", "pat": rng.below(256), "rounds": r,
                              "key_size": key_size_param(rng, kb), "key": key, "iv": iv, "da": rng.below(16)})
    return cases


def rsbox_custom(rng):
    tab = bytearray()
    for _ in range(8):
        row = list(range(16))
        rng.shuffle(row)
        tab += bytes(row)
    return bytes(tab)


def rsbox(rng, names):
    """-> (name, table or None)"""
    if rng.below(5) == 0:
        return "custom", rsbox_custom(rng)
    return rng.choice(names), None


def mk_gcrypt(rng, names, be, d, sbox, tab, nblk, sa, da, sa2, da2):
    c = {"kind": "gcrypt", "pat": rng.below(256), "be": be, "dir": d, "sbox": sbox,
         "key_size": rng.choice([32, 256]), "key": rkey(rng, 256), "ka": rng.below(8),
         "sa": sa, "da": da, "sa2": sa2, "da2": da2, "data": rng.bytes(8 * nblk)}
    if tab is not None:
        c["sbox_tab"] = tab
    return c


def gen_gost(tier, rng, names):
    cases = []
    thorough = tier == "thorough"
    allboxes = list(names) + ["custom"]
    # G1: alignment sweeps for every S-box set, both byte orders, encrypt / decrypt / round trip
    for sbox in allboxes:
        for be in (0, 1):
            for d in (0, 1, 2):
                for a in range(8):
                    for b in range(8):
                        tab = rsbox_custom(rng) if sbox == "custom" else None
                        nblk = rng.range(1, 16) if (thorough or rng.below(4) == 0) else rng.range(1, 3)
                        hi = 8 * rng.below(2)
                        if d == 2:
                            # encryption at random alignment, decryption swept
                            c = mk_gcrypt(rng, names, be, d, sbox, tab, nblk, rng.below(8), rng.below(8), a + hi, b + hi)
                        else:
                            c = mk_gcrypt(rng, names, be, d, sbox, tab, nblk, a + hi, b + hi, 0, 0)
                        c["fam"] = "galign"
                        cases.append(c)
    # G3: MAC over 1..8 blocks, every tag size, streaming over several calls
    reps = 6 if thorough else 1
    for sbox in allboxes:
        for be in (0, 1):
            for mac_size in list(range(0, 9)) + [9, 12, 16]:
                for nblk in range(0, 9):
                    for _ in range(reps):
                        tab = rsbox_custom(rng) if sbox == "custom" else None
                        k = rng.range(1, 3) if nblk else rng.below(2)
                        cuts = sorted(rng.below(nblk + 1) for _ in range(max(0, k - 1)))
                        bounds = [0] + cuts + [nblk]
                        chunks = [(rng.below(16), rng.bytes(8 * (bounds[i + 1] - bounds[i]))) for i in range(k)]
                        if rng.below(3) == 0:
                            # one context for MAC and cipher: each chunk is also encrypted (unaligned dst) after it was MAC-ed
                            chunks = [(sa | 0x40, d) for sa, d in chunks]
                        c = {"kind": "gmac", "fam": "gmac", "pat": rng.below(256), "be": be, "sbox": sbox,
                             "key_size": rng.choice([32, 256]), "key": rkey(rng, 256), "ka": rng.below(8),
                             "mac_size": mac_size, "mac_align": rng.below(8),
                             "mac_null": 1 if (mac_size and rng.below(40) == 0) else 0, "chunks": chunks}
                        if tab is not None:
                            c["sbox_tab"] = tab
                        cases.append(c)
    return cases


RANDOM_COUNTS = {            # (chacha, hchacha, gost crypt) random cases per tier, generated inside the workers
    "quick": (40000, 8000, 24000),
    "thorough": (500000, 80000, 300000),
}


def gen_random(rng, names, n_chacha, n_hchacha, n_gost):
    cases = []
    for _ in range(n_chacha):
        r, kb = rng.choice(COMBOS)
        api = rng.choice([API_STREAM, API_STREAM, API_STREAM, API_ONESHOT, API_BLOCKS])
        e = rng.below(10)
        ln = rng.below(300) if e < 5 else (rng.below(1200) if e < 8 else rng.below(4097))
        if api == API_BLOCKS:
            ln -= ln % 64
        if api == API_STREAM:
            k = rng.range(1, 8)
            cuts = sorted(rng.below(ln + 1) if rng.below(4) else 64 * rng.below(ln // 64 + 1) for _ in range(k - 1))
            bounds = [0] + cuts + [ln]
            chunks = [(bounds[i + 1] - bounds[i], rng.below(16), rng.below(16)) for i in range(k)]
        elif api == API_BLOCKS and ln and rng.below(2):
            a = 64 * rng.below(ln // 64 + 1)
            chunks = [(a, rng.below(16), rng.below(16)), (ln - a, rng.below(16), rng.below(16))]
        else:
            chunks = [(ln, rng.below(16), rng.below(16))]
        cm = rng.choice([0, 1, 1, 1, 2]) if api != API_ONESHOT else rng.choice([0, 1, 1])
        c = mk_chacha(rng, api, int(rng.below(3) == 0), r, kb, rcounter(rng), cm, rng.below(3), rng.bytes(ln), chunks)
        c["fam"] = "random"
        cases.append(c)
    for _ in range(n_hchacha):
        r, kb = rng.choice(COMBOS)
        cases.append({"kind": "hchacha", "fam": "hchacha-random", "pat": rng.below(256), "rounds": r,
                      "key_size": key_size_param(rng, kb), "key": rkey(rng, kb),
                      "iv": None if rng.below(16) == 0 else rng.bytes(16), "da": rng.below(16)})
    for _ in range(n_gost):
        sbox, tab = rsbox(rng, names)
        nblk = rng.range(1, 16) if rng.below(20) else 0
        c = mk_gcrypt(rng, names, rng.below(2), rng.below(3), sbox, tab, nblk,
                      rng.below(16), rng.below(16), rng.below(16), rng.below(16))
        c["fam"] = "grandom"
        cases.append(c)
    return cases



# ----------------------------------------------------------------------------
# evaluation of one case against the observations of all builds
# ----------------------------------------------------------------------------
def parse_obs(spec, ob):
    r = R(ob)
    st = r.u8()
    if st != 0:
        return {"status": st}
    k = spec["kind"]
    if k == "chacha":
        return {"status": 0, "out": r.blob(), "intact": r.u8(), "guards": r.u8(), "ctr": r.u64(), "ks_len": r.u32()}
    if k == "hchacha":
        return {"status": 0, "out": r.blob(), "intact": r.u8(), "guards": r.u8()}
    if k == "gcrypt":
        o = {"status": 0, "rc": r.i32(), "out": r.blob()}
        if spec["dir"] == 2 and o["rc"] == 0:
            o["rc2"] = r.i32()
            o["out2"] = r.blob()
        o["intact"] = r.u8()
        o["guards"] = r.u8()
        return o
    if k == "gmac":
        return {"status": 0, "rc": r.i32(), "out": r.blob(), "intact": r.u8(), "guards": r.u8()}
    raise ValueError(k)


def first_diff(a, b):
    n = min(len(a), len(b))
    for i in range(n):
        if a[i] != b[i]:
            return i
    return n if len(a) != len(b) else -1


def chacha_diagnose(spec, exp, got):
    """Stable detail for a wrong ChaCha output: the mechanism the FIRST wrong byte belongs to."""
    if len(exp) != len(got):
        return "length"
    i = first_diff(exp, got)
    off = 0
    ln = sa = da = 0
    for ln, sa, da in spec["chunks"]:
        if i < off + ln:
            break
        off += ln
    rel = i - off
    start_ctr = spec["counter"] if spec["ctr_mode"] else 0
    lo = start_ctr & 0xFFFFFFFF
    base = 0 if spec["api"] != API_ONESHOT else off      # one-shot calls restart the key stream
    # the block generated right after the low counter word wrapped
    wrapblk = bool(lo) and (i - base) // 64 == (1 << 32) - lo
    if wrapblk and (i - base) % 64 == 0:
        return "counter-carry"
    null = spec["src_mode"] == SRC_NULL
    d = sa if spec["src_mode"] == SRC_INPLACE else da
    if spec["api"] == API_BLOCKS:
        return "counter-carry" if wrapblk else "blocks-" + path_of(sa, d, null)
    avail = (64 - off % 64) % 64 if spec["api"] == API_STREAM else 0
    if rel < avail:
        return "stream-carry-over"          # bytes served from the key stream saved by the previous call
    if wrapblk:
        return "counter-carry"
    nbulk = (ln - avail) // 64
    if rel - avail < 64 * nbulk:
        return "blocks-" + path_of(sa + avail, d + avail, null)
    return "tail-block"


def gost_diagnose(spec, sboxes, phase, src, exp, got, sa, da):
    path = gpath(sa, da)
    if len(got) != len(exp):
        return "length"
    if phase == 1 or spec["dir"] == 1:
        # does the output equal the decryption of every block read in the OTHER byte order?
        tab = gost_tab(spec, sboxes)
        sw = b"".join(src[o:o + 8][::-1] for o in range(0, len(src), 8))
        if got == GO.decrypt(spec["key"], tab, sw, bool(spec["be"])):
            return ("unaligned" if path == "un" else "aligned") + "-path-loads-in-other-byte-order"
    return ("unaligned" if path == "un" else "aligned") + "-path"


def scope_of(failing, ran, infos):
    """'' when every build that ran the case fails; otherwise which subset fails."""
    F, A = set(failing), set(ran)
    if F == A:
        return ""
    small = {b for b in A if infos[b]["small"]}
    if small and F == small:
        return "small-tables-only"
    if small and F == A - small:
        return "expanded-tables-only"
    nsa_pass = {b for b in A - F if infos[b]["nsa"]}
    if not any(infos[b]["nsa"] for b in F) and \
            all(any(infos[p]["cc"] == infos[b]["cc"] for p in nsa_pass) for b in F):
        # fails only where the compiler may assume strict aliasing, and a -fno-strict-aliasing
        # build of the same compiler gives the reference answer
        return "only-without-fno-strict-aliasing"
    return "build-dependent"


def describe(spec):
    d = {k: v for k, v in spec.items() if k not in ("data", "sbox_tab", "chunks")}
    if "data" in spec:
        d["data_len"] = len(spec["data"])
        d["data_head"] = spec["data"][:16]
    if "chunks" in spec:
        if spec["kind"] == "gmac":
            d["chunks"] = [(sa, len(b)) for sa, b in spec["chunks"]]
        else:
            d["chunks"] = spec["chunks"]
    return enc(d)


def evaluate(spec, obs_by_build, infos, sboxes, part, names):
    """obs_by_build: build -> bytes | Crash.  Appends violations/observations to part."""
    kind = spec["kind"]
    ran = list(obs_by_build.keys())
    problems = {}       # key-without-scope -> {build: (expected, observed)}
    diag_cache = {}     # all builds usually fail the same way: diagnose each distinct wrong output once
    parsed = {}

    def add(key, build, exp, got):
        problems.setdefault(key, {})[build] = (exp, got)

    # expectation that does not depend on the observation
    if kind == "chacha":
        exp = chacha_expect(spec)
        entry = chacha_entry(spec)
    elif kind == "hchacha":
        k = spec["key"]
        exp = {"out": CH.hchacha(k, spec["iv"] if spec["iv"] is not None else bytes(16), spec["rounds"])}
        entry = "hchacha"
    elif kind == "gcrypt":
        tab = gost_tab(spec, sboxes)
        be = bool(spec["be"])
        if spec["dir"] == 1:
            exp = {"out": GO.decrypt(spec["key"], tab, spec["data"], be)}
        else:
            exp = {"out": GO.encrypt(spec["key"], tab, spec["data"], be)}
        entry = gost_entry(spec)
        dec_cache = {}
    else:
        tab = gost_tab(spec, sboxes)
        full = GO.mac(spec["key"], tab, b"".join(b for _, b in spec["chunks"]), bool(spec["be"]))
        ms = spec["mac_size"]
        exp = {"out": b"" if spec["mac_null"] else full[:ms], "pad": max(0, ms - 8)}
        entry = gost_entry(spec)

    for b in ran:
        ob = obs_by_build[b]
        san = infos[b]["san"]
        if isinstance(ob, Crash):
            ck = common.crash_key(ob, entry)
            rep = ob.report or ""
            is_write = "WRITE of size" in rep
            if UBSAN_ALIGNMENT_GATES and ob.kind == "ubsan" and "misaligned address" in rep and \
                    ("cipher/chacha.h" in rep or "cipher/gost28147.h" in rep):
                # the headers dispatch on pointer alignment precisely to avoid this: a word access
                # through a misaligned pointer means the dispatch chose the wrong path
                parts = ck.split(":")
                add("ubsan:%s:%s:misaligned-word-access" % (entry, parts[2] if len(parts) >= 4 else "?"), b,
                    "word accesses only through 4/8-byte aligned pointers", rep[-1500:])
            elif san == "plain" or ob.kind in ("signal", "hang", "exit") or (ob.kind == "asan" and is_write):
                add("crash:" + ck if san == "plain" else ck, b, "an observation", "%s rc=%s\n%s" % (
                    ob.kind, ob.returncode, (ob.report or "")[-1500:]))
            else:
                part["observations"][ck] = part["observations"].get(ck, 0) + 1
            continue
        part["evaluations"] += 1
        common.part_count(part, "evaluations_" + kind)
        common.part_count(part, "build_" + b)
        o = parse_obs(spec, ob)
        parsed[b] = o
        if o["status"] != 0:
            part["inconclusive"].append("driver rejected a case (status %#x) in %s" % (o["status"], b))
            continue
        if kind in ("chacha", "hchacha"):
            if o["out"] != exp["out"]:
                det = chacha_diagnose(spec, exp["out"], o["out"]) if kind == "chacha" else "subkey"
                add("oracle:%s:wrong-output:%s" % (entry, det), b, exp["out"], o["out"])
            if kind == "chacha" and exp["ctr"] is not None and o["ctr"] != exp["ctr"]:
                add("oracle:%s:wrong-counter" % entry, b, "%#x" % exp["ctr"], "%#x" % o["ctr"])
        elif kind == "gcrypt":
            if o["rc"] != 0:
                add("oracle:gost28147_init%s:error-on-valid-arguments" % ("_be" if spec["be"] else ""), b, 0, o["rc"])
                continue
            if o["out"] != exp["out"]:
                ck0 = (0, o["out"])
                if ck0 not in diag_cache:
                    diag_cache[ck0] = gost_diagnose(spec, sboxes, 0, spec["data"], exp["out"], o["out"],
                                                    spec["sa"], spec["da"])
                det = diag_cache[ck0]
                add("oracle:%s:wrong-output:%s" % (entry, det), b, exp["out"], o["out"])
            if spec["dir"] == 2:
                if o.get("rc2", 0) != 0:
                    add("oracle:gost28147_init%s:error-on-valid-arguments" % ("_be" if spec["be"] else ""), b, 0, o["rc2"])
                    continue
                ct = o["out"]
                if ct not in dec_cache:
                    dec_cache[ct] = GO.decrypt(spec["key"], tab, ct, be)
                want = dec_cache[ct]
                if o["out2"] != want:
                    ck1 = (1, ct, o["out2"])
                    if ck1 not in diag_cache:
                        diag_cache[ck1] = gost_diagnose(spec, sboxes, 1, ct, want, o["out2"], spec["sa2"], spec["da2"])
                    det = diag_cache[ck1]
                    e2 = gost_entry(spec, 1)
                    rt = "" if ct != exp["out"] else " [round trip: decrypt(encrypt(x)) != x, x=%s]" % spec["data"].hex()
                    add("oracle:%s:wrong-output:%s" % (e2, det), b, want.hex() + rt, o["out2"])
        else:
            if o["rc"] != 0:
                add("oracle:gost28147_init%s:error-on-valid-arguments" % ("_be" if spec["be"] else ""), b, 0, o["rc"])
                continue
            got = o["out"]
            if not spec["mac_null"]:
                if got[:8] != exp["out"][:8] or len(got) != spec["mac_size"]:
                    add("oracle:%s:wrong-mac" % entry, b, exp["out"], got)
                elif exp["pad"] and got[8:] != bytes(exp["pad"]):
                    k2 = "note:gost28147_final:tag-bytes-beyond-8-not-zero"
                    part["observations"][k2] = part["observations"].get(k2, 0) + 1
        if not o.get("intact", 1):
            add("oracle:%s:source-modified" % entry, b, "inputs unchanged", "input buffer changed")
        if not o.get("guards", 1):
            add("oracle:%s:write-before-buffer" % entry, b, "canary intact", "canary in front of a buffer overwritten")

    seen_keys = part.setdefault("_witnessed", set())
    for key, per in problems.items():
        failing = sorted(per.keys())
        # which subset of builds disagrees with the reference matters only for output comparisons;
        # sanitizer / crash keys are raised by the builds that carry that monitor
        scope = scope_of(failing, [b for b in ran if b in parsed or b in per], infos) if (key.startswith("oracle:") and ":wrong-" in key) else ""
        full_key = key
        if scope == "only-without-fno-strict-aliasing" and ":wrong-output:" in key:
            # a miscompilation: which bytes go wrong first is incidental, keep one key per entry point
            full_key = key[:key.index(":wrong-output:")] + ":wrong-output:" + scope
        elif scope:
            full_key = key + ":" + scope
        if full_key in seen_keys:
            part["violations"].append((full_key, None))     # counted; this worker already gave a witness
            continue
        seen_keys.add(full_key)
        b0 = failing[0]
        passing = [b for b in ran if b not in per and b in parsed]
        fcc = {infos[b]["cc"] for b in failing}
        # most informative counterparts first: same compiler with -fno-strict-aliasing, then same compiler
        passing.sort(key=lambda b: (not (infos[b]["nsa"] and infos[b]["cc"] in fcc), infos[b]["cc"] not in fcc, b))
        ex, got = per[b0]
        wit = {
            "key": full_key, "spec": enc(spec), "payload": payload(spec, names).hex(), "seed": common.seed(),
            "failing_builds": failing, "passing_builds": passing[:4], "build": b0,
            "build_info": {b: {k: infos[b][k] for k in ("cc", "flags", "san")} for b in failing[:3] + passing[:1]},
            "expected": ex.hex() if isinstance(ex, (bytes, bytearray)) else ex,
            "observed": got.hex() if isinstance(got, (bytes, bytearray)) else got,
            "entry": entry, "case": describe(spec),
        }
        part["violations"].append((full_key, wit))


def spec_class(spec):
    k = spec["kind"]
    if k == "chacha":
        return chacha_class(spec)
    if k == "hchacha":
        return ("hchacha", spec["rounds"], spec["key_size"], "iv0" if spec["iv"] is None else "iv", spec["da"] % 8)
    if k == "gcrypt":
        nb = len(spec["data"]) // 8
        c = ("gcrypt", spec["be"], spec["dir"], spec["sbox"], gpath(spec["sa"], spec["da"]), nb_bucket(nb), spec["key_size"])
        if spec["dir"] == 2:
            c += (gpath(spec["sa2"], spec["da2"]),)
        return c
    nb = sum(len(b) for _, b in spec["chunks"]) // 8
    return ("gmac", spec["be"], spec["sbox"], spec["mac_size"], nb, len(spec["chunks"]),
            "+".join(sorted({"al" if sa % 4 == 0 else "un" for sa, b in spec["chunks"] if b})) or "-")


def is_trivial(spec):
    k = spec["kind"]
    if k == "chacha":
        return len(spec["data"]) == 0
    if k == "gcrypt":
        return len(spec["data"]) == 0
    return False


# ----------------------------------------------------------------------------
# worker
# ----------------------------------------------------------------------------
ABORT_CAP = 12      # aborted cases per (job, build) after which the rest of the job skips that build


def run_capped(exe, payloads):
    """common.run_cases in batches.  Every aborted case costs a driver restart, so a tree on which a
    sanitizer (or a crash) stops nearly every case would take hours; after ABORT_CAP aborts the
    remaining cases of this job are not run in this build (counted, reported as inconclusive unless
    the aborts themselves are violations)."""
    results = []
    aborts = 0
    pos = 0
    size = 32
    while pos < len(payloads) and aborts < ABORT_CAP:
        batch = payloads[pos:pos + (size if aborts == 0 else 8)]
        size = min(4096, size * 2)
        res = common.run_cases(exe, batch)
        results.extend(res)
        if len(res) < len(batch):
            break
        pos += len(batch)
        aborts += sum(1 for r in res if isinstance(r, Crash))
    return results, (len(payloads) - pos if aborts >= ABORT_CAP else 0)


def worker(job):
    idx, specs, builds, infos, sboxes, names, rnd = job
    part = common.new_part()
    if rnd:
        tier, counts = rnd
        extra = gen_random(Rng("C08", common.seed(), tier, "worker", idx), names, *counts)
        seen = set()
        for s in extra:
            common.part_count(part, "cases_" + s["fam"])
            if idx == 0 and s["fam"] not in seen:
                seen.add(s["fam"])
                part["samples"].append({"family": s["fam"], "case": describe(s),
                                        "payload_hex": payload(s, names).hex()[:300],
                                        "executed_in": "every build variant listed under builds"})
        specs = specs + extra
    pl = [payload(s, names) for s in specs]
    is_ch = [s["kind"] in ("chacha", "hchacha") for s in specs]
    results = [dict() for _ in specs]
    for b, exe in builds.items():
        sel = [i for i in range(len(specs)) if (infos[b]["chacha"] or not is_ch[i])]
        if not sel:
            continue
        res, skipped = run_capped(exe, [pl[i] for i in sel])
        for i, r in zip(sel, res):
            results[i][b] = r
        if skipped:
            common.part_count(part, "cases_skipped_after_repeated_aborts", skipped)
            common.part_count(part, "skipped_in_" + b, skipped)
        elif len(res) < len(sel):
            part["inconclusive"].append("driver %s returned %d of %d observations" % (b, len(res), len(sel)))
    for i, s in enumerate(specs):
        evaluate(s, results[i], infos, sboxes, part, names)
        if not is_trivial(s):
            part["classes"].add(spec_class(s))
    part.pop("_witnessed", None)
    return part


# ----------------------------------------------------------------------------
# run / replay
# ----------------------------------------------------------------------------
def hello(exe):
    res = common.run_cases(exe, [W().u8(OP_HELLO).u8(0).done()])
    if not res or isinstance(res[0], Crash):
        raise common.Inconclusive("driver hello failed: %r" % (res[:1],))
    r = R(res[0])
    n = r.u32()
    tabs = {}
    for _ in range(n):
        name = r.blob().decode()
        tabs[name] = r.blob()
    small = r.u8()
    return tabs, small


def prepare(tier, report):
    matrix = build_matrix(tier)
    infos = {name: info for name, kw, info in matrix}
    builds = common.try_builds(report, [(name, kw) for name, kw, info in matrix])
    if not builds:
        raise common.Inconclusive("no build variant compiled")
    try:
        sboxes = GO.parse_sboxes()
    except (OSError, ValueError) as e:
        raise common.Inconclusive("cannot parse the S-box tables of the header: %r" % (e,))
    names = None
    for b, exe in builds.items():
        tabs, small = hello(exe)
        if bool(small) != bool(infos[b]["small"]):
            raise common.Inconclusive("build %s: GOST28147_USE_SMALL_TABLES did not take effect" % b)
        if tabs != {k: sboxes[k] for k in tabs if k in sboxes} or set(tabs) != set(sboxes):
            raise common.Inconclusive(
                "S-box sets of the header (%s) and of the driver (%s) differ, or the parsed table text "
                "differs from the compiled table" % (sorted(sboxes), sorted(tabs)))
        if names is None:
            names = list(tabs.keys())
    return matrix, infos, builds, sboxes, names


def run(tier):
    report = common.Report(PROP, tier, "exploration")
    for mod in (CH, GO):
        f = mod.selftest()
        if f:
            raise common.Inconclusive("oracle self-test failed: %s" % f[:3])
    matrix, infos, builds, sboxes, names = prepare(tier, report)
    for name, idx in GO.compare_with_reference(sboxes):
        report.violation("oracle:gost28147:sbox-table-differs-from-rfc4357:%s" % name,
                         {"table": name, "first_differing_index": idx, "row": "K%d" % (idx // 16 + 1), "column": idx % 16,
                          "header_value": sboxes[name][idx]})
    report.extra["sbox_sets_compared_with_independent_transcription"] = sorted(GO.REFERENCE_TABLES)
    rng = Rng("C08", common.seed(), tier, "gen")
    specs = gen_chacha(tier, rng) + gen_gost(tier, Rng("C08", common.seed(), tier, "gost"), names)
    Rng("C08", common.seed(), "shuffle").shuffle(specs)
    njobs = 64 if tier == "quick" else 256
    jobs = []
    tot = RANDOM_COUNTS[tier]
    for j in range(njobs):
        counts = tuple(t // njobs + (1 if j < t % njobs else 0) for t in tot)
        jobs.append((j, specs[j::njobs], builds, infos, sboxes, names, (tier, counts)))
    fam = {}
    for s in specs:
        if s["fam"] not in fam:
            report.add_sample({"family": s["fam"], "case": describe(s), "payload_hex": payload(s, names).hex()[:300],
                               "executed_in": "every build variant listed under builds"})
        fam[s["fam"]] = fam.get(s["fam"], 0) + 1
    for part in common.parallel(worker, jobs):
        report.merge(part)
    for k in ("random", "hchacha-random", "grandom"):
        fam[k] = report.extra.pop("cases_" + k, 0)
    report.extra["distinct_cases"] = sum(fam.values())
    report.extra["cases_by_family"] = fam
    report.extra["sbox_sets"] = names
    report.extra["exhaustive_subdomains"] = [
        "ChaCha: every length 0..320 in one call; every split (s, L-s), 0<=s<=L<=192, into two stream calls; "
        "all 8x8 (src,dst) alignments x 3 APIs x 3 source modes; all 8 edge counters x rounds x key size x API",
        "GOST: every S-box set x LE/BE x encrypt/decrypt/round-trip x all 8x8 alignments; MAC tag sizes 0..8,9,12,16 "
        "x 0..8 blocks x S-box set x LE/BE"]
    report.exhaustive = False
    report.rule = (
        "Cases are generated from VERIF_SEED by enumerated families (lengths 0..5 blocks, all two-call splits of "
        "lengths <= 3 blocks, 8x8 alignments, counters at 2^32/2^64 boundaries, all S-box sets x byte order x "
        "direction x alignment, all MAC tag sizes) plus random cases (keys, nonces, counters, lengths <= 4 KiB, "
        "k-way splits, per-call alignments 0..15, source NULL / in place, custom S-boxes). Each case runs in every "
        "build variant and every observation is compared byte for byte (and the block counter) with the Python "
        "reference; evaluations counts (case, build) executions. A case is non-trivial when it processes at least "
        "one byte (HChaCha/MAC always); two cases are distinct when they differ in the behaviour class "
        "(primitive, API, rounds, key-size form, source mode, counter class [zero/low/near32/carry32/high/near64/"
        "wrap64/null, set via bytes or u64], length class, number of calls, kind of key-stream carry-over between "
        "calls, alignment path taken for whole blocks, IV present; for GOST: entry point, byte order, direction, "
        "S-box set, aligned/unaligned path of each phase, block-count bucket, tag size, number of MAC calls). "
        "distinct_nontrivial is the size of that set.")
    report.assumptions = [
        "Python references validated at setup: ChaCha on RFC 7539 2.1.1/2.3.2/2.4.2/A.1, draft-strombergson TC1/TC8 "
        "(8/12/20 rounds, 128/256-bit keys), draft-irtf-cfrg-xchacha 2.2.1/A.3.1/A.3.2; GOST on GOST R 34.12-2015 "
        "A.2, GOST R 34.11-94 digests (test and CryptoPro hash parameter sets), BouncyCastle MAC/ECB vectors",
        "XChaCha with 128-bit keys or 8/12 rounds follows the header's own definition "
        "xchacha(key,ctr,iv)=chacha(hchacha(key,iv[0:16]),ctr,iv[16:24]) with the same round count",
        "big-endian GOST MAC tag is BE32(N1)||BE32(N2) (the library's documented vector; no standard defines it); "
        "contents of the CryptoPro-B/C/D S-box tables are taken from the header",
        "sanitizer reports that do not change outputs (UBSan shift etc., ASan reads, MSan) are recorded as "
        "observations and the oracle decides (DESIGN 3.1); ASan write overflows, signals and hangs are violations; "
        "UBSan misaligned-access reports inside chacha.h/gost28147.h are violations (wrong alignment dispatch; "
        "none occur on the unchanged tree) -- switch UBSAN_ALIGNMENT_GATES in verif/props/c08.py",
        "key_size is passed as 16/32 (bytes) or 128/256 (bits) for ChaCha and 32/256 for GOST, as the self tests do",
    ]
    sk = report.extra.get("cases_skipped_after_repeated_aborts", 0)
    if sk:
        report.inconclusive.append("%d (case, build) executions skipped after repeated aborts in a build" % sk)
    # essential monitors: every build must have delivered observations of every kind it was given
    for b in builds:
        if report.extra.get("build_" + b, 0) == 0:
            report.inconclusive.append("build %s produced no observation" % b)
    for k in ("chacha", "hchacha", "gcrypt", "gmac"):
        if report.extra.get("evaluations_" + k, 0) == 0:
            report.inconclusive.append("no %s case was evaluated" % k)
    if not any(infos[b]["san"] == "asu" for b in builds):
        report.inconclusive.append("no ASan+UBSan build available")
    if not any(infos[b]["small"] for b in builds) or not any(not infos[b]["small"] for b in builds):
        report.inconclusive.append("small-table and expanded-table builds are not both available")
    return report.finish()


def replay(path):
    with open(path) as fh:
        doc = json.load(fh)
    wit = doc["witness"]
    spec = dec(wit["spec"])
    if "chunks" in spec:
        spec["chunks"] = [tuple(c) for c in spec["chunks"]]
    report = common.Report(PROP, "quick", "exploration")
    allspecs = {name: (kw, info) for tier in ("thorough", "quick") for name, kw, info in build_matrix(tier)}
    want = [b for b in wit.get("failing_builds", [])[:4] + wit.get("passing_builds", [])[:2] if b in allspecs]
    builds = common.try_builds(report, [(b, allspecs[b][0]) for b in want])
    infos = {b: dict(allspecs[b][1], chacha=True) for b in builds}
    sboxes = GO.parse_sboxes()
    names = list(hello(next(iter(builds.values())))[0].keys()) if builds else []
    if not builds:
        print("replay: no build of the witness compiles")
        return 2
    pl = payload(spec, names)
    obs = {}
    for b, exe in builds.items():
        obs[b] = common.run_cases(exe, [pl])[0]
    part = common.new_part()
    evaluate(spec, obs, infos, sboxes, part, names)
    print("replay key=%s\ncase=%s" % (doc.get("key"), json.dumps(describe(spec))[:1500]))
    if not part["violations"]:
        print("replay: expected == observed in %s -- not reproduced" % sorted(builds))
        return 0
    for key, w in part["violations"]:
        print("replay: VIOLATION key=%s builds=%s" % (key, w["failing_builds"]))
        e, o = str(w["expected"]), str(w["observed"])
        d = first_diff(e, o)
        if d > 200 and "\n" not in o[:d]:
            print("  first difference at byte %d of the output" % (d // 2))
            lo = max(0, (d // 2 - 8) * 2)
            e, o = "..." + e[lo:], "..." + o[lo:]
        print("  expected: %s" % e[:600])
        print("  observed: %s" % o[:600])
    return 1
