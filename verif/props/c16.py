"""C16 — I/O tasks move exactly the bytes, in order, and report EOF, errors and timeouts.

The real threadpool_task.c runs in the c16_task harness (ASan+UBSan and TSan): a feeder
thread writes a seeded payload in random fragments with gaps into a socketpair, the task
callback reconstructs the stream from the buffer windows it is handed (canaries around the
window, exact-size heap buffer), a drainer compares what a write task emitted, packet
receiver and accept tasks are counted.  Observation is entirely at the callback boundary
and the peer."""
import json

from .. import common, tpcommon
from ..common import Rng, W, R

PROP = "C16"
EV_CB, EV_VIOL, EV_NOTE, EV_FEED, EV_STOP, EV_TIMEOUT, EV_ACCEPT, EV_PKT = range(1, 9)
VN = {1: "callback-after-stop", 2: "buffer-cursors-not-advanced-by-transferred", 3: "canary", 4: "data-outside-window",
      5: "transferred-exceeds-window", 6: "callback-on-wrong-thread", 7: "wrong-buffer-pointer",
      8: "callback-while-dispatch-task-paused"}
TP_F_ONESHOT, TP_F_DISPATCH = 1, 2
TASK_F_EVERY_READ = 2
ETIMEDOUT = 110
REPO_SRC = tpcommon.TP_SOURCES + ["src/threadpool/threadpool_task.c", "src/net/socket.c", "src/net/socket_address.c",
                                  "src/net/socket_options.c", "src/net/utils.c", "src/utils/sys.c"]


def build_all(report):
    kw = dict(name="c16_task", sources=["c16_task.c"], libs=["-lpthread"], repo_sources=REPO_SRC)
    return common.try_builds(report, [("asu", dict(kw, san="asu")), ("tsan", dict(kw, san="tsan"))])


def mk(rng, **kw):
    sc = dict(seed=rng.u64(), mode=1, S=64, win_o=0, win_t=64, event_flags=0, task_flags=0, sfio=1, timeout_ms=0, on_timeout=0,
              on_eof_ret=0, every_read_reset=0, stop_after=0, close_mode=1, quiesce_ms=20, wait_done=1, pause_after=0, use_tcp=0, drain_chunk=4096, drain_gap_us=0,
              drain_stop_after=0, sndbuf=0, nclients=0, payload=b"", frags=[], family="x")
    sc.update(kw)
    return sc


def encode(sc):
    w = W().u64(sc["seed"]).u8(sc["mode"]).u32(sc["S"]).u32(sc["win_o"]).u32(sc["win_t"])
    w.u8(sc["event_flags"]).u8(sc["task_flags"]).u8(sc["sfio"]).u32(sc["timeout_ms"])
    w.u8(sc["on_timeout"]).u8(sc["on_eof_ret"]).u8(sc["every_read_reset"]).u32(sc["stop_after"])
    w.u8(sc["close_mode"]).u32(sc["quiesce_ms"]).u8(sc["wait_done"]).u32(sc["pause_after"]).u8(sc["use_tcp"])
    w.u32(sc["drain_chunk"]).u32(sc["drain_gap_us"]).u32(sc["drain_stop_after"]).u32(sc["sndbuf"]).u16(sc["nclients"])
    w.blob(sc["payload"]).u16(len(sc["frags"]))
    for n, gap in sc["frags"]:
        w.u32(n).u32(gap)
    return w.done()


def fragments(rng, total, maxfrag, gap_choices):
    out = []
    left = total
    while left > 0 and len(out) < 4000:
        n = min(left, rng.range(1, maxfrag))
        out.append((n, rng.choice(gap_choices)))
        left -= n
    if left:
        out.append((left, 0))
    return out


def gen_scenarios(tier, seed):
    rng = Rng(PROP, seed, "gen")
    scale = 1 if tier == "quick" else 30
    out = []
    # A: read task, all flag choices, window geometry, fragmentation; peer closes at the end
    for i in range(90 * scale):
        S = rng.choice([1, 2, 7, 64, 256, 4096])
        P = rng.choice([0, 1, S - 1 if S > 1 else 1, S, S + 1, 3 * S + 5, 1000, 20000])
        P = min(P, 60000)
        o = rng.below(S)
        t = rng.range(1, S - o)
        ef = rng.choice([0, 0, TP_F_DISPATCH, TP_F_ONESHOT])
        out.append(mk(rng, family="read", S=S, win_o=o, win_t=t, event_flags=ef, task_flags=rng.choice([0, TASK_F_EVERY_READ]),
                      sfio=rng.below(2), timeout_ms=rng.choice([0, 0, 5000]), on_eof_ret=rng.below(2), every_read_reset=rng.below(2),
                      close_mode=rng.choice([1, 1, 2]), payload=rng.bytes(P),
                      frags=fragments(rng, P, rng.choice([1, 3, 50, 5000]), [0, 0, 0, 50, 300])))
    # A1b: a still armed task with TP_TASK_F_CLOSE_ON_DESTROY is destroyed while another reference to its descriptor exists;
    # data arriving afterwards must not reach a callback
    for i in range(6 * scale):
        S = rng.choice([64, 256, 4096])
        P = rng.choice([1, 10, S // 2])
        out.append(mk(rng, family="destroy-armed-shared-descriptor", S=S, win_o=0, win_t=S, event_flags=0,
                      task_flags=1 | rng.choice([0, TASK_F_EVERY_READ]), sfio=rng.below(2), timeout_ms=rng.choice([0, 5000]),
                      close_mode=0, wait_done=0, quiesce_ms=rng.choice([5, 30]), payload=rng.bytes(P),
                      frags=fragments(rng, P, rng.choice([1, 50]), [0, 0, 50])))
    # A1c: the application closes the descriptor itself and then destroys the still armed task (event removal fails with EBADF):
    # the task's timeout timer must be gone as well - no callback after destroy, also once the timeout has passed
    for i in range(4 * scale):
        S = rng.choice([64, 256])
        P = rng.choice([1, 10])
        out.append(mk(rng, family="destroy-after-descriptor-closed", S=S, win_o=0, win_t=S, event_flags=rng.choice([0, TP_F_DISPATCH]),
                      task_flags=0x80 | rng.choice([0, TASK_F_EVERY_READ]), sfio=rng.below(2), timeout_ms=rng.choice([100, 200]),
                      close_mode=0, wait_done=0, quiesce_ms=rng.choice([5, 20]), payload=rng.bytes(P),
                      frags=fragments(rng, P, 1, [0])))
    # A2: dispatch (manual mode) tasks: after some CONTINUEs the callback returns NONE without stopping; silence is required until re-enable
    for i in range(16 * scale):
        S = rng.choice([8, 64, 256])
        P = rng.choice([600, 4000])
        out.append(mk(rng, family="read-dispatch-pause", S=S, win_o=0, win_t=S, event_flags=TP_F_DISPATCH,
                      task_flags=rng.choice([0, TASK_F_EVERY_READ]), every_read_reset=rng.below(2), pause_after=rng.range(1, P // 2),
                      timeout_ms=rng.choice([0, 5000]), payload=rng.bytes(P), frags=fragments(rng, P, 80, [0, 100, 300])))
    # A3: TCP loopback, peer aborts the connection (RST) after the payload: the error must be reported exactly once
    for i in range(12 * scale):
        S = rng.choice([16, 256, 4096])
        P = rng.choice([0, 10, 700, 6000])
        out.append(mk(rng, family="read-reset", S=S, win_o=0, win_t=S, event_flags=rng.choice([0, TP_F_DISPATCH]),
                      task_flags=rng.choice([0, TASK_F_EVERY_READ]), every_read_reset=rng.below(2), use_tcp=1, close_mode=3,
                      timeout_ms=rng.choice([0, 5000]), payload=rng.bytes(P), frags=fragments(rng, P, 500, [0, 100])))
    # A4: stop + start again in mid-stream while bytes were read but not yet reported (no callback-after-every-read)
    for i in range(12 * scale):
        S = rng.choice([64, 256])
        first = rng.range(1, S // 4)
        P = first + rng.choice([8, 40, 300])
        out.append(mk(rng, family="read-stop-restart", S=S, win_o=0, win_t=S, event_flags=rng.choice([0, TP_F_DISPATCH]), task_flags=0,
                      sfio=rng.below(2), every_read_reset=rng.below(2), timeout_ms=0, payload=rng.bytes(P),
                      frags=[(first, 0), (0, 0xffffffff)] + fragments(rng, P - first, 20, [0, 100])))
    # B: stop in the middle of the stream; nothing may be delivered afterwards although the feeder keeps writing
    for i in range(20 * scale):
        S = rng.choice([8, 64, 512])
        P = rng.choice([3000, 5000])
        out.append(mk(rng, family="read-stop-midstream", S=S, win_o=0, win_t=S, event_flags=rng.choice([0, TP_F_DISPATCH]),
                      task_flags=rng.choice([0, TASK_F_EVERY_READ]), stop_after=rng.range(1, P // 2), close_mode=rng.choice([0, 1]),
                      payload=rng.bytes(P), frags=fragments(rng, P, 40, [0, 100, 400]), quiesce_ms=30))
    # C: timeouts: gaps are either <= timeout/10 or >= 10x timeout
    for i in range(16 * scale):
        T = rng.choice([300, 400])
        # stratified, not drawn: every (gap, event flags, stop/continue on timeout) combination occurs in every run
        long_gap = i % 2
        P = 600
        fr = fragments(rng, 300, 60, [0, 100, (T * 1000) // 20])
        if long_gap:
            fr.append((50, T * 1000 * 10))
        fr += fragments(rng, P - sum(n for n, _ in fr), 60, [0, 100])
        out.append(mk(rng, family="timeout-long-gap" if long_gap else "timeout-no-gap", S=128, win_o=0, win_t=128,
                      event_flags=[0, TP_F_DISPATCH][(i // 2) % 2],
                      # every fifth: the task comes from tp_task_connect_create() and its callback switches the handler
                      task_flags=(0x40 if i % 5 == 1 else rng.choice([0, TASK_F_EVERY_READ])), timeout_ms=T,
                      on_timeout=(i // 4) % 2, payload=rng.bytes(P), frags=fr, close_mode=1, quiesce_ms=40))
    # D: write task: window of the buffer must reach the peer byte-identical, slow peer, tiny send buffer
    for i in range(40 * scale):
        S = rng.choice([1, 16, 300, 70000, 400000])
        o = rng.below(min(S, 64))
        t = rng.range(1, S - o)
        chunk = rng.choice([1, 100, 65536])
        while t // chunk > 4000:
            chunk *= 8
        out.append(mk(rng, mode=2, family="write", S=S, win_o=o, win_t=t, event_flags=rng.choice([0, TP_F_DISPATCH]), sfio=rng.below(2),
                      timeout_ms=rng.choice([0, 5000]), payload=rng.bytes(min(t, 4096)), drain_chunk=chunk,
                      drain_gap_us=rng.choice([0, 0, 200]) if t // chunk < 500 else 0, sndbuf=rng.choice([0, 2048]), quiesce_ms=20))
    # E: packet receiver on a datagram socketpair
    for i in range(16 * scale):
        npk = rng.range(1, 50)
        sizes = [rng.range(1, 200) for _ in range(npk)]
        P = sum(sizes)
        out.append(mk(rng, mode=3, family="pkt-rcvr", S=rng.choice([256, 2048, 65536]), task_flags=rng.choice([0, TASK_F_EVERY_READ]),
                      payload=rng.bytes(P), frags=[(n, rng.choice([0, 0, 200])) for n in sizes], close_mode=0, quiesce_ms=30))
    # F: accept task
    for i in range(10 * scale):
        out.append(mk(rng, mode=4, family="accept", nclients=rng.range(1, 50), quiesce_ms=20))
    for i, sc in enumerate(out):
        sc["index"] = i
    return out


def check(sc, obs, part):
    viol = []
    rd = R(obs)
    if rd.u32() != 0xC16C16:
        part["inconclusive"].append("bad observation")
        return viol
    mode = rd.u8()
    nviol = rd.u64()
    stream = rd.blob()
    drained = rd.blob()
    wr_total = rd.u64()
    accepted = rd.u64()
    events = tpcommon.decode_events(rd)
    common.part_count(part, "events", len(events))
    cbs = [e for e in events if e[2] == EV_CB]
    common.part_count(part, "callbacks", len(cbs) + sum(1 for e in events if e[2] in (EV_PKT, EV_ACCEPT)))
    start_rc = [e[6] for e in events if e[2] == EV_NOTE and e[3] == 1]
    if start_rc and start_rc[0] != 0:
        viol.append(("task:start:well-formed-task-refused", "mode %d start rc=%d" % (mode, start_rc[0])))
        return viol
    for e in events:
        if e[2] == EV_VIOL:
            viol.append(("monitor:%s:%s" % (sc["family"].split("-")[0], VN.get(e[3], e[3])), "detail=%d" % e[6]))
        elif e[2] == EV_TIMEOUT:
            viol.append(("hang:task-destroy-did-not-run", ""))
        elif e[2] == EV_NOTE and e[3] == 7:
            viol.append(("progress:%s:task-never-reached-its-end" % sc["family"], "neither EOF/stop/completion nor the full payload within 40 s"))
    payload = sc["payload"]
    P = len(payload)
    fam = sc["family"]
    cls_base = (fam, sc["event_flags"], sc["task_flags"], sc["sfio"])
    if mode == 1:
        stops = [e for e in events if e[2] == EV_STOP and e[3] != 9]
        timeouts = [e for e in cbs if e[4] == ETIMEDOUT]
        eofs = [e for e in cbs if e[3] != 0 and e[5] == 0 and e[4] == 0]
        total_tr = sum(e[5] for e in cbs)
        part["classes"].add(cls_base + ("S%d" % len(str(sc["S"])), "P%d" % len(str(P)), "to" if timeouts else "noto", "eof" if eofs else "noeof"))
        harvested = sum(e[4] for e in events if e[2] == EV_NOTE and e[3] == 8)   # bytes read before a stop+restart and never reported
        if total_tr + harvested != len(stream):
            viol.append(("stream:read:transferred-sum-differs-from-bytes-in-windows", "sum=%d stream=%d" % (total_tr, len(stream))))
        if stream != payload[:len(stream)]:
            k = next((i for i in range(min(len(stream), P)) if stream[i] != payload[i]), min(len(stream), P))
            viol.append(("stream:read:bytes-differ-from-what-the-peer-wrote", "first difference at %d of %d (delivered %d)" % (k, P, len(stream))))
        if fam in ("read", "read-dispatch-pause", "read-stop-restart"):
            if len(stream) != P:
                viol.append(("stream:read:bytes-lost-or-duplicated", "delivered %d of %d bytes (stop reason %s)" % (len(stream), P, [e[3] for e in stops])))
            if len(eofs) != 1:
                viol.append(("stream:read:end-of-stream-reported-%s" % ("never" if not eofs else "more-than-once"), "eof callbacks=%d" % len(eofs)))
            if timeouts:
                viol.append(("stream:read:spurious-timeout", "timeouts=%d with 5 s budget" % len(timeouts)))
        elif fam == "read-reset":
            errs = [e for e in cbs if e[4] not in (0, ETIMEDOUT)]
            if len(errs) != 1:
                viol.append(("stream:read:connection-reset-reported-%s" % ("never" if not errs else "more-than-once"),
                             "error callbacks=%d eof callbacks=%d delivered %d of %d" % (len(errs), len(eofs), len(stream), P)))
            elif errs[0][4] not in (104, 32):
                viol.append(("stream:read:connection-reset-wrong-error-code", "error=%d" % errs[0][4]))
        elif fam == "read-stop-midstream":
            if len(stream) < min(sc["stop_after"], P):
                viol.append(("stream:read:stopped-early", "delivered %d, stop requested after %d" % (len(stream), sc["stop_after"])))
        elif fam == "timeout-no-gap":
            if timeouts:
                viol.append(("stream:read:spurious-timeout", "timeouts=%d although every gap <= timeout/20" % len(timeouts)))
            if len(stream) != P:
                viol.append(("stream:read:bytes-lost-or-duplicated", "delivered %d of %d bytes" % (len(stream), P)))
        elif fam == "timeout-long-gap":
            if not timeouts:
                viol.append(("stream:read:timeout-not-reported", "gap of 10x timeout produced no ETIMEDOUT callback"))
            elif not sc["on_timeout"] and len(timeouts) != 1:
                viol.append(("stream:read:timeout-reported-more-than-once", "timeouts=%d after stop" % len(timeouts)))
            elif sc["on_timeout"]:
                if len(timeouts) > 12:
                    viol.append(("stream:read:timeout-reported-too-often", "timeouts=%d for one gap of 10x timeout" % len(timeouts)))
                if len(stream) != P:
                    viol.append(("stream:read:task-not-rearmed-after-continue", "delivered %d of %d bytes after timeout+continue" % (len(stream), P)))
    elif mode == 2:
        t = sc["win_t"]
        want = bytes(payload[i % len(payload)] for i in range(t)) if payload else b""
        part["classes"].add(cls_base + ("S%d" % len(str(sc["S"])), "chunk%d" % sc["drain_chunk"], "sndbuf%d" % sc["sndbuf"]))
        if drained != want:
            k = next((i for i in range(min(len(drained), t)) if drained[i] != want[i]), min(len(drained), t))
            viol.append(("stream:write:peer-received-other-bytes-than-the-window", "received %d of %d, first difference at %d" % (len(drained), t, k)))
        if wr_total != t:
            viol.append(("stream:write:transferred-sum-differs-from-window", "sum=%d window=%d" % (wr_total, t)))
        done = [e for e in events if e[2] == EV_STOP and e[3] == 5]
        if len(done) != 1:
            viol.append(("stream:write:completion-not-reported-once", "completions=%d" % len(done)))
    elif mode == 3:
        pk = [e for e in events if e[2] == EV_PKT]
        part["classes"].add(cls_base + ("npk%d" % min(len(sc["frags"]), 9),))
        if stream != payload:
            viol.append(("stream:pkt:datagram-bytes-differ", "delivered %d of %d bytes in %d callbacks" % (len(stream), P, len(pk))))
        if sc["task_flags"] & TASK_F_EVERY_READ and len([e for e in pk if e[4] == 0 and e[5]]) != len(sc["frags"]):
            viol.append(("stream:pkt:callback-count-differs-from-datagrams", "callbacks=%d datagrams=%d" % (len(pk), len(sc["frags"]))))
    else:
        acc = [e for e in events if e[2] == EV_ACCEPT and e[4] == 0]
        firsts = sorted(e[4] for e in events if e[2] == EV_NOTE and e[3] == 4)
        part["classes"].add(cls_base + ("n%d" % min(sc["nclients"], 9),))
        if len(acc) != sc["nclients"]:
            viol.append(("accept:connection-count", "accepted %d of %d connections" % (len(acc), sc["nclients"])))
        elif len(set(firsts)) != len(firsts) or any(b >= sc["nclients"] for b in firsts):
            viol.append(("accept:connection-identity", "first bytes %s" % firsts[:10]))
    return viol


def run_one(job):
    sc, exes = job
    part = common.new_part()
    payload = encode(sc)
    for san, exe in exes.items():
        r = tpcommon.run_scenario(exe, payload, wall_timeout=300)
        if r.obs is None and (r.wall_timeout or common.classify_crash(r.rc, r.err) == "hang"):
            r = tpcommon.run_scenario(exe, payload, wall_timeout=300)
        part["evaluations"] += 1
        wit = {"scenario": {k: (v.hex() if isinstance(v, bytes) else v) for k, v in sc.items()}, "build": san, "payload": payload.hex()}
        if r.obs is None:
            k = common.classify_crash(r.rc, r.err)
            if k in ("asan", "ubsan"):
                part["violations"].append((common.crash_key(common.Crash(k, r.err, r.rc), "c16"), dict(wit, report=r.err[-4000:])))
            elif k == "hang":
                part["violations"].append(("hang:c16:%s" % sc["family"], dict(wit, report=r.err[-1500:])))
            else:
                part["inconclusive"].append("scenario %s build %s: harness exit rc=%s %s" % (sc["index"], san, r.rc, r.err[-300:]))
            continue
        v = check(sc, r.obs, part)
        timing = [x for x in v if "timeout" in x[0] or "rearmed" in x[0]]
        if timing:
            # timing-dependent verdict: re-run once, report only if it repeats
            r2 = tpcommon.run_scenario(exe, payload, wall_timeout=300)
            common.part_count(part, "timing_reruns", 1)
            if r2.obs is not None:
                v2 = check(sc, r2.obs, common.new_part())
                if not [x for x in v2 if "timeout" in x[0] or "rearmed" in x[0]]:
                    # the first run was disturbed by the clock (a starved process sees its 5 s inactivity timer expire and
                    # the task stop early, which also shows as missing bytes / missing EOF): the undisturbed re-run decides
                    common.part_count(part, "timing_disturbed_first_runs", 1)
                    v = v2
        for key, detail in v:
            part["violations"].append((key, dict(wit, detail=detail)))
        tpcommon.triage_into(part, r.err, wit, san)
        if not part["samples"]:
            part["samples"].append({k: (v2.hex()[:64] if isinstance(v2, bytes) else v2) for k, v2 in sc.items() if k != "frags"} | {"frags": sc["frags"][:12]})
    return part


def run(tier):
    report = common.Report(PROP, tier, "exploration")
    report.rule = ("scenario = (task kind read/write/packet-receiver/accept, buffer size and window position/size, event flags persistent/"
                   "dispatch/one-shot, callback-after-every-read, first I/O scheduled or direct, timeout vs gap regime, fragmentation of the "
                   "seeded payload, peer close/half-close/stay-open, stop in mid-stream, callback return codes); distinct class = (family, "
                   "event flags, task flags, first-io, size classes, timeout seen, eof seen)")
    exes = build_all(report)
    if not exes:
        raise common.Inconclusive("harness does not build: %s" % report.builds)
    scs = gen_scenarios(tier, common.seed())
    fams = {}
    for sc in scs:
        fams[sc["family"]] = fams.get(sc["family"], 0) + 1
    for part in common.parallel(run_one, [(sc, exes) for sc in scs]):
        report.merge(part)
    report.extra["scenario_families"] = fams
    report.assumptions = [
        "regular-file pread/pwrite tasks are not driven: epoll refuses regular files on Linux, so the rw handler is only reachable by the direct first-I/O path",
        "socket errors are produced only as TCP loopback resets (SO_LINGER 0 close by the peer) on read tasks",
        "timeout verdicts use gaps >= 10x or <= 1/20 of the timeout and are re-run once before being reported",
    ]
    if report.extra.get("callbacks", 0) == 0:
        report.inconclusive.append("no task callback observed")
    return report.finish()


def replay(path):
    with open(path) as fh:
        w = json.load(fh)["witness"]
    report = common.Report(PROP, "quick")
    exes = build_all(report)
    r = tpcommon.run_scenario(exes[w["build"]], bytes.fromhex(w["payload"]))
    print("rc", r.rc, r.err[-1500:])
    sc = dict(w["scenario"])
    sc["payload"] = bytes.fromhex(sc["payload"])
    sc["frags"] = [tuple(x) for x in sc["frags"]]
    if r.obs:
        v = check(sc, r.obs, common.new_part())
        for k, d in v:
            print("replayed:", k, d)
        return 1 if v else 0
    return 1
