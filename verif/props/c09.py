"""C09 - key encoding, validation, derivation and Diffie-Hellman are consistent; the byte-string
entry points read and write only within the sizes the caller passed.

Driver: drivers/c03_ecdsa.c.  Reference: oracles/ecdsa.py (SEC 1 encode/decode, validity predicate,
key derivation, cofactor DH).  Monitors:
  oracle   export bytes == SEC 1 encoding; import(export(P)) == P for compressed / packed / separate /
           concatenated x two byte orders; with validation enabled: accepted => O or (on curve and
           n*P = O), every standard encoding of such a point accepted, compressed => requested parity;
           key pair, recovered public key, DH value == reference; DH symmetric.
           With EC_DISABLE_PUB_KEY_CHK only round trip of valid encodings + memory safety are demanded.
  asan     every byte-string parameter lives in a heap block of exactly the size passed (vx_dup /
           vx_alloc); each size parameter is swept over the range the entry point accepts.  An ASan
           out-of-bounds report IS a violation here (key asan:<entry>:<frame>:<kind>).
"""
import json

from verif import common
from verif.common import Rng
from verif.oracles import ec, ecdsa
from verif.props import c03 as base
from verif.props.c03 import (Obs, enc_int, case_sign, case_verify, case_verify_priv, case_keygen, case_recover,
                             case_dh, case_export, case_import, RC_SETUP, ORDERS, DRIVER)

PROP = "C09"
FORMS = ("compressed", "packed", "separate", "concat")


# ---------------------------------------------------------------------------
# generator helpers (inputs only; verdicts come from oracles/ecdsa.py)
# ---------------------------------------------------------------------------
def _pmulmod(a, b, f, p):
    """product of polynomials a*b mod monic cubic f over F_p (coefficient lists, low degree first)"""
    r = [0] * (len(a) + len(b) - 1)
    for i, x in enumerate(a):
        if x:
            for j, y in enumerate(b):
                r[i + j] = (r[i + j] + x * y) % p
    for i in range(len(r) - 1, 2, -1):
        t = r[i]
        if t:
            for j in range(4):
                r[i - 3 + j] = (r[i - 3 + j] - t * f[j]) % p
    r = r[:3]
    while len(r) < 3:
        r.append(0)
    return r


def _ppow_x(e, f, p, shift=0):
    """(x + shift)^e mod f"""
    res = [1, 0, 0]
    b = [shift % p, 1, 0]
    while e:
        if e & 1:
            res = _pmulmod(res, b, f, p)
        b = _pmulmod(b, b, f, p)
        e >>= 1
    return res


def _pgcd(a, b, p):
    def trim(v):
        v = list(v)
        while v and v[-1] == 0:
            v.pop()
        return v
    a, b = trim(a), trim(b)
    while b:
        # a mod b
        inv = pow(b[-1], -1, p)
        a = list(a)
        while len(a) >= len(b):
            t = a[-1] * inv % p
            off = len(a) - len(b)
            for i, y in enumerate(b):
                a[off + i] = (a[off + i] - t * y) % p
            a = trim(a)
            if not a:
                break
        a, b = b, a
    if a:
        inv = pow(a[-1], -1, p)
        a = [x * inv % p for x in a]
    return a


def two_torsion_xs(c, rng):
    """x coordinates of the points (x, 0): roots of x^3 + a x + b in F_p (possibly empty)."""
    p = c.p
    f = [c.b % p, c.a % p, 0, 1]
    xp = _ppow_x(p, f, p)
    g = _pgcd(f, [(xp[0]) % p, (xp[1] - 1) % p, xp[2]], p)   # gcd(f, x^p - x)
    roots = []
    work = [g] if len(g) > 1 else []
    guard = 0
    while work and guard < 60:
        guard += 1
        g = work.pop()
        if len(g) == 2:
            roots.append((-g[0]) % p)
            continue
        t = rng.below(p)
        h = _ppow_x((p - 1) // 2, f, p, shift=t)
        h[0] = (h[0] - 1) % p
        d = _pgcd(g, h, p)
        if 1 < len(d) < len(g):
            work.append(d)
            # g / d
            q = []
            a = list(g)
            while len(a) >= len(d):
                tq = a[-1]
                q.insert(0, tq)
                off = len(a) - len(d)
                for i, y in enumerate(d):
                    a[off + i] = (a[off + i] - tq * y) % p
                a.pop()
            work.append(q)
        else:
            work.append(g)
    return [x for x in roots if (x * x * x + c.a * x + c.b) % p == 0]


def gen_points(c, rng, tier):
    n = c.n
    ks = [1, 2, 3, n - 1, n - 2, rng.range(4, n - 3), rng.range(4, n - 3)]
    if tier == "thorough":
        ks += [rng.range(4, n - 3) for _ in range(6)]
    pts = [("k=%s" % ("rand" if i >= 5 else str(k) if k < 4 else "n-%d" % (n - k)), ecdsa.mul_g(c, k)) for i, k in enumerate(ks)]
    pts.append(("O", None))
    return pts


def export_caps(c, P, form):
    nb = ecdsa.nbytes(c)
    if form == "compressed":
        return 1, 0, nb + 1, nb           # compress flag, has_y, cap_x, cap_y (y unused)
    if form == "packed":
        return 0, 0, 2 * nb + 1, 0
    return 0, 1, nb, nb                  # separate


def key_blob(enc):
    """(qx, qy) from an encode() result"""
    if isinstance(enc, tuple):
        return enc[0], enc[1]
    return enc, None


# ---------------------------------------------------------------------------
# crash handling: memory clause
# ---------------------------------------------------------------------------
_INTRA_OBJECT = "index 18446744073709551615 out of bounds for type 'bn_digit_t"


def rejudge_intra_object(part, exe, vm, cases, res, entry_of):
    """DESIGN 3.1: UBSan kinds that do not leave the object are observations.  clang's -fsanitize=bounds
    flags bn_sub() evaluating bn->num[digits - 1] with digits == 0: index -1 of the member array, i.e. the
    `digits` field of the same bn_t - never a caller's byte string.  Such a case is recorded as an
    observation and judged by its outputs on the matching plain build; every other report stays a
    violation of the memory clause."""
    out = list(res)
    for i, o in enumerate(res):
        if isinstance(o, common.Crash) and o.kind == "ubsan" and _INTRA_OBJECT in (o.report or ""):
            key = common.crash_key(o, entry_of(i))
            part["observations"][key] = part["observations"].get(key, 0) + 1
            try:
                out[i] = common.run_cases(base.plain_exe(vm), [cases[i]])[0]
            except common.BuildError:
                pass
    return out


def judge_crash(part, o, entry, vname, vm, case, note):
    key = common.crash_key(o, entry)
    rep = o.report or ""
    if o.kind == "ubsan" and any(k in rep for k in ("shift exponent", "left shift", "signed integer overflow",
                                                      "misaligned address", "alignment")):
        part["observations"][key] = part["observations"].get(key, 0) + 1
        return
    base._viol(part, key, vname, vm, case, "no sanitizer report / crash", repr(o), note, {"report": rep[-3500:]})


def run(tier):
    report = common.Report(PROP, tier, "exploration")
    report.rule = (
        "per curve (thorough: all 32; quick: a seeded rotating subset of 10 that always holds secp521r1, a cofactor-4, "
        "a Brainpool, a 161/225-bit-order and three GOST curves) x byte order (2) x build variant: 8 (thorough 14) points {G,2G,3G,(n-1)G,(n-2)G,random,O} "
        "exported in 3 layouts and re-imported in 4; ~45 invalid imports (off-curve, x/y >= p, non-residue x, "
        "2-torsion and wrong-order points where the true cofactor != 1, 5 wrong prefix bytes x 2 lengths, "
        "every total length 0..2*bytes+2); key generation over rnd {0,1,2,n-1,n,n+1,max,random} x rnd_size; "
        "public key from private key over key value x key length x layout; DH over key pairs x 4 peer layouts "
        "x cofactor flag + invalid peers; size sweeps (rnd_size, sign_size, priv_key_size, hash_size, "
        "pub_key_size) with exact-size heap blocks; bn-level ecdsa_key_gen/ec_point_mult_bp into fresh / O-holding / "
        "flag+stale output points followed by export and DH; DH with order-2 and order-4 peers x 12 scalars x "
        "cofactor flag at bn level and (validation off) byte level.  A class = (entry point, byte order, layout or input "
        "kind, size class, validation on/off, expected outcome, observed outcome).")
    report.assumptions = [
        "private key / nonce from random bytes: v if v < n else (v mod (n-1)) + 1 (bn_mod_reduce), 0 is refused",
        "DH shared secret: x(h^c * d * Q) with h the table's cofactor (header: 'P = h * d * Q'); failure iff that point is O",
        "hybrid prefixes 06/07 are neither required nor forbidden (SEC 1 v2 omits them, X9.62 allows them); if accepted the point must be valid",
        "with EC_DISABLE_PUB_KEY_CHK only round trip of valid encodings and memory safety are demanded of the import; DH is judged by its RESULT (h^c*d*Q = O must fail) also without validation and at bn level",
        "low-order peers are judged for every scalar, also h*d >= n (where reducing h*d mod n gives a different multiple of a point whose order does not divide n)",
    ]
    exes, meta = base.build_variants(report, tier)
    if not exes:
        raise common.Inconclusive("no build variant compiles")
    curves = ec.curve_list()
    jobs = []
    only = base.curve_filter(report)
    if not only and tier == "quick":
        only = base.quick_subset(curves, PROP)
        report.extra["quick_curve_subset"] = sorted(only)
    for ci in range(len(curves)):
        if only and curves[ci].name not in only:
            continue
        vs = sorted(exes)
        for oi in range(len(ORDERS)):
            for v in vs:
                if v.startswith("d8-") and curves[ci].bits > 256:
                    continue          # 8-bit digits cost ~25x; see variant_restrictions
                jobs.append({"ci": ci, "oi": oi, "tier": tier, "vname": v, "exe": exes[v], "meta": meta[v],
                             "fault": v == vs[(ci + 3 * oi) % len(vs)]})
    jobs.sort(key=lambda j: -curves[j["ci"]].bits)
    for part in common.parallel(work, jobs):
        report.merge(part)
    if any(v.startswith("d8-") for v in exes):
        report.extra["variant_restrictions"] = "8-bit-digit variant runs on curves <= 256 bit only (cost ~25x)"
    import resource
    ru = resource.getrusage(resource.RUSAGE_CHILDREN)
    report.extra["cpu_s_children"] = round(ru.ru_utime + ru.ru_stime, 1)
    if report.extra.get("roundtrip_ok", 0) == 0:
        report.inconclusive.append("no export/import round trip succeeded")
    if report.extra.get("size_sweep_cases", 0) == 0:
        report.inconclusive.append("memory monitor saw no size sweep")
    return report.finish()


def work(job):
    ci, tier, vname, exe, vm = job["ci"], job["tier"], job["vname"], job["exe"], job["meta"]
    oname, order, le = ORDERS[job["oi"]]
    part = common.new_part()
    c = ec.curve_list()[ci]
    nb = ecdsa.nbytes(c)
    n = c.n
    chk = vm["chk"]
    rng = Rng("C09", common.seed(), ci, oname)          # same inputs for every variant
    prng = Rng("C09p", common.seed(), ci, oname, vname)
    top = (1 << (8 * nb)) - 1
    E = lambda v: enc_int(v, nb, order)
    pat = lambda: prng.below(256)
    # cost grows with bits^3; slow variants and curves >= 384 bit get a reduced (still complete by kind) set
    light = (vm.get("slow") or c.bits >= 384) and tier == "quick"

    def cls(*a):
        part["classes"].add((oname, "chk" if chk else "nochk") + a)

    def viol(key, case, expect, observed, note):
        base._viol(part, key, vname, vm, case, expect, observed, "curve %s %s: %s" % (c.name, oname, note))

    # ------------------------------------------------------------------ phase 1
    cases = []
    info = []

    def add(kind, case, **kw):
        cases.append(case)
        kw["kind"] = kind
        info.append(kw)

    pts = gen_points(c, rng, tier)
    if light:
        pts = pts[:2] + pts[4:6] + pts[-1:]
    for pname, P in pts:
        for form in ("compressed", "packed", "separate"):
            comp, has_y, cx, cy = export_caps(c, P, form)
            if P is None:
                cx = 1
            add("export", case_export(ci, le, P, comp, has_y, cx, cy, pat=pat()), P=P, form=form, pname=pname)
    # key generation
    rnds = [("0", 0), ("1", 1), ("2", 2), ("n-1", min(n - 1, top)), ("n", min(n, top)), ("n+1", min(n + 1, top)),
            ("max", top), ("rand", rng.range(1, top)), ("rand2", rng.range(1, top))]
    if light:
        rnds = rnds[:1] + rnds[3:5] + rnds[6:8]
    for i, (rn, rv) in enumerate(rnds):
        for comp in ((0, 1) if i % 2 == 0 or tier == "thorough" else (i // 2 % 2,)):
            extra = (0, 1, 5)[(i + comp) % 3]
            rnd = rv.to_bytes(nb, order) + rng.bytes(extra)
            add("keygen", case_keygen(ci, le, rnd, comp, 1, nb, (nb + 1) if comp else nb, nb, pat=pat()),
                rnd=rnd, comp=comp, rn=rn)
    add("keygen-no-y", case_keygen(ci, le, E(5), 1, 0, nb, nb + 1, 0, pat=pat()), rnd=E(5), comp=1, rn="5")
    # public key from private key
    dvals = [("1", 1), ("2", 2), ("n-1", n - 1), ("rand", rng.range(1, min(n - 1, top))), ("0", 0), ("n", n), ("max", top)]
    for i, (dn, dv) in enumerate(dvals):
        forms = ("compressed", "packed", "separate") if (tier == "thorough" or i == 3) else (("compressed", "packed", "separate")[i % 3],)
        for form in forms:
            comp, has_y, cx, cy = export_caps(c, 1, form)
            for short in ((0, 1) if dv < 256 else (0,)):
                ln = max(1, (dv.bit_length() + 7) // 8) if short else max(nb, (dv.bit_length() + 7) // 8)
                add("recover", case_recover(ci, le, dv.to_bytes(ln, order), comp, has_y, cx, cy, pat=pat()),
                    d=dv, dn=dn, form=form, dlen=ln)
    # Diffie-Hellman
    pairs = [(rng.range(1, min(n - 1, top)), rng.range(1, min(n - 1, top))), (1, min(n - 1, top)), (2, rng.range(1, min(n - 1, top)))]
    if light:
        pairs = pairs[:1]
    # own key 1 with peer G, and dB = dA^-1 mod n: the secret is x(G) - 0 resp. 1 on some GOST curves
    da_inv = rng.range(2, min(n - 1, top))
    if pow(da_inv, -1, n) <= top:
        pairs += [(1, 1), (da_inv, pow(da_inv, -1, n))]
    else:
        pairs += [(1, 1)]
    for pi, (da, db) in enumerate(pairs):
        QA, QB = ecdsa.mul_g(c, da), ecdsa.mul_g(c, db)
        for cof in (0, 1):
            for fi, form in enumerate(FORMS):
                if tier == "quick" and pi > 0 and (fi + cof + pi) % 2:
                    continue
                for (dd, QQ, side) in ((da, QB, "A"), (db, QA, "B")):
                    qx, qy = key_blob(ecdsa.encode(c, QQ, form, order))
                    dbytes = dd.to_bytes(nb if (fi % 2 == 0) else max(1, (dd.bit_length() + 7) // 8), order)
                    add("dh", case_dh(ci, le, cof, qx, qy, dbytes, nb, pat=pat()), d=dd, Q=QQ, cof=cof, form=form,
                        pair=(pi, cof, form), side=side)
    Qv = ecdsa.mul_g(c, 7)
    dv_ok = rng.range(1, min(n - 1, top))
    x7, y7 = Qv
    bad_peers = [("offcurve", (x7, (y7 + 1) % c.p)), ("O", None)]
    wp = base.wrong_order_point(c, rng)
    if wp is not None:
        bad_peers.append(("wrong-order", wp))
    for nm, PP in bad_peers:
        if PP is None:
            qx, qy = b"\x00", None
        else:
            qx, qy = b"\x04" + E(PP[0]) + E(PP[1]), None
        for cof in (0, 1):
            add("dh-bad-peer", case_dh(ci, le, cof, qx, qy, E(dv_ok), nb, pat=pat()), peer=nm, P=PP, cof=cof, d=dv_ok)
    for nm, dd in (("d0", 0), ("dn", n), ("dmax", top)):
        db_ = enc_int(dd, nb, order)
        if db_ is not None:
            qx, qy = key_blob(ecdsa.encode(c, Qv, "packed", order))
            add("dh-bad-priv", case_dh(ci, le, 0, qx, qy, db_, nb, pat=pat()), d=dd, dn=nm, Q=Qv, cof=0)
    # invalid / boundary imports
    imports = []      # (kind, qx, qy, claimed size or None)
    xs, ys = E(x7), E(y7)
    packed7 = b"\x04" + xs + ys
    for nm, (px, py) in (("offcurve-y+1", (x7, (y7 + 1) % c.p)), ("offcurve-x+1", ((x7 + 1) % c.p, y7)),
                         ("x+p", (x7 + c.p, y7)), ("y+p", (x7, y7 + c.p)), ("x=p", (c.p, y7)), ("max", (top, top)),
                         ("zero", (0, 0)), ("swapped", (y7, x7))):
        xb, yb = E(px), E(py)
        if xb is None or yb is None:
            continue
        f = ("packed", "concat", "separate")[prng.below(3)] if tier == "quick" else None
        for form in ((f,) if f else ("packed", "concat", "separate")):
            if form == "packed":
                imports.append((nm, b"\x04" + xb + yb, None, None))
            elif form == "concat":
                imports.append((nm, xb + yb, None, None))
            else:
                imports.append((nm, xb, yb, None))
    xnr = base.non_residue_x(c, rng)
    if xnr is not None:
        for pref in (2, 3):
            imports.append(("compressed-noroot", bytes([pref]) + E(xnr), None, None))
    if E(x7 + c.p) is not None:
        imports.append(("compressed-x+p", bytes([2 + (y7 & 1)]) + E(x7 + c.p), None, None))
    imports.append(("compressed-x=max", b"\x02" + E(top), None, None))
    imports.append(("compressed-other-parity", bytes([3 - (y7 & 1)]) + xs, None, None))
    for x0 in two_torsion_xs(c, rng)[:2]:
        imports.append(("y=0:even", b"\x02" + E(x0), None, None))
        imports.append(("y=0:odd", b"\x03" + E(x0), None, None))
        imports.append(("y=0:packed", b"\x04" + E(x0) + E(0), None, None))
        imports.append(("y=0:separate", E(x0), E(0), None))
    if wp is not None:
        imports.append(("wrong-order:packed", b"\x04" + E(wp[0]) + E(wp[1]), None, None))
        imports.append(("wrong-order:concat", E(wp[0]) + E(wp[1]), None, None))
        imports.append(("wrong-order:separate", E(wp[0]), E(wp[1]), None))
        imports.append(("wrong-order:compressed", bytes([2 + (wp[1] & 1)]) + E(wp[0]), None, None))
    for pref in (0, 1, 5, 8, 255):
        imports.append(("prefix-%d:short" % pref, bytes([pref]) + xs, None, None))
        imports.append(("prefix-%d:long" % pref, bytes([pref]) + xs + ys, None, None))
    for pref in (2, 3):
        imports.append(("prefix-%d:long" % pref, bytes([pref]) + xs + ys, None, None))
    imports.append(("prefix-4:short", b"\x04" + xs, None, None))
    for pref in (6, 7):
        imports.append(("hybrid-%d" % pref, bytes([pref]) + xs + ys, None, None))
    for b1 in (0, 1, 2, 4, 255):
        imports.append(("one-byte-%d" % b1, bytes([b1]), None, None))
    imports.append(("separate-no-y", xs, None, None))
    lens = list(range(0, 2 * nb + 3))
    if tier == "quick" and nb > 24:
        keep = {0, 1, 2, nb - 1, nb, nb + 1, nb + 2, 2 * nb - 1, 2 * nb, 2 * nb + 1, 2 * nb + 2}
        rest = [l for l in lens if l not in keep]
        prng.shuffle(rest)
        lens = sorted(keep | set(rest[:14 if not light else 4]))
    for ln in lens:
        src = (packed7 + b"\x07\x07")[:ln] if ln % 2 else prng.bytes(ln)
        imports.append(("len-%s" % ("valid" if ln in (1, nb, nb + 1, 2 * nb, 2 * nb + 1) else "other"), src, ys if ln == nb else None, None))
    if light:
        prng.shuffle(imports)
        imports = imports[:30]
    # a coordinate exactly equal to p is an alias of 0 after reduction: where (0, sqrt b) is a valid key the encoding with
    # x = p would be taken for that point unless the range test refuses it (always generated, also in light mode)
    y0 = ec.sqrt_mod(c.b % c.p, c.p)
    if y0 is not None and ecdsa.valid_public_key(c, (0, y0)) and E(c.p) is not None:
        pb, y0b = E(c.p), E(y0)
        imports.append(("x=p:alias-of-0:packed", b"\x04" + pb + y0b, None, None))
        imports.append(("x=p:alias-of-0:concat", pb + y0b, None, None))
        imports.append(("x=p:alias-of-0:separate", pb, y0b, None))
        imports.append(("x=p:alias-of-0:compressed", bytes([2 + (y0 & 1)]) + pb, None, None))
    for (kind, qx, qy, claim) in imports:
        add("import", case_import(ci, le, qx, qy, claim, pat=pat()), sub=kind, qx=qx, qy=qy)
    # size sweeps: exact-size blocks, every accepted size
    d_s = rng.range(1, min(n - 1, top))
    h_s = rng.bytes(nb)
    k_s = rng.range(1, min(n - 1, top))
    sweeps = 0
    pk_sizes = sorted({1, max(1, nb // 2), nb}) if tier == "thorough" or not light else [1]
    for pk in pk_sizes:
        dsm = rng.range(1, (1 << (8 * pk)) - 1) % n or 1
        dbs = dsm.to_bytes(pk, order)
        sizes = list(range(pk, nb + 2))
        if tier == "quick" and len(sizes) > 6:
            mid = sizes[1:-3]
            prng.shuffle(mid)
            sizes = sorted({sizes[0], sizes[-3], sizes[-2], sizes[-1]} | set(mid[:2]))
        for rs in sizes:
            rnd = (k_s.to_bytes(nb, order) + b"\x01")[:rs] if order == "big" else (k_s.to_bytes(nb, order) + b"\x01")[:rs]
            add("sweep-sign-rnd", case_sign(ci, le, h_s, dbs, rnd, nb=nb, pat=pat()), rs=rs, pk=pk, d=dsm, rnd=rnd)
            sweeps += 1
    for hs in sorted({1, nb - 1, nb, nb + 1, 2 * nb + 1}):
        add("sweep-sign-hash", case_sign(ci, le, rng.bytes(hs), E(d_s) if E(d_s) else b"\x01", k_s.to_bytes(nb, order), nb=nb, pat=pat()), hs=hs)
        sweeps += 1
    for rs in (1, nb - 1, nb, nb + 1):
        rnd = rng.bytes(rs)
        add("sweep-keygen-rnd", case_keygen(ci, le, rnd, 1, 1, nb, nb + 1, nb, pat=pat()), rs=rs, rnd=rnd, comp=1, rn="sweep")
        sweeps += 1
    e_s = ecdsa.hash_to_e(c, h_s, order)
    try:
        r_s, s_s = ecdsa.sign_e(c, e_s, d_s, k_s)
    except ecdsa.Invalid:
        r_s, s_s = 1, 1
    Qs = ecdsa.mul_g(c, d_s)
    qx_s, qy_s = key_blob(ecdsa.encode(c, Qs, "compressed", order))
    ssz = sorted({1, 2, nb - 1, nb, nb + 1}) if tier == "quick" else list(range(1, nb + 2))
    for sz in ssz:
        rb = (r_s % (1 << (8 * min(sz, nb)))).to_bytes(sz, order)
        sb = (s_s % (1 << (8 * min(sz, nb)))).to_bytes(sz, order)
        add("sweep-verify-ssz", case_verify(ci, le, h_s, rb, sb, qx_s, qy_s, pat=pat()), sz=sz)
        add("sweep-verifypriv-ssz", case_verify_priv(ci, le, h_s, rb, sb, E(d_s) or b"\x01", pat=pat()), sz=sz)
        sweeps += 2
    for pk in sorted({1, nb - 1, nb, nb + 1, 2 * nb, 2 * nb + 9}):
        dbs = rng.bytes(pk)
        add("sweep-verifypriv-pk", case_verify_priv(ci, le, h_s, E(r_s) or b"\x01", E(s_s) or b"\x01", dbs, pat=pat()), pk=pk)
        add("sweep-dh-pk", case_dh(ci, le, 0, qx_s, qy_s, dbs, nb, pat=pat()), pk=pk)
        add("sweep-recover-pk", case_recover(ci, le, dbs, 1, 0, nb + 1, 0, pat=pat()), pk=pk)
        sweeps += 3
    vlens = lens if tier == "thorough" else sorted({0, 1, 2, nb - 1, nb, nb + 1, nb + 2, 2 * nb, 2 * nb + 1, 2 * nb + 2})
    for ln in vlens:
        src = (packed7 + b"\x07\x07")[:ln]
        add("sweep-verify-qsz", case_verify(ci, le, h_s, E(r_s) or b"\x01", E(s_s) or b"\x01", src, ys if ln == nb else None, pat=pat()), ln=ln)
        add("sweep-dh-qsz", case_dh(ci, le, 1, src, ys if ln == nb else None, E(d_s) or b"\x01", nb, pat=pat()), ln=ln)
        sweeps += 2
    common.part_count(part, "size_sweep_cases", sweeps)

    ENT = {"export": "ecdsa_pub_key_export", "keygen": "ecdsa_key_gen", "keygen-no-y": "ecdsa_key_gen",
           "recover": "ecdsa_recover_pub_key_from_priv_key", "dh": "ecdsa_dh", "dh-bad-peer": "ecdsa_dh",
           "dh-bad-priv": "ecdsa_dh", "import": "ecdsa_pub_key_import", "sweep-sign-rnd": "ecdsa_sign",
           "sweep-sign-hash": "ecdsa_sign", "sweep-keygen-rnd": "ecdsa_key_gen", "sweep-verify-ssz": "ecdsa_verify",
           "sweep-verifypriv-ssz": "ecdsa_verify_priv_key", "sweep-verifypriv-pk": "ecdsa_verify_priv_key",
           "sweep-dh-pk": "ecdsa_dh", "sweep-recover-pk": "ecdsa_recover_pub_key_from_priv_key",
           "sweep-verify-qsz": "ecdsa_verify", "sweep-dh-qsz": "ecdsa_dh", "import2": "ecdsa_pub_key_import"}

    def entry(kind):
        return "%s_%s" % (ENT[kind], oname)

    res = rejudge_intra_object(part, exe, vm, cases, common.run_cases(exe, cases), lambda i: entry(info[i]["kind"]))
    imp2 = []           # second phase: import what the library exported
    dh_seen = {}
    for inf, o, cs in zip(info, res, cases):
        kind = inf["kind"]
        ent = entry(kind)
        part["evaluations"] += 1
        if isinstance(o, common.Crash):
            judge_crash(part, o, ent, vname, vm, cs, "curve %s %s: %s %s" % (c.name, oname, kind, {k: v for k, v in inf.items() if k in ("rs", "pk", "hs", "sz", "ln", "sub", "form", "rn")}))
            cls(kind, "crash", o.kind)
            continue
        ob = Obs(o)
        if ob.rc == RC_SETUP:
            common.part_count(part, "driver_setup_skipped")
            continue
        ok = ob.rc == 0
        if kind == "export":
            P, form = inf["P"], inf["form"]
            size = ob.r.u32()
            bx, by = ob.r.blob(), ob.r.blob()
            want = ecdsa.encode(c, P, form, order)
            wx, wy = key_blob(want)
            cls("export", form, "O" if P is None else "finite", ok)
            if not ok:
                viol("oracle:%s:fails-on-valid-input:rc%d" % (ent, ob.rc), cs, "rc 0 and %s" % wx.hex(), {"rc": ob.rc},
                     "export of valid point %s in layout %s failed" % (inf["pname"], form))
                continue
            wsize = 1 if P is None else len(wx)
            gx = bx[:wsize]
            gy = by[:nb] if (form == "separate" and P is not None) else b""
            if size != wsize or gx != wx[:wsize] or (form == "separate" and P is not None and gy != wy):
                viol("oracle:%s:wrong-encoding:%s" % (ent, form), cs, {"size": wsize, "x": wx.hex(), "y": (wy or b"").hex()},
                     {"size": size, "x": bx.hex(), "y": by.hex()}, "export of %s differs from SEC 1" % inf["pname"])
                continue
            common.part_count(part, "export_ok")
            if not any(x.get("op") == "export" for x in part["samples"]) and P is not None:
                part["samples"].append({"op": "export", "curve": c.name, "entry": ent, "variant": vname, "layout": form,
                                        "point": [hex(P[0]), hex(P[1])], "bytes": gx.hex() + ("|" + gy.hex() if gy else "")})
            # re-import what the library produced, in every layout the bytes allow
            if P is None:
                imp2.append((P, "O", gx, None))
            elif form == "separate":
                imp2.append((P, "separate", gx, gy))
                imp2.append((P, "concat", gx + gy, None))
            else:
                imp2.append((P, form, gx, None))
        elif kind in ("keygen", "keygen-no-y", "sweep-keygen-rnd"):
            dsz, qsz = ob.r.u32(), ob.r.u32()
            bd, bx, by = ob.r.blob(), ob.r.blob(), ob.r.blob()
            rnd = inf["rnd"]
            if kind == "keygen-no-y":
                cls("keygen", "no-y", ok)
                if ok:
                    viol("oracle:%s:accepts-null-y" % ent, cs, "EINVAL (documented NULL check)", {"rc": 0}, "pub_key_y == NULL")
                continue
            if len(rnd) < nb:
                cls("keygen", "rnd-short", ok)
                if ok:
                    viol("oracle:%s:accepts-short-rnd" % ent, cs, "EINVAL", {"rc": 0}, "rnd_size %d < bytes %d" % (len(rnd), nb))
                continue
            try:
                d, Q = ecdsa.keygen(c, int.from_bytes(rnd[:nb], order))
            except ecdsa.Invalid:
                d, Q = None, None
            cls("keygen", inf["rn"], inf["comp"], len(rnd) - nb, d is not None, ok)
            if d is None:
                if ok:
                    viol("oracle:%s:derives-key-from-zero" % ent, cs, "error", {"rc": 0, "d": bd.hex()}, "rnd = 0 must be refused")
                continue
            if not ok:
                viol("oracle:%s:fails-on-valid-input:rc%d" % (ent, ob.rc), cs, "key pair", {"rc": ob.rc}, "rnd=%s" % rnd.hex())
                continue
            form = "compressed" if inf["comp"] else "separate"
            wx, wy = key_blob(ecdsa.encode(c, Q, form, order))
            good = dsz == nb and bd == d.to_bytes(nb, order) and qsz == len(wx) and bx[:len(wx)] == wx and \
                (form != "separate" or by == wy)
            if not good:
                viol("oracle:%s:wrong-key-pair" % ent, cs, {"d": hex(d), "x": wx.hex(), "y": (wy or b"").hex(), "size": len(wx)},
                     {"d": bd.hex(), "dsz": dsz, "x": bx.hex(), "y": by.hex(), "size": qsz}, "rnd=%s" % rnd.hex())
            else:
                common.part_count(part, "keygen_ok")
        elif kind in ("recover", "sweep-recover-pk"):
            qsz = ob.r.u32()
            bx, by = ob.r.blob(), ob.r.blob()
            if kind == "sweep-recover-pk":
                cls("recover-sweep", inf["pk"] <= nb, ok)
                if ok and inf["pk"] > nb:
                    viol("oracle:%s:accepts-long-key" % ent, cs, "EINVAL", {"rc": 0}, "priv_key_size %d > bytes" % inf["pk"])
                continue
            d, form = inf["d"], inf["form"]
            valid = 1 <= d < n and inf["dlen"] <= nb
            cls("recover", inf["dn"], form, inf["dlen"] < nb, valid, ok)
            if not valid:
                if ok:
                    viol("oracle:%s:accepts-invalid-key:%s" % (ent, inf["dn"]), cs, "error", {"rc": 0, "x": bx.hex()}, "d=%x" % d)
                continue
            if not ok:
                viol("oracle:%s:fails-on-valid-input:rc%d" % (ent, ob.rc), cs, "public key", {"rc": ob.rc}, "d=%x layout %s" % (d, form))
                continue
            wx, wy = key_blob(ecdsa.encode(c, ecdsa.pub_from_priv(c, d), form, order))
            if qsz != len(wx) or bx[:len(wx)] != wx or (form == "separate" and by != wy):
                viol("oracle:%s:wrong-public-key" % ent, cs, {"x": wx.hex(), "y": (wy or b"").hex()},
                     {"x": bx.hex(), "y": by.hex(), "size": qsz}, "d=%x layout %s" % (d, form))
            else:
                common.part_count(part, "recover_ok")
        elif kind in ("dh", "dh-bad-peer", "dh-bad-priv", "sweep-dh-pk", "sweep-dh-qsz"):
            shsz = ob.r.u32()
            bs = ob.r.blob()
            if kind == "sweep-dh-pk":
                cls("dh-sweep-pk", inf["pk"] <= nb, ok)
                if ok and inf["pk"] > nb:
                    viol("oracle:%s:accepts-long-key" % ent, cs, "EINVAL", {"rc": 0}, "priv_key_size %d > bytes" % inf["pk"])
                continue
            if kind == "sweep-dh-qsz":
                cls("dh-sweep-qsz", inf["ln"] in (1, nb, nb + 1, 2 * nb, 2 * nb + 1), ok)
                continue
            if kind == "dh-bad-peer":
                cls("dh-bad-peer", inf["peer"], inf["cof"], ok)
                if ok and (chk or inf["peer"] == "O"):
                    viol("oracle:%s:accepts-invalid-peer:%s" % (ent, inf["peer"]), cs, "error", {"rc": 0, "shared": bs.hex()},
                         "peer key %s must be refused" % inf["peer"])
                continue
            try:
                want = ecdsa.dh(c, inf["d"], inf["Q"], inf["cof"])
            except ecdsa.Invalid:
                want = None
            if kind == "dh-bad-priv":
                cls("dh-bad-priv", inf["dn"], ok)
                if ok and (want is None or not (1 <= inf["d"] < n)):
                    viol("oracle:%s:accepts-invalid-key:%s" % (ent, inf["dn"]), cs, "error", {"rc": 0}, "d=%x" % inf["d"])
                continue
            cls("dh", inf["form"], inf["cof"], want is not None, ok)
            if want is None:
                if ok:
                    viol("oracle:%s:succeeds-on-neutral-result" % ent, cs, "error", {"rc": 0}, "h*d*Q = O")
                continue
            if not ok:
                viol("oracle:%s:fails-on-valid-input:rc%d" % (ent, ob.rc), cs, hex(want), {"rc": ob.rc},
                     "d=%x peer layout %s cofactor=%d" % (inf["d"], inf["form"], inf["cof"]))
                continue
            got = int.from_bytes(bs, order)
            if got != want or shsz != nb:
                viol("oracle:%s:wrong-shared-secret" % ent, cs, hex(want), {"shared": bs.hex(), "size": shsz},
                     "d=%x peer layout %s cofactor=%d" % (inf["d"], inf["form"], inf["cof"]))
            else:
                common.part_count(part, "dh_ok")
                if not any(x.get("op") == "dh" for x in part["samples"]):
                    part["samples"].append({"op": "dh", "curve": c.name, "entry": ent, "variant": vname, "peer_layout": inf["form"],
                                            "cofactor": inf["cof"], "priv_key": hex(inf["d"]), "shared": bs.hex()})
            prev = dh_seen.get(inf["pair"])
            if prev is None:
                dh_seen[inf["pair"]] = (got, cs)
            elif prev[0] != got:
                viol("oracle:%s:not-symmetric" % ent, cs, hex(prev[0]), hex(got), "the two parties derive different secrets")
        elif kind == "import":
            if inf["sub"].startswith(("offcurve", "wrong-order", "y=0")) and not any(x.get("op") == "import" for x in part["samples"]):
                part["samples"].append({"op": "import", "curve": c.name, "entry": ent, "variant": vname, "input_kind": inf["sub"],
                                        "bytes": inf["qx"].hex() + ("|" + inf["qy"].hex() if inf["qy"] else ""), "library_rc": ob.rc})
            judge_import(part, c, order, oname, chk, ent, inf["sub"], inf["qx"], inf["qy"], ob, cs, viol, cls)
        elif kind == "sweep-sign-rnd":
            # range the entry point accepts: rnd_size >= priv_key_size (its own check); the oracle part:
            # when the call succeeds the nonce must have been read from inside the block
            cls("sign-sweep-rnd", inf["rs"] < nb, inf["pk"] < nb, ok)
        else:
            cls(kind, ok)
    # ------------------------------------------------------------------ phase 2: import(export(P))
    # every second re-import goes into a point object that held O before (imported from 00)
    imp2 = [(P, form, qx, qy, (i % 2 == 1)) for i, (P, form, qx, qy) in enumerate(imp2)]
    cases2 = [case_import(ci, le, qx, qy, None, pat=pat(), dirty=dirty) for (P, form, qx, qy, dirty) in imp2]
    res2 = rejudge_intra_object(part, exe, vm, cases2, common.run_cases(exe, cases2), lambda i: entry("import2"))
    for (P, form, qx, qy, dirty), o, cs in zip(imp2, res2, cases2):
        ent = entry("import2")
        part["evaluations"] += 1
        if isinstance(o, common.Crash):
            judge_crash(part, o, ent, vname, vm, cs, "curve %s %s: import of exported %s" % (c.name, oname, form))
            continue
        ob = Obs(o)
        inf_flag = ob.r.u8()
        x, y = int.from_bytes(ob.r.blob(), "big"), int.from_bytes(ob.r.blob(), "big")
        got = None if inf_flag else (x, y)
        cls("roundtrip", form, dirty, ob.rc == 0)
        if ob.rc != 0:
            viol("oracle:%s:rejects-valid:%s" % (ent, form), cs, "accept", {"rc": ob.rc}, "import of the library's own export")
        elif got != P and dirty and got is None:
            viol("oracle:%s:roundtrip-differs:into-point-that-held-O" % ent, cs, str(P), "O (infinity flag still set)",
                 "import of a valid %s key into a point object that was imported from 00 before" % form)
        elif got != P:
            viol("oracle:%s:roundtrip-differs:%s" % (ent, form), cs, str(P), str(got), "import(export(P)) != P")
        else:
            common.part_count(part, "roundtrip_ok")
    if oname == "be":
        bn_level_keys(part, c, ci, vname, vm, exe, prng, tier, viol, cls)
    low_order_dh(part, c, ci, oname, order, le, vname, vm, exe, rng, prng, viol, cls)
    if job.get("fault"):
        fault_plans(part, c, ci, oname, order, le, vname, vm, exe, prng, tier, viol, cls)
    return part


def bn_level_keys(part, c, ci, vname, vm, exe, rng, tier, viol, cls):
    """bn-level ecdsa_key_gen() / ec_point_mult_bp() writing into a caller-owned point that is fresh, was
    imported from the byte 00 (holds O), or has the infinity flag set over stale coordinates.  The output
    must be d*G as a usable key: flag clear, coordinates right, packed export equals SEC 1, and a DH with a
    second private key gives x(d2*d*G)."""
    n = c.n
    nb = ecdsa.nbytes(c)
    stale = ecdsa.mul_g(c, rng.range(2, n - 2))
    plans = []
    for mode in (0, 1):
        for dirty in (0, 1, 2):
            dv = rng.range(1, n - 1) if (mode + dirty) % 2 else [1, 2, n - 1][(mode + dirty) // 2 % 3]
            plans.append((mode, dirty, dv, rng.below(2), rng.range(1, n - 1)))
    plans.append((0, 1, n + 3, 0, 5))        # key_gen reduces rnd >= n: d' = ((n+3) mod (n-1)) + 1
    # bn-level DH whose secret is x(G): own key 1 with peer G, dB = dA^-1 with peer dA*G
    da = rng.range(2, n - 1)
    dh_plans = [(1, c.G, 0), (1, c.G, 1), (pow(da, -1, n), ecdsa.mul_g(c, da), 0), (n - 1, c.G, 0)]
    dh_cases = [base.case_dh_bn(ci, Qp, cof, dd, alias=i % 2, pat=rng.below(256)) for i, (dd, Qp, cof) in enumerate(dh_plans)]
    for (dd, Qp, cof), o, cs in zip(dh_plans, rejudge_intra_object(part, exe, vm, dh_cases, common.run_cases(exe, dh_cases), lambda i: "ecdsa_dh"), dh_cases):
        part["evaluations"] += 1
        if isinstance(o, common.Crash):
            judge_crash(part, o, "ecdsa_dh", vname, vm, cs, "curve %s bn-level DH d=%x" % (c.name, dd))
            continue
        ob = Obs(o)
        if ob.rc == RC_SETUP:
            continue
        sh = int.from_bytes(ob.r.blob(), "big")
        want = ecdsa.dh(c, dd, Qp, cof)
        cls("bn-dh-xG", cof, want == 0, ob.rc == 0)
        if ob.rc != 0:
            viol("oracle:ecdsa_dh:fails-on-valid-input:rc%d" % ob.rc, cs, hex(want), {"rc": ob.rc}, "bn-level DH d=%x whose secret is x(+-G)" % dd)
        elif sh != want:
            viol("oracle:ecdsa_dh:wrong-shared-secret", cs, hex(want), hex(sh), "bn-level DH d=%x" % dd)
        else:
            common.part_count(part, "dh_ok")
    cases = [base.case_kg_bn(ci, m, dt, stale, dv, cof, d2, pat=rng.below(256)) for (m, dt, dv, cof, d2) in plans]
    res = rejudge_intra_object(part, exe, vm, cases, common.run_cases(exe, cases), lambda i: "ecdsa_key_gen")
    for (m, dt, dv, cof, d2), o, cs in zip(plans, res, cases):
        ent = "ecdsa_key_gen" if m == 0 else "ec_point_mult_bp"
        part["evaluations"] += 1
        if isinstance(o, common.Crash):
            judge_crash(part, o, ent, vname, vm, cs, "curve %s bn-level %s dirty=%d" % (c.name, ent, dt))
            continue
        ob = Obs(o)
        if ob.rc == RC_SETUP:
            common.part_count(part, "driver_setup_skipped")
            continue
        inf = ob.r.u8()
        x, y, d_after = (int.from_bytes(ob.r.blob(), "big") for _ in range(3))
        rc_e, esz, ebytes = ob.r.i32(), ob.r.u32(), ob.r.blob()
        rc_dh = ob.r.i32()
        sh = int.from_bytes(ob.r.blob(), "big")
        d_eff = ecdsa.reduce_rnd(c, dv) if m == 0 else dv
        want = ecdsa.mul_g(c, d_eff)
        wexp = ecdsa.encode(c, want, "packed", "big")
        try:
            wdh = ecdsa.dh(c, d2, want, cof)
        except ecdsa.Invalid:
            wdh = None
        dname = ("fresh", "held-O", "flag+stale")[dt]
        cls("bn-key", ent, dname, ob.rc == 0)
        note = "bn-level %s(d=%x) into a point object that %s" % (ent, dv, ("is fresh", "was imported from 00", "has infinity=1 over stale coordinates")[dt])
        got = {"rc": ob.rc, "infinity": inf, "x": hex(x), "y": hex(y), "export_rc": rc_e, "export": ebytes[:esz if esz <= len(ebytes) else 0].hex(),
               "dh_rc": rc_dh, "dh": hex(sh)}
        if ob.rc != 0:
            viol("oracle:%s:fails-on-valid-input:%s" % (ent, dname), cs, "0 and d*G", got, note)
        elif inf or (x, y) != want or (m == 0 and d_after != d_eff):
            viol("oracle:%s:wrong-point:%s" % (ent, dname), cs, {"infinity": 0, "x": hex(want[0]), "y": hex(want[1])}, got, note)
        elif rc_e != 0 or esz != 2 * nb + 1 or ebytes != wexp:
            viol("oracle:%s:key-does-not-export:%s" % (ent, dname), cs, wexp.hex(), got, note)
        elif (wdh is None) != (rc_dh != 0) or (wdh is not None and sh != wdh):
            viol("oracle:%s:key-unusable-for-dh:%s" % (ent, dname), cs, hex(wdh) if wdh is not None else "error", got, note)
        else:
            common.part_count(part, "bn_key_ok")


_low_cache = {}


def low_order_points(c, rng):
    """[(name, point, order)] of order 2 and 4 where the true cofactor allows it (secp112r2, secp128r2: 4;
    id-GostR3410-2001-ParamSet-cc: 2)."""
    if c.name in _low_cache:
        return _low_cache[c.name]
    out = []
    h = ec.true_cofactor(c)
    if h not in (None, 1):
        for x0 in two_torsion_xs(c, rng)[:1]:
            out.append(("order-2", (x0, 0), 2))
        if h % 4 == 0:
            for _ in range(60):
                P = base.wrong_order_point(c, rng)
                if P is None:
                    break
                T = ecdsa.mul(c, c.n, P)
                if T is not None and ecdsa.mul(c, 2, T) is not None:
                    out.append(("order-4", T, 4))
                    break
    _low_cache[c.name] = out
    return out


def low_order_dh(part, c, ci, oname, order, le, vname, vm, exe, rng, prng, viol, cls):
    """DH with a peer point of order 2 or 4.  The reference decides by the RESULT: the header documents
    P = h*d*Q (h only with the cofactor flag); if that point is O the call must fail, otherwise the secret is
    its x.  Judged at bn level in every build (ecdsa_dh() takes the point as given) and through
    ecdsa_dh_be/le where validation is compiled out; with validation the byte entry points must refuse the
    key.  The library multiplies by (h*d mod n); only scalars with h*d < n are gated, larger ones are noted."""
    pts = low_order_points(c, rng)
    if not pts:
        return
    nb = ecdsa.nbytes(c)
    n = c.n
    chk = vm["chk"]
    ds = [1, 2, 3, 4, 6, 8, 2 * prng.range(4, n // 16), 2 * prng.range(4, n // 16) + 1, 4 * prng.range(4, n // 32),
          n - 1, n - 2, (n // 4) * 4]
    honest = ecdsa.mul_g(c, 11)
    cases, info = [], []
    for pname, T, _ord in pts + [("order-n", honest, n)]:
        for dv in ds:
            for cof in (0, 1):
                if oname == "be":
                    cases.append(base.case_dh_bn(ci, T, cof, dv, alias=(dv + cof) % 2, pat=prng.below(256)))
                    info.append(("bn", pname, T, dv, cof))
                if pname != "order-n" and dv in ds[:9:2] + [n - 1]:
                    qx = b"\x04" + enc_int(T[0], nb, order) + enc_int(T[1], nb, order)
                    cases.append(case_dh(ci, le, cof, qx, None, enc_int(dv, nb, order), nb, pat=prng.below(256)))
                    info.append(("byte", pname, T, dv, cof))
    res = rejudge_intra_object(part, exe, vm, cases, common.run_cases(exe, cases), lambda i: "ecdsa_dh")
    for (lvl, pname, T, dv, cof), o, cs in zip(info, res, cases):
        ent = "ecdsa_dh" if lvl == "bn" else "ecdsa_dh_" + oname
        part["evaluations"] += 1
        if isinstance(o, common.Crash):
            judge_crash(part, o, ent, vname, vm, cs, "curve %s %s: DH with %s peer d=%x" % (c.name, oname, pname, dv))
            continue
        ob = Obs(o)
        if ob.rc == RC_SETUP:
            continue
        if lvl == "bn":
            sh = int.from_bytes(ob.r.blob(), "big")
        else:
            ob.r.u32()
            sh = int.from_bytes(ob.r.blob(), order)
        k = dv * c.h if cof else dv
        S = ecdsa.mul(c, k, T)
        reduced = k >= n
        cls("dh-low-order", lvl, pname, cof, S is None, reduced, ob.rc == 0)
        common.part_count(part, "dh_low_order_cases")
        note = "DH with a peer point of %s %s, d=%x, cofactor flag %d, %s level" % (pname, str((hex(T[0]), hex(T[1]))), dv, cof, lvl)
        if lvl == "byte" and chk:
            if ob.rc == 0:
                viol("oracle:%s:accepts-invalid-peer:%s" % (ent, pname), cs, "error", {"rc": 0, "shared": hex(sh)}, note)
            continue
        bad = None
        if S is None and ob.rc == 0:
            bad = ("succeeds-on-neutral-result", "error: h^c*d*Q = O", {"rc": 0, "shared": hex(sh)})
        elif S is not None and ob.rc != 0:
            bad = ("fails-on-finite-result", hex(S[0]), {"rc": ob.rc})
        elif S is not None and sh != S[0]:
            bad = ("wrong-shared-secret", hex(S[0]), {"rc": 0, "shared": hex(sh)})
        if bad is None:
            common.part_count(part, "dh_low_order_ok")
            continue
        if reduced and pname != "order-n":
            # h*d >= n: a library that multiplied by (h*d mod n) used a different multiple of a point whose order does
            # not divide n (defect of the pinned tree, repaired; the reference multiplies by h and then by d)
            common.part_count(part, "dh_low_order_scalar_above_n_over_h")
        viol("oracle:%s:%s:%s" % (ent, bad[0], pname), cs, bad[1], bad[2], note)


def fault_plans(part, c, ci, oname, order, le, vname, vm, exe, rng, tier, viol, cls):
    """Failpoint behind BN_RET_ON_ERR (same hook as C03): when key generation, public-key recovery or DH
    return 0 in a run in which one internal status was forced to EOVERFLOW, the result must still be the
    reference value - they all ignore the status of the scalar multiplication and rely on later checks."""
    nb = ecdsa.nbytes(c)
    top = (1 << (8 * nb)) - 1
    E = lambda v: enc_int(v, nb, order)
    rv = rng.range(1, top)
    d = rng.range(1, min(c.n - 1, top))
    d2 = rng.range(1, min(c.n - 1, top))
    Q2 = ecdsa.mul_g(c, d2)
    qx, qy = key_blob(ecdsa.encode(c, Q2, "compressed", order))
    kd, kQ = ecdsa.keygen(c, rv)
    want_kg = (kd.to_bytes(nb, order), ecdsa.encode(c, kQ, "compressed", order))
    want_rc = ecdsa.encode(c, ecdsa.mul_g(c, d), "packed", order)
    want_dh = ecdsa.dh(c, d, Q2, 1).to_bytes(nb, order)
    cnt = 10 if tier == "quick" else 40
    plans = [
        ("keygen", "ecdsa_key_gen_" + oname, lambda a: case_keygen(ci, le, E(rv), 1, 1, nb, nb + 1, nb, arm=a)),
        ("recover", "ecdsa_recover_pub_key_from_priv_key_" + oname, lambda a: case_recover(ci, le, E(d), 0, 0, 2 * nb + 1, 0, arm=a)),
        ("dh", "ecdsa_dh_" + oname, lambda a: case_dh(ci, le, 1, qx, qy, E(d), nb, arm=a)),
    ]
    cleans = common.run_cases(exe, [pl[2](0) for pl in plans])
    cases, cinfo = [], []
    for (name, ent, mk), clean in zip(plans, cleans):
        if isinstance(clean, common.Crash):
            continue
        N = Obs(clean).calls
        common.part_count(part, "fault_positions_total", N)
        for p in base._positions(N, cnt, rng):
            cases.append(mk(p))
            cinfo.append((name, ent, p, N))
    res = rejudge_intra_object(part, exe, vm, cases, common.run_cases(exe, cases), lambda i: cinfo[i][1])
    for (name, ent, p, N), o, cs in zip(cinfo, res, cases):
        part["evaluations"] += 1
        if isinstance(o, common.Crash):
            judge_crash(part, o, ent, vname, vm, cs, "curve %s %s: failpoint %d/%d in %s" % (c.name, oname, p, N, name))
            continue
        ob = Obs(o)
        if not ob.fired:
            continue
        common.part_count(part, "fault_positions_hit")
        cls("fault", name, ob.func, ob.rc == 0)
        if ob.rc != 0:
            continue
        if name == "keygen":
            ob.r.u32(), ob.r.u32()
            bd, bx = ob.r.blob(), ob.r.blob()
            good = (bd, bx) == want_kg
        elif name == "recover":
            ob.r.u32()
            good = ob.r.blob() == want_rc
        else:
            ob.r.u32()
            good = ob.r.blob() == want_dh
        if good:
            k = "fault-note:%s:correct-result-after-internal-failure" % ent
            part["observations"][k] = part["observations"].get(k, 0) + 1
        else:
            base._viol(part, "fault:%s:wrong-result-after-internal-failure" % ent, vname, vm, cs, "error, or 0 with the reference value",
                       {"rc": 0}, "curve %s %s: status %d/%d forced to EOVERFLOW in %s(); rc 0 with a wrong result" % (
                           c.name, oname, p, N, ob.func), {"fault_k": p, "fault_func": ob.func})


def judge_import(part, c, order, oname, chk, ent, sub, qx, qy, ob, cs, viol, cls):
    nb = ecdsa.nbytes(c)
    inf_flag = ob.r.u8()
    x, y = int.from_bytes(ob.r.blob(), "big"), int.from_bytes(ob.r.blob(), "big")
    ok = ob.rc == 0
    got = None if inf_flag else (x, y)
    try:
        want = ecdsa.decode(c, qx, qy, order)
        valid = True
    except ecdsa.Invalid:
        want, valid = None, False
    hybrid = len(qx) == 2 * nb + 1 and qx[0] in (6, 7)
    cls("import", sub.split(":")[0].rstrip("0123456789-"), sub.split(":")[-1] if ":" in sub else "", valid, ok)
    common.part_count(part, "import_cases")
    if hybrid:
        if ok and chk and not ecdsa.valid_point(c, got):
            viol("oracle:%s:accepts-invalid:hybrid" % ent, cs, "reject or valid point", str(got), "hybrid prefix")
        return
    if valid:
        if not ok:
            viol("oracle:%s:rejects-valid:%s" % (ent, sub), cs, "accept " + str(want), {"rc": ob.rc}, "standard encoding of a valid point: %s|%s" % (qx.hex(), (qy or b"").hex()))
        elif got != want:
            par = ""
            if len(qx) == nb + 1 and got is not None and want is not None and got[0] == want[0]:
                par = ":wrong-parity"
            viol("oracle:%s:wrong-point%s" % (ent, par), cs, str(want), str(got), "decoded point differs: %s" % qx.hex())
        else:
            common.part_count(part, "import_valid_ok")
        return
    # reference says: not a standard encoding of O or of a valid point
    if ok and chk:
        if ecdsa.valid_point(c, got):
            # accepted something the SEC 1 decoder refuses, yet the object denotes a valid point: only a
            # non-canonical encoding (e.g. 03 for y = 0); the property speaks about the denoted point
            part["observations"]["oracle-note:%s:accepts-noncanonical:%s" % (ent, sub)] = \
                part["observations"].get("oracle-note:%s:accepts-noncanonical:%s" % (ent, sub), 0) + 1
            return
        detail = sub.split(":")[0]
        viol("oracle:%s:accepts-invalid:%s" % (ent, detail), cs, "reject", {"rc": 0, "point": str(got)},
             "accepted encoding denotes neither O nor a point on the curve annihilated by n: %s|%s" % (qx.hex(), (qy or b"").hex()))
    elif ok and not chk and len(qx) == nb + 1 and got is not None and qx[0] in (2, 3):
        common.part_count(part, "nochk_unvalidated_accept")


def replay(path):
    with open(path) as fh:
        rec = json.load(fh)
    w = rec["witness"]
    exe = common.build("c03_ecdsa", [DRIVER], san=w.get("san", "asu"), cc=w.get("cc", "gcc"), flags=w["flags"])
    case = bytes.fromhex(w["case"])
    o = common.run_cases(exe, [case])[0]
    print("key      :", rec["key"])
    print("variant  :", w["variant"], " ".join(w["flags"]))
    print("note     :", w.get("note"))
    print("expected :", w.get("expect"))
    print("recorded :", w.get("observed"))
    if isinstance(o, common.Crash):
        print("observed : %r key=%s\n%s" % (o, common.crash_key(o, rec["key"].split(":")[1]), (o.report or "")[-2500:]))
        return 1
    ob = Obs(o)
    print("observed : rc=%d rest=%s" % (ob.rc, ob.r.rest().hex()))
    if rec["key"].startswith(("asan:", "ubsan:", "signal:", "hang:")):
        print("verdict  : no sanitizer report any more")
        return 0
    same = None
    rc_rec = (w.get("observed") or {}).get("rc") if isinstance(w.get("observed"), dict) else None
    if rc_rec is not None:
        same = (ob.rc == rc_rec)
    print("verdict  :", "observation unchanged (rc)" if same else "observation changed - inspect")
    return 1 if same else 0
