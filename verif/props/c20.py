"""C20 - HTTP request parsing and smuggling checks agree with RFC 7230.

Driver: drivers/c20_http.c linked with src/proto/http.c.
Generator/oracle: verif/oracles/httpgen.py (RFC 7230/3986 grammar with its own AST).
"""
import json
import struct

from verif import common
from verif.common import W, R, Rng, Crash
from verif.oracles import httpgen as hg

PROP = "C20"
DRIVER = "c20_http.c"
REPO_SRC = ["src/proto/http.c"]


def hx(b):
    return bytes(b).hex()


def unhx(s):
    return bytes.fromhex(s)


# ----------------------------------------------------------------------------
# params
# ----------------------------------------------------------------------------
def params_of_block(b, rng, edit=None):
    d = b.data
    names = []
    seen = set()
    for f in b.fields:
        low = f.name.lower()
        if low not in seen:
            seen.add(low)
            names.append(f.name)
    rng.shuffle(names)
    look = [hg.rnd_case(rng, n) if rng.chance(2, 3) else n for n in names[:5]]
    for special in (b"host", b"content-length", b"transfer-encoding"):
        if special not in [x.lower() for x in look]:
            look.append(hg.rnd_case(rng, special) if rng.chance(1, 2) else special)
    look.append(rng.choice(hg.NEAR_MISS))
    look.append(rng.choice((b"x-absent", b"h", b"host:", b"hos", b"content-length ", b"")))
    p = dict(op="req" if b.kind == "request" else "status", block=hx(d),
             spans={k: (v.t() if v is not None else None) for k, v in b.spans.items()},
             fields=[[hx(f.name), f.value.off, f.value.len, 1 if b"\r\n" in f.raw else 0] for f in b.fields],
             lookups=[hx(x) for x in look], version=list(b.version), edit=edit)
    if b.kind == "request":
        p.update(method=hx(b.method), method_class=b.method_class, form=b.form)
    else:
        p.update(status=b.status)
    return p


def payload_of(p):
    w = W()
    if p["op"] == "req":
        w.u8(1).blob(unhx(p["block"])).u32(hg.METHOD_CODE.get(unhx(p["method"]), 0))
    else:
        w.u8(2).blob(unhx(p["block"]))
    w.u16(len(p["lookups"]))
    for n in p["lookups"]:
        w.blob(unhx(n))
    return w.done()


# ----------------------------------------------------------------------------
# edits that introduce exactly one smuggling pattern into a clean request
# ----------------------------------------------------------------------------
CTL_BYTES = bytes([0, 1, 7, 8, 0x0B, 0x0C, 0x0E, 0x1B, 0x1F, 0x7F, 0x0D, 0x0A])


def reassemble(b, fields):
    nb = hg.Block()
    nb.kind, nb.method, nb.method_class, nb.form, nb.version = b.kind, b.method, b.method_class, b.form, b.version
    nb.spans = dict(b.spans)
    return nb.assemble(b.spans["line"].of(b.data), [hg.Field(f.name, f.raw) for f in fields])


def ctl_positions(b):
    """position classes -> list of offsets inside the block"""
    d = b.data
    sp = b.spans
    pos = {}

    def rng_of(s):
        return list(range(s.off, s.off + s.len)) if s is not None and s.len else []
    pos["method"] = rng_of(sp["method"])
    pos["target"] = rng_of(sp["target"])
    pos["version"] = rng_of(sp["version"])
    pos["line-sp"] = [sp["method"].len, sp["target"].off + sp["target"].len]
    fn, colon, val, ows, eol = [], [], [], [], []
    for f in b.fields:
        fn += list(range(f.name_off, f.name_off + len(f.name)))
        c = f.name_off + len(f.name)
        colon.append(c)
        raw0 = c + 1
        val += list(range(f.value.off, f.value.off + f.value.len))
        ows += [x for x in range(raw0, raw0 + len(f.raw)) if not (f.value.off <= x < f.value.off + f.value.len)]
        eol.append(f.name_off - 2)          # the CR that ends the previous line
        eol.append(f.name_off - 1)          # its LF
    pos["field-name"], pos["colon"], pos["value"], pos["ows-or-fold"], pos["crlf"] = fn, colon, val, ows, eol
    pos["end"] = [len(d)]
    return pos


def gen_edits(rng, b, exhaustive):
    """yield (edit description, edited raw block) for every single edit of the base"""
    d = b.data
    out = []
    # 1. control octets at every position class
    for cls, plist in ctl_positions(b).items():
        if not plist:
            continue
        chosen = plist if (exhaustive and len(plist) <= 40) else [rng.choice(plist) for _ in range(3 if exhaustive else 1)]
        for p in chosen:
            for c in (CTL_BYTES if exhaustive and len(chosen) <= 4 else [rng.choice(CTL_BYTES) for _ in range(2)]):
                for mode in ("insert", "replace"):
                    if mode == "replace" and p >= len(d):
                        continue
                    e = d[:p] + bytes([c]) + (d[p:] if mode == "insert" else d[p + 1:])
                    if not hg.has_ctl(e):
                        continue          # e.g. LF inserted right after a CR of the value: forms a CRLF
                    out.append((dict(kind="ctl", posclass=cls, byte=c, mode=mode, pos=p), e))
    # 2. SP before the colon of every field
    for i, f in enumerate(b.fields):
        c = f.name_off + len(f.name)
        for ins in (b" ", b"  ", b"\t "):
            out.append((dict(kind="sp-colon", field=i, ins=hx(ins), special=f.name.lower().decode("latin1")
                             if f.name.lower() in (b"host", b"content-length", b"transfer-encoding") else "other"),
                        d[:c] + ins + d[c:]))
            if not exhaustive:
                break
        # not one of the seven patterns (HTAB, not SP): executed and recorded only
        out.append((dict(kind="ht-colon", field=i), d[:c] + b"\t" + d[c:]))
    # 3..7 inserted fields
    low = [f.name.lower() for f in b.fields]
    n = len(b.fields)

    def inserted(kind, name):
        res = []
        for posn in range(n + 1):
            for variant in range(3 if exhaustive else 1):
                nm = name if variant == 0 and rng.chance(1, 2) else hg.rnd_case(rng, name)
                if variant == 1:
                    nm = name.lower()
                if variant == 2:
                    nm = name.upper()
                fld = hg.Field(nm, hg.gen_value(rng, {"Host": "host", "Content-Length": "cl", "Transfer-Encoding": "te"}[
                    name.decode()]))
                fields = list(b.fields[:posn]) + [fld] + list(b.fields[posn:])
                nb = reassemble(b, fields)
                res.append((dict(kind=kind, at=posn, of=n, name=hx(nm),
                                 case="same" if nm == name else "lower" if nm == name.lower() else
                                 "upper" if nm == name.upper() else "mixed"), nb.data))
        return res
    if b"host" in low:
        out += inserted("dup-host", b"Host")
    if b"content-length" in low:
        out += inserted("dup-cl", b"Content-Length")
        out += inserted("cl+te", b"Transfer-Encoding")
    if b"transfer-encoding" in low:
        out += inserted("dup-te", b"Transfer-Encoding")
        out += inserted("cl+te", b"Content-Length")
    if b.method == b"GET" and b"content-length" not in low and b"transfer-encoding" not in low:
        out += inserted("cl-on-get", b"Content-Length")
    return out


def gen_base_for_edits(rng, i):
    """a clean request (no pattern, no octet > 126) with a known set of special fields"""
    for _ in range(200):
        m = i % 4
        method = b"GET" if m == 0 else None
        framing = (None, "cl", "te", None)[m] if m else False
        want = {"host": True}
        if m == 0:
            want["framing"] = False
        elif m in (1, 2):
            want["framing"] = framing
        b = hg.gen_request(rng, want=want, method=method if method else
                           rng.choice((b"POST", b"PUT", b"NOTIFY", b"M-POST", b"PATCH", b"OPTIONS", b"DELETE")) if m in (1, 2)
                           else None)
        if b.method_class == "token-other-first":
            continue
        if not hg.patterns(b.data, b.method) and not hg.has_high(b.data) and b.fields:
            return b
    raise common.Inconclusive("cannot generate a clean base request")


# ----------------------------------------------------------------------------
# evaluation
# ----------------------------------------------------------------------------
class Ctx:
    def __init__(self, part, variant, params):
        self.part, self.variant, self.params = part, variant, params
        self.bad = False

    def viol(self, key, **info):
        self.bad = True
        wit = {"variant": self.variant, "params": self.params, "seed": common.seed(),
               "block_text": unhx(self.params["block"]).decode("latin1")}
        wit.update(info)
        self.part["violations"].append((key, wit))

    def observe(self, key):
        self.part["observations"][key] = self.part["observations"].get(key, 0) + 1

    def cls(self, *c):
        self.part["classes"].add(tuple(c))

    def count(self, name, n=1):
        common.part_count(self.part, name, n)


def rspan(r):
    off = r.i64()
    ln = r.u64()
    return (off, ln)


def read_lookups(r, n):
    out = []
    for _ in range(n):
        cnt = r.u64()
        first_rc = r.i32()
        first = rspan(r)
        vals = []
        while True:
            rc = r.i32()
            if rc != 0:
                break
            vals.append(rspan(r))
            if len(vals) > 2000:
                break
        out.append(dict(count=cnt, first_rc=first_rc, first=first, vals=vals, last_rc=rc))
    return out


def span_eq(ast, got):
    """ast: (off,len) or None; got: (off,len) from the library (off -1 = NULL)"""
    if ast is None or ast[1] == 0:
        return got[1] == 0
    return tuple(ast) == tuple(got)


def path_ok(block, ast, got, has_query):
    """path compared up to the documented trimming (src/proto/http.c: 'Skip slash~s from
    head', 'Remove slash~s from tail'): redundant leading slashes may be dropped as long as
    one remains, trailing slashes may be dropped as long as the path stays non-empty.
    Returns (ok, trimming class)."""
    if ast is None or ast[1] == 0:
        return got[1] == 0, "empty"
    a0, al = ast
    g0, gl = got
    if gl == 0 or g0 < a0 or g0 + gl > a0 + al:
        return False, "outside"
    p = block[a0:a0 + al]
    lead = len(p) - len(p.lstrip(b"/"))
    k = g0 - a0
    m = (a0 + al) - (g0 + gl)
    if k > max(0, lead - 1) or p[:k] != b"/" * k:
        return False, "lead"
    rest = p[k:]
    if m and (rest[len(rest) - m:] != b"/" * m):
        return False, "tail"
    if block[g0:g0 + 1] != b"/":
        return False, "lead"
    return True, "lead%s/tail%s" % ("0" if k == 0 else "+", "0" if m == 0 else "+")


def check_lookups(ctx, p, block, looks, fn_prefix):
    fields = [(unhx(n).lower(), (off, ln), folded) for n, off, ln, folded in p["fields"]]
    for name_hex, g in zip(p["lookups"], looks):
        name = unhx(name_hex)
        exp = [(v, folded) for n, v, folded in fields if n == name.lower()]
        feat = "absent" if not exp else ("repeated" if len(exp) > 1 else "single")
        ctx.cls("lookup", feat, "folded" if any(f for _, f in exp) else "plain",
                "empty" if any(v[1] == 0 for v, _ in exp) else "nonempty",
                "case-differs" if exp and name not in [unhx(f[0]) for f in p["fields"]] else "same-case")
        ctx.count("lookups")
        if g["count"] != len(exp):
            ctx.viol("oracle:http_hdr_val_get_count:wrong-count:%s" % ("over" if g["count"] > len(exp) else "under"),
                     name=name.decode("latin1"), expected=len(exp), observed=g["count"])
            return
        if len(g["vals"]) != len(exp):
            ctx.viol("oracle:http_hdr_val_get_ex:wrong-number-of-fields", name=name.decode("latin1"),
                     expected=len(exp), observed=len(g["vals"]))
            return
        for (v, folded), got in zip(exp, g["vals"]):
            if not span_eq(v, got):
                ctx.viol("oracle:http_hdr_val_get_ex:wrong-value:%s" % ("folded" if folded else "empty" if v[1] == 0 else "plain"),
                         name=name.decode("latin1"), expected=hx(block[v[0]:v[0] + v[1]]),
                         observed=hx(block[got[0]:got[0] + got[1]]) if got[0] >= 0 else None,
                         expected_span=list(v), observed_span=list(got))
                return
        if exp:
            if g["first_rc"] != 0 or not span_eq(exp[0][0], g["first"]):
                ctx.viol("oracle:http_hdr_val_get:wrong-first-value", name=name.decode("latin1"))
                return
        elif g["first_rc"] == 0:
            ctx.viol("oracle:http_hdr_val_get:finds-absent-field", name=name.decode("latin1"))
            return
        if exp:
            ctx.count("lookups_with_value_checked")


def eval_req(ctx, obs):
    p = ctx.params
    block = unhx(p["block"])
    method = unhx(p["method"])
    r = R(obs)
    rc = r.i32()
    got = None
    if rc == 0:
        got = dict(line_size=r.u64(), method=rspan(r), code=r.u32(), uri=rspan(r), scheme=rspan(r), host=rspan(r),
                   path=rspan(r), query=rspan(r), ver=r.u32())
    code_used = r.u32()
    sec = r.i32()
    looks = read_lookups(r, len(p["lookups"]))
    edit = p["edit"]
    pats = hg.patterns(block, method)
    high = hg.has_high(block)
    # ---- the security check
    ctx.count("sec_chk_calls")
    if edit is not None:
        kind = edit["kind"]
        if kind == "ht-colon":
            ctx.observe("http_req_sec_chk:HTAB-directly-before-colon:%s" % ("accepted" if sec == 0 else "rejected"))
            return
        ctx.cls("sec", p["form"], p["method_class"], kind,
                edit.get("posclass") or edit.get("case") or edit.get("special"),
                ("at-first" if edit.get("at") == 0 else "at-last" if edit.get("at") == edit.get("of") else "at-mid")
                if "at" in edit else edit.get("mode", "-"), "parse-ok" if rc == 0 else "parse-refused", "ret=%d" % sec)
        if kind not in pats:
            ctx.part["inconclusive"].append("edit %s did not produce its pattern" % kind)
            return
        ctx.count("edits_%s" % kind.replace("-", "_").replace("+", "_and_"))
        if sec == 0:
            detail = edit.get("posclass") or edit.get("case") or edit.get("special") or "-"
            ctx.viol("oracle:http_req_sec_chk:accepts-%s:%s" % (kind, detail), edit=edit, method_code=code_used)
        return
    feat = sorted(set(["fold" if any(f[3] for f in p["fields"]) else "nofold",
                       "dup-other" if len(set(f[0].lower() for f in p["fields"])) < len(p["fields"]) else "uniq",
                       "nohdr" if not p["fields"] else "hdr"]))
    if pats:
        ctx.cls("sec", p["form"], p["method_class"], "generated-with-" + "+".join(sorted(pats)), "ret=%d" % sec)
        if sec == 0:
            ctx.viol("oracle:http_req_sec_chk:accepts-%s:generated" % sorted(pats)[0], patterns=sorted(pats))
    elif high:
        ctx.observe("http_req_sec_chk:obs-text-octets(>126):%s" % ("accepted" if sec == 0 else "rejected-code-%d" % sec))
    else:
        ctx.cls("sec", p["form"], p["method_class"], "clean", "+".join(feat), "ret=%d" % sec)
        ctx.count("clean_blocks")
        if sec != 0:
            ctx.viol("oracle:http_req_sec_chk:rejects-clean:code-%d" % sec, method_code=code_used)
    # ---- the request line
    sp = p["spans"]
    ctx.count("request_lines")
    if p["method_class"] == "token-other-first":
        ctx.observe("http_parse_req_line:method-token-not-starting-with-A-Z:%s" % ("accepted" if rc == 0 else "refused"))
        ctx.cls("line", p["form"], p["method_class"], "rc=%d" % rc)
    elif rc != 0:
        ctx.cls("line", p["form"], p["method_class"], "rc=%d" % rc)
        ctx.viol("oracle:http_parse_req_line:refused-wellformed:%s" % p["form"], rc=rc)
    else:
        tgt = block[sp["target"][0]:sp["target"][0] + sp["target"][1]]
        tail = tgt[(sp["scheme"][1] + 3):] if sp["scheme"] else tgt
        feats = []
        if p["form"] == "origin" and b"://" in tail:
            feats.append("sep-in-path-or-query")
        if p["form"] == "absolute" and sp["path"][1] == 0 and sp["query"] is not None:
            feats.append("empty-path-with-query")
        fsuffix = (":" + "+".join(feats)) if feats else ""
        pok, pcls = path_ok(block, sp["path"], got["path"], sp["query"] is not None) if p["form"] != "asterisk" else \
            (got["path"][1] == 0 or tuple(got["path"]) == tuple(sp["target"]), "asterisk")
        ctx.cls("line", p["form"], p["method_class"], "q" if sp["query"] is not None else "noq", pcls,
                "+".join(feats) or "plain", "v%d.%d" % tuple(p["version"]) if tuple(p["version"]) in ((1, 0), (1, 1)) else "v-other")
        exp_code = hg.METHOD_CODE.get(method, 0)
        checks = [
            ("line-size", got["line_size"] == sp["line"][1], sp["line"][1], got["line_size"]),
            ("method", span_eq(sp["method"], got["method"]), sp["method"], got["method"]),
            ("method-code", got["code"] == exp_code, exp_code, got["code"]),
            ("target", span_eq(sp["target"], got["uri"]), sp["target"], got["uri"]),
            ("scheme", span_eq(sp["scheme"], got["scheme"]), sp["scheme"], got["scheme"]),
            ("authority", span_eq(sp["authority"], got["host"]), sp["authority"], got["host"]),
            ("path", pok, sp["path"], got["path"]),
            ("query", span_eq(sp["query"], got["query"]), sp["query"], got["query"]),
            ("version", got["ver"] == (p["version"][0] << 16 | p["version"][1]), p["version"], got["ver"]),
        ]
        for name, ok, e, g in checks:
            if not ok:
                def txt(s):
                    return block[s[0]:s[0] + s[1]].decode("latin1") if isinstance(s, (list, tuple)) and len(s) == 2 \
                        and s[0] is not None and s[0] >= 0 and name not in ("version",) else s
                ctx.viol("oracle:http_parse_req_line:wrong-%s:%s%s" % (name, p["form"], fsuffix),
                         expected=e, observed=g, expected_text=txt(e) if e else None, observed_text=txt(g))
                break
        else:
            ctx.count("request_lines_all_spans_equal")
    # ---- header lookup
    if not ctx.bad or True:
        check_lookups(ctx, p, block, looks, "req")


def eval_status(ctx, obs):
    p = ctx.params
    block = unhx(p["block"])
    r = R(obs)
    rc = r.i32()
    sp = p["spans"]
    ctx.count("status_lines")
    short = len(block) < 14
    ctx.cls("status", "v%d.%d" % tuple(p["version"]) if tuple(p["version"]) in ((1, 0), (1, 1)) else "v-other",
            "reason-empty" if sp["reason"][1] == 0 else "reason", "hdr" if p["fields"] else "nohdr",
            "short" if short else "normal", "rc=%d" % rc)
    if rc != 0:
        looks = read_lookups(r, len(p["lookups"]))
        ctx.viol("oracle:http_parse_resp_line:refused-wellformed%s" % (":shorter-than-14" if short else ""), rc=rc)
    else:
        line_size, ver, status, reason = r.u64(), r.u32(), r.u32(), rspan(r)
        looks = read_lookups(r, len(p["lookups"]))
        for name, ok, e, g in (
                ("line-size", line_size == sp["line"][1], sp["line"][1], line_size),
                ("version", ver == (p["version"][0] << 16 | p["version"][1]), p["version"], ver),
                ("status-code", status == p["status"], p["status"], status),
                ("reason", span_eq(sp["reason"], reason), sp["reason"], reason)):
            if not ok:
                ctx.viol("oracle:http_parse_resp_line:wrong-%s" % name, expected=e, observed=g)
                break
        else:
            ctx.count("status_lines_all_spans_equal")
    if hg.has_high(block):
        ctx.count("blocks_with_obs_text")
    check_lookups(ctx, p, block, looks, "status")


NON_GATING_UBSAN = ("shift", "signed integer overflow", "misaligned", "alignment", "null pointer passed")


def judge(part, variant, params, obs):
    ctx = Ctx(part, variant, params)
    part["evaluations"] += 1
    if isinstance(obs, Crash):
        key = common.crash_key(obs, params["op"])
        # C20 is a behavioural property (DESIGN 3.1): sanitizer reports are recorded, the
        # memory-safety verdict on this parser belongs to C13
        ctx.observe(key)
        common.part_count(part, "cases_lost_to_sanitizer_abort")
        return
    if not obs or obs[-1] != 0x0C:
        part["inconclusive"].append("driver did not consume the case")
        return
    try:
        (eval_req if params["op"] == "req" else eval_status)(ctx, obs[:-1])
    except (IndexError, struct.error) as e:
        part["inconclusive"].append("observation unreadable: %r" % (e,))
    if not ctx.bad and len(part["samples"]) < 2 and params["edit"] is None:
        part["samples"].append({"block": unhx(params["block"]).decode("latin1"), "spans": params["spans"],
                                "fields": [[unhx(f[0]).decode("latin1"), f[1], f[2]] for f in params["fields"]]})
    elif not ctx.bad and len(part["samples"]) < 3 and params["edit"] is not None:
        part["samples"].append({"block": unhx(params["block"]).decode("latin1"), "edit": params["edit"]})


def worker(job):
    variant, exe, idx, n_req, n_status, n_bases, exhaustive = job
    rng = Rng(PROP, common.seed(), idx)
    part = common.new_part()
    cases = []
    for i in range(n_req):
        b = hg.gen_request(rng, obs_text=(i % 25 == 0))
        cases.append(params_of_block(b, rng))
    for i in range(n_status):
        b = hg.gen_status(rng, obs_text=(i % 10 == 0))
        cases.append(params_of_block(b, rng))
    for i in range(n_bases):
        b = gen_base_for_edits(rng, i)
        base = params_of_block(b, rng)
        cases.append(base)
        for edit, data in gen_edits(rng, b, exhaustive and i % 3 == 0):
            q = dict(base)
            q["block"] = hx(data)
            q["edit"] = edit
            q["lookups"] = []
            cases.append(q)
    res = common.run_cases(exe, [payload_of(c) for c in cases])
    if len(res) != len(cases):
        part["inconclusive"].append("driver returned %d observations for %d cases" % (len(res), len(cases)))
    for c, o in zip(cases, res):
        judge(part, variant, c, o)
    return part


RULE = (
    "Requests and status lines are generated from the RFC 7230 3.1/3.2/5.3 and RFC 3986 3 grammar by verif/oracles/"
    "httpgen.py together with their AST (exact spans of method, target, scheme, authority, path, query, version, status "
    "code, reason, and the OWS/obs-fold-trimmed value span of every field) from splitmix64 streams (VERIF_SEED, worker): all "
    "13 methods the library names (incl. NOTIFY, M-SEARCH, M-POST, SUBSCRIBE, UNSUBSCRIBE), other registered methods and "
    "random tokens beginning with A-Z; origin-, absolute-, authority- (CONNECT) and asterisk-form (OPTIONS) targets; empty, "
    "'/', slash-only, multi-segment paths with empty segments, redundant leading and trailing slashes, pct-encoding and every "
    "pchar; queries that are empty, free-form, key/value lists with empty, duplicate and value-less keys and embedded URLs; "
    "versions 1.0, 1.1 and d.d; 0-12 header fields with random letter case, duplicates in other case, names that contain or "
    "extend Host/Content-Length/Transfer-Encoding, empty values, values with colons and text that looks like fields, "
    "leading/trailing OWS of SP and HTAB, obs-fold after the colon, between words and at the end. The block handed to the "
    "library is start line + fields without the final CRLFCRLF (as http_server.c does, method code taken from "
    "http_parse_req_line), followed in memory by that terminator. Judged per block: every span returned by "
    "http_parse_req_line/http_parse_resp_line equals the AST span (path up to the documented slash trimming), for ~8 names "
    "per block (present in other case, absent, near misses) http_hdr_val_get_count equals the number of AST fields and "
    "http_hdr_val_get_ex/http_hdr_val_get return exactly their trimmed spans in order; http_req_sec_chk returns 0 iff the "
    "raw block contains none of the seven patterns (detected by an independent scan of the octets). Then, for clean base "
    "requests (GET without body; with Content-Length; with Transfer-Encoding; random), every single edit: a control octet "
    "(NUL, 0x01-0x08, VT, FF, 0x0E-0x1F, DEL, bare CR, bare LF) inserted or substituted in each position class (method, "
    "target, version, the SPs of the line, field name, colon, value, OWS/fold, CR, LF, end), SP (also 2 SP, HTAB SP) before "
    "the colon of every field, a second Host / Content-Length / Transfer-Encoding in every position and letter case, the "
    "other framing field in every position, Content-Length in every position of a GET; each must make the check return "
    "non-zero. A behaviour class is (target form, method class, query presence, path trimming class, URI feature, version "
    "class) for lines, (field multiplicity, folded, empty, case relation) for lookups and (target form, method class, edit "
    "kind, position/case class, place, parser verdict, return code) for the security check."
)

ASSUMPTIONS = [
    "Calling convention mirrored from src/proto/http_server.c: hdr_size excludes the terminating CRLFCRLF, which follows "
    "in memory; http_req_sec_chk receives the whole block including the request line and the method code returned by "
    "http_parse_req_line (for edited lines the parser refuses, the code of the intended method).",
    "Path: accepted iff the returned span lies inside the AST path, starts at a '/' after dropping only redundant leading "
    "slashes (one must remain) and ends after dropping only trailing slashes (non-empty result); http.c documents 'Skip "
    "slash~s from head' / 'Remove slash~s from tail' and applies the latter only when there is no query - both are allowed. "
    "For the asterisk-form the path may be empty or the '*' itself. Empty components are compared by length only.",
    "The struct member 'host' is compared with the RFC 3986 authority (userinfo@host:port); for CONNECT the whole target.",
    "Methods: must-accept set = tokens beginning with an upper-case letter (http_parse_req_line refuses anything else by "
    "design: 'A' > *http_hdr); RFC-valid tokens with another first character are executed and recorded, not judged.",
    "Pattern 'space directly before a colon' is taken literally from the property: SP ':' anywhere in the block (also "
    "inside a field value) must be rejected; generated values containing it are expected to be rejected.",
    "Octets above 126 (obs-text, allowed by the RFC 7230 grammar in field values and reason phrases) are rejected by "
    "http_req_sec_chk as 'control codes > 126'; the property's accept clause is evaluated on blocks without them, blocks "
    "with them are executed and recorded as observations.",
    "HTAB is not used as an injected control octet (the check and RFC 7230 allow it in values); HTAB directly before the "
    "colon is not one of the seven patterns.",
    "Sanitizer reports are recorded as observations (behavioural property, DESIGN 3.1); memory safety of these parsers on "
    "arbitrary input is C13's subject.",
]


def variants(tier):
    v = [("asu-gcc", dict(name="c20_asu_gcc", sources=[DRIVER], san="asu", cc="gcc", repo_sources=REPO_SRC))]
    if tier == "thorough":
        v.append(("asu-clang", dict(name="c20_asu_clang", sources=[DRIVER], san="asu", cc="clang", repo_sources=REPO_SRC)))
    return v


def run(tier):
    report = common.Report(PROP, tier, "exploration")
    report.rule = RULE
    report.assumptions = ASSUMPTIONS
    fails = hg.selftest()
    if fails:
        report.inconclusive.append("generator self-check failed: %s" % fails[:3])
        return report.finish()
    exes = common.try_builds(report, variants(tier))
    if "asu-gcc" not in exes:
        report.inconclusive.append("driver does not build: %s" % report.builds)
        return report.finish()
    scale = 10 if tier == "thorough" else 1
    jobs = []
    idx = 0
    for vname, exe in sorted(exes.items()):
        share = scale if vname == "asu-gcc" else max(1, scale // 3)
        for w in range(16):
            jobs.append((vname, exe, idx, 1000 * share, 250 * share, 36 * share, tier == "thorough"))
            idx += 1
    for part in common.parallel(worker, jobs):
        report.merge(part)
    need = ["request_lines_all_spans_equal", "status_lines_all_spans_equal", "lookups_with_value_checked", "clean_blocks",
            "edits_ctl", "edits_sp_colon", "edits_dup_host", "edits_dup_cl", "edits_dup_te", "edits_cl_and_te",
            "edits_cl_on_get"]
    for k in need:
        if report.extra.get(k, 0) == 0:
            report.inconclusive.append("monitor '%s' observed nothing" % k)
    return report.finish()


def replay(path):
    with open(path) as fh:
        rec = json.load(fh)
    wit = rec["witness"]
    params = wit["params"]
    vmap = dict(variants("thorough"))
    vname = wit.get("variant", "asu-gcc")
    exe = common.build(**vmap[vname])
    res = common.run_cases(exe, [payload_of(params)])
    part = common.new_part()
    judge(part, vname, params, res[0])
    print("replay %s key=%s variant=%s" % (PROP, rec["key"], vname))
    print("block: %r" % unhx(params["block"]))
    if params.get("edit"):
        print("edit:", params["edit"])
    if isinstance(res[0], Crash):
        print(res[0].report[-2500:])
    keys = [k for k, _ in part["violations"]]
    for k, w in part["violations"]:
        print("VIOLATION reproduced key=%s" % k)
        for f in ("expected", "observed", "expected_text", "observed_text", "name"):
            if f in w:
                print("  %s: %r" % (f, w[f]))
    if rec["key"] in keys:
        return 1
    print("not reproduced (observed keys: %s)" % keys)
    return 0 if not keys else 1
