"""C14 - encoders/decoders are mutual inverses and agree with their standards.

The reference oracle decides (Python base64 / binascii / str / int / urllib.parse.quote, a
five-entity XML escape, a bitwise Rocksoft-model CRC with the catalogue parameters).  Every case is
run in every build variant (ASan+UBSan and plain -O0/-O2/-O3 builds of gcc and clang) and each
variant's output is compared with the oracle, so the variants also agree with each other.
Outputs are given ample, canary-framed room: memory behaviour at the buffer edge is C12's
subject.  A sanitizer abort is not a verdict here: the case is re-executed in a plain build and
judged by its output; the report is kept as an observation."""
import base64
import binascii
import json
import struct
import urllib.parse

from verif import common
from verif.common import Rng, Crash, R
from verif.oracles import utilcodec as U
from verif.oracles import crc as crc_oracle

PROP = "C14"
CASE_SECS = "5"


def _spec(cc, san, flags):
    return dict(name="utils_drv", sources=["utils_drv.c"], san=san, cc=cc, flags=flags, repo_sources=U.REPO_SOURCES)


def variants(tier):
    v = [("gcc-asu-O1", _spec("gcc", "asu", U.RECOVER)),
         ("gcc-plain-O2", _spec("gcc", "plain", ["-O2"])),
         ("gcc-plain-O0", _spec("gcc", "plain", ["-O0"])),
         ("clang-plain-O3", _spec("clang", "plain", ["-O3"]))]
    if tier == "thorough":
        v += [("clang-asu-O1", _spec("clang", "asu", U.RECOVER)),
              ("gcc-plain-O3", _spec("gcc", "plain", ["-O3"])),
              ("clang-plain-O0", _spec("clang", "plain", ["-O0"])),
              ("clang-plain-O2", _spec("clang", "plain", ["-O2"])),
              ("gcc-plain-O2-nsa-pattern", _spec("gcc", "plain", ["-O2", "-fno-strict-aliasing", "-ftrivial-auto-var-init=pattern"])),
              ("gcc-plain-Os", _spec("gcc", "plain", ["-Os"]))]
    return v


FALLBACK = "gcc-plain-O2"


def lcls(n):
    if n <= 64:
        return "n%d" % n if n < 4 else ("n4-15" if n < 16 else "n16-64")
    if n <= 300:
        return "n65-300"
    return "n301-4096"


def M(ev, fn, cls, **kw):
    d = {"ev": ev, "fn": fn, "cls": cls}
    d.update(kw)
    return d


# ---------------------------------------------------------------------------
# generators
# ---------------------------------------------------------------------------
def data_lengths(rng, S, hi=4096, nrand=40):
    return list(range(0, 65)) + [rng.range(65, hi) for _ in range(nrand * S)] + [hi]


def gen_b64(rng, S):
    out = []
    for n in data_lengths(rng, S):
        for rep in range(2 if n <= 64 else 1):
            x = rng.bytes(n) if rep == 0 else bytes(rng.choice(b"\x00\xff\xfb\xef\xbe") for _ in range(n))
            enc = base64.b64encode(x)
            c = "%s/mod3=%d" % (lcls(n), n % 3)
            out.append((U.c_sized(U.OP_B64_ENC, 0, 1, 0, 1, x, len(enc) + 9), M("b64enc", "base64_encode", c)))
            out.append((U.c_sized(U.OP_B64_DEC, 0, 1, 0, 1, enc, len(enc) + 9), M("b64dec", "base64_decode", c + "/padded")))
            out.append((U.c_sized(U.OP_B64_DEC, 1, 1, 0, 1, enc, len(enc) + 9), M("b64dec", "base64_decode_fmt", c + "/plain")))
            for junk, tag in ((b"\r\n", "crlf"), (b"\r\n \t", "ws"), (U.NON_ALPHA_NOPAD, "any-non-alphabet")):
                if n > 64 and tag == "ws":
                    continue
                t = U.interleave(rng, enc, junk, 1, 4 if tag != "crlf" else 12)
                out.append((U.c_sized(U.OP_B64_DEC, 1, 1, 0, 1, t, len(t) + 9), M("b64dec", "base64_decode_fmt", c + "/" + tag)))
            # MIME layout: CRLF after every 76 characters
            if n > 57:
                t = b"\r\n".join(enc[i:i + 76] for i in range(0, len(enc), 76)) + b"\r\n"
                out.append((U.c_sized(U.OP_B64_DEC, 1, 1, 0, 1, t, len(t) + 9), M("b64dec", "base64_decode_fmt", c + "/mime76")))
    return out


def gen_hex(rng, S):
    out = []
    for n in data_lengths(rng, S, 2048, 20)[1:]:
        x = rng.bytes(n)
        hx = binascii.hexlify(x)
        c = lcls(n)
        out.append((U.c_sized(U.OP_HEX, 0, 1, 1, 1, x, 2 * n + 5), M("bin2hex", "cvt_bin2hex", c)))
        out.append((U.c_sized(U.OP_HEX, 1, 1, 0, 1, hx, n + 3), M("hex2bin", "cvt_hex2bin", c + "/lower")))
        out.append((U.c_sized(U.OP_HEX, 1, 1, 0, 1, hx.upper(), n + 3), M("hex2bin", "cvt_hex2bin", c + "/upper")))
    return out


def gen_num(rng, S):
    out = []
    for ti in range(10):
        lo, hi = U.type_range(ti)
        vals = U.interesting_values(ti)
        vals += [rng.range(lo, hi) for _ in range(150 * S)]
        vals += [rng.range(max(lo, -10 ** k), min(hi, 10 ** k)) for k in range(1, 20) for _ in range(3 * S)]
        if hi > 255:
            vals = sorted(set(vals))
        else:
            vals = list(range(lo, hi + 1))                  # the 8-bit types are enumerated completely
        for v in vals:
            vc = U.value_class(v, ti)
            for ustr in (0, 1):
                fn = ti * 2 + ustr
                c = "%s/digits%d" % (vc, len(str(abs(v))))
                out.append((U.c_numrt(fn, v), M("numrt", U.num2str_name(fn), c, ti=ti, v=v)))
                txt = str(v).encode()
                out.append((U.c_str2num(0, fn, txt), M("str2num", U.str2num_name(0, fn), c, ti=ti, v=v)))
                if ustr == 0 or vc not in ("pos", "neg"):
                    hx = ("%s%x" % ("-" if v < 0 else "", abs(v))).encode()
                    if not (v < 0 and v == lo):             # |min| does not fit the positive range the parser accumulates in
                        out.append((U.c_str2num(1, fn, hx), M("str2num", U.str2num_name(1, fn), c + "/hex", ti=ti, v=v)))
                        out.append((U.c_str2num(1, fn, hx.upper()), M("str2num", U.str2num_name(1, fn), c + "/HEX", ti=ti, v=v)))
    return out


def gen_xml(rng, S):
    out = []
    strs = [b"", b"&", b"<", b">", b"'", b'"', b"&<>'\"", b"&amp;", b"&lt;x&gt;", b"a&b<c>d'e\"f", b"&&&&", b"&;", b"& amp;", b"&#38;",
            b"<![CDATA[x]]>", b"x" * 100]
    for n in range(1, 41):
        strs.append(bytes(rng.choice(b"&<>'\"") for _ in range(n)))
        strs.append(bytes(rng.choice(b"&<>'\"ab;") for _ in range(n)))
    for _ in range(120 * S):
        n = rng.range(1, 300)
        alpha = rng.choice([b"&<>'\"abc ;", b"&<>'\"" + bytes(range(32, 127)), bytes(range(1, 256))])
        strs.append(bytes(rng.choice(alpha) for _ in range(n)))
    for _ in range(4 * S):
        strs.append(bytes(rng.choice(b"&<>'\"abcdefgh \n") for _ in range(rng.range(1000, 4096))))
    for s in strs:
        enc = U.xml_escape(s)
        nsp = sum(1 for b in s if b in U.XML_ENT)
        c = "%s/specials%s" % (lcls(len(s)), "0" if nsp == 0 else ("1" if nsp == 1 else ("2-8" if nsp <= 8 else "9+")))
        out.append((U.c_sized(U.OP_XMLCODEC, 0, 1, 0, 1, s, len(enc) + 16), M("xmlenc", "xml_encode", c)))
        out.append((U.c_sized(U.OP_XMLCODEC, 1, 1, 0, 1, enc, len(enc) + 16), M("xmldec", "xml_decode", c, plain=s.hex())))
    return out


def gen_url(rng, S):
    out = []
    strs = [b"", b" ", b"/", b"a b", b"%", b"%41", b"+", b"a+b", b"\x00", b"\xff", b"~-._", b"k=v&x=y", bytes(range(256))]
    for n in range(1, 41):
        strs.append(rng.bytes(n))
        strs.append(bytes(rng.choice(b"ab %+/&=?#\xc3\xa9") for _ in range(n)))
    for _ in range(150 * S):
        strs.append(rng.bytes(rng.range(1, 600)))
    for s in strs:
        for tag, q in (("quote-safe-none", urllib.parse.quote(s, safe="")), ("quote-default", urllib.parse.quote(s)),
                       ("quote_plus", urllib.parse.quote_plus(s))):
            qb = q.encode("ascii")
            out.append((U.c_urldec(1, qb, len(s) + 1), M("url", "http_url_decode", "%s/%s" % (lcls(len(s)), tag), plain=s.hex())))
    return out


def gen_crc(rng, S):
    out = []
    msgs = [b"123456789"] + [rng.bytes(n) for n in range(0, 301)] + [rng.bytes(rng.range(301, 5000)) for _ in range(6 * S)]
    msgs += [bytes(n) for n in (1, 63, 64, 65)] + [b"\xff" * n for n in (1, 63, 64, 65)]
    k = 0
    for m in msgs:
        n = len(m)
        for var in range(8):
            k += 1
            chunks = []
            left = n
            while left > 0 and len(chunks) < 10 and (k % 4):
                c = rng.choice([0, 1, 2, 63, 64, 65, rng.range(1, left)])
                chunks.append(c)
                left -= min(c, left)
            side = "lt64" if n < 64 else "ge64"
            out.append((U.c_crc(var, k % 8, m, chunks), M("crc", crc_oracle.CATALOGUE[var][0],
                                                         "%s/%s/chunks%d" % ("check-string" if m == b"123456789" else lcls(n), side, min(len(chunks), 3)),
                                                         var=var)))
    return out


FAMILIES = [("b64", gen_b64, 1), ("hex", gen_hex, 1), ("num", gen_num, 4), ("xml", gen_xml, 1), ("url", gen_url, 1), ("crc", gen_crc, 1)]
FAM = {n: g for n, g, _ in FAMILIES}

REQUIRED_FUNCS = (["base64_encode", "base64_decode", "base64_decode_fmt", "cvt_bin2hex", "cvt_hex2bin", "xml_encode", "xml_decode",
                   "http_url_decode"]
                  + [U.num2str_name(f) for f in range(20)]
                  + [U.str2num_name(0, f) for f in range(20)] + [U.str2num_name(1, f) for f in range(20)]
                  + [c[0] for c in crc_oracle.CATALOGUE])


def family_cases(fam, tier):
    S = 1 if tier == "quick" else 20
    return FAM[fam](Rng(common.seed(), PROP, fam), S)


# ---------------------------------------------------------------------------
# oracle
# ---------------------------------------------------------------------------
def _src(case):
    r = R(case)
    r.u8(); r.u8(); r.u8(); r.u8(); r.u8()
    return r.blob()


def _short(b, n=48):
    b = bytes(b)
    return b[:n].hex() + ("..(%d bytes)" % len(b) if len(b) > n else "")


def evaluate(case, meta, obs):
    """returns (outcome, [(key, expected, observed)])"""
    ev, fn = meta["ev"], meta["fn"]
    V = []

    def bad(kind, exp, got, detail=""):
        V.append(("oracle:%s:%s%s" % (meta.get("keyfn", fn), kind, (":" + detail) if detail else ""), exp, got))

    if ev in ("b64enc", "b64dec", "bin2hex", "hex2bin", "xmlenc", "xmldec"):
        d = U.p_sized(obs)
        src = _src(case)
        if ev == "b64enc":
            want = base64.b64encode(src)
        elif ev == "b64dec":
            want = base64.b64decode(bytes(b for b in src if b in U.B64_ALPHA or b == 0x3D))
        elif ev == "bin2hex":
            want = binascii.hexlify(src)
        elif ev == "hex2bin":
            want = binascii.unhexlify(src)
        elif ev == "xmlenc":
            want = U.xml_escape(src)
        else:
            want = bytes.fromhex(meta["plain"])
        if d["canary"]:
            bad("wrote-outside-ample-buffer", "canary frames untouched", "bits=%d" % d["canary"])
        if d["rc"] != 0:
            bad("failed", "rc=0 (capacity %d for %d bytes)" % (len(d["buf"]), len(want)), "rc=%d" % d["rc"])
            return "rc%d" % d["rc"], V
        ret = d["ret"]
        if ret is None or ret > len(d["buf"]):
            bad("length-not-reported", "length %d" % len(want), "ret=%r" % ret)
            return "noret", V
        got = d["buf"][:ret]
        if got != want:
            kind = "wrong-output"
            if ev in ("b64dec", "hex2bin", "xmldec"):
                kind = "not-inverse"
            bad(kind, _short(want), _short(got), meta.get("tag", ""))
        elif ret != len(want):
            bad("wrong-length", "%d" % len(want), "%d" % ret)
        return "ok", V
    r = U.rd(obs)
    if ev == "numrt":
        ti, v = meta["ti"], meta["v"]
        macro = "SNUM2STR" if ti >= 5 else "UNUM2STR"
        vc = U.value_class(v, ti)
        vdet = vc if vc in ("pow10", "type-min") else ""
        rc = r.i32()
        ret = r.u64()
        can = r.u8()
        buf = r.blob()
        want = str(v).encode()
        if rc != 0:
            V.append(("oracle:%s:failed%s" % (macro, ":" + vdet if vdet else ""), "rc=0 into 40 bytes", "rc=%d" % rc))
            return "rc%d" % rc, V
        got = buf[:ret] if ret <= len(buf) else b""
        if got != want or can:
            V.append(("oracle:%s:wrong-text%s" % (macro, ":" + vdet if vdet else ""), "%r (length %d)" % (want.decode(), len(want)),
                      "%r (reported length %d%s)" % (got.decode("latin-1"), ret, ", wrote before the buffer" if can & 1 else "")))
            return "wrong-text", V
        if r.u8():
            back = U.from_u64(r.u64(), ti)
            if back != v:
                V.append(("oracle:%s:roundtrip" % ("STR2SNUM" if ti >= 5 else "STR2UNUM"), "%d" % v, "%d" % back))
                return "roundtrip-mismatch", V
        return "ok", V
    if ev == "str2num":
        ti, v = meta["ti"], meta["v"]
        got = U.from_u64(r.u64(), ti)
        if not U.INT_TYPES[ti][2]:
            got &= (1 << U.INT_TYPES[ti][1]) - 1
        if got != v:
            hexm = "/hex" in meta["cls"] or "/HEX" in meta["cls"]
            macro = ("STRH2" if hexm else "STR2") + ("SNUM" if ti >= 5 else "UNUM")
            vc = U.value_class(v, ti)
            V.append(("oracle:%s:wrong-value%s" % (macro, ":type-min" if vc == "type-min" else ""), "%d" % v, "%d" % got))
            return "wrong-value", V
        return "ok", V
    if ev == "url":
        want = bytes.fromhex(meta["plain"])
        ret = r.u64()
        can = r.u8()
        buf = r.blob()
        got = buf[:ret] if ret <= len(buf) else None
        if can:
            bad("wrote-outside-buffer", "canary frames untouched", "bits=%d" % can)
        if got != want:
            bad("not-inverse", _short(want), "ret=%d %s" % (ret, _short(got or b"")), meta["cls"].split("/")[1])
            return "mismatch", V
        return "ok", V
    if ev == "crc":
        src = R(case)
        src.u8(); src.u8(); src.u8(); src.u8()
        m = src.blob()
        want = crc_oracle.crc32_variant(meta["var"], m)
        one = r.u32()
        ch = r.u32()
        if one != want:
            bad("wrong-crc", "0x%08x" % want, "0x%08x" % one, "one-shot")
            return "wrong", V
        if ch != want:
            bad("wrong-crc", "0x%08x" % want, "0x%08x" % ch, "chained-update")
            return "wrong-chained", V
        return "ok", V
    raise U.BadObs("unknown evaluator %s" % ev)


# ---------------------------------------------------------------------------
def worker(job):
    vname, spec, exe, fam, shard, nsh, tier, fb_exe = job
    part = common.new_part()
    mine = family_cases(fam, tier)[shard::nsh]
    cases = [c for c, _ in mine]
    results, ub = U.run_cases_obs(exe, cases, args=(CASE_SECS,))
    for k, n in ub.items():
        part["observations"][k] = part["observations"].get(k, 0) + n
    best = {}
    for (case, meta), res in zip(mine, results):
        part["evaluations"] += 1
        fn = meta["fn"]
        note = ""
        if isinstance(res, Crash):
            # not a verdict here: judge the same case by its output in a plain build
            okey = U.crash_key(res, fn, "", site=True)
            part["observations"][okey] = part["observations"].get(okey, 0) + 1
            note = okey
            r2, _ = U.run_cases_obs(fb_exe, [case], args=(CASE_SECS,))
            res2 = r2[0]
            if isinstance(res2, Crash):
                key = "crash:%s:%s" % (fn, U.crash_key(res2, fn, "", site=False))
                viol = [(key, "case completes in the plain build", (res2.report or "")[:1200])]
                outcome = "crash"
                res = None
            else:
                res = res2
        if res is not None:
            try:
                outcome, viol = evaluate(case, meta, res)
            except (U.BadObs, IndexError, struct.error, ValueError) as e:
                part["inconclusive"].append("%s/%s: unparsable observation for %s: %r" % (vname, fam, fn, e))
                continue
            if note:
                outcome += "+sanitizer-abort"
        part["classes"].add("%s|%s|%s" % (fn, meta["cls"], outcome))
        common.part_count(part, "fn:" + fn)
        common.part_count(part, "build:" + vname)
        for key, exp, got in viol:
            common.part_count(part, "vc:" + key)
            common.part_count(part, "vb:%s@%s" % (key, vname))
            cur = best.get(key)
            if cur is None or len(case) < len(cur[0]):
                best[key] = (case, {"variant": vname, "build": spec, "family": fam, "fn": fn, "meta": meta, "case": case.hex(),
                                    "seed": common.seed(), "expected": exp, "observed": got, "sanitizer_note": note})
        if len(part["samples"]) < 2 and (part["evaluations"] % 211 == 7 or viol):
            part["samples"].append({"fn": fn, "class": meta["cls"], "outcome": outcome, "variant": vname, "case_hex": case.hex()[:120]})
    part["violations"] = [(k, w) for k, (c, w) in best.items()]
    return part


def run(tier):
    report = common.Report(PROP, tier, "exploration")
    fails = crc_oracle.selftest()
    if fails:
        raise common.Inconclusive("crc oracle selftest failed: %s" % fails[:2])
    vs = variants(tier)
    specs = dict(vs)
    exes = common.try_builds(report, vs)
    if FALLBACK not in exes or "gcc-asu-O1" not in exes:
        raise common.Inconclusive("essential variants did not build: %s" % report.builds)
    mult = 1 if tier == "quick" else 4
    jobs = []
    for vname, exe in exes.items():
        for fam, _, nsh in FAMILIES:
            for sh in range(nsh * mult):
                jobs.append((vname, specs[vname], exe, fam, sh, nsh * mult, tier, exes[FALLBACK]))
    jobs.sort(key=lambda j: (0 if j[3] == "num" else 1, 0 if "asu" in j[0] else 1))
    bestw = {}
    for part in common.parallel(worker, jobs):
        for k, w in part["violations"]:
            if k not in bestw or len(w["case"]) < len(bestw[k]["case"]):
                bestw[k] = w
        part["violations"] = []
        report.merge(part)
    per_fn, per_build, vbuilds = {}, {}, {}
    for k in list(report.extra):
        if k.startswith("fn:"):
            per_fn[k[3:]] = report.extra.pop(k)
        elif k.startswith("build:"):
            per_build[k[6:]] = report.extra.pop(k)
        elif k.startswith("vb:"):
            key, b = k[3:].rsplit("@", 1)
            vbuilds.setdefault(key, {})[b] = report.extra.pop(k)
    for k, w in bestw.items():
        w["failing_cases_per_build"] = vbuilds.get(k, {})
        report.violations[k] = {"count": report.extra.pop("vc:" + k, 1), "witness": w}
    report.extra["cases_per_function"] = per_fn
    report.extra["cases_per_build"] = per_build
    report.extra["crc_catalogue"] = [{"macro": c[0], "name": c[1], "poly": "0x%08x" % c[2], "init": "0x%08x" % c[3], "refin": c[4],
                                      "refout": c[5], "xorout": "0x%08x" % c[6], "check": "0x%08x" % c[7]} for c in crc_oracle.CATALOGUE]
    report.exhaustive = False
    report.extra["exhaustive_subdomains"] = "all 256 values of u8/s8 through X2str, str2X and strh2X; all byte-string lengths 0..64; all CRC lengths 0..300"
    missing = [f for f in REQUIRED_FUNCS if per_fn.get(f, 0) == 0]
    if missing:
        report.inconclusive.append("functions never executed: %s" % ", ".join(missing))
    report.rule = (
        "Byte strings of every length 0..64 plus random lengths to 4 KiB (Base64 with CR/LF, white-space and arbitrary non-alphabet "
        "bytes interleaved for the tolerant decoder, hex in both cases); for each of the ten integer types 0, +-1, min, max, every 10^k "
        "and 10^k+-1 that fits, all 8-bit values and random values through X2str/X2ustr, str2X(X2str(v)), str2X(str(v)) and "
        "strh2X(hex(v)); strings over & < > ' \" plus filler through xml_encode / xml_decode; urllib.parse.quote / quote_plus output "
        "through http_url_decode; the eight CRC-32 macros over every length 0..300 and longer, one-shot and as chained _update calls "
        "split on both sides of the 64-byte table switch, at varying alignment.  All derived from VERIF_SEED; every case runs in every "
        "build variant and is compared with the Python reference. A case is distinct/non-trivial by (function | length or value class, "
        "input shape | outcome); distinct_nontrivial is the size of that set over all variants, evaluations counts executed cases.")
    report.assumptions = [
        "reference = CPython 3.11 base64/binascii/str/int/urllib.parse.quote, a per-character five-entity XML escape, and a bitwise "
        "Rocksoft CRC whose parameters are the RevEng catalogue entries (self-tested on the check values and against zlib.crc32)",
        "outputs get ample canary-framed capacity; behaviour at exact capacities belongs to C12",
        "hex parsing of a signed type is compared on sign-and-magnitude text whose magnitude fits the positive range (type minimum excluded)",
        "tolerant Base64 decoding is exercised with non-alphabet bytes other than '=' inserted anywhere; '=' only as trailing padding",
        "keys name the shared macro (UNUM2STR, SNUM2STR, STR2UNUM ...) rather than each of its twenty instantiations; the witness names the function",
    ]
    return report.finish()


def replay(path):
    with open(path) as fh:
        doc = json.load(fh)
    w = doc["witness"]
    exe = common.build(**w["build"])
    case = bytes.fromhex(w["case"])
    res, _ = U.run_cases_obs(exe, [case], args=(CASE_SECS,))
    print("replay %s key=%s variant=%s fn=%s" % (PROP, doc["key"], w["variant"], w["fn"]))
    print("  expected: %s" % w["expected"])
    print("  recorded: %s" % w["observed"])
    if isinstance(res[0], Crash):
        print("  now: sanitizer abort %s; re-running in %s" % (U.crash_key(res[0], w["fn"]), FALLBACK))
        exe2 = common.build(**dict(variants("quick"))[FALLBACK])
        res, _ = U.run_cases_obs(exe2, [case], args=(CASE_SECS,))
        if isinstance(res[0], Crash):
            print((res[0].report or "")[:1200])
            return 1
    outcome, viol = evaluate(case, w["meta"], res[0])
    for k, exp, got in viol:
        print("  now: %s expected %s observed %s" % (k, exp, got))
    print("  outcome now: %s; reproduced: %s" % (outcome, any(k == doc["key"] for k, _, _ in viol)))
    return 1 if viol else 0
