"""C10 — broadcasts reach each running thread once; completion fires once, after all.

Real pool in the c10_bcast harness under ASan+UBSan (stack-use-after-return on) and
TSan; callers inside / outside the pool and from a second pool; every flag subset;
threads that never started; injected queue-write failures at every position;
perturbation at the decrement / hand-over scheduling points.  An offline checker
over callback intervals, call/return and completion records decides."""
import json

from .. import common, tpcommon
from ..common import Rng, W, R

PROP = "C10"
(EV_BS_CALL, EV_BS_RET, EV_CB_ENTER, EV_CB_EXIT, EV_DONE, EV_WRITE, EV_HOOK_START, EV_HOOK_STOP,
 EV_PHASE, EV_BADARG, EV_TIMEOUT, EV_CREATE_FAIL) = range(1, 13)
F_SELF_DIRECT, F_FORCE, F_FAIL_DIRECT = 1, 2, 4
F_SELF_SKIP, F_SYNC, F_SYNC_USLEEP, F_ONE_BY_ONE = 0x100, 0x200, 0x400, 0x10000
ALL_POINTS = (1 << 20) - 1


def build_all(report):
    kw = dict(name="c10_bcast", sources=["c10_bcast.c"], flags=["-Wl,--wrap=write", "-Wl,--wrap=pthread_create"],
              libs=["-lpthread"], repo_sources=tpcommon.TP_SOURCES)
    return common.try_builds(report, [("asu", dict(kw, san="asu")), ("tsan", dict(kw, san="tsan"))])


def encode(sc):
    w = W()
    w.u64(sc["seed"]).u8(sc["pool"]).u8(sc["pool2"]).u8(sc["caller_kind"]).u8(sc["caller_idx"])
    w.u8(sc["api"]).u32(sc["flags"]).u16(sc["nb"]).u8(sc["pass_src"])
    w.u32(sc["fail_mask"]).u8(sc["skip_first"]).u16(sc["cb_work_us"]).u8(sc.get("caller_last", 0)).u8(sc.get("others_expected", 0))
    w.u16(sc["perturb"]).u16(sc["sleep_us"]).u64(sc["point_mask"])
    w.u8(sc["wkind"]).u16(len(sc["wpos"]))
    for k in sc["wpos"]:
        w.u32(k)
    return w.done()


def running_set(sc):
    start = 1 if sc["skip_first"] else 0
    return [t for t in range(start, sc["pool"]) if not ((sc["fail_mask"] >> (t - start)) & 1)]


def mk(rng, **kw):
    sc = dict(seed=rng.u64(), pool=4, pool2=0, caller_kind=0, caller_idx=0, api=0, flags=0, nb=3, pass_src=0, fail_mask=0,
              skip_first=0, cb_work_us=0, perturb=0, sleep_us=300, point_mask=ALL_POINTS, wkind=0, wpos=[], family="x")
    sc.update(kw)
    return sc


def legal(sc):
    run = running_set(sc)
    if sc["caller_kind"] == 1 and sc["caller_idx"] not in run:
        return False
    if sc["caller_kind"] == 2 and (sc["pool2"] == 0 or sc["caller_idx"] >= sc["pool2"]):
        return False
    if (sc["api"] == 0 and sc["caller_kind"] == 1 and (sc["flags"] & F_SYNC) and not (sc["flags"] & (F_SELF_SKIP | F_SELF_DIRECT))
            and sc["pool"] > 1):
        return False    # documented self-deadlock: sync broadcast waiting for its own thread (a pool of one has no other
                        # thread to wait for: the library runs the callback in place and the call must return)
    if sc["api"] == 0 and sc["caller_kind"] == 1 and (sc["flags"] & F_SYNC) and (sc["flags"] & F_SELF_SKIP) == 0 and sc["pass_src"] == 0:
        pass
    return True


def gen_scenarios(tier, seed):
    rng = Rng(PROP, seed, "gen")
    scale = 1 if tier == "quick" else 30
    out = []
    pools = [1, 2, 3, 4, 8, 16]
    bflags = [f | g for f in (0, F_SELF_SKIP, F_SELF_DIRECT, F_SELF_SKIP | F_SELF_DIRECT)
              for g in (0, F_SYNC, F_SYNC | F_SYNC_USLEEP, F_SYNC_USLEEP)]
    cflags = [f | g for f in (0, F_SELF_SKIP, F_SELF_DIRECT, F_SELF_SKIP | F_SELF_DIRECT) for g in (0, F_ONE_BY_ONE)]

    def add(sc):
        if legal(sc):
            out.append(sc)
    # A: bsend_ex, every flag subset x caller kind x pool size
    for rep in range(scale):
        for fl in bflags:
            for ck in (0, 1, 2):
                pool = rng.choice(pools)
                add(mk(rng, family="bsend", pool=pool, pool2=rng.choice([1, 2]) if ck == 2 else 0, caller_kind=ck,
                       caller_idx=rng.below(pool) if ck == 1 else 0, api=0, flags=fl | (rng.choice([0, 0, 0, F_FAIL_DIRECT])),
                       nb=rng.choice([1, 5, 40]), pass_src=rng.below(2), cb_work_us=rng.choice([0, 50, 300]),
                       perturb=rng.choice([0, 100, 400]), sleep_us=rng.choice([100, 1000])))
    # B: cbsend, every flag subset x caller kind
    for rep in range(scale):
        for fl in cflags:
            for ck in (0, 1, 1, 2):
                pool = rng.choice(pools)
                add(mk(rng, family="cbsend", pool=pool, pool2=rng.choice([1, 2]) if ck == 2 else 0, caller_kind=ck,
                       caller_idx=rng.below(pool) if ck == 1 else 0, api=1, flags=fl, nb=rng.choice([1, 4, 20]), pass_src=rng.below(2),
                       cb_work_us=rng.choice([0, 50, 300]), perturb=rng.choice([0, 100, 400]), sleep_us=rng.choice([100, 1000])))
    # B2: the one-thread pool has shortcuts of its own in both entry points: every caller kind x both APIs x the self flags
    for api in (0, 1):
        for ck in (0, 1, 2):
            for fl in (0, F_SELF_SKIP, F_SELF_DIRECT):
                f2 = fl | ((F_SYNC if rng.below(2) else 0) if api == 0 else 0)
                add(mk(rng, family="one-thread-pool", pool=1, pool2=rng.choice([1, 2]) if ck == 2 else 0, caller_kind=ck, caller_idx=0,
                       api=api, flags=f2, nb=rng.choice([1, 3]), pass_src=rng.below(2), cb_work_us=rng.choice([0, 50])))
    # C: subsets of threads not running
    for i in range(16 * scale):
        pool = rng.choice([2, 3, 4, 8])
        skip_first = rng.below(2)
        mask = rng.below(1 << (pool - skip_first))
        api = rng.below(2)
        ck = rng.choice([0, 1]) if api == 0 else 1
        sc = mk(rng, family="notrunning", pool=pool, caller_kind=ck, api=api, skip_first=skip_first, fail_mask=mask,
                flags=(rng.choice(bflags) if api == 0 else rng.choice(cflags)) | rng.choice([0, 0, F_FORCE]), nb=rng.choice([1, 6]),
                pass_src=rng.below(2), perturb=rng.choice([0, 200]))
        run = running_set(sc)
        if not run:
            continue
        sc["caller_idx"] = rng.choice(run)
        add(sc)
    # D: send failure at every position 1..threads_max+1 (single broadcast), all three errno kinds
    for api in (0, 1):
        for pool in ([2, 4] if tier == "quick" else [2, 3, 4, 8]):
            for k in range(1, pool + 2):
                fls = (bflags if api == 0 else cflags)
                for rep in range(1 if tier == "quick" else 3):
                    fl = rng.choice(fls) | rng.choice([0, F_FAIL_DIRECT])
                    ck = rng.choice([0, 1]) if api == 0 else 1
                    add(mk(rng, family="wfault", pool=pool, caller_kind=ck, caller_idx=rng.below(pool), api=api, flags=fl, nb=1,
                           pass_src=rng.below(2), wkind=rng.choice([1, 2, 3]), wpos=[k], perturb=rng.choice([0, 100])))
    # D2: the only thread of a pool broadcasts synchronously to its own pool without any self flag
    for i in range(2 * scale):
        add(mk(rng, family="sync-from-only-thread", pool=1, caller_kind=1, caller_idx=0, api=0,
               flags=F_SYNC | rng.choice([0, F_SYNC_USLEEP]), nb=rng.choice([1, 3]), pass_src=i % 2))
    # E: back-to-back synchronous broadcasts from one frame, decrement point perturbed
    for i in range(10 * scale):
        pool = rng.choice([2, 3, 4, 8])
        ck = rng.choice([0, 0, 1, 2])
        fl = F_SYNC | rng.choice([0, F_SYNC_USLEEP]) | (rng.choice([F_SELF_SKIP, F_SELF_DIRECT]) if ck == 1 else rng.choice([0, F_SELF_SKIP]))
        add(mk(rng, family="sync-reuse", pool=pool, pool2=1 if ck == 2 else 0, caller_kind=ck, caller_idx=rng.below(pool) if ck == 1 else 0, api=0, flags=fl,
               nb=rng.choice([60, 200]), pass_src=rng.below(2), perturb=rng.choice([200, 600]), sleep_us=rng.choice([50, 500]),
               point_mask=(1 << 5) | (1 << 7) | (1 << 3)))
    # F: one-by-one hand-over perturbed, callbacks with work
    for i in range(8 * scale):
        pool = rng.choice([2, 3, 4, 8, 16])
        add(mk(rng, family="one-by-one", pool=pool, caller_kind=1, caller_idx=rng.below(pool), api=1,
               flags=F_ONE_BY_ONE | rng.choice([0, F_SELF_SKIP, F_SELF_DIRECT]), nb=rng.choice([3, 10]), pass_src=rng.below(2),
               cb_work_us=rng.choice([100, 500]), perturb=rng.choice([300, 700]), sleep_us=500, point_mask=(1 << 6) | (1 << 2) | (1 << 3)))
    # G: one-by-one with a never-started thread at the first / middle / last position among the non-caller threads
    for rep in range(scale):
        for pool in (3, 4, 8):
            for pos in ("first", "middle", "last"):
                caller = rng.below(pool)
                others = [t for t in range(pool) if t != caller]
                down = {"first": others[0], "middle": others[len(others) // 2], "last": others[-1]}[pos]
                add(mk(rng, family="one-by-one-down-" + pos, pool=pool, caller_kind=1, caller_idx=caller, api=1,
                       flags=F_ONE_BY_ONE | rng.choice([0, 0, F_SELF_SKIP, F_SELF_DIRECT, F_FORCE]), nb=rng.choice([1, 3]), pass_src=rng.below(2),
                       fail_mask=1 << down, perturb=rng.choice([0, 200])))
    # H: completion form, the caller's own (direct) callback is the last one to finish
    for rep in range(scale):
        for pool in (2, 4, 8):
            for caller in (pool - 1, 0, rng.below(pool)):
                add(mk(rng, family="caller-finishes-last", pool=pool, caller_kind=1, caller_idx=caller, api=1,
                       flags=F_SELF_DIRECT | rng.choice([0, 0, F_FAIL_DIRECT]), nb=rng.choice([1, 4]), pass_src=rng.below(2),
                       caller_last=1, others_expected=pool - 1, perturb=rng.choice([0, 100])))
    for i, sc in enumerate(out):
        sc["index"] = i
    return out


# ---------------------------------------------------------------------------
def check_log(sc, events, part):
    viol = []
    pool = sc["pool"]
    run = set(running_set(sc))
    caller_tid = 999 if sc["caller_kind"] == 0 else (sc["caller_idx"] if sc["caller_kind"] == 1 else 100 + sc["caller_idx"])
    caller_in_pool = sc["caller_kind"] == 1
    thr = tpcommon.by_thread(events)
    B = {}
    timeout = None
    for tid, evs in thr.items():
        for e in evs:
            if e[2] == EV_BS_CALL:
                B[e[4]] = dict(id=e[4], api=e[3], flags=e[5], call_ts=e[0], ret=None, cbs=[], done=[], wfail_caller=0, wfail_other=0, tid=tid, writes=[])
    for tid, evs in thr.items():
        open_call = None
        for pos, e in enumerate(evs):
            ts, _t, kind, aux, a, b, c = e
            if kind == EV_BS_CALL:
                open_call = a
            elif kind == EV_BS_RET:
                rc = (c >> 32) & 0xffffffff
                B[a]["ret"] = dict(ts=ts, rc=rc, exits_seen=c & 0xffffffff, sent=b >> 32, failed=b & 0xffffffff)
                open_call = None
            elif kind == EV_CB_ENTER:
                B.setdefault(a, dict(id=a, api=-1, flags=0, call_ts=0, ret=None, cbs=[], done=[], wfail_caller=0, wfail_other=0, tid=None, writes=[]))
                B[a]["cbs"].append(dict(tid=tid, tpt=b, otherpool=aux, enter=ts, exit=None, nested=(open_call == a)))
            elif kind == EV_CB_EXIT:
                for cb in reversed(B[a]["cbs"]):
                    if cb["tid"] == tid and cb["exit"] is None:
                        cb["exit"] = ts
                        break
            elif kind == EV_DONE:
                B[a]["done"].append(dict(tid=tid, ts=ts, sent=b >> 32, err=b & 0xffffffff, tpt=(c >> 32) & 0xffffffff,
                                         exits_seen=c & 0xffffffff, otherpool=aux, nested=(open_call == a)))
            elif kind == EV_WRITE:
                if b in B:
                    B[b]["writes"].append((a, c))
                if c != 0 and b in B:
                    if tid == B[b]["tid"] and open_call == b:
                        B[b]["wfail_caller"] += 1
                    else:
                        B[b]["wfail_other"] += 1
            elif kind == EV_BADARG:
                viol.append(("log:callback:bad-argument", "callback got pointer %#x that was never passed" % a))
            elif kind == EV_TIMEOUT:
                timeout = aux
    if timeout == 2:
        viol.append(("hang:broadcast-call-did-not-return", "caller still inside the library after 60 s"))
    elif timeout:
        part["inconclusive"].append("scenario %d: watchdog %d fired" % (sc["index"], timeout))
    for bid, b in sorted(B.items()):
        fl = b["flags"]
        api = b["api"]
        ret = b["ret"]
        if ret is None:
            if timeout != 2:
                viol.append(("log:broadcast:no-return-record", "broadcast %d has no return record" % bid))
            continue
        targeted = set(range(pool))
        skip_applies = bool(fl & F_SELF_SKIP) and caller_in_pool
        if skip_applies:
            targeted.discard(sc["caller_idx"])
        one = bool(fl & F_ONE_BY_ONE) and api == 1
        cbs = b["cbs"]
        cls = ("bsend" if api == 0 else "cbsend", fl, "ext" if sc["caller_kind"] == 0 else ("in" if caller_in_pool else "pool2"),
               "p1" if pool == 1 else "pN", "down" if len(run) < pool else "allrun", "wf" if (b["wfail_caller"] or b["wfail_other"]) else "ok")
        part["classes"].add(cls)
        # external caller cannot use the completion form: must be refused, nothing may run
        if api == 1 and sc["caller_kind"] == 0:
            if ret["rc"] == 0 or cbs or b["done"]:
                viol.append(("log:tpt_msg_cbsend:external-caller-not-refused", "rc=%d callbacks=%d done=%d" % (ret["rc"], len(cbs), len(b["done"]))))
            continue
        if ret["rc"] != 0 and not cbs and api == 1:
            # the completion form refused the broadcast as a whole (nothing could be scheduled): nothing may run
            if len(b["done"]) > 1:
                viol.append(("log:tpt_msg_cbsend:completion-count", "broadcast %d: refused call but completion ran %d times" % (bid, len(b["done"]))))
            part["classes"].add(("refused", api, fl, cls[2]))
            continue
        per = {}
        for cb in cbs:
            per.setdefault(cb["tpt"], []).append(cb)
            if cb["otherpool"]:
                viol.append(("log:callback:wrong-pool-thread", "broadcast %d flags=%#x: callback ran with a thread object of another pool (tpt #%d on tid %d)" % (bid, fl, cb["tpt"], cb["tid"])))
        wf = b["wfail_caller"] + b["wfail_other"]
        # which thread each queue write of this broadcast was addressed to (writes happen in target order;
        # anything beyond the targets is the completion post)
        order = [t for t in range(pool) if t in targeted and t in run and not (caller_in_pool and t == sc["caller_idx"])]
        if caller_in_pool and sc["caller_idx"] in targeted and not (fl & F_SELF_DIRECT):
            order = (order + [sc["caller_idx"]]) if one else sorted(order + [sc["caller_idx"]])
        excused = set()
        for i, (_k, err) in enumerate(sorted(b["writes"])):
            if err != 0 and i < len(order):
                excused.add(order[i])
        missing = 0
        missing_excused = 0
        direct_foreign = 0
        for t in range(pool):
            lst = per.get(t, [])
            if t not in targeted:
                if lst:
                    viol.append(("log:callback:ran-on-untargeted-thread", "broadcast %d flags=%#x: thread %d is the skipped caller but ran the callback" % (bid, fl, t)))
                continue
            if len(lst) > 1:
                viol.append(("log:callback:duplicate", "broadcast %d flags=%#x: thread %d ran the callback %d times" % (bid, fl, t, len(lst))))
                continue
            if t not in run:
                if lst:
                    cb = lst[0]
                    # FORCE: the sending thread (caller, or the previous worker in one-by-one mode) calls it directly
                    if not (fl & F_FORCE) or (cb["tid"] != b["tid"] and not one):
                        viol.append(("log:callback:ran-for-not-running-thread", "broadcast %d flags=%#x: callback for never-started thread %d on tid %d" % (bid, fl, t, cb["tid"])))
                continue
            if not lst:
                missing += 1
                if t in excused and not (fl & F_FAIL_DIRECT):
                    missing_excused += 1
                continue
            cb = lst[0]
            if cb["tid"] != t:
                if cb["tid"] == b["tid"] and cb["nested"] and (fl & F_FAIL_DIRECT) and wf:
                    direct_foreign += 1
                elif one and (fl & F_FAIL_DIRECT) and wf:
                    direct_foreign += 1
                else:
                    viol.append(("log:callback:wrong-thread", "broadcast %d flags=%#x api=%d: callback for thread %d ran on tid %d" % (bid, fl, api, t, cb["tid"])))
        for t in per:
            if t >= pool:
                viol.append(("log:callback:unknown-thread", "broadcast %d: callback for thread #%d" % (bid, t)))
        if missing:
            allowed = missing_excused
            if missing > allowed:
                viol.append(("log:callback:missing-on-running-thread", "broadcast %d flags=%#x api=%d pool=%d caller=%s: %d running targeted thread(s) never ran the callback (%d failed writes)" % (
                    bid, fl, api, pool, cls[2], missing, wf)))
        ncb = len(cbs)
        if api == 0:
            if ret["sent"] + ret["failed"] != len(targeted) and not (ret["rc"] == 22):
                viol.append(("log:tpt_msg_bsend_ex:counts-do-not-add-up", "broadcast %d flags=%#x pool=%d caller=%s: sent=%d failed=%d targeted=%d" % (
                    bid, fl, pool, cls[2], ret["sent"], ret["failed"], len(targeted))))
            elif ret["sent"] != ncb:
                viol.append(("log:tpt_msg_bsend_ex:sent-count-differs-from-callbacks", "broadcast %d flags=%#x pool=%d caller=%s: sent=%d but %d callbacks ran" % (
                    bid, fl, pool, cls[2], ret["sent"], ncb)))
            if fl & F_SYNC:
                late = [cb for cb in cbs if cb["exit"] is None or cb["exit"] > ret["ts"]]
                if ret["exits_seen"] < ncb or late:
                    viol.append(("log:tpt_msg_bsend_ex:sync-returned-before-callbacks-finished", "broadcast %d flags=%#x pool=%d caller=%s: returned with %d of %d callbacks finished" % (
                        bid, fl, pool, cls[2], ret["exits_seen"], ncb)))
        else:
            dn = b["done"]
            if ret["rc"] == 0:
                if len(dn) != 1:
                    viol.append(("log:tpt_msg_cbsend:completion-count", "broadcast %d flags=%#x pool=%d caller=%s: completion callback ran %d times" % (bid, fl, pool, cls[2], len(dn))))
                else:
                    d = dn[0]
                    last_exit = max([cb["exit"] or (1 << 62) for cb in cbs], default=0)
                    if d["exits_seen"] < ncb or d["ts"] < last_exit:
                        viol.append(("log:tpt_msg_cbsend:completion-before-last-callback", "broadcast %d flags=%#x: completion saw %d of %d callbacks finished" % (bid, fl, d["exits_seen"], ncb)))
                    if d["tid"] != b["tid"] and not b["wfail_other"] and not b["wfail_caller"]:
                        viol.append(("log:tpt_msg_cbsend:completion-on-wrong-thread", "broadcast %d flags=%#x pool=%d caller=%s: completion ran on tid %d, origin is %d" % (bid, fl, pool, cls[2], d["tid"], b["tid"])))
                    if d["sent"] != ncb or d["sent"] + d["err"] != len(targeted):
                        viol.append(("log:tpt_msg_cbsend:completion-counts-wrong", "broadcast %d flags=%#x pool=%d caller=%s: completion reported sent=%d err=%d; %d callbacks ran, %d targeted" % (
                            bid, fl, pool, cls[2], d["sent"], d["err"], ncb, len(targeted))))
            else:
                if len(dn) > 1:
                    viol.append(("log:tpt_msg_cbsend:completion-count", "broadcast %d: failed call but completion ran %d times" % (bid, len(dn))))
            if one and len(cbs) > 1:
                seq = sorted(cbs, key=lambda x: x["enter"])
                for x, y in zip(seq, seq[1:]):
                    if x["exit"] is None or x["exit"] > y["enter"]:
                        viol.append(("log:tpt_msg_cbsend:one-by-one-overlap", "broadcast %d: callbacks of threads %d and %d overlap" % (bid, x["tpt"], y["tpt"])))
                        break
                order = [x["tpt"] for x in seq if not (caller_in_pool and x["tpt"] == sc["caller_idx"])]
                if order != sorted(order):
                    viol.append(("log:tpt_msg_cbsend:one-by-one-order", "broadcast %d: thread order %s" % (bid, order)))
    return viol


def run_one(job):
    sc, exes = job
    part = common.new_part()
    payload = encode(sc)
    for san, exe in exes.items():
        env = {}
        if san == "asu":
            env["ASAN_OPTIONS"] = common.SAN_ENV["ASAN_OPTIONS"].replace("detect_leaks=0", "detect_leaks=1")
        r = tpcommon.run_scenario(exe, payload, env_extra=env, wall_timeout=400)
        if r.obs is None and r.wall_timeout:
            r = tpcommon.run_scenario(exe, payload, env_extra=env, wall_timeout=400)
        part["evaluations"] += 1
        wit = {"scenario": dict(sc), "build": san, "payload": payload.hex()}
        if r.obs is None:
            kind = common.classify_crash(r.rc, r.err)
            if kind in ("asan", "ubsan"):
                part["violations"].append((common.crash_key(common.Crash(kind, r.err, r.rc), "c10"), dict(wit, report=r.err[-5000:])))
            elif kind == "hang":
                part["violations"].append(("hang:c10:%s" % sc["family"], dict(wit, report=r.err[-2000:])))
            else:
                part["inconclusive"].append("scenario %d build %s: harness exit rc=%s %s" % (sc["index"], san, r.rc, r.err[-300:]))
            continue
        rd = R(r.obs)
        if rd.u32() != 0xC10C10:
            part["inconclusive"].append("scenario %d: bad observation" % sc["index"])
            continue
        timeout = rd.i32()
        qw, winj = rd.u64(), rd.u64()
        points = tpcommon.decode_points(rd)
        events = tpcommon.decode_events(rd)
        common.part_count(part, "events", len(events))
        common.part_count(part, "queue_writes_during_broadcasts", qw)
        common.part_count(part, "write_faults_injected", winj)
        common.part_count(part, "broadcasts", sum(1 for e in events if e[2] == EV_BS_CALL))
        common.part_count(part, "callbacks_run", sum(1 for e in events if e[2] == EV_CB_ENTER))
        common.part_count(part, "completions_run", sum(1 for e in events if e[2] == EV_DONE))
        for i, (v, p) in enumerate(points):
            if v:
                common.part_count(part, "point_visits_%d" % i, v)
                common.part_count(part, "point_perturbed_%d" % i, p)
        for key, detail in check_log(sc, events, part):
            part["violations"].append((key, dict(wit, detail=detail)))
        tpcommon.triage_into(part, r.err, wit, san)
        if not part["samples"]:
            part["samples"].append({"scenario": {k: v for k, v in sc.items() if k != "wpos"}, "events": len(events),
                                    "first_events": [list(e) for e in events[:14]]})
    return part


def run(tier):
    report = common.Report(PROP, tier, "exploration")
    report.rule = ("scenario = (pool size, caller: external / pool thread / thread of a second pool, API bsend_ex or cbsend, flag subset, "
                   "never-started thread subset via failed pthread_create, number of back-to-back broadcasts from one frame, callback work, "
                   "perturbation at decrement/hand-over points, queue-write failure at position k); distinct class = (api, flags, caller kind, "
                   "pool==1?, some thread down?, write failure seen?)")
    exes = build_all(report)
    if not exes:
        raise common.Inconclusive("harness does not build: %s" % report.builds)
    scs = gen_scenarios(tier, common.seed())
    fams = {}
    for sc in scs:
        fams[sc["family"]] = fams.get(sc["family"], 0) + 1
    for part in common.parallel(run_one, [(sc, exes) for sc in scs]):
        report.merge(part)
    report.extra["scenario_families"] = fams
    report.assumptions = [
        "synchronous broadcast from a pool thread without self-skip/self-direct is excluded for pools of two or more threads (documented self-deadlock); the only thread of a one-thread pool is driven",
        "completion-thread affinity is relaxed when a queue write failed during that broadcast (documented FAIL_DIRECT fallback)",
        "interleavings are sampled by stress + seeded perturbation, not enumerated",
    ]
    if report.extra.get("callbacks_run", 0) == 0 or report.extra.get("completions_run", 0) == 0:
        report.inconclusive.append("monitor saw no callbacks or no completions")
    return report.finish()


def replay(path):
    with open(path) as fh:
        w = json.load(fh)["witness"]
    report = common.Report(PROP, "quick")
    exes = build_all(report)
    part = run_one((w["scenario"], {w["build"]: exes[w["build"]]}))
    for k, d in part["violations"]:
        print("replayed:", k, d.get("detail") or d.get("report", "")[:1500])
    print("violations on replay: %d" % len(part["violations"]))
    return 1 if part["violations"] else 0
