"""C02 - elliptic-curve group law and scalar multiplication are correct in every build.

One driver source (drivers/c02_ec.c) is compiled once per configuration (coordinate system,
mixed addition, repeated doubling, fixed-point / unknown-point / twin multiplication
algorithm and window, bignum digit width).  Every case is executed by the library and
compared with textbook affine arithmetic on Python ints (verif/oracles/ec.py); all
configurations are compared with that one reference, hence with each other.

Workload: (1) all 32 built-in curves with special/structured/random scalars and every operand
relation; (2) small synthetic curves injected through ec_curve_str_t whose WHOLE group is
enumerated.  Each case runs under ASan+UBSan once and in the plain build twice with different
junk patterns in the (not yet initialised) curve object, the operands and the stack; the two
plain observations must be identical.
"""
import json
import os
import re

from verif import common
from verif.common import W, R, Rng, Crash
from verif.oracles import ec

PROP = "C02"
DRIVER = "c02_ec.c"

OP_ADD, OP_SUB, OP_UNK, OP_BP, OP_TWIN, OP_TWINBP, OP_CHK, OP_RT = 1, 2, 4, 5, 6, 7, 8, 9
ENTRY = {
    OP_ADD: "ec_point_add", OP_SUB: "ec_point_sub", OP_UNK: "ec_point_unknown_pt_mult",
    OP_BP: "ec_point_mult_bp", OP_TWIN: "ec_point_twin_mult", OP_TWINBP: "ec_point_twin_mult_bp",
    OP_CHK: "ec_point_check_affine", OP_RT: "ec_point_proj_import_export_affine",
}
FXP = ["BIN", "BIN_PRECALC_DBL", "SLIDING_WIN", "COMB_1T", "COMB_2T"]
UNK = FXP + ["SAME_AS_FXP"]
TWIN = ["BIN", "FXP_UNKPT", "JOINT", "INTER"]
TABLE_ALGOS = ("SLIDING_WIN", "COMB_1T", "COMB_2T")
OOB_KINDS = ("stack-buffer-overflow", "heap-buffer-overflow", "global-buffer-overflow",
             "stack-buffer-underflow", "dynamic-stack-buffer-overflow", "stack-overflow")
JUNK_A, JUNK_B = 0xA5, 0x3C
PRI_CHEAP, PRI_CORE, PRI_EXT, PRI_SWEEP = 0, 1, 2, 3
CHEAP_OPS = (OP_ADD, OP_SUB, OP_CHK, OP_RT)
# plain-build milliseconds of multiplication work per (configuration, built-in curve); case counts
# follow from this through a fixed cost model (no clock is read)
BUDGET_MS = {"quick": 200.0, "thorough": 400.0}
MIN_MULT_CASES = 4
LOAD_LIMIT_MS = {"quick": 6000.0, "thorough": 20000.0}
CRASH_LIMIT = 4           # crashes per (job, build, entry point, key marks) before such cases are no longer fed


# ---------------------------------------------------------------------------
# configurations
# ---------------------------------------------------------------------------
def mkcfg(proj=False, mix=False, rd=False, fxp=None, fxpw=None, unk=None, unkw=None, twin=None,
          digit=None, mulldiv=None, extra=(), name=None):
    d = []
    if proj:
        d.append("-DEC_USE_PROJECTIVE=1")
    if mix:
        d.append("-DEC_PROJ_ADD_MIX=1")
    if rd:
        d.append("-DEC_PROJ_REPEAT_DOUBLE=1")
    if fxp is not None:
        d.append("-DEC_PF_FXP_MULT_ALGO=EC_PF_FXP_MULT_ALGO_" + fxp)
    if fxpw is not None:
        d.append("-DEC_PF_FXP_MULT_WIN_BITS=%d" % fxpw)
    if unk is not None:
        d.append("-DEC_PF_UNKPT_MULT_ALGO=EC_PF_UNKPT_MULT_ALGO_" + unk)
    if unkw is not None:
        d.append("-DEC_PF_UNKPT_MULT_WIN_BITS=%d" % unkw)
    if twin is not None:
        d.append("-DEC_PF_TWIN_MULT_ALGO=EC_PF_TWIN_MULT_ALGO_" + twin)
    if digit is not None:
        d.append("-DBN_DIGIT_BIT_CNT=%d" % digit)
        if mulldiv:
            d.append("-DBN_CC_MULL_DIV=1")
    d += list(extra)
    if name is None:
        name = "%s%s%s-f%s%s-u%s%s-t%s-d%s%s" % (
            "P" if proj else "A", "m" if mix else "", "r" if rd else "",
            fxp or "dflt", "" if fxpw is None else fxpw, unk or "dflt", "" if unkw is None else unkw,
            twin or "dflt", digit or "dflt", "" if digit is None else ("M" if mulldiv else "n"))
    return {"name": name, "defs": d}


TEST_CFG = mkcfg(proj=True, mix=True, rd=True, fxp="COMB_2T", fxpw=9, unk="COMB_1T", unkw=2,
                 twin="INTER", digit=64, mulldiv=True,
                 extra=("-DBN_BIT_LEN=1408", "-DBN_NO_POINTERS_CHK=1", "-DEC_DISABLE_PUB_KEY_CHK=1"),
                 name="tests-ecdsa-main")


def sane_windows(algo):
    if algo == "SLIDING_WIN":
        return [1, 2, 4, 8]       # documented: power of two (and it must divide the digit width)
    if algo in ("COMB_1T", "COMB_2T"):
        return [1, 2, 3, 4, 5, 8, 9]
    return [None]


def quick_configs():
    return [
        TEST_CFG,
        mkcfg(name="header-defaults"),
        # each fixed-point algorithm once per coordinate system; unknown-point and twin
        # algorithms, mix / repeat-double and digit widths spread over them
        mkcfg(fxp="BIN", unk="BIN", twin="BIN", digit=32, mulldiv=True),
        mkcfg(fxp="BIN_PRECALC_DBL", fxpw=2, unk="SLIDING_WIN", unkw=2, twin="FXP_UNKPT"),
        mkcfg(fxp="SLIDING_WIN", fxpw=4, unk="SAME_AS_FXP", twin="JOINT", digit=16, mulldiv=True),
        mkcfg(fxp="COMB_1T", fxpw=3, unk="COMB_2T", unkw=3, twin="FXP_UNKPT", digit=64, mulldiv=False),
        mkcfg(fxp="COMB_2T", fxpw=5, unk="BIN_PRECALC_DBL", twin="BIN", digit=8, mulldiv=True),
        mkcfg(proj=True, fxp="BIN", unk="BIN", twin="JOINT", digit=128),
        mkcfg(proj=True, mix=True, fxp="BIN_PRECALC_DBL", unk="BIN_PRECALC_DBL", twin="FXP_UNKPT"),
        mkcfg(proj=True, rd=True, fxp="SLIDING_WIN", fxpw=2, unk="SAME_AS_FXP", twin="INTER", digit=8, mulldiv=True),
        mkcfg(proj=True, mix=True, rd=True, fxp="COMB_1T", fxpw=4, unk="COMB_2T", unkw=4, twin="JOINT",
              digit=32, mulldiv=False),
        mkcfg(proj=True, fxp="COMB_2T", fxpw=2, unk="COMB_1T", unkw=2, twin="INTER", digit=16, mulldiv=True),
        # unknown-point window wider than the fixed-point window (shared table type)
        mkcfg(proj=True, mix=True, rd=True, fxp="COMB_2T", fxpw=2, unk="COMB_1T", unkw=4, twin="FXP_UNKPT"),
    ]


def thorough_configs(seed):
    out = list(quick_configs())
    seen = {json.dumps(c["defs"]) for c in out}

    def add(c):
        k = json.dumps(c["defs"])
        if k not in seen:
            seen.add(k)
            out.append(c)

    # single-axis variations of the header default (COMB_2T w8 / COMB_1T w2 / JOINT / 64-bit digits)
    # in both coordinate systems: affine and Jacobian (with mixed addition + repeated doubling, as the
    # repository's own test selects); plain Jacobian gets the algorithm axis without the window axis
    bases = [dict(), dict(proj=True, mix=True, rd=True)]
    for bi, b in enumerate(bases):
        for a in FXP:
            for w in sane_windows(a):
                add(mkcfg(fxp=a, fxpw=w, **b))
        for a in UNK:
            if a in ("BIN", "BIN_PRECALC_DBL", "SAME_AS_FXP"):
                ws = [None]
            else:
                ws = [w for w in sane_windows(a) if w <= 8]
                if (a == "COMB_2T") == (bi == 0):
                    ws = [w for w in ws if w in (1, 4, 8)]      # the other base takes the full window list
            for w in ws:
                add(mkcfg(unk=a, unkw=w, **b))
        for t in TWIN:
            add(mkcfg(twin=t, **b))
        add(mkcfg(twin="FXP_UNKPT", fxp="BIN", unk="BIN", **b))
    b = dict(proj=True)
    for a in FXP:
        add(mkcfg(fxp=a, **b))
    for a in UNK:
        add(mkcfg(unk=a, **b))
    for t in TWIN:
        add(mkcfg(twin=t, **b))
    add(mkcfg(proj=True, mix=True))
    add(mkcfg(proj=True, rd=True))
    # unknown-point window larger than the fixed-point window
    for b in (dict(), dict(proj=True, mix=True, rd=True)):
        add(mkcfg(fxp="COMB_2T", fxpw=2, unk="COMB_1T", unkw=4, **b))
        add(mkcfg(fxp="SLIDING_WIN", fxpw=2, unk="SLIDING_WIN", unkw=4, **b))
        add(mkcfg(fxp="COMB_1T", fxpw=3, unk="COMB_2T", unkw=5, twin="FXP_UNKPT", **b))
        add(mkcfg(fxp="BIN", fxpw=1, unk="COMB_1T", unkw=2, **b))
        add(mkcfg(unk="COMB_1T", unkw=9, **b))
    # digit widths on the default
    for dg in (8, 16, 32, 64, 128):
        for md in ((True, False) if dg != 128 else (False,)):
            add(mkcfg(digit=dg, mulldiv=md))
            add(mkcfg(proj=True, mix=True, rd=True, digit=dg, mulldiv=md))
    # seeded random full combinations
    rng = Rng(seed, PROP, "configs")
    tries = 0
    nrand = 0
    while nrand < 40 and tries < 400:
        tries += 1
        proj = rng.chance(2, 3)
        fa = rng.choice(FXP)
        fw = rng.choice(sane_windows(fa)) if fa in TABLE_ALGOS else rng.choice([None, 2, 4, 8])
        ua = rng.choice(UNK)
        uw = None
        if ua in TABLE_ALGOS:
            lim = fw if fw is not None else 8
            cand = [w for w in sane_windows(ua) if w <= lim]       # keep inside the shared table
            uw = rng.choice(cand)
        dg = rng.choice([8, 16, 32, 64, 64, 128])
        if fa == "SLIDING_WIN" and fw is not None and fw > dg:
            continue
        c = mkcfg(proj=proj, mix=proj and rng.chance(1, 2), rd=proj and rng.chance(1, 2), fxp=fa, fxpw=fw,
                  unk=ua, unkw=uw, twin=rng.choice(TWIN), digit=dg, mulldiv=(dg != 128 and rng.chance(1, 2)))
        k = json.dumps(c["defs"])
        if k in seen:
            continue
        seen.add(k)
        c["name"] = "rnd%02d-" % nrand + c["name"]
        out.append(c)
        nrand += 1
    return out


def build_kwargs(cfg, san):
    flags = list(cfg["defs"])
    if san == "plain":
        flags = ["-O2"] + flags
    return dict(name="c02_" + san, sources=[DRIVER], san=san, flags=flags)


class Info:
    """Effective configuration as reported by the driver's info op."""

    def __init__(self, blob):
        r = R(blob)
        (self.digit_bits, self.mulldiv, self.bn_bit_len, self.proj, self.mix, self.rd, fxp, self.fxpw,
         unk, self.unkw, twin) = [r.u32() for _ in range(11)]
        self.fxp, self.unk, self.twin = FXP[fxp], FXP[unk], TWIN[twin]
        self.sizeof_curve = r.u64()
        self.sizeof_point = r.u64()
        n = r.u32()
        self.names = [r.blob().decode() for _ in range(n)]
        if not self.proj:
            self.coord = "affine"
        else:
            self.coord = "proj" + ("+mix" if self.mix else "") + ("+rd" if self.rd else "")
        self.unk_wider = self.unk in TABLE_ALGOS and self.unkw > self.fxpw

    def family(self, op):
        """Configuration family of an entry point = the macro choices on its code path.  In a build whose
        unknown-point window is wider than the fixed-point window the shared table overflows the stack
        (memory corruption), so nothing observed later in such a process is independent of it: every
        family of such a build carries the marker."""
        c = self.coord
        w = ",unkw>fxpw" if self.unk_wider else ""
        if op in (OP_ADD, OP_SUB):
            return c + w
        if op == OP_UNK:
            return "%s,unk=%s%s" % (c, self.unk, w)
        if op == OP_BP:
            return "%s,fxp=%s%s" % (c, self.fxp, w)
        if op == OP_TWIN:
            return "%s,twin=%s%s" % (c, "BIN" if self.twin == "FXP_UNKPT" else self.twin, w)
        if op == OP_TWINBP:
            if self.twin == "FXP_UNKPT":
                return "%s,twin=FXP_UNKPT,fxp=%s,unk=%s%s" % (c, self.fxp, self.unk, w)
            return "%s,twin=%s%s" % (c, self.twin, w)
        return "any" + w

    def as_dict(self):
        return {"digit_bits": self.digit_bits, "cc_mull_div": self.mulldiv, "BN_BIT_LEN": self.bn_bit_len,
                "coord": self.coord, "fxp": "%s/w%d" % (self.fxp, self.fxpw), "unk": "%s/w%d" % (self.unk, self.unkw),
                "twin": self.twin, "sizeof_ec_curve_t": self.sizeof_curve}


# ---------------------------------------------------------------------------
# case packing
# ---------------------------------------------------------------------------
def nbytes(bits):
    return max(1, (bits + 7) // 8)


def pk_curve_builtin(idx):
    return W().u8(0).u16(idx).done()


def _hx(v, width):
    s = "%0*x" % (width, v)
    if len(s) % 2:
        s = "0" + s
    return s.encode()


def pk_curve_syn(c, m):
    width = 2 * nbytes(m)
    w = W().u8(1).u32(m).u32(max(1, m // 2)).u32(c.h).u32(c.flags)
    for v in (c.p, c.a, c.b, c.gx, c.gy, c.n):
        w.blob(_hx(v, width))
    return w.done()


def pk_point(w, inf, x, y, nb):
    w.u8(1 if inf else 0).blob(x.to_bytes(nb, "big")).blob(y.to_bytes(nb, "big"))


def pk_scalar(w, k, nb):
    w.blob(k.to_bytes(max(nb, nbytes(k.bit_length())), "big"))


def pk_body(cspec, nb, alias, A, B, k1, k2):
    """A, B: (inf, x, y) with x, y the coordinates actually stored (stale ones for infinity)."""
    w = W().raw(cspec).u8(alias)
    pk_point(w, A[0], A[1], A[2], nb)
    pk_point(w, B[0], B[1], B[2], nb)
    pk_scalar(w, k1, nb)
    pk_scalar(w, k2, nb)
    return w.done()


def decode_body(body):
    r = R(body)
    kind = r.u8()
    cur = {}
    if kind == 0:
        cur["builtin_index"] = r.u16()
    else:
        cur["m"], cur["t"], cur["h"], cur["flags"] = r.u32(), r.u32(), r.u32(), r.u32()
        for f in ("p", "a", "b", "Gx", "Gy", "n"):
            cur[f] = r.blob().decode()
    alias = r.u8()
    pts = []
    for _ in range(2):
        inf = r.u8()
        x = int.from_bytes(r.blob(), "big")
        y = int.from_bytes(r.blob(), "big")
        pts.append({"infinity": inf, "x": hex(x), "y": hex(y)})
    k1 = int.from_bytes(r.blob(), "big")
    k2 = int.from_bytes(r.blob(), "big")
    return {"curve": cur, "alias_same_object": alias & 1,
            "result_object": {0: "separate", 1: "first point operand", 2: "second point operand"}.get(alias >> 1, "?"),
            "A": pts[0], "B": pts[1], "k1": hex(k1), "k2": hex(k2),
            "k1_bits": k1.bit_length(), "k2_bits": k2.bit_length()}


def parse_obs(b):
    """-> dict(rc_curve, rc_prep, rc, point) ; point = None (infinity) / (x, y) / 'none'"""
    r = R(b)
    o = {"rc_curve": r.i32(), "rc_prep": None, "rc": None, "point": "none"}
    if o["rc_curve"] != 0 or r.eof():
        return o
    o["rc_prep"] = r.i32()
    if o["rc_prep"] != 0 or r.eof():
        return o
    o["rc"] = r.i32()
    if r.eof():
        return o
    inf = r.u8()
    x = int.from_bytes(r.blob(), "little")
    y = int.from_bytes(r.blob(), "little")
    o["point"] = None if inf else (x, y)
    return o


def exp_obs_point(exp):
    return None if exp[0] else (exp[1], exp[2])


# ---------------------------------------------------------------------------
# scalar classes
# ---------------------------------------------------------------------------
F_KBITS_GT_M, F_ZERO_SCALAR, F_RES_ALIAS = 1, 2, 4
RES_SEP, RES_FIRST, RES_SECOND = 0, 2, 4          # alias bits 1-2: where twin multiplication writes its result
RES_NAME = {0: "", 2: ",res==A", 4: ",res==B"}


def case_flags(op, k1, k2, m, alias=0):
    f = 0
    if alias >> 1:
        f |= F_RES_ALIAS
    if op in (OP_UNK, OP_BP, OP_TWIN, OP_TWINBP) and max(k1.bit_length(), k2.bit_length()) > m:
        f |= F_KBITS_GT_M
    if op in (OP_TWIN, OP_TWINBP) and (k1 == 0 or k2 == 0):
        f |= F_ZERO_SCALAR
    return f


def sclass(k, n, m):
    if k <= 3:
        return "k=%d" % k
    if k == n - 1:
        return "n-1"
    if k == n:
        return "n"
    if k == n + 1:
        return "n+1"
    if k == n - 2:
        return "n-2"
    b = k.bit_length()
    tag = ""
    if b > m:
        tag = ">m"
    if k & (k - 1) == 0:
        return "2^i" + tag
    if (k + 1) & k == 0:
        return "2^i-1" + tag
    if (k - 1) & (k - 2) == 0:
        return "2^i+1" + tag
    pc = bin(k).count("1")
    if pc * 8 <= b:
        return "sparse" + tag
    if pc * 8 >= b * 7:
        return "dense" + tag
    if k > n:
        return "rand>n" + tag
    return "rand" + tag


# ---------------------------------------------------------------------------
# built-in curve workload
# ---------------------------------------------------------------------------
def _structured_scalars(rng, m, n, tier):
    """comb columns / sliding windows / repeats: list of (class, k), every k < 2^m"""
    out = []
    full = tier == "thorough"
    lim = (1 << m) - 1

    def cap(k):
        return k & lim

    for w in (2, 3, 4, 5, 8, 9):
        d = -(-m // w)
        e = -(-d // 2)
        pos = sorted({0, e - 1, e, d - 1, rng.below(d)}) if full else sorted({rng.choice([0, e - 1]), rng.choice([e, d - 1])})
        for j in pos:
            if j < 0 or j >= d:
                continue
            for widx in ((1 << w) - 1, 1 + rng.below((1 << w) - 1)) if full else (1 + rng.below((1 << w) - 1),):
                k = 0
                for r_ in range(w):
                    if (widx >> r_) & 1:
                        k |= 1 << (j + r_ * d)
                k = cap(k)
                if k:
                    out.append(("comb-col-w%d" % w, k))
        # the same column value in every column: accumulator keeps meeting table entries
        for widx in ((1, (1 << w) - 2, 1 + rng.below((1 << w) - 1)) if full else (1 + rng.below((1 << w) - 1),)):
            k = 0
            for r_ in range(w):
                if (widx >> r_) & 1:
                    k |= ((1 << d) - 1) << (r_ * d)
            k = cap(k)
            if k:
                out.append(("comb-rep-w%d" % w, k))
    for w in (1, 2, 4, 8):
        nw = -(-m // w)
        pos = sorted({0, 1, nw - 1, (64 // w) - 1, 64 // w, rng.below(nw)}) if full else sorted({rng.below(nw), nw - 1})
        for j in pos:
            if j < 0 or j >= nw:
                continue
            for v in (((1 << w) - 1, 1) if full else (1 + rng.below((1 << w) - 1),)):
                k = cap(v << (j * w))
                if k:
                    out.append(("slwin-one-w%d" % w, k))
        v = 1 + rng.below((1 << w) - 1)
        k = 0
        for j in range(nw):
            k |= v << (j * w)
        out.append(("slwin-rep-w%d" % w, cap(k)))
    return out


def gen_builtin(job):
    idx, tier, seed = job
    c = ec.curve_list()[idx]
    rng = Rng(seed, PROP, "builtin", idx)
    n, m = c.n, c.bits
    nb = nbytes(m)
    cspec = pk_curve_builtin(idx)
    full = tier == "thorough"
    G = c.G
    cache = {}

    def kG(k):
        k %= n
        if k not in cache:
            cache[k] = ec.mul(c, k, G)
        return cache[k]

    def rpt():
        return kG(2 + rng.below(n - 3))

    def rep(P, stale=None):
        """operand representation (inf, x, y); infinity carries stale coordinates"""
        if P is None:
            if stale is None:
                return (1, 0, 0)
            return (1, stale[0], stale[1])
        return (0, P[0], P[1])

    def expo(P):
        return (1, 0, 0) if P is None else (0, P[0], P[1])

    cases = []
    O = None

    def emit(op, alias, A, B, k1, k2, exp, rel, scl, pri=PRI_CORE):
        body = pk_body(cspec, nb, alias, A, B, k1, k2)
        if op in CHEAP_OPS:
            pri = PRI_CHEAP
        cases.append((op, body, exp, (rel + RES_NAME[alias & 6], scl), pri, 0, case_flags(op, k1, k2, m, alias)))

    # ---- add / sub / doubling --------------------------------------------------
    P, Q, S = rpt(), rpt(), rpt()
    pairs = [("P,Q", P, Q, 0), ("P,Q", Q, S, 0), ("P,P-same-object", P, P, 1), ("P,P-copy", Q, Q, 0),
             ("P,-P", P, ec.neg(c, P), 0), ("P,O", P, O, 0), ("O,P", O, Q, 0), ("O,O", O, O, 0),
             ("O,O-same-object", O, O, 1), ("G,G-copy", G, G, 0), ("P,2P", S, ec.dbl(c, S), 0),
             ("G,-G", G, ec.neg(c, G), 0)]
    for rel, A, B, al in pairs:
        stA = S if rng.chance(1, 2) else None
        stB = Q if rng.chance(1, 2) else None
        ra, rb = rep(A, stA), rep(B, stB)
        if al:
            rb = ra
        emit(OP_ADD, al, ra, rb, 0, 0, expo(ec.add(c, A, B)), rel, "-")
        emit(OP_SUB, al, ra, rb, 0, 0, expo(ec.sub(c, A, B)), rel, "-")
    for A in (P, O, G):
        emit(OP_RT, 0, rep(A, S), rep(O), 0, 0, expo(A), "P" if A else "O", "-")
        emit(OP_CHK, 0, rep(A if A else S), rep(O), 0, 0, ("rc0",), "on-curve", "-")
    bad = (P[0], (P[1] + 1) % c.p)
    emit(OP_CHK, 0, rep(bad), rep(O), 0, 0, ("rcnz",), "off-curve", "-")

    # ---- scalars ---------------------------------------------------------------
    sc = []
    for k in (0, 1, 2, 3, 4, n - 2, n - 1, n, n + 1, (n - 1) // 2, (n + 1) // 2):
        sc.append(("special", k))
    marks = sorted({i for i in (1, 7, 8, 15, 16, 31, 32, 63, 64, 127, 128, m - 2, m - 1, n.bit_length() - 1) if 0 < i < max(m, n.bit_length())})
    for i in marks:
        sc.append(("pow2", 1 << i))
        if full or rng.chance(1, 2):
            sc.append(("pow2-1", (1 << i) - 1))
            sc.append(("pow2+1", (1 << i) + 1))
    sc.append(("all-ones", (1 << m) - 1))
    sc.append(("all-ones", (1 << (n.bit_length() - 1)) - 1))
    sc.append(("alt", int("55" * nb, 16) & ((1 << m) - 1)))
    sc.append(("alt", int("aa" * nb, 16) & ((1 << m) - 1)))
    lens = sorted({2 + rng.below(m - 1) for _ in range(10)} | {m, m - 1})
    for L in lens:
        sc.append(("rand-len", (1 << (L - 1)) | rng.bits(L - 1) if L > 1 else 1))
    for _ in range(3):
        sc.append(("rand<n", 1 + rng.below(n - 1)))
    sc += _structured_scalars(rng, m, n, tier)
    seen = set()
    for i, (tag, k) in enumerate(sc):
        if k in seen:
            continue
        seen.add(k)
        scl = tag if tag.startswith(("comb", "slwin")) else sclass(k, n, m)
        pri = PRI_CORE if tag in ("special", "all-ones") or (tag == "pow2" and k.bit_length() in (m, m - 1)) else PRI_EXT
        emit(OP_BP, 0, rep(O), rep(O), k, 0, expo(kG(k)), "G", scl, pri)
        if full or i % 2 == 0 or tag == "special":
            A = P if i % 3 else Q
            emit(OP_UNK, 0, rep(A), rep(O), k, 0, expo(ec.mul(c, k % n, A)), "P", scl, pri)
    for k in (0, 1, 2, n, 5):
        emit(OP_UNK, 0, rep(O, S if k & 1 else None), rep(O), k, 0, expo(None), "O", sclass(k, n, m),
             PRI_CORE if k in (0, n) else PRI_EXT)
    emit(OP_UNK, 0, rep(G), rep(O), n - 1, 0, expo(ec.neg(c, G)), "G-copy", "n-1")
    if full:
        # a random scalar of every bit length <= m (lowest priority: configurations with budget left
        # take a seeded subset each, the union over configurations covers every length many times)
        for L in range(1, m + 1):
            k = (1 << (L - 1)) | (rng.bits(L - 1) if L > 1 else 0)
            emit(OP_BP, 0, rep(O), rep(O), k, 0, expo(kG(k)), "G", "len-sweep", PRI_SWEEP)
            if L % 4 == 1:
                emit(OP_UNK, 0, rep(P), rep(O), k, 0, expo(ec.mul(c, k % n, P)), "P", "len-sweep", PRI_SWEEP)

    # ---- twin multiplication ---------------------------------------------------
    def rk():
        return 1 + rng.below(n - 1)

    k = rk()
    spairs = [(rk(), rk()), (k, n - k), (0, rk()), (rk(), 0), (1, 1), (k, k), (n - 1, 1), (n, n - 1), (0, 0),
              ((1 << (m - 1)) - 1, (1 << (m - 1)) + 1), (int("55" * nb, 16) % n, int("aa" * nb, 16) % n),
              (k, k + 1), (3, 5), ((1 << m) - 1, 1 + rng.below(7)), (rk() >> (m // 2), rk()), (2, n - 2)]
    rels = [("A,B", P, Q, 0), ("A==B-same-object", P, P, 1), ("A==B-copy", Q, Q, 0), ("A==-B", P, ec.neg(c, P), 0),
            ("B==O", P, O, 0), ("A==O", O, Q, 0), ("A==G", G, Q, 0), ("O,O", O, O, 0), ("A==2B", ec.dbl(c, S), S, 0)]
    per = len(spairs) if full else 4
    for ri, (rel, A, B, al) in enumerate(rels):
        for j in range(per):
            k1, k2 = spairs[(ri * 3 + j) % len(spairs)] if not full else spairs[j]
            ra, rb = rep(A, S), rep(B, Q)
            if al:
                rb = ra
            e = ec.add(c, ec.mul(c, k1 % n, A), ec.mul(c, k2 % n, B))
            # the result object rotates: separate / first point operand / second point operand
            sel = (RES_SEP, RES_FIRST, RES_SECOND)[(ri + j) % 3]
            emit(OP_TWIN, al | sel, ra, rb, k1, k2, expo(e), rel, sclass(k1, n, m) + "|" + sclass(k2, n, m),
                 PRI_CORE if j < 2 else PRI_EXT)
    for ri, (rel, B) in enumerate([("B", P), ("B==G", G), ("B==-G", ec.neg(c, G)), ("B==O", O), ("B==2G", kG(2))]):
        for j in range(per if full else 3):
            k1, k2 = spairs[(ri * 5 + j) % len(spairs)] if not full else spairs[j]
            e = ec.add(c, kG(k1), ec.mul(c, k2 % n, B))
            sel = RES_SECOND if (ri + j) % 2 == 0 else RES_SEP      # in place: Q = d*G + e*Q
            emit(OP_TWINBP, sel, rep(O), rep(B, S), k1, k2, expo(e), rel, sclass(k1, n, m) + "|" + sclass(k2, n, m),
                 PRI_CORE if j < 2 else PRI_EXT)
    for _, _, e, _, _, _, _ in cases:
        if e[0] == 0 and not ec.on_curve(c, (e[1], e[2])):
            raise common.Inconclusive("oracle produced an off-curve point on %s" % c.name)
    return {"kind": "builtin", "name": c.name, "bits": m, "n_bits": n.bit_length(), "m": m, "cases": cases,
            "desc": None}


# ---------------------------------------------------------------------------
# synthetic small curves (whole group enumerated)
# ---------------------------------------------------------------------------
def _primes(lo, hi):
    return [q for q in range(lo, hi + 1) if q > 1 and all(q % d for d in range(2, int(q ** 0.5) + 1))]


def _factor(n):
    f = []
    d = 2
    while d * d <= n:
        while n % d == 0:
            f.append(d)
            n //= d
        d += 1
    if n > 1:
        f.append(n)
    return f


def _curve_stats(p, a, b, qr):
    """(#E, number of x with y == 0, has point with x == 0)"""
    N = 1
    roots = 0
    for x in range(p):
        r = (x * x * x + a * x + b) % p
        if r == 0:
            N += 1
            roots += 1
        elif qr[r]:
            N += 2
    return N, roots, bool(qr[b % p]) or b % p == 0


def find_synthetic(tier):
    """Deterministic brute-force choice of tiny curves by category.  Returns list of
    (tag, p, a, b, flags)."""
    want = [
        # tag, primes to try, a selector, predicate on (N, roots, factor list)
        ("prime-order", lambda p: (1, 2, 5), lambda N, r, f: len(f) == 1, 0),
        ("a=0,prime-order", lambda p: (0,), lambda N, r, f: len(f) == 1, 0),
        ("a=p-3+A_M3,prime-order", lambda p: (p - 3,), lambda N, r, f: len(f) == 1, ec.FLAG_A_M3),
        ("a=p-3,no-flag,prime-order", lambda p: (p - 3,), lambda N, r, f: len(f) == 1, 0),
        ("cofactor2,y=0", lambda p: (1, 2, 5), lambda N, r, f: N % 2 == 0 and len(f) == 2 and f[0] == 2 and f[1] > 2, 0),
        ("cofactor4-cyclic,y=0", lambda p: (1, 2, 3, 5), lambda N, r, f: r == 1 and len(f) == 3 and f[:2] == [2, 2] and f[2] > 2, 0),
        ("cofactor4-full-2-torsion", lambda p: (1, 2, 3, 5, 6), lambda N, r, f: r == 3 and len(f) == 3 and f[:2] == [2, 2] and f[2] > 2, 0),
        ("a=p-3+A_M3,cofactor2", lambda p: (p - 3,), lambda N, r, f: r >= 1 and len(f) == 2 and f[0] == 2 and f[1] > 2, ec.FLAG_A_M3),
        ("a=p-3+A_M3,cofactor4", lambda p: (p - 3,), lambda N, r, f: r >= 1 and len(f) == 3 and f[:2] == [2, 2] and f[2] > 2, ec.FLAG_A_M3),
        ("b=0,(0,0)-has-order-2", lambda p: (1, 2, 3), None, 0),
        ("a=0,cofactor", lambda p: (0,), lambda N, r, f: r >= 1 and f[-1] > 3 and len(f) <= 3, 0),
    ]
    if tier == "quick":
        plist_small = _primes(23, 47)
        plist_8bit = [131]
        nbig = 1
    else:
        plist_small = _primes(23, 67)
        plist_8bit = [97, 101, 103, 131, 139, 251]
        nbig = 6
    chosen = []
    used = set()

    def search(plist, cats, limit_per_cat=1):
        for tag, asel, pred, flags in cats:
            got = 0
            for p in plist:
                qr = [0] * p
                for y in range(1, p):
                    qr[y * y % p] = 1
                for a in asel(p):
                    brange = (0,) if tag.startswith("b=0") else range(1, p)
                    for b in brange:
                        if (4 * a ** 3 + 27 * b * b) % p == 0 or (p, a % p, b, flags) in used:
                            continue
                        N, roots, _ = _curve_stats(p, a % p, b, qr)
                        f = _factor(N)
                        if pred is None:
                            ok = f[-1] > 3
                        else:
                            ok = pred(N, roots, f)
                        if ok:
                            used.add((p, a % p, b, flags))
                            chosen.append((tag, p, a % p, b, flags))
                            got += 1
                            break
                    if got >= limit_per_cat:
                        break
                if got >= limit_per_cat:
                    break

    # quick: eight small categories (prime order, a=0, a=p-3 with and without the flag, cofactor 2 and 4
    # with y=0 points, A_M3 with cofactor, b=0 with the point (0,0)); thorough: all eleven
    search(plist_small, want if tier == "thorough" else [w_ for w_ in want if w_[0] not in (
        "cofactor4-full-2-torsion", "a=p-3+A_M3,cofactor4", "a=0,cofactor")])
    if tier == "thorough":
        search(list(reversed(plist_small)), want[:9])
    # 8-bit primes: the natural curve size equals one 8-bit digit (comb path without fallback)
    big = [want[1], want[2], want[5], want[6], want[4], want[0]][:max(nbig, 1)] if tier == "thorough" else [want[5]]
    for i, cat in enumerate(big):
        search(plist_8bit[i % len(plist_8bit):] + plist_8bit[:i % len(plist_8bit)], [cat])
    return chosen


def gen_syn(job):
    (tag, p, a, b, flags), tier, seed, sid = job
    rng = Rng(seed, PROP, "syn", p, a, b, flags)
    base = ec.synthetic(p, a, b, (0, 0), 1, 1, flags)
    pts = ec.all_points(base)
    N = len(pts)
    f = _factor(N)
    n = f[-1]
    h = N // n
    index = {P: i for i, P in enumerate(pts)}
    G = None
    for P in pts[1:]:
        Q = ec.mul(base, h, P)
        if Q is not None and ec.mul(base, n, Q) is None:
            G = Q
            break
    if G is None:
        raise common.Inconclusive("no generator found for synthetic curve")
    c = ec.synthetic(p, a, b, G, n, h, flags, name="syn[%s]p=%d,a=%d,b=%d,#E=%d,n=%d,h=%d%s" % (
        tag, p, a, b, N, n, h, ",A_M3" if flags else ""))
    m0 = p.bit_length()
    addt = [[index[ec.add(c, P, Q)] for Q in pts] for P in pts]
    negt = [index[ec.neg(c, P)] for P in pts]
    gi = index[G]
    # multiples: mult[i][k] for k in 0..N+1
    kmax = N + 1
    mult = []
    for i in range(N):
        row = [0]
        for k in range(1, kmax + 1):
            row.append(addt[row[-1]][i])
        mult.append(row)

    def mul_idx(i, k):
        return mult[i][k % N] if k > kmax else mult[i][k]

    def rep(i, stale_i=0):
        P = pts[i]
        if P is None:
            S = pts[stale_i] if stale_i else None
            return (1, S[0], S[1]) if S else (1, 0, 0)
        return (0, P[0], P[1])

    def expo(i):
        P = pts[i]
        return (1, 0, 0) if P is None else (0, P[0], P[1])

    cases = []
    pads = [m0, 8, 16, 32, 64, 128]       # each configuration runs m0 and the one equal to its digit width
    pads = [m for i, m in enumerate(pads) if m >= m0 and m not in pads[:i]]
    specs = {m: pk_curve_syn(c, m) for m in pads}

    def emit(op, m, alias, A, B, k1, k2, exp, rel, scl):
        body = pk_body(specs[m], nbytes(m), alias, A, B, k1, k2)
        cases.append((op, body, exp, (rel + RES_NAME[alias & 6], scl + ("" if m == m0 else "@m>|p|")), PRI_CHEAP, m,
                      case_flags(op, k1, k2, m, alias)))

    def relclass(i, j):
        if i == 0 and j == 0:
            return "O,O"
        if i == 0:
            return "O,P"
        if j == 0:
            return "P,O"
        if i == j:
            return "P,P-copy" + (",y=0" if pts[i][1] == 0 else "")
        if negt[i] == j:
            return "P,-P"
        x = ",x=0" if (pts[i][0] == 0 or pts[j][0] == 0) else ""
        y = ",y=0" if (pts[i][1] == 0 or pts[j][1] == 0) else ""
        return "P,Q" + x + y

    # every ordered pair: add and sub, distinct objects; every point: same object (doubling, P-P)
    for i in range(N):
        for j in range(N):
            rel = relclass(i, j)
            A, B = rep(i, (i + j) % N if (i + j) % 2 else 0), rep(j, (i * 3 + j) % N if j % 2 else 0)
            emit(OP_ADD, m0, 0, A, B, 0, 0, expo(addt[i][j]), rel, "-")
            emit(OP_SUB, m0, 0, A, B, 0, 0, expo(addt[i][negt[j]]), rel, "-")
        A = rep(i, (i + 1) % N)
        rel = "O,O-same-object" if i == 0 else ("P,P-same-object" + (",y=0" if pts[i][1] == 0 else ""))
        emit(OP_ADD, m0, 1, A, A, 0, 0, expo(addt[i][i]), rel, "-")
        emit(OP_SUB, m0, 1, A, A, 0, 0, expo(0), rel, "-")
        emit(OP_RT, m0, 0, A, rep(0), 0, 0, expo(i), "P" if i else "O", "-")
        if i:
            emit(OP_CHK, m0, 0, A, rep(0), 0, 0, ("rc0",), "on-curve", "-")
            bad = (pts[i][0], (pts[i][1] + 1) % p)
            if bad not in index:
                emit(OP_CHK, m0, 0, (0, bad[0], bad[1]), rep(0), 0, 0, ("rcnz",), "off-curve", "-")

    def scl(k, m):
        if k <= 3:
            return "k=%d" % k
        if k in (n - 1, n, n + 1, N, N + 1, N - 1):
            return "k~order"
        return "k" + (">m" if k.bit_length() > m else "")

    # every (point, k), 0 <= k <= #E+1, for the natural m and each padded m; the stated domain is
    # "k <= n, bit length <= curve size", so beyond n+1 only scalars that fit the declared m are used
    def in_domain(k, m):
        return k <= n + 1 or k.bit_length() <= m

    for m in pads:
        for i in range(N):
            for k in range(0, kmax + 1):
                if not in_domain(k, m):
                    continue
                emit(OP_UNK, m, 0, rep(i, (i + k) % N if k % 2 else 0), rep(0), k, 0, expo(mult[i][k]),
                     "O" if i == 0 else ("P" + (",y=0" if pts[i][1] == 0 else "")), scl(k, m))
        for k in range(0, kmax + 1):
            if not in_domain(k, m):
                continue
            emit(OP_BP, m, 0, rep(0), rep(0), k, 0, expo(mult[gi][k]), "G", scl(k, m))
        if m > m0:
            # scalars that use the whole declared width (table entries beyond the first few)
            for t in range(48 if tier == "quick" else 160):
                L = 1 + rng.below(m)
                k = (1 << (L - 1)) | (rng.bits(L - 1) if L > 1 else 0)
                emit(OP_BP, m, 0, rep(0), rep(0), k, 0, expo(mul_idx(gi, k)), "G", "wide")
                i = rng.below(N)
                emit(OP_UNK, m, 0, rep(i, 1), rep(0), k, 0, expo(mul_idx(i, k)), "O" if i == 0 else "P", "wide")

    # twin multiplication: every A with B in a set of relations x scalar grid
    grid = []
    for k in ((0, 1, 2, n - 1, n) if tier == "quick" else ((0, 1, 2, n - 1, n, n + 1) if p > 60 else
                                                           (0, 1, 2, 3, n - 1, n, n + 1, N, (n + 1) // 2, 5))):
        if k not in grid and 0 <= k <= kmax:
            grid.append(k)
    for m in pads:
        sub = (m != m0)
        for i in range(N):
            rels = [("A==B-same-object", i, 1), ("A==B-copy", i, 0), ("A==-B", negt[i], 0), ("B==O", 0, 0),
                    ("B==G", gi, 0), ("A,B", (i * 7 + 3) % N, 0), ("A,B", (i * 11 + 5) % N, 0)]
            for ri, (rel, j, al) in enumerate(rels):
                if i == 0:
                    rel = "A==O"
                for k1 in grid:
                    for k2 in grid:
                        if sub and (i + ri + k1 + 3 * k2) % 8:
                            continue
                        if not (in_domain(k1, m) and in_domain(k2, m)):
                            continue
                        A, B = rep(i, 1), rep(j, (j + 2) % N)
                        if al:
                            B = A
                        e = addt[mult[i][k1]][mult[j][k2]]
                        # result object rotates over the grid: separate (half), first operand, second operand
                        sel = (RES_SEP, RES_FIRST, RES_SEP, RES_SECOND)[(i + ri + grid.index(k1) + 2 * grid.index(k2)) % 4]
                        emit(OP_TWIN, m, al | sel, A, B, k1, k2, expo(e), rel, scl(k1, m) + "|" + scl(k2, m))
            for k1 in grid:
                for k2 in grid:
                    if sub and (i + k1 + 3 * k2) % 4:
                        continue
                    if not (in_domain(k1, m) and in_domain(k2, m)):
                        continue
                    e = addt[mult[gi][k1]][mult[i][k2]]
                    rel = "B==O" if i == 0 else ("B==G" if i == gi else ("B==-G" if i == negt[gi] else "B"))
                    sel = RES_SECOND if (i + grid.index(k1) + grid.index(k2)) % 2 else RES_SEP
                    emit(OP_TWINBP, m, sel, rep(0), rep(i, 2 % N), k1, k2, expo(e), rel, scl(k1, m) + "|" + scl(k2, m))
        if m > m0:
            for t in range(32 if tier == "quick" else 96):
                L1, L2 = 1 + rng.below(m), 1 + rng.below(m)
                k1 = (1 << (L1 - 1)) | (rng.bits(L1 - 1) if L1 > 1 else 0)
                k2 = (1 << (L2 - 1)) | (rng.bits(L2 - 1) if L2 > 1 else 0)
                i, j = rng.below(N), rng.below(N)
                e = addt[mul_idx(i, k1)][mul_idx(j, k2)]
                emit(OP_TWIN, m, (RES_SEP, RES_FIRST, RES_SECOND)[t % 3], rep(i, 1), rep(j, 1), k1, k2, expo(e), "A,B", "wide|wide")
                e = addt[mul_idx(gi, k1)][mul_idx(j, k2)]
                emit(OP_TWINBP, m, RES_SECOND if t % 2 else RES_SEP, rep(0), rep(j, 1), k1, k2, expo(e), "B", "wide|wide")
    desc = {"curve": c.name, "p": p, "a": a, "b": b, "flags": flags, "group_order": N, "n": n, "h": h,
            "G": list(G), "points_with_y=0": sum(1 for P in pts[1:] if P[1] == 0),
            "points_with_x=0": sum(1 for P in pts[1:] if P[0] == 0), "declared_m": pads,
            "enumerated": "every ordered pair (P,Q) incl. infinity for add and sub (%d pairs each), every point as "
                          "same-object operand, every (P,k) with 0<=k<=#E+1 (k<=n+1 or bitlen(k)<=m) for unknown-point mult for each declared m, "
                          "every k in that range for base-point mult, twin mult (result object rotating over separate / first operand / second operand, bp form also in place) for every A x 7 operand relations x "
                          "%dx%d scalar grid (natural m)" % (N * N, len(grid), len(grid))}
    return {"kind": "syn", "name": c.name, "bits": m0, "n_bits": n.bit_length(), "m": m0, "cases": cases, "desc": desc,
            "big": p > 60, "sid": sid}


# ---------------------------------------------------------------------------
# running and judging
# ---------------------------------------------------------------------------
_GROUPS = []
_CFGS = []
_EXES = {}
_INFOS = {}
_TIER = "quick"


def _payload(case, junk):
    return bytes((case[0], junk)) + case[1]


def _mkey(monitor, op, kind, fam, extra=""):
    return "%s:%s:%s:%s%s" % (monitor, ENTRY[op], kind, fam, extra)


def _witness(cfg, info, san, case, group, junk, observed, note=None, report=None):
    d = decode_body(case[1])
    w = {"config": cfg["name"], "defs": cfg["defs"], "effective": info.as_dict(), "build": san,
         "op": case[0], "entry": ENTRY[case[0]], "curve_name": group["name"], "junk": junk,
         "payload_hex": _payload(case, junk).hex(), "operands": d,
         "expected": _fmt_exp(case[2]), "observed": observed, "class": list(case[3]), "seed": common.seed()}
    if note:
        w["note"] = note
    if report:
        w["sanitizer_report"] = report[-3500:]
    return w


def _fmt_exp(exp):
    if exp[0] in ("rc0", "rcnz"):
        return {"rc": "0" if exp[0] == "rc0" else "non-zero"}
    if exp[0]:
        return {"rc": 0, "infinity": 1}
    return {"rc": 0, "infinity": 0, "x": hex(exp[1]), "y": hex(exp[2])}


def _fmt_obs(o):
    if isinstance(o, Crash):
        return {"crash": o.kind, "returncode": o.returncode}
    d = {"rc_curve": o["rc_curve"], "rc_prep": o["rc_prep"], "rc": o["rc"]}
    if o["point"] is None:
        d["infinity"] = 1
    elif o["point"] != "none":
        d["infinity"] = 0
        d["x"], d["y"] = hex(o["point"][0]), hex(o["point"][1])
    return d


def _extra_marks(case, group, info):
    """Key suffixes that keep distinct root causes apart.  They are emitted only where the algorithm on
    the entry point's path is sensitive to them: a table of precomputed doubles has one entry per curve
    bit (scalars longer than m bits), the joint-sparse-form recoding reads the low digit of both scalars
    (zero scalars); a twin multiplication whose result object is one of its point operands is marked
    because an implementation that writes `res` before it has read the operands fails only then.
    Everything else about the case is in the witness, not in the key."""
    op = case[0]
    s = ""
    pre = "BIN_PRECALC_DBL"
    uses_pre = ((op == OP_BP and info.fxp == pre) or (op == OP_UNK and info.unk == pre) or
                (op == OP_TWINBP and info.twin == "FXP_UNKPT" and pre in (info.fxp, info.unk)))
    if uses_pre and case[6] & F_KBITS_GT_M:
        s += ",kbits>m"
    if op in (OP_TWIN, OP_TWINBP) and info.twin == "JOINT" and case[6] & F_ZERO_SCALAR:
        s += ",zero-scalar"
    if case[6] & F_RES_ALIAS:
        s += ",res-aliases-operand"
    return s


def judge(part, cfg, info, san, case, group, junk, obs):
    """Compare one observation with the oracle.  Returns True when it is right."""
    op, body, exp, cls = case[:4]
    fam = info.family(op)
    if isinstance(obs, Crash):
        return False
    o = parse_obs(obs)
    if o["rc_curve"] != 0:
        key = "oracle:ecdsa_curve_from_str:rc-nonzero:%s,fxp=%s" % (info.coord, info.fxp)
        part["violations"].append((key, _witness(cfg, info, san, case, group, junk, _fmt_obs(o),
                                                 "built-in / synthetic curve could not be loaded")))
        return False
    if o["rc_prep"] != 0:
        part["inconclusive"].append("driver could not import operands rc=%s (%s, %s)" % (o["rc_prep"], cfg["name"], group["name"]))
        return False
    if exp[0] in ("rc0", "rcnz"):
        good = (o["rc"] == 0) == (exp[0] == "rc0")
        if not good:
            part["violations"].append((_mkey("oracle", op, "wrong-verdict", "any"),
                                       _witness(cfg, info, san, case, group, junk, _fmt_obs(o))))
        return good
    if o["rc"] != 0:
        key = _mkey("oracle", op, "rc-nonzero", fam, _extra_marks(case, group, info))
        part["violations"].append((key, _witness(cfg, info, san, case, group, junk, _fmt_obs(o),
                                                 "operands in domain but the entry point refused (rc=%d)" % o["rc"])))
        return False
    want = exp_obs_point(exp)
    if o["point"] == want:
        return True
    note = None
    if o["point"] not in (None, "none"):
        note = "observed point is finite"
    key = _mkey("oracle", op, "wrong-point", fam, _extra_marks(case, group, info))
    part["violations"].append((key, _witness(cfg, info, san, case, group, junk, _fmt_obs(o), note)))
    return False


def _digit_factor(info):
    f = {8: (8.0, 14.0), 16: (3.0, 4.5), 32: (1.5, 1.8), 64: (1.0, 1.2), 128: (1.0, 1.0)}[info.digit_bits]
    f = f[0] if info.mulldiv else f[1]
    if info.proj and info.digit_bits == 8:
        f *= 2.5
    return f


def unit_ms(info, bits):
    """crude plain-build cost of one scalar multiplication (calibrated once on this code base)"""
    return (1.0 if info.proj else 5.5) * _digit_factor(info) * (bits / 256.0) ** 3


def load_ms(info, bits):
    w = info.fxpw
    ops = {"BIN": 0, "BIN_PRECALC_DBL": bits, "SLIDING_WIN": 1 << w, "COMB_1T": (1 << w) + bits,
           "COMB_2T": (1 << w) + bits + (1 << w) * bits / (2.0 * w)}[info.fxp]
    return ops * unit_ms(info, bits) / (1.5 * bits) * (8.0 if info.proj else 4.0)


def _h32(i, cfg_i):
    x = (i * 2654435761 + cfg_i * 0x9E3779B1 + common.seed() * 0x85EBCA6B + 0x27D4EB2F) & 0xFFFFFFFF
    x ^= x >> 15
    x = (x * 0x2C1B3C6D) & 0xFFFFFFFF
    x ^= x >> 12
    return x


def select_cases(g, info, cfg_i):
    """Which of the generated cases of a group run in this configuration (pure function of seed,
    configuration and curve; no clock).  Returns (cases, note)."""
    tier = _TIER
    if g["kind"] == "syn":
        if g["big"]:
            natural8 = info.digit_bits == 8 and g["m"] == 8
            turn = tier == "thorough" and (cfg_i + g["sid"]) % 6 == 0
            if not (natural8 or turn):
                return [], None
        elif tier == "thorough" and (cfg_i + g["sid"]) % 3:
            return [], None         # small groups: every third configuration (about 60 configurations each)
        elif tier == "quick" and (cfg_i + g["sid"]) % 3 == 0:
            return [], None         # quick: each small group is enumerated in two thirds of the configurations
        pad = info.digit_bits if info.digit_bits > g["m"] else g["m"]
        return [cs for cs in g["cases"] if cs[5] == g["m"] or cs[5] == pad], None
    bits = g["bits"]
    lm = load_ms(info, bits)
    if lm > LOAD_LIMIT_MS[tier]:
        return [], "table precomputation for %s estimated too slow in this configuration" % g["name"]
    unit = unit_ms(info, bits)
    cases = g["cases"]
    order = sorted(range(len(cases)), key=lambda i: (cases[i][4], _h32(i, cfg_i)))
    spent = 0.0
    nm = 0
    keep = []
    for i in order:
        cs = cases[i]
        if cs[4] == PRI_CHEAP:
            keep.append(i)
            continue
        wgt = unit * (2.0 if cs[0] in (OP_TWIN, OP_TWINBP) else 1.0)
        if nm >= MIN_MULT_CASES and spent + wgt > BUDGET_MS[tier]:
            if cs[4] >= PRI_EXT:
                break
            continue
        keep.append(i)
        spent += wgt
        nm += 1
    keep.sort()
    return [cases[i] for i in keep], None


def _run_filtered(exe, cases, junk, dead, counts, part, tag, info=None, group=None):
    """Like common.run_cases (same protocol, same crash attribution) but cases with the same (entry point,
    key marks) are no longer fed after CRASH_LIMIT crashes in this job (= one curve in one configuration)
    and build: every crash restarts the driver, which reloads the curve and its
    precomputed table.  Returns a list aligned with cases (None = not run)."""
    import subprocess
    res = [None] * len(cases)
    def ck_of(cs):
        return (cs[0], _extra_marks(cs, group, info))

    todo = [i for i, cs in enumerate(cases) if ck_of(cs) not in dead] if dead else list(range(len(cases)))
    env = common.run_env()
    while todo:
        data = b"".join(common.pack_case(_payload(cases[i], junk)) for i in todo)
        try:
            p = subprocess.run([exe], input=data, stdout=subprocess.PIPE, stderr=subprocess.PIPE, env=env, timeout=3600)
            rc, out, err = p.returncode, p.stdout, p.stderr
        except subprocess.TimeoutExpired as e:
            rc, out, err = 97, e.stdout or b"", (e.stderr or b"") + b"\nVERIF-HANG wall watchdog"
        obs = common._parse_obs(out)
        for i, o in zip(todo, obs):
            res[i] = o
        if len(obs) >= len(todo):
            break
        ci = todo[len(obs)]
        text = err.decode("utf-8", "replace")
        res[ci] = Crash(common.classify_crash(rc, text), text[-6000:], rc)
        ck = ck_of(cases[ci])
        counts[ck] = counts.get(ck, 0) + 1
        if counts[ck] >= CRASH_LIMIT:
            dead.add(ck)
        todo = [i for i in todo[len(obs) + 1:] if ck_of(cases[i]) not in dead]
    skipped = sum(1 for r_ in res if r_ is None)
    if skipped:
        common.part_count(part, "cases_not_fed_after_repeated_crash:" + tag, skipped)
    return res


def run_job(job):
    cfg_i, gids = job
    cfg = _CFGS[cfg_i]
    info = _INFOS[cfg["name"]]
    exes = _EXES[cfg["name"]]
    part = common.new_part()
    dead = {"asu": set(), "plain": set(), "plainB": set(), "msan": set()}
    counts = {"asu": {}, "plain": {}, "plainB": {}, "msan": {}}
    for gid in gids:
        g = _GROUPS[gid]
        v0 = len(part["violations"])
        cases, note = select_cases(g, info, cfg_i)
        common.part_count(part, "cases_generated", len(g["cases"]))
        common.part_count(part, "cases_selected", len(cases))
        if note:
            part["counters"]["skip:" + note] = part["counters"].get("skip:" + note, 0) + 1
        if not cases:
            continue
        kind = g["kind"]
        r1 = _run_filtered(exes["plain"], cases, JUNK_A, dead["plain"], counts["plain"], part, "plain", info, g)
        r2 = _run_filtered(exes["plain"], cases, JUNK_B, dead["plainB"], counts["plainB"], part, "plain", info, g)
        ra = _run_filtered(exes["asu"], cases, JUNK_A, dead["asu"], counts["asu"], part, "asu", info, g) if "asu" in exes else [None] * len(cases)
        rm = _run_filtered(exes["msan"], cases, JUNK_A, dead["msan"], counts["msan"], part, "msan", info, g) if "msan" in exes else [None] * len(cases)
        for ci, cs in enumerate(cases):
            op = cs[0]
            fam = info.family(op)
            a, b = r1[ci], r2[ci]
            if a is None and b is None:
                continue
            part["evaluations"] += 1
            common.part_count(part, "op:" + ENTRY[op])
            part["classes"].add((ENTRY[op], fam, kind, cs[3][0], cs[3][1]))
            ok = True
            for o, junk in ((a, JUNK_A), (b, JUNK_B)):
                if isinstance(o, Crash):
                    ok = False
                    key = _mkey("plain", op, o.kind + ("-sig%d" % -o.returncode if o.kind == "signal" and o.returncode else ""),
                                fam, _extra_marks(cs, g, info))
                    part["violations"].append((key, _witness(cfg, info, "plain", cs, g, junk, _fmt_obs(o),
                                                             "plain build produced no result", o.report)))
            if a is not None and b is not None and not isinstance(a, Crash) and not isinstance(b, Crash) and a != b:
                ok = False
                key = _mkey("oracle", op, "depends-on-stale-memory", fam, _extra_marks(cs, g, info))
                part["violations"].append((key, _witness(
                    cfg, info, "plain", cs, g, JUNK_A, {"junk_0xa5": _fmt_obs(parse_obs(a)), "junk_0x3c": _fmt_obs(parse_obs(b))},
                    "same case, different junk in uninitialised curve/operand/stack memory, different observation")))
            first = a if a is not None else b
            if first is not None and not isinstance(first, Crash):
                ok = judge(part, cfg, info, "plain", cs, g, JUNK_A if a is not None else JUNK_B, first) and ok
                if b is not None and not isinstance(b, Crash) and b != first:
                    judge(part, cfg, info, "plain", cs, g, JUNK_B, b)
            for san, o in (("asu", ra[ci]), ("msan", rm[ci])):
                if o is None:
                    continue
                common.part_count(part, "runs_" + san)
                if isinstance(o, Crash):
                    det = ""
                    mm = re.search(r"ERROR: AddressSanitizer: (\S+)", o.report or "")
                    if mm:
                        det = mm.group(1)
                    if o.kind == "asan" and det in OOB_KINDS:
                        key = _mkey("asan", op, det, fam, _extra_marks(cs, g, info))
                        part["violations"].append((key, _witness(
                            cfg, info, san, cs, g, JUNK_A, _fmt_obs(o),
                            "out-of-bounds access beyond an object in a selectable configuration; plain-build verdict "
                            "for the same case: %s" % ("right" if ok else "wrong/crash"), o.report)))
                    elif o.kind == "msan":
                        mk = "SEGV" if "DEADLYSIGNAL" in (o.report or "") else "use-of-uninitialized-value"
                        key = _mkey("msan", op, mk, fam, _extra_marks(cs, g, info))
                        if ok:
                            k2 = "msan:" + common.crash_key(o, ENTRY[op])
                            part["observations"][k2] = part["observations"].get(k2, 0) + 1
                        else:
                            part["violations"].append((key, _witness(cfg, info, san, cs, g, JUNK_A, _fmt_obs(o), None, o.report)))
                    elif o.kind == "hang":
                        key = _mkey(san, op, "hang", fam, _extra_marks(cs, g, info))
                        part["violations"].append((key, _witness(cfg, info, san, cs, g, JUNK_A, _fmt_obs(o), None, o.report)))
                    else:
                        k2 = common.crash_key(o, ENTRY[op])
                        part["observations"][k2] = part["observations"].get(k2, 0) + 1
                        if len(part["samples"]) < 2:
                            part["samples"].append({"sanitizer_observation": k2, "config": cfg["name"],
                                                    "curve": g["name"], "report_tail": (o.report or "")[-600:]})
                elif o != first:
                    judge(part, cfg, info, san, cs, g, JUNK_A, o)
        _confirm_isolated(part, v0, exes)
        # a couple of real cases per job for the evidence
        if len(part["samples"]) < 3 and cases:
            cs = cases[(cfg_i * 7 + gid) % len(cases)]
            part["samples"].append({"config": cfg["name"], "curve": g["name"], "entry": ENTRY[cs[0]],
                                    "class": list(cs[3]), "operands": decode_body(cs[1]), "expected": _fmt_exp(cs[2])})
    return part


def _rerun_witness(exe, w):
    """Execute the witness' case alone in a fresh driver process, once per junk pattern.
    Returns (still_bad, [(junk, formatted observation or Crash)])."""
    payload = bytes.fromhex(w["payload_hex"])
    exp = w["expected"]
    outs = []
    bad = False
    for junk in (JUNK_A, JUNK_B):
        o = common.run_cases(exe, [bytes((payload[0], junk)) + payload[2:]])[0]
        outs.append((junk, o))
        if isinstance(o, Crash):
            bad = True
            continue
        po = _fmt_obs(parse_obs(o))
        if exp.get("rc") == "non-zero":
            bad |= po["rc"] == 0
        elif exp.get("rc") == "0":
            bad |= po["rc"] != 0
        else:
            got = {k: po.get(k) for k in ("infinity", "x", "y") if k in po}
            wantd = {k: exp.get(k) for k in ("infinity", "x", "y") if k in exp}
            bad |= po["rc_curve"] != 0 or po["rc"] != 0 or got != wantd
    if not any(isinstance(o, Crash) for _, o in outs) and outs[0][1] != outs[1][1]:
        bad = True
    return bad, outs


def _confirm_isolated(part, v0, exes):
    """Plain-build alarms of this group are re-executed alone in a fresh process (what --replay does).
    A key none of whose first two witnesses reproduces alone is kept, but marked: the driver process
    carries state from earlier cases (the loaded curve and its table, or memory corrupted by an
    earlier case), so the alarm is real for the sequence but its witness is not a single case."""
    new = part["violations"][v0:]
    if not new:
        return
    bykey = {}
    for i, (key, w) in enumerate(new):
        if w.get("build") == "plain" and key.split(":", 1)[0] in ("oracle", "plain"):
            bykey.setdefault(key, []).append(i)
    rename = {}
    first = {}
    for key, idxs in bykey.items():
        ok = None
        for i in idxs[:2]:
            bad, _ = _rerun_witness(exes["plain"], new[i][1])
            if bad:
                ok = i
                break
        if ok is None:
            rename[key] = key + ",only-after-earlier-cases"
        else:
            first[key] = ok
    out = []
    for key, i in first.items():
        out.append(new[i])
    for i, (key, w) in enumerate(new):
        if first.get(key) == i:
            continue
        if key in rename:
            w = dict(w)
            w["note"] = ((w.get("note") or "") + " | not reproduced when the case runs alone in a fresh process").strip(" |")
            out.append((rename[key], w))
        else:
            out.append((key, w))
    part["violations"][v0:] = out


def _gen(job):
    return (job[0], gen_builtin(job[1]) if job[0] == "b" else gen_syn(job[1]))


def _probe(exe):
    out = common.run_cases(exe, [bytes((0, 0))])
    if not out or isinstance(out[0], Crash):
        raise common.Inconclusive("driver info op failed for %s" % exe)
    return Info(out[0])


def run(tier):
    global _GROUPS, _CFGS, _EXES, _INFOS, _TIER
    _TIER = tier
    seed = common.seed()
    report = common.Report(PROP, tier, "exploration")
    fails = ec.selftest()
    if fails:
        raise common.Inconclusive("oracle selftest failed: %s" % fails[:3])
    curves = ec.curve_list()
    cfgs = quick_configs() if tier == "quick" else thorough_configs(seed)
    only = os.environ.get("VERIF_C02_CONFIGS")      # development aid: comma separated name substrings
    if only:
        cfgs = [c for c in cfgs if any(t in c["name"] for t in only.split(","))]

    # ---- builds ------------------------------------------------------------
    specs = []
    for i, cfg in enumerate(cfgs):
        specs.append((cfg["name"] + "/plain", build_kwargs(cfg, "plain")))
        specs.append((cfg["name"] + "/asu", build_kwargs(cfg, "asu")))
        if tier == "thorough" and i % 12 == 0:
            specs.append((cfg["name"] + "/msan", build_kwargs(cfg, "msan")))
    built = common.try_builds(report, specs)
    _CFGS, _EXES, _INFOS = [], {}, {}
    cfg_notes = {}
    for cfg in cfgs:
        ex = {s: built[cfg["name"] + "/" + s] for s in ("plain", "asu", "msan") if cfg["name"] + "/" + s in built}
        if "plain" not in ex:
            continue
        info = _probe(ex["plain"])
        if info.names != [c.name for c in curves]:
            raise common.Inconclusive("curve table order differs between header parse and driver")
        if info.sizeof_curve > (1 << 28):
            cfg_notes[cfg["name"]] = "skipped: ec_curve_t is %d bytes" % info.sizeof_curve
            continue
        _EXES[cfg["name"]] = ex
        _INFOS[cfg["name"]] = info
        _CFGS.append(cfg)
    if not _CFGS:
        raise common.Inconclusive("no configuration could be built")

    # ---- workload (generated once, shared by every configuration) --------------
    gjobs = [("b", (i, tier, seed)) for i in range(len(curves))]
    syn = find_synthetic(tier)
    gjobs += [("s", (spec, tier, seed, i)) for i, spec in enumerate(syn)]
    groups = [g for _, g in common.parallel(_gen, gjobs)]
    groups.sort(key=lambda g: (g["kind"], g["name"]))
    _GROUPS = groups

    # ---- jobs: one per (configuration, curve), most expensive first ------------------
    def jcost(ci, gi):
        g = groups[gi]
        info = _INFOS[_CFGS[ci]["name"]]
        if g["kind"] == "syn":
            return len(g["cases"]) * 0.03
        return min(BUDGET_MS[tier] * 2, unit_ms(info, g["bits"]) * 60) + load_ms(info, g["bits"])
    jobs = [(ci, [gi]) for ci in range(len(_CFGS)) for gi in range(len(groups))]
    jobs.sort(key=lambda j: -jcost(j[0], j[1][0]))
    for part in common.parallel(run_job, jobs):
        report.merge(part)

    # ---- evidence ---------------------------------------------------------------
    nb = sum(len(g["cases"]) for g in groups if g["kind"] == "builtin")
    ns = sum(len(g["cases"]) for g in groups if g["kind"] == "syn")
    report.rule = (
        "cases = (curve, entry point, operand relation, scalars) generated once per seed and run in every "
        "configuration (ASan+UBSan build once, plain -O2 build twice with different junk in uninitialised memory); "
        "built-in curves: P=kG operands in relations {P,Q / same object / equal copy / P,-P / infinity either side}, "
        "twin multiplication with the result object separate, equal to the first or to the second point operand "
        "(ec_point_twin_mult_bp also in place), "
        "scalars {0..4, n-2..n+1, (n+-1)/2, 2^i, 2^i+-1 at digit boundaries, all-ones, alternating, one comb column / "
        "sliding window non-zero per position, repeated columns, random per bit length}; synthetic curves: whole group "
        "enumerated. A behaviour class is distinct when (entry point, configuration family = coordinate system + "
        "algorithm, curve kind, operand relation class, scalar class) differs; trivial duplicates collapse into one class, "
        "distinct_nontrivial counts classes, not cases.")
    report.assumptions = [
        "Python int arithmetic and the textbook affine formulas in verif/oracles/ec.py are the reference (self-tested "
        "against published P-256/secp256k1 multiples and by re-validating all 32 table entries)",
        "operands are sized EC_CURVE_CALC_BITS_DBL(curve) as ecdsa.h and ec_self_test do",
        "synthetic curves are loaded through ecdsa_curve_from_str with m >= bitlen(p) (the built-in table itself has "
        "m = bitlen(p)+1 for one entry); such cases carry '@m>|p|' in their class",
        "configurations are a covering sample of the macro space, not the full product",
    ]
    report.extra["configurations_run"] = {c["name"]: _INFOS[c["name"]].as_dict() for c in _CFGS}
    report.extra["configurations_skipped"] = cfg_notes
    report.extra["configurations_not_selectable"] = sorted(k for k, v in report.builds.items() if v != "ok")
    report.extra["cases_per_configuration"] = {"builtin_curves": nb, "synthetic_curves": ns}
    report.extra["curves"] = {"builtin": [c.name for c in curves],
                              "synthetic": [g["name"] for g in groups if g["kind"] == "syn"]}
    report.extra["exhaustive_subdomain"] = {
        "what": "the whole group of each synthetic curve (see list), in every configuration run",
        "curves": [g["desc"] for g in groups if g["kind"] == "syn"],
        "not_exhaustive": "built-in curves (sampled scalars/points), configuration space (covering sample)"}
    report.extra["curve_table_notes"] = ec.TABLE_NOTES + [x for c in curves for x in ec.curve_notes(c)]
    ops_seen = {k for k in report.extra if k.startswith("op:")}
    for op in (OP_ADD, OP_SUB, OP_UNK, OP_BP, OP_TWIN, OP_TWINBP):
        if "op:" + ENTRY[op] not in ops_seen:
            report.inconclusive.append("entry point %s was never evaluated" % ENTRY[op])
    if report.extra.get("runs_asu", 0) == 0:
        report.inconclusive.append("no case ran under ASan+UBSan")
    return report.finish()


# ---------------------------------------------------------------------------
# replay
# ---------------------------------------------------------------------------
def replay(path):
    with open(path) as fh:
        rec = json.load(fh)
    w = rec["witness"]
    cfg = {"name": w["config"], "defs": w["defs"]}
    san = w.get("build", "plain")
    try:
        exe = common.build(**build_kwargs(cfg, san))
    except common.BuildError as e:
        print("replay: configuration does not build: %s" % e)
        return 2
    bad, outs = _rerun_witness(exe, w)
    print("key      : %s" % rec["key"])
    print("config   : %s %s (%s build)" % (w["config"], " ".join(w["defs"]), san))
    print("entry    : %s on %s" % (w["entry"], w["curve_name"]))
    print("operands : %s" % json.dumps(w["operands"]))
    print("expected : %s" % json.dumps(w["expected"]))
    for junk, o in outs:
        if isinstance(o, Crash):
            print("observed (junk %#x): %s rc=%s\n%s" % (junk, o.kind, o.returncode, (o.report or "")[-1500:]))
        else:
            print("observed (junk %#x): %s" % (junk, json.dumps(_fmt_obs(parse_obs(o)))))
    if "only-after-earlier-cases" in rec["key"]:
        print("note: this alarm was seen only after earlier cases in the same driver process; a single-case replay is "
              "expected not to reproduce it (run the tier again to see it)")
    print("replay verdict: %s" % ("still violated" if bad else "not reproduced"))
    return 1 if bad else 0
