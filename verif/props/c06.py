"""C06 — event and timer registrations fire exactly as their flags and units say.

(1) argument oracle: what reaches timerfd_create/timerfd_settime for every (unit, value,
    ABSTIME, one-shot/dispatch/persistent) request, observed with link-time interposers;
(2) validation oracle: malformed registrations are refused and leave no trace in the
    interposed epoll_ctl/timerfd_create log, well-formed ones are installed;
(3) history oracle: random add/enable/disable/delete/make-ready/close-peer histories run
    on the owning pool thread with an online shadow-state monitor (a callback that
    contradicts the shadow state is a violation the moment it happens; expected firings
    are bounded-progress checked)."""
import json

from .. import common, tpcommon
from ..common import Rng, W, R

PROP = "C06"
EV_TFD_CREATE, EV_TFD_SETTIME, EV_EPOLL_CTL, EV_RC, EV_VIOL, EV_FIRE, EV_STEP, EV_NOTE, EV_TIMEOUT = range(1, 10)
VNAMES = {1: "fired-while-unregistered", 2: "fired-while-disabled", 3: "oneshot-fired-twice", 4: "dispatch-fired-without-reenable",
          5: "fired-without-condition", 6: "wrong-event-kind", 7: "eof-flag-missing", 8: "eof-flag-spurious", 9: "missing-callback",
          10: "callback-on-wrong-thread", 11: "well-formed-operation-refused", 12: "error-flag-spurious", 13: "proc-flags",
          14: "descriptor-leak-after-deleting-everything", 15: "error-flag-missing-on-reset", 16: "error-code-on-reset", 17: "refused-registration-left-installed"}
KIND = ["read", "write", "timer", "proc"]
TP_F_ONESHOT, TP_F_DISPATCH = 1, 2
T_SEC, T_MSEC, T_USEC, T_NSEC, T_ABS = 0, 1, 2, 3, 4
UNIT_NS = {T_SEC: 10 ** 9, T_MSEC: 10 ** 6, T_USEC: 10 ** 3, T_NSEC: 1}
UNIT_NAME = {0: "s", 1: "ms", 2: "us", 3: "ns"}
CLOCK_REALTIME, CLOCK_MONOTONIC, TFD_TIMER_ABSTIME = 0, 1, 1
H_ADD, H_ENABLE, H_DISABLE, H_DELETE, H_READY, H_CLOSE_PEER, H_SPIN, H_CHECK, H_ENABLE_NEWFLAGS, H_POISON, H_ADD_REFUSED_TIMER, H_REOPEN = range(1, 13)
HN = {1: "add", 2: "enable", 3: "disable", 4: "delete", 5: "ready", 6: "close-peer", 7: "spin", 8: "check", 9: "enable-newflags", 10: "poison", 11: "add-refused-timer", 12: "reopen-same-number"}


def build_all(report, tier):
    wraps = ["-Wl,--wrap=%s" % f for f in ("timerfd_create", "timerfd_settime", "epoll_ctl")]
    kw = dict(name="c06_ev", sources=["c06_ev.c"], flags=wraps, libs=["-lpthread"], repo_sources=tpcommon.TP_SOURCES)
    specs = [("asu", dict(kw, san="asu")), ("tsan", dict(kw, san="tsan"))]
    return common.try_builds(report, specs)


# ---------------------------------------------------------------------------
def timer_values(rng, tier):
    vals = [1, 2, 999, 1000, 1001, 999999, 1000000, 1000001, 1500000, 10 ** 9 - 1, 10 ** 9, 10 ** 9 + 1, 2 ** 32 - 1, 2 ** 32, 2 ** 32 + 1,
            123456789, 59999, 60000, 3600 * 10 ** 6 + 7, 2 ** 40 + 12345]
    for _ in range(30 if tier == "quick" else 600):
        vals.append(rng.range(1, 10 ** rng.range(1, 13)))
    return vals


def gen_args_cases(rng, tier):
    out = []
    for v in timer_values(rng, tier):
        for unit in (T_SEC, T_MSEC, T_USEC, T_NSEC):
            if unit == T_SEC and v > 2 ** 40:
                continue
            for ab in (0, T_ABS):
                for fl in (0, TP_F_ONESHOT, TP_F_DISPATCH):
                    out.append((fl, unit | ab, v))
    return out


def check_args(cases, events, part):
    viol = []
    cur = None
    recs = {}
    for e in events:
        ts, tid, kind, aux, a, b, c = e
        if kind == EV_STEP:
            cur = a
            recs[cur] = dict(create=None, settimes=[], rc=None)
        elif cur is None:
            continue
        elif kind == EV_TFD_CREATE:
            if recs[cur]["create"] is None:
                recs[cur]["create"] = (a, b, c)
        elif kind == EV_TFD_SETTIME:
            st = recs[cur]["settimes"]
            if aux < 1000:
                st.append(dict(flags=aux, value=(a, b), interval=None, err=None))
            elif aux == 1000 and st:
                st[-1]["interval"] = (a, b)
            elif aux == 2000 and st:
                st[-1]["err"] = c
        elif kind == EV_RC:
            recs[a]["rc"] = c
            cur = None
    for i, (fl, ff, v) in enumerate(cases):
        r = recs.get(i)
        unit = ff & 3
        ab = bool(ff & T_ABS)
        mode = "oneshot" if fl & TP_F_ONESHOT else "dispatch" if fl & TP_F_DISPATCH else "periodic"
        cls = (UNIT_NAME[unit], "abs" if ab else "rel", mode, "subsec" if (v * UNIT_NS[unit]) % 10 ** 9 else "whole", len(str(v)))
        part["classes"].add(("args",) + cls)
        desc = "value=%d unit=%s %s %s" % (v, UNIT_NAME[unit], "absolute" if ab else "relative", mode)
        det = ":%s" % UNIT_NAME[unit]
        if r is None or r["rc"] is None:
            viol.append(("harness:c06:no-record", desc))
            continue
        total_ns = v * UNIT_NS[unit]
        exp = (total_ns // 10 ** 9, total_ns % 10 ** 9)
        if r["rc"] != 0:
            viol.append(("wrap:tpt_ev_add:well-formed-timer-refused" + det, "%s: rc=%d, settime saw %s" % (desc, r["rc"], r["settimes"][:1])))
            continue
        if not r["settimes"]:
            viol.append(("wrap:tpt_ev_add:timer-never-programmed" + det, desc))
            continue
        st = r["settimes"][0]
        if st["value"] != exp:
            viol.append(("wrap:timerfd_settime:wrong-interval" + det, "%s: programmed it_value=%s, expected %s" % (desc, st["value"], exp)))
        if mode == "periodic":
            if not ab and st["interval"] != exp:
                viol.append(("wrap:timerfd_settime:wrong-period" + det, "%s: it_interval=%s expected %s" % (desc, st["interval"], exp)))
        elif st["interval"] != (0, 0):
            viol.append(("wrap:timerfd_settime:one-shot-programmed-periodic", "%s: it_interval=%s" % (desc, st["interval"])))
        if bool(st["flags"] & TFD_TIMER_ABSTIME) != ab:
            viol.append(("wrap:timerfd_settime:abstime-flag", "%s: flags=%d" % (desc, st["flags"])))
        if r["create"] is not None and r["create"][0] != (CLOCK_REALTIME if ab else CLOCK_MONOTONIC):
            viol.append(("wrap:timerfd_create:wrong-clock", "%s: clock=%d" % (desc, r["create"][0])))
        if st["err"]:
            viol.append(("wrap:timerfd_settime:kernel-refused" + det, "%s: errno=%d" % (desc, st["err"])))
    return viol


# ---------------------------------------------------------------------------
def gen_valid_cases(rng, tier):
    out = []
    flagsets = [0, 1, 2, 3, 4, 8, 0x10, 0x100, 0x200, 0x8000, 5, 0x11]
    for evk in (0, 1, 2, 3, 4, 7, 0xffff):
        for fl in flagsets:
            ffs = {0: [0, 1, 2, 3, 0x10], 1: [0, 1, 2, 0x100], 2: [0, 1, 2, 3, 4, 5, 7, 8, 0x10, 0x107], 3: [0, 1, 2, 3]}.get(evk, [0, 1])
            for ff in ffs:
                for isel in (0, 1, 2, 3):
                    for cbn, tptn in ((0, 0), (1, 0), (0, 1)):
                        if rng.below(3 if tier == "quick" else 1) == 0:
                            out.append((evk, fl, ff, 5 if evk == 2 else 0, isel, cbn, tptn))
                if evk in (0, 1, 2):    # cb_null == 2: valid add first, then ENABLE with these flags / filter flags
                    out.append((evk, fl, ff, 5 if evk == 2 else 0, 0, 2, 0))
    return out


def must_refuse(case):
    evk, fl, ff, data, isel, cbn, tptn = case
    if fl & ~0xf:
        return "unknown flag bits"
    if (fl & 3) == 3:
        return "oneshot+dispatch"
    if cbn == 1:
        return "null callback"
    if tptn:
        return "null thread"
    if isel == 1:
        return "ident -1"
    if evk > 3:
        return "unknown event"
    if evk == 3 and isel >= 2:
        return "SKIP"     # identifier is not an existing process: refusing is legitimate, accepting impossible
    if evk in (0, 1):
        if isel >= 2:
            return "descriptor beyond table"
        if ff & ~1:
            return "unknown filter flags"
    if evk == 2 and ff & ~7:
        return "unknown filter flags"
    if evk == 3 and ff & ~1:
        return "unknown filter flags"
    return None


def check_valid(cases, events, part):
    viol = []
    cur = None
    recs = {}
    for e in events:
        ts, tid, kind, aux, a, b, c = e
        if kind == EV_STEP:
            cur = a
            recs[cur] = dict(trace=[], rc=None)
        elif cur is None:
            continue
        elif kind in (EV_TFD_CREATE, EV_EPOLL_CTL, EV_TFD_SETTIME):
            recs[cur]["trace"].append(kind)
        elif kind == EV_RC:
            recs[a]["rc"] = c
            cur = None
    for i, case in enumerate(cases):
        r = recs.get(i)
        why = must_refuse(case)
        if why == "SKIP":
            continue
        evk = case[0]
        part["classes"].add(("valid", evk if evk < 4 else "bad", why or "well-formed", case[1], case[2]))
        if r is None or r["rc"] is None:
            viol.append(("harness:c06:no-record", str(case)))
            continue
        desc = "event=%d flags=%#x fflags=%#x ident_sel=%d cb_null=%d tpt_null=%d" % (case[0], case[1], case[2], case[4], case[5], case[6])
        if case[5] == 2:
            # ENABLE after a valid add: only the refusal of malformed flags / filter flags is judged (one-sided)
            part["classes"].add(("valid-enable", evk, why or "well-formed", case[1], case[2]))
            if why and r["rc"] == 0:
                viol.append(("wrap:tpt_ev_enable:malformed-accepted:%s" % why.replace(" ", "-"), desc))
            continue
        if why:
            if r["rc"] == 0:
                viol.append(("wrap:tpt_ev_add:malformed-accepted:%s" % why.replace(" ", "-"), desc))
            elif r["trace"]:
                viol.append(("wrap:tpt_ev_add:refused-request-reached-kernel:%s" % why.replace(" ", "-"), desc + " trace=%s" % r["trace"]))
        else:
            # unknown-but-masked flag bits 2,3 are tolerated by the documented mask; PROC on own pid is fine
            if r["rc"] != 0:
                viol.append(("wrap:tpt_ev_add:well-formed-refused:%s" % KIND[evk], desc + " rc=%d" % r["rc"]))
            elif not r["trace"]:
                viol.append(("wrap:tpt_ev_add:accepted-but-not-installed:%s" % KIND[evk], desc))
    return viol


# ---------------------------------------------------------------------------
def gen_history(rng, tier):
    n = rng.range(15, 45)
    steps = []
    nid = rng.range(1, 5)
    kinds = {}
    for _ in range(n):
        i = rng.below(nid)
        r = rng.below(100)
        if i not in kinds or r < 18:
            k = rng.choice([0, 0, 0, 1, 2, 2, 3]) if i not in kinds else kinds[i]
            kinds[i] = k
            fl = rng.choice([0, 0, TP_F_ONESHOT, TP_F_DISPATCH])
            steps.append((H_ADD, i, k, fl, rng.below(1000)))
        elif r < 21 and kinds.get(i) == 2:
            steps.append((H_ADD_REFUSED_TIMER, i, 2, rng.choice([0, TP_F_ONESHOT, TP_F_DISPATCH]), rng.below(1000)))
        elif r < 30:
            steps.append((H_ENABLE, i, 0, 0, 0))
        elif r < 35:
            steps.append((H_ENABLE_NEWFLAGS, i, 0, rng.choice([0, 0, TP_F_ONESHOT, TP_F_DISPATCH]), 0))
        elif r < 50:
            steps.append((H_DISABLE, i, 0, 0, 0))
        elif r < 60:
            steps.append((H_DELETE, i, 0, 0, 0))
            if rng.below(2):
                kinds.pop(i, None)
        elif r < 82:
            steps.append((H_READY, i, 0, 0, rng.below(1000)))
        elif r < 85:
            steps.append((H_CLOSE_PEER, i, 0, 0, rng.below(1000)))
        elif r < 88:
            steps.append((H_POISON, i, 0, 0, 0))
            if rng.below(2):
                steps.append((H_CLOSE_PEER, i, 0, 0, 0))
        elif r < 90 and kinds.get(i) in (0, 1):
            # descriptor closed without delete, number reused, registered again through the same tp_udata
            steps.append((H_REOPEN, i, 0, 0, 0))
            if kinds.get(i) == 0:
                steps.append((H_READY, i, 0, 0, rng.below(1000)))
        elif r < 94:
            steps.append((H_SPIN, 0, 0, 0, rng.below(8)))
        else:
            steps.append((H_CHECK, 0, 0, 0, 0))
    steps.append((H_CHECK, 0, 0, 0, 0))
    # quiesce: delete everything so teardown is clean
    for i in range(nid):
        steps.append((H_DELETE, i, 0, 0, 0))
    steps.append((H_SPIN, 0, 0, 0, 5))
    return steps


def reopen_histories():
    """Directed: a registered descriptor is closed without tpt_ev_del, its number is reused and registered again through
    the same tp_udata - after a dispatch shot, after a disable, for a write end that switched itself off, and for an idle
    persistent read end; the new registration has to be accepted and to fire."""
    out = []
    for k, fl, sock in ((0, TP_F_DISPATCH, 0), (0, TP_F_DISPATCH, 1), (0, 0, 0), (0, 0, 1), (1, 0, 0), (1, TP_F_DISPATCH, 1), (1, 0, 1)):
        st = [(H_ADD, 0, k, fl, sock)]
        if k == 0:
            st += [(H_READY, 0, 0, 0, 0), (H_CHECK, 0, 0, 0, 0)]
            if not fl:
                st += [(H_DISABLE, 0, 0, 0, 0)] if sock else []
        else:
            st += [(H_CHECK, 0, 0, 0, 0)]
        st += [(H_REOPEN, 0, 0, 0, 0)]
        if k == 0:
            st += [(H_READY, 0, 0, 0, 2)]
        st += [(H_CHECK, 0, 0, 0, 0), (H_REOPEN, 0, 0, 0, 0)]
        if k == 0:
            st += [(H_READY, 0, 0, 0, 1)]
        st += [(H_CHECK, 0, 0, 0, 0), (H_DELETE, 0, 0, 0, 0), (H_SPIN, 0, 0, 0, 5)]
        out.append(st)
    return out


def encode_history(seed, steps, on_pvt=0, no_wait=0, small_idents=0):
    w = W().u64(seed).u8(3).u8((2 if on_pvt else 0) | (4 if no_wait else 0) | (8 if small_idents else 0)).u16(len(steps))
    for op, i, k, fl, arg in steps:
        w.u8(op).u8(i).u8(k).u8(fl).u32(arg)
    return w.done()


def check_history(steps, events, part):
    viol = []
    fires = 0
    last_step = None
    idkind = {}
    for op, i, k, fl, arg in steps:
        if op == H_ADD:
            idkind.setdefault(i, (k, fl))
    for e in events:
        ts, tid, kind, aux, a, b, c = e
        if kind == EV_STEP:
            last_step = (HN.get(aux, aux), a)
            part["classes"].add(("hist-op", HN.get(aux, aux), (b >> 8) & 0xff, b & 0xff))
        elif kind == EV_FIRE:
            fires += 1
            part["classes"].add(("fire", KIND[aux] if aux < 4 else aux, (b >> 32) & 0x300, "after-" + str(last_step[0] if last_step else None)))
        elif kind == EV_VIOL:
            nm = VNAMES.get(aux, str(aux))
            k = ((b >> 8) & 0xff, b & 0xff) if b != 0xffff else (None, None)
            kn = KIND[k[0]] if k[0] is not None and k[0] < 4 else "?"
            viol.append(("shadow:%s:%s" % (kn, nm), "identifier %d (%s flags=%s) after step %s detail=%d" % (a, kn, k[1], last_step, c)))
        elif kind == EV_TIMEOUT:
            viol.append(("hang:history-did-not-finish", "stuck at program counter %d" % a))
    common.part_count(part, "callbacks_observed", fires)
    return viol


# ---------------------------------------------------------------------------
def run_one(job):
    kind, payload, meta, exes = job
    part = common.new_part()
    for san, exe in exes.items():
        if kind != "hist" and san == "tsan":
            continue
        r = tpcommon.run_scenario(exe, payload, wall_timeout=200)
        if r.obs is None and (r.wall_timeout or common.classify_crash(r.rc, r.err) == "hang"):
            r = tpcommon.run_scenario(exe, payload, wall_timeout=200)
        wit = {"kind": kind, "build": san, "payload": payload.hex(), "meta": meta if kind == "hist" else None}
        if r.obs is None:
            k = common.classify_crash(r.rc, r.err)
            if k in ("asan", "ubsan"):
                part["violations"].append((common.crash_key(common.Crash(k, r.err, r.rc), "c06"), dict(wit, report=r.err[-4000:])))
            elif k == "hang":
                part["violations"].append(("hang:c06:%s" % kind, dict(wit, report=r.err[-1500:])))
            else:
                part["inconclusive"].append("%s build %s: harness exit rc=%s %s" % (kind, san, r.rc, r.err[-300:]))
            continue
        rd = R(r.obs)
        if rd.u32() != 0xC06C06:
            part["inconclusive"].append("bad observation")
            continue
        rd.u8()
        rd.u64()
        events = tpcommon.decode_events(rd)
        common.part_count(part, "events", len(events))
        if kind == "args":
            part["evaluations"] += len(meta)
            v = check_args(meta, events, part)
        elif kind == "valid":
            part["evaluations"] += len(meta)
            v = check_valid(meta, events, part)
        else:
            part["evaluations"] += 1
            v = check_history(meta, events, part)
            if any("missing-callback" in k for k, _ in v):
                # bounded-progress miss: re-run once before reporting (machine load must not decide)
                r2 = tpcommon.run_scenario(exe, payload, wall_timeout=200)
                if r2.obs is not None:
                    rd2 = R(r2.obs)
                    rd2.u32(); rd2.u8(); rd2.u64()
                    v2 = check_history(meta, tpcommon.decode_events(rd2), part)
                    common.part_count(part, "bounded_progress_reruns", 1)
                    if not any("missing-callback" in k for k, _ in v2):
                        v = [x for x in v if "missing-callback" not in x[0]] + v2
            if len(part["samples"]) < 2:
                part["samples"].append({"history": [(HN[s[0]], s[1], KIND[s[2]] if s[0] == H_ADD else "", s[3]) for s in meta][:40]})
        for key, detail in v:
            part["violations"].append((key, dict(wit, detail=detail)))
        if kind == "hist":
            tpcommon.triage_into(part, r.err, wit, san)
    return part


def make_jobs(tier, exes):
    rng = Rng(PROP, common.seed(), "gen")
    jobs = []
    ac = gen_args_cases(rng, tier)
    for i in range(0, len(ac), 400):
        chunk = ac[i:i + 400]
        w = W().u64(rng.u64()).u8(1).u32(len(chunk))
        for fl, ff, v in chunk:
            w.u16(fl).u32(ff).u64(v)
        jobs.append(("args", w.done(), chunk, exes))
    vc = gen_valid_cases(rng, tier)
    for i in range(0, len(vc), 400):
        chunk = vc[i:i + 400]
        w = W().u64(rng.u64()).u8(2).u32(len(chunk))
        for evk, fl, ff, data, isel, cbn, tptn in chunk:
            w.u16(evk).u16(fl).u32(ff).u64(data).u8(isel).u8(cbn).u8(tptn)
        jobs.append(("valid", w.done(), chunk, exes))
    for steps in reopen_histories():
        for pvt in (0, 1):
            jobs.append(("hist", encode_history(rng.u64(), steps, on_pvt=pvt), steps, exes))
    for i in range(300 if tier == "quick" else 12000):
        steps = gen_history(rng, tier)
        # every fourth history registers its events on the pool virtual thread (single worker); every fifth runs with
        # SIGCHLD ignored, so the exit status of watched children cannot be collected
        jobs.append(("hist", encode_history(rng.u64(), steps, on_pvt=(i % 4 == 3), no_wait=(i % 5 == 2), small_idents=(i % 3 == 1)), steps, exes))
    return jobs


def run(tier):
    report = common.Report(PROP, tier, "exploration")
    report.rule = ("(1) timer argument cases = value x unit x relative/absolute x periodic/one-shot/dispatch, judged on the itimerspec/clock/flags "
                   "seen by interposed timerfd_create/timerfd_settime; (2) validation cases = event kind x flag bits x filter flags x ident x "
                   "NULL callback/thread, judged on return code + interposed kernel-call trace; (3) histories of add/enable/disable/delete/"
                   "make-ready/close-peer/refused-timer/check on the owning thread (every fourth history: on the pool virtual thread of a one-worker pool) over <=4 identifiers (pipe, socketpair, timer, child process) with an "
                   "online shadow-state monitor; distinct class = (oracle, unit/mode/sub-second/digits) | (event, refusal reason, flags) | "
                   "(operation kind/flags) | (fired kind, EOF/ERROR flags, preceding operation)")
    exes = build_all(report, tier)
    if not exes:
        raise common.Inconclusive("harness does not build: %s" % report.builds)
    jobs = make_jobs(tier, exes)
    for part in common.parallel(run_one, jobs):
        report.merge(part)
    report.extra["jobs"] = {"args_batches": sum(1 for j in jobs if j[0] == "args"), "valid_batches": sum(1 for j in jobs if j[0] == "valid"),
                            "histories": sum(1 for j in jobs if j[0] == "hist")}
    report.assumptions = [
        "the interval of an absolute periodic timer is not asserted (neither kqueue nor the header define it)",
        "histories issue every operation on the owning pool thread; cross-thread enable/disable is not gated (the API shares tp_udata without locks)",
        "flag bits 2 and 3 lie inside the documented TP_F_S_MASK and are tolerated",
        "expected firings are bounded-progress checked with a 10 s budget per checkpoint (timers are 1-4 ms); a miss is re-run once",
    ]
    if report.extra.get("callbacks_observed", 0) == 0:
        report.inconclusive.append("history monitor saw no callbacks")
    return report.finish()


def replay(path):
    with open(path) as fh:
        w = json.load(fh)["witness"]
    report = common.Report(PROP, "quick")
    exes = build_all(report, "quick")
    payload = bytes.fromhex(w["payload"])
    r = tpcommon.run_scenario(exes[w["build"]], payload)
    print("rc", r.rc, r.err[-2000:])
    if r.obs:
        rd = R(r.obs)
        rd.u32(); rd.u8()
        print("online violations:", rd.u64())
        for e in tpcommon.decode_events(rd)[:200]:
            print(e)
    return 0
