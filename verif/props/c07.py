"""C07 - HMAC equals RFC 2104 for every key length, message and chunking; pads wiped.

Uses the driver, variant table, reference functions and chunk generators of C04.

Monitors
  oracle   MAC == hmac.new(key, msg, H) (Python's hmac for MD5/SHA-1/SHA-2; RFC 2104 over the
           from-scratch Streebog for GOST R 34.11-2012) for hmac_*_init/update/final, hmac_*(),
           *_hmac_get_digest() and *_hmac_get_digest_str(); reported sizes
  reuse    init -> final -> init with another key on the same context gives the right second MAC
  agree    the four entry points return the same MAC
  zeroise  non-interference: two different keys (and messages) of equal lengths, same chunking,
           leave byte-identical hmac context images (hash context + k_opad) after hmac_*_final
  stack    the HMAC entry point runs on a private zero-filled stack (non-sanitizer builds); afterwards
           no 32-byte prefix of K' xor ipad / K' xor opad may be found anywhere on that stack
  asan     out-of-bounds on exact-size key / message / MAC / context blocks; the key block is
           freed right after hmac_*_init, so a retained key pointer would be a use-after-free
"""
import json
import struct
import sys

from verif import common
from verif.common import Rng
from verif.props import c04
from verif.props.c04 import (ALG_NAMES, BLOCK, HS, F_NATIVE, FORCE_NAMES, OP_HMAC_STREAM, OP_HMAC_ONESHOT,
                             OP_HMAC_GET, OP_HMAC_HEX, ref_hmac, make_msg, kway, block_pm1, dispatch_label,
                             forced_selectors, with_force, run_batched, diff_ranges, align_class)

PROP = "C07"
ENTRY_OP = {"oneshot": OP_HMAC_ONESHOT, "get": OP_HMAC_GET, "hex": OP_HMAC_HEX}
OPAD_IDX = [0, 1, 2, 2, 2, 2, 3, 3]   # index into info["opad_off"]


def key_class(alg, kl):
    b = BLOCK[alg]
    if kl == 0:
        return "k=0"
    if kl < b - 1:
        return "k<B-1"
    if kl == b - 1:
        return "k=B-1"
    if kl == b:
        return "k=B"
    if kl == b + 1:
        return "k=B+1"
    if kl <= 2 * b:
        return "B+1<k<=2B"
    return "2B<k<=3B"


def msg_class(alg, n):
    """class of the inner hash length B + n relative to the padding boundary"""
    return c04.len_class(alg, n)


def p_hmac_stream(alg, force, kalign, malign, pat, ba, sep, nullsz, key, msg, chunks, reuse=None):
    p = (bytes((OP_HMAC_STREAM, alg, force, kalign & 63, malign & 63, pat, ba, sep, nullsz)) +
         struct.pack("<I", len(key)) + key + struct.pack("<I", len(msg)) + msg +
         struct.pack("<H%dI" % len(chunks), len(chunks), *chunks))
    if reuse is None:
        return p + b"\x00"
    k2, m2 = reuse
    return p + b"\x01" + struct.pack("<I", len(k2)) + k2 + struct.pack("<I", len(m2)) + m2


def p_hmac_oneshot(op, alg, kalign, malign, pat, ba, nullsz, key, msg):
    return (bytes((op, alg, kalign & 63, malign & 63, pat, ba, nullsz)) +
            struct.pack("<I", len(key)) + key + struct.pack("<I", len(msg)) + msg)


def parse_stream_obs(obs):
    """-> status, guard, mac, rsz, image, (guard2, mac2, image2) | None"""
    st = obs[0]
    if st != 0:
        return st, None, None, None, None, None
    r = common.R(obs)
    r.u8()
    guard = r.u8()
    mac = r.blob()
    rsz = r.u64()
    image = r.blob()
    second = None
    if not r.eof():
        g2 = r.u8()
        mac2 = r.blob()
        im2 = r.blob()
        second = (g2, mac2, im2)
    return st, guard, mac, rsz, image, second


def parse_oneshot_obs(obs):
    st = obs[0]
    if st != 0:
        return st, None, None, None
    r = common.R(obs)
    r.u8()
    guard = r.u8()
    out = r.blob()
    return st, guard, out, r.u64()


def key_lengths(alg, tier, rng):
    b = BLOCK[alg]
    if tier == "thorough":
        return list(range(0, 3 * b + 1))
    ks = set(range(0, b + 3))
    for base in (2 * b, 3 * b):
        ks.update((base - 1, base, base + 1))
    ks.update(range(b + 3, 3 * b + 1, 5))
    # key lengths whose own hash sits on a padding boundary
    lb = c04.LENBYTES[alg] or 8
    for m in (1, 2):
        for d in (-1, 0, 1):
            ks.add(m * b + b - lb - 1 + d)
    return sorted(k for k in ks if 0 <= k <= 3 * b)


def special_key(kind, kl):
    return bytes([{0: 0x00, 1: 0xFF, 2: 0x36, 3: 0x5C}[kind]]) * kl


def gen_templates(alg, slice_idx, nslices, tier, seed):
    b = BLOCK[alg]
    thorough = tier == "thorough"
    rng = Rng(PROP, seed, "gen", alg, slice_idx)
    lb = c04.LENBYTES[alg] or 8
    out = []
    pid = 0     # (key, msg) pair id
    gid = 0
    kls = [k for i, k in enumerate(key_lengths(alg, tier, rng)) if i % nslices == slice_idx]
    for kl in kls:
        # message lengths: boundaries of the inner hash (one pad block already absorbed) + random
        pool = [0, 1, b - lb - 2, b - lb - 1, b - lb, b - 1, b, b + 1, 2 * b - lb - 1, 2 * b, 3 * b + 1]
        mlens = set((pool[rng.below(len(pool))], pool[rng.below(len(pool))], rng.below(b), rng.range(b, 4 * b)))
        if thorough:
            mlens.update((0, rng.below(4 * b + 1), rng.below(4 * b + 1), pool[rng.below(len(pool))], 4 * b))
        for ml in sorted(mlens):
            # two random (key, msg) twins + sometimes a special key
            pairs = []
            for i in range(2):
                ksp = ("rand", (PROP, seed, "k", alg, kl, ml, i), kl)
                msp = ("rand", (PROP, seed, "m", alg, kl, ml, i), ml)
                pairs.append((ksp, msp))
            if kl and rng.below(4 if not thorough else 2) == 0:
                kind = rng.below(4)
                pairs.append((("fill", {0: 0x00, 1: 0xFF, 2: 0x36, 3: 0x5C}[kind], kl),
                              ("rand", (PROP, seed, "m", alg, kl, ml, 9), ml)))
            built = []
            for ksp, msp in pairs:
                key, msg = make_msg(ksp), make_msg(msp)
                built.append((pid, ksp, msp, key, msg, ref_hmac(alg, key, msg)))
                pid += 1
            # reuse partner: another key length class and message
            kl2 = rng.choice((0, 1, b - 1, b, b + 1, rng.below(3 * b + 1)))
            ml2 = rng.below(2 * b + 2)
            reuse_specs = [(("rand", (PROP, seed, "k2", alg, kl, ml, i), kl2),
                            ("rand", (PROP, seed, "m2", alg, kl, ml, i), ml2)) for i in range(2)]
            reuse_built = []
            for ksp2, msp2 in reuse_specs:
                k2, m2 = make_msg(ksp2), make_msg(msp2)
                reuse_built.append((ksp2, msp2, k2, m2, ref_hmac(alg, k2, m2)))

            shapes = [([ml], False)]
            if ml:
                shapes.append((kway(rng, ml, rng.range(2, 6), rng.below(3)), False))
                if ml <= 2 * b or thorough:
                    shapes.append(([1] * ml, False))
                shapes.append(([rng.below(ml + 1)], False))    # 2-way via remainder handling
                if ml > b - 2:
                    shapes.append((block_pm1(alg, ml, rng.below(6)), False))
            shapes.append(([ml], True))                         # with context reuse
            if thorough:
                for _ in range(3):
                    shapes.append((kway(rng, ml, rng.range(2, 7), rng.below(3)), rng.below(3) == 0))
            for si, (chunks, reuse) in enumerate(shapes):
                kalign, malign = rng.below(64), rng.below(64)
                pat, ba, sep, nullsz = rng.below(256), rng.below(2), rng.below(2), int(rng.below(6) == 0)
                for ci, (p_id, ksp, msp, key, msg, exp) in enumerate(built):
                    if ci >= 2 and si not in (0, len(shapes) - 1):
                        continue
                    t = {"entry": "stream", "alg": alg, "kl": kl, "n": ml, "kspec": ksp, "mspec": msp,
                         "chunks": chunks, "kalign": kalign, "malign": malign, "pat": pat, "ba": ba, "sep": sep,
                         "nullsz": nullsz, "red": si in (0, 1, len(shapes) - 1), "pid": p_id, "gid": gid,
                         "expect": exp}
                    ru = None
                    if reuse:
                        ksp2, msp2, k2, m2, exp2 = reuse_built[min(ci, 1)]
                        t.update(kspec2=ksp2, mspec2=msp2, expect2=exp2, kl2=len(k2))
                        ru = (k2, m2)
                    t["payload"] = p_hmac_stream(alg, 0, kalign, malign, pat, ba, sep, nullsz, key, msg, chunks, ru)
                    out.append(t)
                gid += 1
            for (p_id, ksp, msp, key, msg, exp) in built:
                for entry in ("oneshot", "get", "hex"):
                    kalign, malign = rng.below(64), rng.below(64)
                    pat, ba, nullsz = rng.below(256), rng.below(2), int(rng.below(6) == 0)
                    out.append({"entry": entry, "alg": alg, "kl": kl, "n": ml, "kspec": ksp, "mspec": msp,
                                "chunks": [ml], "kalign": kalign, "malign": malign, "pat": pat, "ba": ba,
                                "nullsz": nullsz, "red": False, "pid": p_id, "gid": -1, "expect": exp,
                                "payload": p_hmac_oneshot(ENTRY_OP[entry], alg, kalign, malign, pat, ba, nullsz,
                                                          key, msg)})
    return out


def tpl_public(t):
    d = {k: v for k, v in t.items() if k not in ("payload", "expect", "expect2", "pid", "gid", "red")}
    for f in ("kspec", "mspec", "kspec2", "mspec2"):
        if f in d:
            sp = list(d[f])
            if sp[0] == "rand":
                sp[1] = list(sp[1])
            d[f] = sp
    return d


def _spec(sp):
    return ("rand", tuple(sp[1]), sp[2]) if sp[0] == "rand" else tuple(sp)


def rebuild_payload(t, force):
    alg = t["alg"]
    key, msg = make_msg(_spec(t["kspec"])), make_msg(_spec(t["mspec"]))
    if t["entry"] == "stream":
        ru = None
        if "kspec2" in t:
            ru = (make_msg(_spec(t["kspec2"])), make_msg(_spec(t["mspec2"])))
        return p_hmac_stream(alg, force, t["kalign"], t["malign"], t["pat"], t["ba"], t["sep"], t["nullsz"],
                             key, msg, t["chunks"], ru)
    return p_hmac_oneshot(ENTRY_OP[t["entry"]], alg, t["kalign"], t["malign"], t["pat"], t["ba"], t["nullsz"],
                          key, msg)


def witness(v, vname, force, label, t, expected, observed, extra=None):
    w = {"variant": vname, "build": v["spec"], "force": force, "dispatch": label, "case": tpl_public(t),
         "expected": expected, "observed": observed, "seed": common.seed()}
    if extra:
        w.update(extra)
    return w


def image_regions(info, alg, ranges):
    off = info["opad_off"][OPAD_IDX[alg]]
    reg = set()
    for a, b_ in ranges:
        if b_ >= off:
            reg.add("k_opad")
        if a < off:
            reg.add("hash-ctx")
    return "+".join(sorted(reg)) or "none"


def judge_run(part, v, vname, force, tpls, results, storm):
    info, flavor = v["info"], v["flavor"]
    cnt = part["counters"]
    images = {}
    images2 = {}
    by_pid = {}

    def bump(k, n=1):
        cnt[k] = cnt.get(k, 0) + n

    for t, obs in zip(tpls, results):
        alg = t["alg"]
        aname = ALG_NAMES[alg]
        entry = t["entry"]
        label = dispatch_label(flavor, info, alg, force)
        ename = "hmac_%s.%s" % (aname, entry)
        if isinstance(obs, common.Crash):
            key = common.crash_key(obs, ename)
            if obs.kind in ("ubsan", "msan"):
                part["observations"][key] = part["observations"].get(key, 0) + 1
            else:
                if obs.kind == "exit" and obs.returncode == 0:
                    key = "harness:%s:no-observation" % ename
                part["violations"].append((key, witness(v, vname, force, label, t, t["expect"].hex(),
                                                        "crash %s rc=%s" % (obs.kind, obs.returncode),
                                                        {"report": obs.report[-3000:]})))
            continue
        try:
            if entry == "stream":
                st, guard, mac, rsz, image, second = parse_stream_obs(obs)
            else:
                st, guard, mac, rsz = parse_oneshot_obs(obs)
                image = second = None
        except (struct.error, IndexError):
            part["violations"].append(("harness:%s:bad-observation" % ename,
                                       witness(v, vname, force, label, t, None, obs.hex()[:200])))
            continue
        if st == 1:
            bump("force_unavailable")
            continue
        if st != 0:
            part["violations"].append(("harness:%s:driver-status" % ename,
                                       witness(v, vname, force, label, t, None, "status %d" % st)))
            continue
        part["evaluations"] += 1
        bump("macs_" + aname)
        bump("cases@" + vname)
        bump("dispatch_%s_%s" % (aname, label))
        kc = key_class(alg, t["kl"])
        bump("keyclass_" + kc)
        exp = t["expect"]
        shape = c04.shape_of(alg, t["n"], t["chunks"]) if entry == "stream" else entry
        part["classes"].add((aname, label, entry, kc, msg_class(alg, t["n"]), shape,
                             align_class(t["kalign"]), "reuse" if "expect2" in t else "-"))
        if not guard:
            part["violations"].append(("guard:%s:mac-buffer-overrun" % ename,
                                       witness(v, vname, force, label, t, exp.hex(), mac.hex())))
        if entry == "hex":
            ok = (len(mac) == 2 * HS[alg] + 1 and mac[-1:] == b"\x00" and mac[:-1].lower() == exp.hex().encode())
            if not ok:
                part["violations"].append(("oracle:%s:wrong-text:%s:%s" % (ename, label, kc),
                                           witness(v, vname, force, label, t, exp.hex(), repr(mac))))
            elif not t["nullsz"] and rsz != 2 * HS[alg]:
                part["violations"].append(("oracle:%s:wrong-size" % ename,
                                           witness(v, vname, force, label, t, 2 * HS[alg], rsz)))
            got = bytes.fromhex(mac[:-1].decode("ascii", "replace")) if ok else mac
        else:
            got = mac
            if mac != exp:
                part["violations"].append(("oracle:%s:wrong-mac:%s:%s" % (ename, label, kc),
                                           witness(v, vname, force, label, t, exp.hex(), mac.hex())))
            elif not t["nullsz"] and rsz != HS[alg]:
                part["violations"].append(("oracle:%s:wrong-size" % ename,
                                           witness(v, vname, force, label, t, HS[alg], rsz)))
        if force == F_NATIVE:
            by_pid.setdefault(t["pid"], {}).setdefault(entry, (got, t))
        if entry == "stream":
            off = info["opad_off"][OPAD_IDX[alg]]
            if not any(image[off:]):
                bump("opad_all_zero_after_final")
            if t["gid"] >= 0:
                k = (alg, t["gid"])
                prev = images.get(k)
                if prev is None:
                    images[k] = (image, t)
                else:
                    bump("images_compared")
                    if prev[0] != image:
                        rg = diff_ranges(prev[0], image)
                        part["violations"].append((
                            "zeroise:hmac_%s.final:context-depends-on-key:%s" % (aname, image_regions(info, alg, rg)),
                            witness(v, vname, force, label, t, "hmac context image equal to that of the twin key",
                                    {"differing_byte_ranges": rg, "k_opad_offset": off, "image": image.hex(),
                                     "twin_image": prev[0].hex()}, {"twin_case": tpl_public(prev[1])})))
            if second is not None:
                g2, mac2, im2 = second
                bump("reuse_cases")
                kc2 = key_class(alg, t["kl2"])
                if not g2:
                    part["violations"].append(("guard:%s:mac-buffer-overrun" % ename,
                                               witness(v, vname, force, label, t, t["expect2"].hex(), mac2.hex())))
                if mac2 != t["expect2"]:
                    part["violations"].append((
                        "oracle:%s:wrong-mac-after-reuse:%s:%s" % (ename, label, kc2),
                        witness(v, vname, force, label, t, t["expect2"].hex(), mac2.hex(),
                                {"note": "second MAC on the same context (init -> final -> init with another key)"})))
                k = (alg, t["gid"])
                prev = images2.get(k)
                if prev is None:
                    images2[k] = (im2, t)
                else:
                    bump("images_compared")
                    if prev[0] != im2:
                        rg = diff_ranges(prev[0], im2)
                        part["violations"].append((
                            "zeroise:hmac_%s.final:context-depends-on-key:%s" % (aname, image_regions(info, alg, rg)),
                            witness(v, vname, force, label, t, "hmac context image after the second final equal "
                                    "to that of the twin", {"differing_byte_ranges": rg, "k_opad_offset": off},
                                    {"twin_case": tpl_public(prev[1]), "after": "second final"})))
        if len(part["samples"]) < 3 and t["kl"] in (BLOCK[alg], BLOCK[alg] + 1, 0):
            part["samples"].append({"variant": vname, "dispatch": label, "alg": aname, "entry": entry,
                                    "key_len": t["kl"], "msg_len": t["n"], "chunks": t["chunks"][:12],
                                    "mac": got.hex() if isinstance(got, bytes) else str(got),
                                    "matches_reference": got == exp})
    for pid, d in by_pid.items():
        if len(d) >= 2:
            bump("entry_point_agreements")
            if len(set(x[0] for x in d.values())) > 1:
                t = next(iter(d.values()))[1]
                part["violations"].append(("agree:hmac_%s:entry-points-disagree" % ALG_NAMES[t["alg"]],
                                           witness(v, vname, force, "native", t, "same MAC from every entry point",
                                                   {e: x[0].hex() if isinstance(x[0], bytes) else str(x[0])
                                                    for e, x in d.items()})))
    if storm:
        part["inconclusive"].append("crash storm in %s (force %s): run cut short" % (vname, FORCE_NAMES[force]))


OP_HMAC_STACKSCAN = 9
SCAN_KINDS = {"stream": 0, "oneshot": OP_HMAC_ONESHOT, "get": OP_HMAC_GET, "hex": OP_HMAC_HEX}
NEEDLE = 32


def pads(alg, key):
    b = BLOCK[alg]
    k = key if len(key) <= b else c04.ref_digest(alg, key)
    k = k + bytes(b - len(k))
    return bytes(x ^ 0x36 for x in k), bytes(x ^ 0x5c for x in k)


def scan_cases(alg, slice_idx, seed):
    b = BLOCK[alg]
    rng = Rng(PROP, "stackscan", seed, alg, slice_idx)
    out = []
    # at least 16 keyed octets: a needle with one keyed octet in front of a run of the public constant proves nothing
    for kl in (16, 17, 33, b - 1, b, b + 1, 2 * b + 3, rng.below(3 * b - 16) + 16):
        for entry in ("stream", "oneshot", "get", "hex"):
            # no zero key byte: a zero byte makes the pad equal to the public constant 0x36/0x5c there, and
            # a run of the bare constant (e.g. a spilled vector register) is not a keyed pad
            key = bytes(rng.below(255) + 1 for _ in range(kl))
            n = rng.below(2 * b + 2)
            msg = bytes(rng.below(255) + 1 for _ in range(n)) if entry == "hex" else rng.bytes(n)
            ip, op = pads(alg, key)
            needles = [ip[:NEEDLE], op[:NEEDLE]]
            if kl > b and 1 <= alg <= 5:
                # the hashed key K' = H(key) is the effective key.  SHA-1/SHA-2 only: their digest is the byte-swapped
                # state, so a register spill of the chaining words cannot be mistaken for it (MD5 and GOST emit it as is)
                needles.append(c04.ref_digest(alg, key)[:20])
            pay = (bytes((OP_HMAC_STACKSCAN, alg, 0, SCAN_KINDS[entry])) + struct.pack("<I", len(key)) + key +
                   struct.pack("<I", len(msg)) + msg + bytes((len(needles),)) +
                   b"".join(struct.pack("<I", len(x)) + x for x in needles))
            out.append({"alg": alg, "entry": entry, "kl": kl, "n": n, "key": key.hex(), "msg": msg.hex(),
                        "payload": pay, "expect": ref_hmac(alg, key, msg)})
    return out


def null_empty_cases(alg, seed):
    """one-call entry points with the empty key and/or the empty message given as (NULL, 0)"""
    rng = Rng(PROP, "null-empty", seed, alg)
    out = []
    for entry in ("oneshot", "get", "hex"):
        for kl, n in ((0, 0), (0, 19), (23, 0), (0, BLOCK[alg] + 1), (BLOCK[alg] + 5, 0)):
            key = bytes(rng.below(255) + 1 for _ in range(kl))
            msg = bytes(rng.below(255) + 1 for _ in range(n))
            out.append({"alg": alg, "entry": entry, "kl": kl, "n": n, "key": key.hex(), "msg": msg.hex(),
                        "payload": p_hmac_oneshot(ENTRY_OP[entry], alg, 0, 0, 0x5a, 0, 2, key, msg), "expect": ref_hmac(alg, key, msg)})
    return out


def judge_null_empty(part, v, vname, cases, results):
    for t, obs in zip(cases, results):
        ename = "hmac_%s.%s" % (ALG_NAMES[t["alg"]], t["entry"])
        w = {"variant": vname, "build": v["spec"], "case": {k: t[k] for k in ("alg", "entry", "kl", "n", "key", "msg")}, "seed": common.seed()}
        w["case"]["null_empty"] = True
        if isinstance(obs, common.Crash):
            key = common.crash_key(obs, ename + ".null-empty")
            if obs.kind in ("ubsan", "msan"):
                # memcpy(dst, NULL, 0) inside the library is reported by UBSan's nonnull check; the value is judged in the plain builds
                part["observations"][key] = part["observations"].get(key, 0) + 1
            else:
                part["violations"].append((key, dict(w, observed="crash %s rc=%s" % (obs.kind, obs.returncode), report=obs.report[-2000:])))
            continue
        st, guard, out, rsz = parse_oneshot_obs(obs)
        if st != 0:
            continue
        part["evaluations"] += 1
        part["counters"]["null_empty_cases"] = part["counters"].get("null_empty_cases", 0) + 1
        got = bytes.fromhex(out[:-1].decode(errors="replace")) if t["entry"] == "hex" and all(c in b"0123456789abcdefABCDEF" for c in out[:-1]) else out
        if got != t["expect"]:
            part["violations"].append(("oracle:%s:wrong-mac:empty-input-as-null-pointer" % ename,
                                       dict(w, expected=t["expect"].hex(), observed=out.hex()[:160])))


def judge_scan(part, v, vname, cases, results):
    cnt = part["counters"]
    for t, obs in zip(cases, results):
        ename = "hmac_%s.%s" % (ALG_NAMES[t["alg"]], t["entry"])
        pub = {k: t[k] for k in ("alg", "entry", "kl", "n", "key", "msg")}
        pub["scan"] = True
        w = {"variant": vname, "build": v["spec"], "case": pub, "seed": common.seed()}
        if isinstance(obs, common.Crash):
            part["violations"].append((common.crash_key(obs, ename + ".stackscan"),
                                       dict(w, observed="crash %s rc=%s" % (obs.kind, obs.returncode), report=obs.report[-2000:])))
            continue
        r = common.R(obs)
        st = r.u8()
        if st == 3:
            cnt["stackscan_unsupported"] = cnt.get("stackscan_unsupported", 0) + 1
            continue
        if st != 0:
            part["violations"].append(("harness:%s:stackscan-status" % ename, dict(w, observed="status %d" % st)))
            continue
        mac = r.blob()
        found = [r.i64(), r.i64()]
        kprime_at = r.i64() if (t["kl"] > BLOCK[t["alg"]] and 1 <= t["alg"] <= 5) else -1
        part["evaluations"] += 1
        cnt["stack_scans"] = cnt.get("stack_scans", 0) + 1
        cnt["stack_scans_" + ("long-key" if t["kl"] > BLOCK[t["alg"]] else "short-key")] = \
            cnt.get("stack_scans_" + ("long-key" if t["kl"] > BLOCK[t["alg"]] else "short-key"), 0) + 1
        got = bytes.fromhex(mac[:-1].decode()) if t["entry"] == "hex" else mac
        if got != t["expect"]:
            part["violations"].append(("oracle:%s:wrong-mac:on-private-stack" % ename,
                                       dict(w, expected=t["expect"].hex(), observed=got.hex())))
        if kprime_at >= 0:
            if "-O0" in (v["spec"].get("flags") or []):
                k = "stack:%s:hashed-key-bytes-on-stack-in-O0-build" % ename
                part["observations"][k] = part["observations"].get(k, 0) + 1
            else:
                part["violations"].append(("stack:%s:hashed-key-left-on-stack" % ename,
                                           dict(w, observed="the first 20 bytes of H(key) (the effective HMAC key of a long key) found %d bytes "
                                                "below the top of the private stack after the call returned" % kprime_at)))
        for which, d in zip(("ipad", "opad"), found):
            if d >= 0:
                part["violations"].append(("stack:%s:keyed-pad-left-on-stack:%s" % (ename, which),
                                           dict(w, observed="%d-byte prefix of K' xor %s found %d bytes below the top of "
                                                "the private stack after the call returned" % (NEEDLE, which, d))))


OP_RADIUS_MA_STACKSCAN = 10
RADIUS_CODES = [1, 2, 3, 4, 5, 11, 12, 13, 40, 41, 42, 43, 44, 45, 0, 6, 10, 99, 255]


def radius_scan_cases(seed):
    """RADIUS Message-Authenticator calculation (HMAC-MD5 context is an automatic object of the function): every
    packet code incl. unknown ones x request present/absent x authenticator-inside, on the private stack."""
    rng = Rng(PROP, "radius-stackscan", seed)
    out = []
    for code in RADIUS_CODES:
        for have_req in (0, 1):
            for inside in (0, 1):
                kl = rng.choice([16, 17, 40, 64, 65, 100])
                key = bytes(rng.below(255) + 1 for _ in range(kl))
                before = b"\x01\x07alice"
                ma = b"\x50\x12" + bytes(16)
                after = b"\x04\x06" + rng.bytes(4)
                ln = 20 + len(before) + len(ma) + len(after)
                pkt = bytes((code, rng.below(256))) + struct.pack(">H", ln) + rng.bytes(16) + before + ma + after
                req = bytes((1, 7)) + struct.pack(">H", 20) + rng.bytes(16)
                ip, op = pads(0, key)
                needles = [ip[:NEEDLE], op[:NEEDLE]]
                pay = (bytes((OP_RADIUS_MA_STACKSCAN, inside, have_req)) + struct.pack("<I", len(pkt)) + pkt +
                       struct.pack("<I", 20 + len(before)) + struct.pack("<I", len(key)) + key +
                       struct.pack("<I", len(req)) + req + bytes((len(needles),)) +
                       b"".join(struct.pack("<I", len(x)) + x for x in needles))
                out.append({"code": code, "have_req": have_req, "inside": inside, "kl": kl, "key": key.hex(),
                            "payload_hex": pay.hex(), "payload": pay})
    return out


def judge_radius_scan(part, v, vname, cases, results):
    cnt = part["counters"]
    ename = "radius_pkt_attr_msg_authenticator_calc"
    for t, obs in zip(cases, results):
        pub = {k: t[k] for k in ("code", "have_req", "inside", "kl", "key", "payload_hex")}
        pub["radius_scan"] = True
        w = {"variant": vname, "build": v["spec"], "case": pub, "seed": common.seed()}
        if isinstance(obs, common.Crash):
            part["violations"].append((common.crash_key(obs, ename + ".stackscan"),
                                       dict(w, observed="crash %s rc=%s" % (obs.kind, obs.returncode), report=obs.report[-2000:])))
            continue
        r = common.R(obs)
        st = r.u8()
        if st == 3:
            continue
        if st != 0:
            part["violations"].append(("harness:%s:stackscan-status" % ename, dict(w, observed="status %d" % st)))
            continue
        rc = r.i32()
        r.blob()
        found = [r.i64(), r.i64()]
        part["evaluations"] += 1
        cls = "returned-0" if rc == 0 else "error-return"
        cnt["radius_stack_scans"] = cnt.get("radius_stack_scans", 0) + 1
        cnt["radius_stack_scans_" + cls] = cnt.get("radius_stack_scans_" + cls, 0) + 1
        for which, d in zip(("ipad", "opad"), found):
            if d >= 0:
                part["violations"].append(("stack:%s:keyed-pad-left-on-stack:%s:%s" % (ename, which, cls),
                                           dict(w, observed="rc=%d; %d-byte prefix of secret xor %s found %d bytes below the top of the "
                                                "private stack after the call returned" % (rc, NEEDLE, which, d))))


def worker(job):
    part = common.new_part()
    alg, tier = job["alg"], job["tier"]
    tpls = gen_templates(alg, job["slice"], job["nslices"], tier, job["seed"])
    full = [t["payload"] for t in tpls]
    red_idx = [i for i, t in enumerate(tpls) if t["entry"] == "stream" and (t["red"] or tier == "thorough")]
    red_tpls = [tpls[i] for i in red_idx]
    for vname in sorted(job["variants"]):
        v = job["variants"][vname]
        res, storm = run_batched(v["exe"], full)
        judge_run(part, v, vname, F_NATIVE, tpls, res, storm)
        for f in forced_selectors(v["flavor"], v["info"], alg):
            res, storm = run_batched(v["exe"], [with_force(full[i], f) for i in red_idx])
            judge_run(part, v, vname, f, red_tpls, res, storm)
        if job["slice"] == 0:
            ne = null_empty_cases(alg, job["seed"])
            judge_null_empty(part, v, vname, ne, common.run_cases(v["exe"], [t["payload"] for t in ne]))
        if v["spec"].get("san") == "plain":
            sc = scan_cases(alg, job["slice"], job["seed"])
            judge_scan(part, v, vname, sc, common.run_cases(v["exe"], [t["payload"] for t in sc]))
            if alg == 0 and job["slice"] == 0:
                rc_ = radius_scan_cases(job["seed"])
                judge_radius_scan(part, v, vname, rc_, common.run_cases(v["exe"], [t["payload"] for t in rc_]))
    part["counters"]["templates"] = len(tpls)
    return c04.compact(part)


RULE = (
    "One case = (hash, key bytes, message bytes, update-chunk lengths incl. zeros, key/message address residues "
    "mod 64 with both blocks ending flush against their heap allocation, entry point hmac_*_init/update/final | "
    "hmac_*() | *_hmac_get_digest() | *_hmac_get_digest_str(), optional second (key, message) on the same "
    "context, forced dispatch selector during the update phase, build variant).  Key lengths: thorough every "
    "0..3 blocks; quick every 0..block+2, 2/3 blocks +-1, the lengths whose own digest sits on a padding "
    "boundary and every 5th other.  Per key length 4-9 message lengths (boundaries of the inner hash and "
    "random up to 4 blocks); per (key length, message length) two random (key, message) twins plus 0x00/0xff/"
    "0x36/0x5c-filled keys; chunkings from C04's generator.  A behaviour class is (hash, transform that ran, "
    "entry point, key-length class relative to the block, message-length class, chunking shape, key alignment "
    "class, reuse); distinct_nontrivial counts classes whose MAC was compared with the reference."
)


def run(tier):
    report = common.Report(PROP, tier, "exploration")
    report.rule = RULE
    report.assumptions = [
        "the key buffer may be released after hmac_*_init (the driver frees it there)",
        "hmac contexts are placed at the alignment their type demands (32 bytes), not more",
        "the forced transform applies to the update phase only: hmac_*_init / hmac_*_final call the hash "
        "init themselves; whole-MAC coverage of each transform comes from the build variants",
    ]
    vlist = c04.C07_QUICK_VARIANTS if tier == "quick" else c04.thorough_variants()
    variants = c04.build_variants(report, vlist)
    if not variants:
        report.inconclusive.append("no build variant compiled")
        return report.finish()
    slim = {k: {"exe": v["exe"], "spec": v["spec"], "flavor": v["flavor"], "info": v["info"]}
            for k, v in variants.items()}
    names = sorted(slim)
    group = len(names) if tier == "quick" else 10
    jobs = []
    for alg in (7, 6, 5, 4, 3, 2, 1, 0):
        ns = (8 if BLOCK[alg] == 128 else 4) * (2 if tier == "thorough" else 1)
        for s in range(ns):
            for i in range(0, len(names), group):
                jobs.append({"alg": alg, "slice": s, "nslices": ns, "tier": tier, "seed": common.seed(),
                             "variants": {k: slim[k] for k in names[i:i + group]}})
    for part in common.parallel(worker, jobs):
        report.merge(part)
    for vname in variants:
        if not report.extra.get("cases@" + vname):
            report.inconclusive.append("variant %s produced no judged case" % vname)
    for need in ("keyclass_k=0", "keyclass_k=B-1", "keyclass_k=B", "keyclass_k=B+1", "keyclass_2B<k<=3B",
                 "images_compared", "stack_scans", "radius_stack_scans", "reuse_cases", "entry_point_agreements", "dispatch_gost512_avx",
                 "dispatch_sha1_shani", "dispatch_sha256_shani", "dispatch_sha1_sse", "dispatch_gost256_sse"):
        if not report.extra.get(need):
            report.inconclusive.append("monitor saw nothing: " + need)
    report.extra["variants_run"] = sorted(variants)
    report.extra["transforms_seen"] = sorted(k[len("dispatch_"):] for k in report.extra if k.startswith("dispatch_"))
    return report.finish()


def replay(path):
    with open(path) as fh:
        rec = json.load(fh)
    w = rec["witness"]
    try:
        exe = common.build(**w["build"])
    except common.BuildError as e:
        print("replay: variant does not build:", e)
        return 2
    t = w["case"]
    if t.get("radius_scan"):
        pay = bytes.fromhex(t["payload_hex"])
        part = common.new_part()
        judge_radius_scan(part, {"spec": w["build"]}, w["variant"], [dict(t, payload=pay)], common.run_cases(exe, [pay]))
        for k, ww in part["violations"]:
            print(" %s: %s" % (k, ww.get("observed")))
        print(" verdict: %s" % ("still failing" if part["violations"] else "not reproduced"))
        return 1 if part["violations"] else 0
    if t.get("null_empty"):
        key, msg = bytes.fromhex(t["key"]), bytes.fromhex(t["msg"])
        pay = p_hmac_oneshot(ENTRY_OP[t["entry"]], t["alg"], 0, 0, 0x5a, 0, 2, key, msg)
        part = common.new_part()
        judge_null_empty(part, {"spec": w["build"]}, w["variant"], [dict(t, payload=pay, expect=ref_hmac(t["alg"], key, msg))],
                         common.run_cases(exe, [pay]))
        for k, ww in part["violations"]:
            print(" %s: %s" % (k, ww.get("observed")))
        print(" verdict: %s" % ("still failing" if part["violations"] else "not reproduced"))
        return 1 if part["violations"] else 0
    if t.get("scan"):
        key, msg = bytes.fromhex(t["key"]), bytes.fromhex(t["msg"])
        ip, op = pads(t["alg"], key)
        nd = [ip[:NEEDLE], op[:NEEDLE]]
        if len(key) > BLOCK[t["alg"]] and 1 <= t["alg"] <= 5:
            nd.append(c04.ref_digest(t["alg"], key)[:20])
        pay = (bytes((OP_HMAC_STACKSCAN, t["alg"], 0, SCAN_KINDS[t["entry"]])) + struct.pack("<I", len(key)) + key +
               struct.pack("<I", len(msg)) + msg + bytes((len(nd),)) +
               b"".join(struct.pack("<I", len(x)) + x for x in nd))
        part = common.new_part()
        tt = dict(t, payload=pay, expect=ref_hmac(t["alg"], key, msg))
        judge_scan(part, {"spec": w["build"]}, w["variant"], [tt], common.run_cases(exe, [pay]))
        for k, ww in part["violations"]:
            print(" %s: %s" % (k, ww.get("observed")))
        print(" verdict: %s" % ("still failing" if part["violations"] else "not reproduced"))
        return 1 if part["violations"] else 0
    force = w.get("force", 0)
    alg = t["alg"]
    key, msg = make_msg(_spec(t["kspec"])), make_msg(_spec(t["mspec"]))
    exp = ref_hmac(alg, key, msg)
    res = common.run_cases(exe, [rebuild_payload(t, force)])
    print("replay %s key=%s" % (rec["property"], rec["key"]))
    print(" hash=%s entry=%s key_len=%d msg_len=%d chunks=%s" % (ALG_NAMES[alg], t["entry"], t["kl"], t["n"],
                                                               t["chunks"][:16]))
    print(" key = %s" % key.hex()[:160])
    print(" msg = %s" % msg.hex()[:160])
    print(" expected MAC: %s" % exp.hex())
    if isinstance(res[0], common.Crash):
        print(" observed: %r\n%s" % (res[0], res[0].report[-2000:]))
        return 1
    bad = False
    if t["entry"] == "stream":
        st, guard, mac, rsz, image, second = parse_stream_obs(res[0])
        print(" observed MAC: %s" % mac.hex())
        bad = mac != exp or not guard
        if second is not None:
            k2, m2 = make_msg(_spec(t["kspec2"])), make_msg(_spec(t["mspec2"]))
            e2 = ref_hmac(alg, k2, m2)
            print(" reuse: expected %s observed %s" % (e2.hex(), second[1].hex()))
            bad = bad or second[1] != e2
        twin = w.get("twin_case")
        if twin:
            r2 = common.run_cases(exe, [rebuild_payload(twin, force)])
            if not isinstance(r2[0], common.Crash):
                p2 = parse_stream_obs(r2[0])
                im2 = p2[5][2] if (w.get("after") == "second final" and p2[5]) else p2[4]
                im1 = second[2] if (w.get("after") == "second final" and second) else image
                rg = diff_ranges(im2, im1)
                print(" hmac context image vs twin key differs at byte ranges: %s (k_opad at offset %s)" % (
                    rg, w["observed"].get("k_opad_offset") if isinstance(w["observed"], dict) else "?"))
                bad = bad or bool(rg)
    else:
        st, guard, out, rsz = parse_oneshot_obs(res[0])
        if t["entry"] == "hex":
            print(" observed text: %r" % out)
            bad = out[:-1].lower() != exp.hex().encode() or out[-1:] != b"\x00"
        else:
            print(" observed MAC: %s" % out.hex())
            bad = out != exp
        bad = bad or not guard
    print(" verdict: %s" % ("still failing" if bad else "not reproduced"))
    return 1 if bad else 0


if __name__ == "__main__":
    sys.exit(run(sys.argv[1] if len(sys.argv) > 1 else "quick"))
