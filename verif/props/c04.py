"""C04 - hash functions give the standard digest for any message, chunking, alignment, build.

Also hosts what C07 (HMAC) shares with it: the build-variant table, the driver protocol
(drivers/c04_hash.c), the reference functions and the chunking generators.

Monitors
  oracle   digest == hashlib (MD5, SHA-1, SHA-2) / verif.oracles.streebog (GOST R 34.11-2012)
           for the streaming, one-shot and hex-string entry points; reported sizes; NUL-terminated text
  agree    the three entry points return the same digest for the same message in the same binary
  zeroise  non-interference: equal-length messages fed with the same chunking leave byte-identical
           context images after *_final
  asan     out-of-bounds access on the exact-size message / digest / context blocks
  guard    canary behind the digest buffer in the plain builds
UBSan / MSan reports are non-gating observations (the same cases run in plain builds and are
judged there by the oracle).
"""
import hashlib
import hmac as _hmac
import json
import struct
import sys

from verif import common
from verif.common import Rng
from verif.oracles import streebog, mdhash

PROP = "C04"

ALG_NAMES = ["md5", "sha1", "sha224", "sha256", "sha384", "sha512", "gost256", "gost512"]
BLOCK = [64, 64, 64, 64, 128, 128, 64, 64]
HS = [16, 20, 28, 32, 48, 64, 32, 64]
LENBYTES = [8, 8, 8, 8, 16, 16, 0, 0]

OP_INFO, OP_HASH_STREAM, OP_HASH_ONESHOT, OP_HASH_HEX, OP_HMAC_STREAM, OP_HMAC_ONESHOT, \
    OP_HMAC_GET, OP_HMAC_HEX, OP_INJECT = range(9)
F_NATIVE, F_GENERIC, F_SSE, F_AVX, F_SHANI = range(5)
FORCE_NAMES = ["native", "generic", "sse", "avx", "shani"]

# ----------------------------------------------------------------------------
# reference functions
# ----------------------------------------------------------------------------


def ref_digest(alg, msg):
    if alg < 6:
        return hashlib.new(ALG_NAMES[alg], msg).digest()
    return streebog.Streebog(256 if alg == 6 else 512, msg).digest()


def ref_hmac(alg, key, msg):
    if alg < 6:
        return _hmac.new(key, msg, ALG_NAMES[alg]).digest()
    return streebog.hmac_streebog(256 if alg == 6 else 512, key, msg)


# ----------------------------------------------------------------------------
# build variants
# ----------------------------------------------------------------------------
FLAVORS = {
    "nosimd": ["-DVD_NOSIMD"],                       # #undef __SSE2__ like tests/hash/main.c
    "base": [],                                       # compiler default (SSE2)
    "ssse3": ["-mssse3"],
    "sse41": ["-msse4.1"],
    "avx": ["-mavx"],
    "avx2": ["-mavx2"],
    "sha": ["-msha", "-msse4.1", "-mssse3"],
    "avx2sha": ["-mavx2", "-msha"],
    "small": ["-DVD_NOSIMD", "-DVD_SMALL_TABLES"],
    "smalltau": ["-DVD_NOSIMD", "-DVD_SMALL_TABLES", "-DVD_SMALL_TAU"],
    "small_simd": ["-DVD_SMALL_TABLES"],              # documented as incompatible: expected not_selectable
}


def vspec(flavor, cc, mode):
    """mode: O0 O2 O3 (plain) | asu | msan"""
    name = "%s-%s-%s" % (flavor, cc, mode)
    if mode in ("asu", "msan"):
        kw = dict(name="c04_hash", sources=["c04_hash.c"], san=mode, cc=cc, flags=list(FLAVORS[flavor]))
    else:
        kw = dict(name="c04_hash", sources=["c04_hash.c"], san="plain", cc=cc,
                  flags=["-" + mode] + list(FLAVORS[flavor]))
    return name, kw


QUICK_VARIANTS = [
    ("nosimd", "gcc", "asu"), ("nosimd", "gcc", "O2"),
    ("avx2sha", "gcc", "asu"), ("avx2sha", "gcc", "O2"),
    ("sha", "clang", "asu"), ("sha", "clang", "O2"),
    ("sse41", "gcc", "O2"), ("avx", "clang", "O3"),
    ("small", "gcc", "O2"), ("base", "clang", "O2"),
]
C07_QUICK_VARIANTS = [
    ("nosimd", "gcc", "asu"), ("nosimd", "gcc", "O2"),
    ("avx2sha", "gcc", "asu"), ("avx2sha", "clang", "O2"),
    ("sse41", "gcc", "O2"), ("small", "clang", "O2"),
]
ASU_FLAVORS = ["nosimd", "sse41", "avx2", "sha", "avx2sha", "small"]


def thorough_variants():
    v = []
    for fl in FLAVORS:
        for cc in ("gcc", "clang"):
            for o in ("O0", "O2", "O3"):
                v.append((fl, cc, o))
    for fl in ASU_FLAVORS:
        for cc in ("gcc", "clang"):
            v.append((fl, cc, "asu"))
    v.append(("nosimd", "clang", "msan"))
    v.append(("sse41", "clang", "msan"))
    return v


def build_variants(report, vlist):
    """-> dict vname -> dict(exe, spec, info)"""
    specs = [vspec(*v) for v in vlist]
    exes = common.try_builds(report, specs)
    kws = dict(specs)
    out = {}
    for (fl, cc, mode), (vname, _) in zip(vlist, specs):
        if vname not in exes:
            continue
        res = common.run_cases(exes[vname], [bytes([OP_INFO])])
        if not res or isinstance(res[0], common.Crash):
            report.builds[vname] = "built, but info query failed: %r" % (res[0] if res else None)
            report.inconclusive.append("variant %s does not answer the info query" % vname)
            continue
        out[vname] = {"exe": exes[vname], "spec": kws[vname], "flavor": fl, "cc": cc, "mode": mode,
                      "info": parse_info(res[0])}
    return out


def parse_info(obs):
    r = common.R(obs)
    r.u8()
    info = {"ctx": [], "hctx": [], "mask": [], "native": []}
    for _ in range(8):
        info["ctx"].append(r.u32())
        info["hctx"].append(r.u32())
        info["mask"].append(r.u32())
        info["native"].append(r.u32())
    info["opad_off"] = [r.u32() for _ in range(4)]
    return info


def dispatch_label(flavor, info, alg, force):
    """which transform really runs for (alg, forced selector) in this binary"""
    if alg in (0, 4, 5):
        return "generic"
    if alg in (6, 7) and flavor.startswith("small"):
        return flavor
    if force != F_NATIVE:
        return FORCE_NAMES[force]
    nat = info["native"][alg]
    if alg == 1:
        return "shani" if nat & 4 else "sse" if nat & 1 else "generic"
    if alg in (2, 3):
        return "shani" if nat & 4 else "generic"
    return "avx" if nat & 2 else "sse" if nat & 1 else "generic"


def forced_selectors(flavor, info, alg):
    """non-native selectors worth running: compiled in and different from what init chose"""
    out = []
    nat = dispatch_label(flavor, info, alg, F_NATIVE)
    for f in (F_GENERIC, F_SSE, F_AVX, F_SHANI):
        if info["mask"][alg] & (1 << f) and FORCE_NAMES[f] != nat:
            out.append(f)
    return out


# ----------------------------------------------------------------------------
# message specs (JSON-able, reproducible)
# ----------------------------------------------------------------------------


def make_msg(spec):
    kind = spec[0]
    if kind == "rand":
        return Rng(*spec[1]).bytes(spec[2])
    if kind == "fill":
        return bytes([spec[1]]) * spec[2]
    if kind == "hex":
        return bytes.fromhex(spec[1])
    raise ValueError(spec)


# ----------------------------------------------------------------------------
# classes for evidence
# ----------------------------------------------------------------------------


def len_class(alg, n):
    b = BLOCK[alg]
    p = b - LENBYTES[alg] - 1 if LENBYTES[alg] else b - 1   # largest residue whose padding fits the block
    r = n % b
    if n == 0:
        size = "empty"
    elif n < b:
        size = "<1blk"
    elif n <= 2 * b:
        size = "1-2blk"
    elif n <= 4 * b:
        size = "2-4blk"
    else:
        size = "long"
    if r == 0:
        res = "r=0"
    elif r == 1:
        res = "r=1"
    elif r == p - 1:
        res = "r=P-1"
    elif r == p:
        res = "r=P"
    elif r == p + 1:
        res = "r=P+1"
    elif r == b - 1:
        res = "r=B-1"
    elif r < p:
        res = "r<P"
    else:
        res = "r>P"
    return size + "," + res


def len_coarse(alg, n):
    b = BLOCK[alg]
    p = b - LENBYTES[alg] - 1 if LENBYTES[alg] else b - 1
    size = "short" if n < b else "multi" if n <= 4 * b else "long"
    return size + ("-fit" if n % b <= p else "-spill")


def align_class(a):
    a &= 63
    if a == 0:
        return "a64"
    for k in (32, 16, 8, 4, 2):
        if a % k == 0:
            return "a%d" % k
    return "a1"


def padding_adjacent(alg, n):
    b = BLOCK[alg]
    lb = LENBYTES[alg] or 8
    r = n % b
    return n > 0 and r in ((b - lb - 1) % b, (b - lb) % b, (b - lb + 1) % b, b - 1, 0, 1)


# ----------------------------------------------------------------------------
# chunk generators
# ----------------------------------------------------------------------------


def kway(rng, n, k, empties=2):
    cuts = sorted(rng.below(n + 1) for _ in range(max(0, k - 1)))
    out = []
    prev = 0
    for c in cuts + [n]:
        out.append(c - prev)
        prev = c
    for _ in range(empties):
        out.insert(rng.below(len(out) + 1), 0)
    return out


def block_pm1(alg, n, variant):
    """chunk lists whose boundaries sit at block-1 / block / block+1 offsets"""
    b = BLOCK[alg]
    pats = [
        [b - 1, 1, b + 1, b - 1, 2],
        [b + 1, b - 1, b, 1],
        [1, b, b - 1, b + 1],
        [b - 1, b - 1, 2, b],
        [1, b - 1, b, b],
        [b, 0, b, 0, b],
    ][variant % 6]
    out = []
    left = n
    for p in pats:
        if left <= 0:
            break
        t = min(p, left)
        out.append(t)
        left -= t
    if left:
        out.append(left)
    return out


def shape_of(alg, n, chunks):
    """coarse chunking shape for evidence classes"""
    b = BLOCK[alg]
    nz = [c for c in chunks if c]
    if len(chunks) <= 1:
        return "one"
    if len(nz) == n and n > 1 and all(c == 1 for c in nz):
        return "bytewise"
    if len(chunks) == 2:
        k = chunks[0]
        r = k % b
        rc = "0" if r == 0 else "1" if r == 1 else "B-1" if r == b - 1 else "mid"
        return "2way:k%%B=%s,k/B=%d" % (rc, min(k // b, 3))
    if 0 in chunks:
        return "kway+empty:%d" % min(len(nz), 6)
    return "kway:%d" % min(len(nz), 6)


# ----------------------------------------------------------------------------
# payload builders
# ----------------------------------------------------------------------------


def p_hash_stream(alg, force, align, pat, ba, sep, msg, chunks):
    return (bytes((OP_HASH_STREAM, alg, force, align & 63, pat, ba, sep)) + struct.pack("<I", len(msg)) + msg +
            struct.pack("<H%dI" % len(chunks), len(chunks), *chunks))


def p_hash_oneshot(hexmode, alg, align, pat, ba, nullsz, msg):
    return (bytes((OP_HASH_HEX if hexmode else OP_HASH_ONESHOT, alg, align & 63, pat, ba, nullsz)) +
            struct.pack("<I", len(msg)) + msg)


def p_inject(alg, force, align, pat, state, lo, hi, counter, sigma, tail, chunks):
    return (bytes((OP_INJECT, alg, force, align & 63, pat)) + struct.pack("<I", len(state)) + state +
            struct.pack("<QQ", lo & common.M64, hi & common.M64) +
            struct.pack("<I", len(counter)) + counter + struct.pack("<I", len(sigma)) + sigma +
            struct.pack("<I", len(tail)) + tail + struct.pack("<H%dI" % len(chunks), len(chunks), *chunks))


def with_force(payload, force):
    """stream / inject payloads carry the forced selector in byte 2"""
    return payload[:2] + bytes((force,)) + payload[3:]


def parse_digest_obs(obs, mode):
    """mode: 'image' (stream), 'size' (one-shot / hex), 'none' (inject)
    -> (status, guard_ok, digest, image, reported_size)"""
    st = obs[0]
    if st != 0:
        return st, None, None, None, None
    guard = obs[1]
    (dl,) = struct.unpack_from("<I", obs, 2)
    dg = obs[6:6 + dl]
    off = 6 + dl
    if mode == "image":
        (il,) = struct.unpack_from("<I", obs, off)
        return st, guard, dg, obs[off + 4: off + 4 + il], None
    if mode == "size":
        (rs,) = struct.unpack_from("<Q", obs, off)
        return st, guard, dg, None, rs
    return st, guard, dg, None, None


OBS_MODE = {"stream": "image", "oneshot": "size", "hex": "size", "inject": "none"}


# ----------------------------------------------------------------------------
# case templates
# ----------------------------------------------------------------------------
# template = dict(entry, alg, n, mspec, chunks, align, sep, pat, ba, nullsz, red, mid, payload, expect)
#   mid   = id of the message content inside the job (entry-point agreement)
#   gid   = id of the non-interference group (same everything but the content)


def gen_short_templates(alg, slice_idx, nslices, tier, seed):
    """every length 0..4 blocks with length % nslices == slice_idx"""
    b = BLOCK[alg]
    thorough = tier == "thorough"
    rng = Rng(PROP, seed, "short", alg, slice_idx)
    out = []
    mid = 0
    gid = 0
    for n in range(0, 4 * b + 1):
        if n % nslices != slice_idx:
            continue
        adj = padding_adjacent(alg, n)
        nrand = 4 if thorough else 2
        specs = [("rand", (PROP, seed, "m", alg, n, i), n) for i in range(nrand)]
        if n and (thorough or adj or n % 8 == 0):
            specs += [("fill", 0x00, n), ("fill", 0xFF, n)]
        contents = []
        for sp in specs:
            m = make_msg(sp)
            contents.append((mid, sp, m, ref_digest(alg, m)))
            mid += 1

        # ---- chunking shapes shared by all contents of this length (non-interference groups)
        shapes = []   # (chunks, align, sep, red)
        a0 = rng.below(64)
        shapes.append(([n], a0, 0, True))
        if n:
            shapes.append(([1] * n, rng.below(64), rng.below(2), n <= 2 * b + 2 or adj))
        if adj and n:
            for a in range(64):
                if a != a0:
                    shapes.append(([n], a, 0, a % 8 in (0, 1) or a in (15, 31, 33, 63)))
        for i in range(8 if thorough else 3):
            k = rng.range(2, 7)
            shapes.append((kway(rng, n, k, empties=rng.below(3)), rng.below(64), rng.below(2), i == 0))
        if n > b - 2:
            for i in range(6 if thorough else 2):
                shapes.append((block_pm1(alg, n, rng.below(6) if not thorough else i), rng.below(64),
                               rng.below(2), i == 0))
        two_way_all = n <= 2 * b + 2
        if two_way_all:
            ks = range(0, n + 1)
        else:
            ks = sorted(set(k for k in (0, 1, b - 1, b, b + 1, 2 * b - 1, 2 * b, 2 * b + 1, n - b, n - 1, n,
                                        rng.below(n + 1), rng.below(n + 1)) if 0 <= k <= n))
        interesting = set((0, 1, b - 1, b, b + 1, n - 1, n, b - (n % b), 2 * b - 1, 2 * b))
        for k in ks:
            shapes.append(([k, n - k], rng.below(64), 0, k in interesting or rng.below(8) == 0))

        for si, (chunks, align, sep, red) in enumerate(shapes):
            pat = rng.below(256)
            ba = rng.below(2)
            # the first two random contents go through every shape (twins); fills and extra
            # contents through a subset
            for ci, (m_id, sp, m, exp) in enumerate(contents):
                if ci >= 2 and not (red or thorough and si % 3 == ci % 3):
                    continue
                if len(chunks) == 2 and ci >= 1 and not red and not thorough:
                    # quick: full 2-way sweep for one content, twins on the reduced set
                    continue
                out.append({"entry": "stream", "alg": alg, "n": n, "mspec": sp, "chunks": chunks,
                            "align": align, "sep": sep, "pat": pat, "ba": ba, "red": red, "mid": m_id,
                            "gid": gid, "expect": exp,
                            "payload": p_hash_stream(alg, 0, align, pat, ba, sep, m, chunks)})
            gid += 1

        # ---- one-shot and hex entry points for every content
        for (m_id, sp, m, exp) in contents:
            aligns = list(range(64)) if (adj and n and m_id % 2 == 0) else [rng.below(64)]
            for a in aligns:
                for hexmode in (0, 1):
                    if len(aligns) > 1 and hexmode and a % 4:
                        continue
                    out.append({"entry": "hex" if hexmode else "oneshot", "alg": alg, "n": n, "mspec": sp,
                                "chunks": [n], "align": a, "sep": 0, "pat": rng.below(256), "ba": rng.below(2),
                                "nullsz": int(rng.below(5) == 0), "red": False, "mid": m_id, "gid": -1,
                                "expect": exp})
                    t = out[-1]
                    t["payload"] = p_hash_oneshot(hexmode, alg, a, t["pat"], t["ba"], t["nullsz"], m)
    return out


LONG_LENGTHS = [65536, 1048577]


def long_specs(alg, n, seed):
    specs = [("rand", (PROP, seed, "L", alg, n, 0), n), ("rand", (PROP, seed, "L", alg, n, 1), n)]
    if n <= 65536:
        specs.append(("fill", 0xFF, n))
    return specs


def long_ref_worker(job):
    """reference digest of one long message (the Python Streebog needs seconds per MiB, so
    these are computed once, in parallel, and handed to the run jobs)"""
    alg, sp = job
    return (alg, repr(sp)), ref_digest(alg, make_msg(sp))


def gen_long_templates(alg, n, tier, seed, refs=None):
    b = BLOCK[alg]
    rng = Rng(PROP, seed, "long", alg, n)
    out = []
    contents = []
    for i, sp in enumerate(long_specs(alg, n, seed)):
        m = make_msg(sp)
        exp = (refs or {}).get((alg, repr(sp)))
        contents.append((i, sp, m, exp if exp is not None else ref_digest(alg, m)))
    shapes = [([n], 0, 0), ([n], 1, 0), ([n], rng.range(2, 63), 0), ([n], 32, 0), ([n], 16, 0),
              ([1, n - 1], 0, 0), ([b - 1, n - b + 1], 0, 0), ([b + 1, n - b - 1], 7, 0),
              ([n - 1, 1], 0, 1), ([n - b - 1, b + 1], 8, 1),
              (kway(rng, n, 5, 2), rng.below(64), 0), (kway(rng, n, 9, 3), rng.below(64), 1)]
    if tier == "thorough":
        for i in range(8):
            shapes.append((kway(rng, n, rng.range(2, 12), rng.below(4)), rng.below(64), rng.below(2)))
    gid = 0
    for chunks, align, sep in shapes:
        pat = rng.below(256)
        ba = rng.below(2)
        for (m_id, sp, m, exp) in contents:
            if m_id == 2 and len(chunks) > 2:
                continue
            out.append({"entry": "stream", "alg": alg, "n": n, "mspec": sp, "chunks": chunks, "align": align,
                        "sep": sep, "pat": pat, "ba": ba, "red": True, "mid": m_id, "gid": gid, "expect": exp,
                        "payload": p_hash_stream(alg, 0, align, pat, ba, sep, m, chunks)})
        gid += 1
    for (m_id, sp, m, exp) in contents:
        for a in (0, 3, 16, 33):
            for hexmode in (0, 1):
                pat, ba = rng.below(256), rng.below(2)
                out.append({"entry": "hex" if hexmode else "oneshot", "alg": alg, "n": n, "mspec": sp,
                            "chunks": [n], "align": a, "sep": 0, "pat": pat, "ba": ba, "nullsz": 0, "red": False,
                            "mid": m_id, "gid": -1, "expect": exp,
                            "payload": p_hash_oneshot(hexmode, alg, a, pat, ba, 0, m)})
    return out


# ---- bit-length counter: state injection --------------------------------------------------


def _pack_state(alg, words):
    if alg in (0, 1, 2, 3):
        return struct.pack("<%dI" % len(words), *words)
    return struct.pack("<%dQ" % len(words), *words)


def gen_inject_templates(alg, tier, seed):
    """midstate on a block boundary with the byte counter near 2^29/2^32/2^61/2^64 (and the
    512-bit counter / checksum carries for GOST); reference = pure-Python finalisation from
    the same midstate."""
    b = BLOCK[alg]
    rng = Rng(PROP, seed, "inject", alg)
    out = []
    reps = 24 if tier == "thorough" else 6
    if alg < 6:
        name = ALG_NAMES[alg]
        nwords = {0: 4, 1: 5, 2: 8, 3: 8, 4: 8, 5: 8}[alg]
        wbits = 32 if alg < 4 else 64
        # byte counts (multiples of the block) just below the interesting boundaries
        bases = [(1 << 29), (1 << 32), (1 << 61)]
        if alg == 0:
            bases.append(1 << 64)   # RFC 1321 keeps the low 64 bits of the length; count wraps too
        if alg in (4, 5):
            bases += [(1 << 64), (1 << 64) + (1 << 61), (1 << 67), (1 << 124)]
        for base in bases:
            for rep in range(reps):
                back = rng.range(0, 3) * b
                count = base - back
                if count < 0:
                    continue
                tail_n = rng.range(0, 4 * b + 3)
                total = count + tail_n
                if alg in (1, 2, 3) and total >= (1 << 61):
                    # SHA-1 / SHA-224/256 are undefined for >= 2^64 bits: stay below
                    tail_n = min(tail_n, (1 << 61) - 1 - count)
                    if tail_n < 0:
                        continue
                if alg in (4, 5) and total >= (1 << 125):
                    continue
                state = [rng.bits(wbits) for _ in range(nwords)]
                tail = rng.bytes(tail_n) if rep % 3 else bytes([0xFF]) * tail_n
                exp = mdhash.MDHash(name, state=state, count=count).update(tail).digest()
                chunks = kway(rng, tail_n, rng.range(1, 4), rng.below(2))
                align, pat = rng.below(64), rng.below(256)
                lo, hi = count & common.M64, count >> 64
                out.append({"entry": "inject", "alg": alg, "n": tail_n, "count": count,
                            "state": [int(x) for x in state], "mspec": ("hex", tail.hex()),
                            "chunks": chunks, "align": align, "pat": pat, "red": True, "mid": -1, "gid": -1,
                            "expect": exp, "boundary": "2^%d" % (base.bit_length() - 1),
                            "payload": p_inject(alg, 0, align, pat, _pack_state(alg, state), lo, hi, b"", b"",
                                                tail, chunks)})
    else:
        bits = 256 if alg == 6 else 512
        special = [0, common.M64, 1, (1 << 63)]
        for rep in range(reps * 4):
            def word():
                return rng.choice(special) if rng.below(3) else rng.bits(64)
            h = [rng.bits(64) for _ in range(8)]
            # counter: multiple of 512 with long runs of ones above, so +512 / +len*8 ripples
            cw = [word() for _ in range(8)]
            cw[0] = (common.M64 - 511) if rng.below(2) else (rng.bits(64) & ~511)
            if rng.below(3) == 0:
                cw = [common.M64 - 511] + [common.M64] * rng.range(0, 7)
                cw += [rng.bits(64) for _ in range(8 - len(cw))]
            sw = [word() for _ in range(8)]
            tail_n = rng.range(0, 4 * b + 3)
            mode = rep % 4
            if mode == 0:
                tail = bytes([0xFF]) * tail_n
            elif mode == 1:
                tail = b"".join(struct.pack("<Q", word()) for _ in range(tail_n // 8 + 1))[:tail_n]
            else:
                tail = rng.bytes(tail_n)
            ref = streebog.Streebog(bits)
            ref.h = list(h)
            ref.n = sum(w << (64 * i) for i, w in enumerate(cw))
            ref.sigma = sum(w << (64 * i) for i, w in enumerate(sw))
            exp = ref.update(tail).digest()
            chunks = kway(rng, tail_n, rng.range(1, 4), rng.below(2))
            align, pat = rng.below(64), rng.below(256)
            out.append({"entry": "inject", "alg": alg, "n": tail_n, "state": [int(x) for x in h],
                        "counter": [int(x) for x in cw], "sigma": [int(x) for x in sw],
                        "mspec": ("hex", tail.hex()), "chunks": chunks, "align": align, "pat": pat, "red": True,
                        "mid": -1, "gid": -1, "expect": exp, "boundary": "gost-carry",
                        "payload": p_inject(alg, 0, align, pat, struct.pack("<8Q", *h), 0, 0,
                                            struct.pack("<8Q", *cw), struct.pack("<8Q", *sw), tail, chunks)})
    return out


def rebuild_payload(t, force):
    """payload from a JSON-ed template (replay)"""
    alg = t["alg"]
    msg = make_msg(t["mspec"])
    e = t["entry"]
    if e == "stream":
        return p_hash_stream(alg, force, t["align"], t["pat"], t["ba"], t["sep"], msg, t["chunks"])
    if e in ("oneshot", "hex"):
        return p_hash_oneshot(e == "hex", alg, t["align"], t["pat"], t["ba"], t.get("nullsz", 0), msg)
    if e == "inject":
        if alg < 6:
            cnt = int(t["count"])
            return p_inject(alg, force, t["align"], t["pat"], _pack_state(alg, t["state"]), cnt & common.M64,
                            cnt >> 64, b"", b"", msg, t["chunks"])
        return p_inject(alg, force, t["align"], t["pat"], struct.pack("<8Q", *t["state"]), 0, 0,
                        struct.pack("<8Q", *t["counter"]), struct.pack("<8Q", *t["sigma"]), msg, t["chunks"])
    raise ValueError(e)


def expected_of(t):
    alg = t["alg"]
    msg = make_msg(t["mspec"])
    if t["entry"] == "inject":
        if alg < 6:
            return mdhash.MDHash(ALG_NAMES[alg], state=t["state"], count=int(t["count"])).update(msg).digest()
        ref = streebog.Streebog(256 if alg == 6 else 512)
        ref.h = list(t["state"])
        ref.n = sum(w << (64 * i) for i, w in enumerate(t["counter"]))
        ref.sigma = sum(w << (64 * i) for i, w in enumerate(t["sigma"]))
        return ref.update(msg).digest()
    return ref_digest(alg, msg)


# ----------------------------------------------------------------------------
# judging
# ----------------------------------------------------------------------------


def tpl_public(t):
    """JSON-able description without the bulky payload; long messages stay as specs"""
    d = {k: v for k, v in t.items() if k not in ("payload", "expect", "mid", "gid", "red")}
    d["mspec"] = list(d["mspec"])
    if d["mspec"][0] == "rand":
        d["mspec"][1] = list(d["mspec"][1])
    if len(d.get("chunks", ())) > 64:
        d["chunks_note"] = "%d chunks" % len(d["chunks"])
    return d


def witness(v, vname, force, label, t, expected, observed, extra=None):
    w = {"variant": vname, "build": v["spec"], "force": force, "dispatch": label, "case": tpl_public(t),
         "expected": expected, "observed": observed, "seed": common.seed()}
    if extra:
        w.update(extra)
    return w


def diff_ranges(a, b):
    out = []
    start = None
    for i in range(max(len(a), len(b))):
        x = a[i] if i < len(a) else None
        y = b[i] if i < len(b) else None
        if x != y:
            if start is None:
                start = i
        elif start is not None:
            out.append([start, i - 1])
            start = None
    if start is not None:
        out.append([start, max(len(a), len(b)) - 1])
    return out[:16]


MAX_CRASHES_PER_RUN = 40
BATCH = 6000


def run_batched(exe, payloads):
    """run_cases in batches; stop early on a crash storm.  -> (results, storm)"""
    res = []
    crashes = 0
    for i in range(0, len(payloads), BATCH):
        part = common.run_cases(exe, payloads[i:i + BATCH])
        res.extend(part)
        crashes += sum(1 for x in part if isinstance(x, common.Crash))
        if crashes > MAX_CRASHES_PER_RUN:
            return res, True
    return res, False


def handle_crash(part, prop, v, vname, force, label, t, crash):
    entry = "%s.%s" % (ALG_NAMES[t["alg"]], t["entry"])
    key = common.crash_key(crash, entry)
    if crash.kind in ("ubsan", "msan"):
        # non-gating: the same case is judged by the oracle in the plain builds of the same flavor
        part["observations"][key] = part["observations"].get(key, 0) + 1
        return
    if crash.kind == "exit" and crash.returncode == 0:
        key = "harness:%s:no-observation" % entry
    part["violations"].append((key, witness(v, vname, force, label, t, t["expect"].hex() if "expect" in t else None,
                                            "crash %s rc=%s" % (crash.kind, crash.returncode),
                                            {"report": crash.report[-3000:]})))


def judge_run(part, v, vname, force, tpls, results, storm):
    """compare one variant/force run of `tpls` with the oracle; fills `part`"""
    info = v["info"]
    flavor = v["flavor"]
    images = {}      # gid -> (image, template)
    by_mid = {}      # mid -> {entry: digest}
    cnt = part["counters"]
    for t, obs in zip(tpls, results):
        alg = t["alg"]
        label = dispatch_label(flavor, info, alg, force)
        if isinstance(obs, common.Crash):
            handle_crash(part, PROP, v, vname, force, label, t, obs)
            continue
        entry = t["entry"]
        aname = ALG_NAMES[alg]
        want_image = entry == "stream"
        try:
            st, guard, dg, image, rsz = parse_digest_obs(obs, OBS_MODE[entry])
        except (struct.error, IndexError):
            part["violations"].append(("harness:%s.%s:bad-observation" % (aname, entry),
                                       witness(v, vname, force, label, t, None, obs.hex()[:200])))
            continue
        if st == 1:
            cnt["force_unavailable"] = cnt.get("force_unavailable", 0) + 1
            continue
        if st != 0:
            part["violations"].append(("harness:%s.%s:driver-status" % (aname, entry),
                                       witness(v, vname, force, label, t, None, "status %d" % st)))
            continue
        part["evaluations"] += 1
        cnt["digests_" + aname] = cnt.get("digests_" + aname, 0) + 1
        cnt["cases@" + vname] = cnt.get("cases@" + vname, 0) + 1
        cnt["dispatch_%s_%s" % (aname, label)] = cnt.get("dispatch_%s_%s" % (aname, label), 0) + 1
        exp = t["expect"]
        n = t["n"]
        shape = shape_of(alg, n, t["chunks"]) if entry in ("stream", "inject") else entry
        part["classes"].add((aname, label, entry, len_class(alg, n), shape, align_class(t["align"])))
        if entry == "inject":
            part["classes"].add((aname, label, "inject", t["boundary"]))
        if not guard:
            part["violations"].append(("guard:%s.%s:digest-buffer-overrun" % (aname, entry),
                                       witness(v, vname, force, label, t, exp.hex(), dg.hex())))
        if entry == "hex":
            text = dg
            ok = (len(text) == 2 * HS[alg] + 1 and text[-1:] == b"\x00" and
                  text[:-1].lower() == exp.hex().encode())
            if not ok:
                part["violations"].append(("oracle:%s.hex:wrong-text:%s:%s" % (aname, label, len_coarse(alg, n)),
                                           witness(v, vname, force, label, t, exp.hex(), repr(text))))
            elif not t.get("nullsz") and rsz != 2 * HS[alg]:
                part["violations"].append(("oracle:%s.hex:wrong-size" % aname,
                                           witness(v, vname, force, label, t, 2 * HS[alg], rsz)))
            got = bytes.fromhex(text[:-1].decode("ascii", "replace")) if ok else text
        else:
            got = dg
            if dg != exp:
                sc = "one" if len(t["chunks"]) <= 1 else "chunked"
                part["violations"].append((
                    "oracle:%s.%s:wrong-digest:%s:%s:%s" % (aname, entry, label, sc, len_coarse(alg, n)),
                    witness(v, vname, force, label, t, exp.hex(), dg.hex())))
            elif entry == "oneshot" and not t.get("nullsz") and rsz != HS[alg]:
                part["violations"].append(("oracle:%s.oneshot:wrong-size" % aname,
                                           witness(v, vname, force, label, t, HS[alg], rsz)))
        if t["mid"] >= 0 and force == F_NATIVE:
            by_mid.setdefault((alg, n, t["mid"]), {}).setdefault(entry, (got, t))
        if want_image and t["gid"] >= 0:
            k = (alg, n, t["gid"])
            prev = images.get(k)
            cnt["images_compared"] = cnt.get("images_compared", 0) + (1 if prev else 0)
            if not any(image):
                cnt["images_all_zero"] = cnt.get("images_all_zero", 0) + 1
            if prev is None:
                images[k] = (image, t)
            elif prev[0] != image:
                part["violations"].append((
                    "zeroise:%s.final:context-depends-on-message:%s" % (aname, label),
                    witness(v, vname, force, label, t, "context image equal to that of the twin message",
                            {"differing_byte_ranges": diff_ranges(prev[0], image), "image": image.hex(),
                             "twin_image": prev[0].hex()}, {"twin_case": tpl_public(prev[1])})))
        if len(part["samples"]) < 3 and (t["n"] % 37 == 5 or entry == "inject"):
            part["samples"].append({"variant": vname, "dispatch": label, "alg": aname, "entry": entry, "len": n,
                                    "chunks": t["chunks"][:12], "align": t["align"],
                                    "digest": (got.hex() if isinstance(got, bytes) else str(got))[:64],
                                    "matches_reference": got == exp})
    for (alg, n, mid), d in by_mid.items():
        if len(d) >= 2:
            cnt["entry_point_agreements"] = cnt.get("entry_point_agreements", 0) + 1
            vals = set(x[0] for x in d.values())
            if len(vals) > 1:
                t = next(iter(d.values()))[1]
                part["violations"].append(("agree:%s:entry-points-disagree" % ALG_NAMES[alg],
                                           witness(v, vname, force, dispatch_label(flavor, info, alg, force), t,
                                                   "same digest from every entry point",
                                                   {e: x[0].hex() if isinstance(x[0], bytes) else str(x[0])
                                                    for e, x in d.items()})))
    if storm:
        part["inconclusive"].append("crash storm in %s (force %s): run cut short" % (vname, FORCE_NAMES[force]))


def compact(part, keep=25):
    """per key keep the smallest witnesses first and at most `keep` of them (a broken transform
    fails tens of thousands of cases; counts in the report are then lower bounds)"""
    by = {}
    for k, w in part["violations"]:
        by.setdefault(k, []).append(w)
    out = []
    for k, ws in by.items():
        ws.sort(key=lambda w: (w["case"].get("n", 0) + w["case"].get("kl", 0), len(w["case"].get("chunks", ()))))
        out.extend((k, w) for w in ws[:keep])
    part["violations"] = out
    return part


OP_HASH_STACKSCAN = 11


def stack_cases(alg, seed):
    """one-shot / hex entry points keep their context in an automatic object: after the call returned the tail of
    the message (what the context buffered) must not be readable on the dead stack"""
    rng = Rng(PROP, "stackscan", seed, alg)
    b = BLOCK[alg]
    out = []
    for n in (40, b - 9, b + 40, 2 * b + 33):
        for hexe in (0, 1):
            msg = bytes(rng.below(255) + 1 for _ in range(n))
            tail = msg[(n // b) * b:]
            needles = [tail[:32], msg[:32]]
            pay = (bytes((OP_HASH_STACKSCAN, alg, 0, hexe)) + struct.pack("<I", n) + msg + bytes((len(needles),)) +
                   b"".join(struct.pack("<I", len(x)) + x for x in needles))
            out.append({"alg": alg, "hex": hexe, "n": n, "msg": msg.hex(), "payload": pay, "expect": ref_digest(alg, msg)})
    return out


def judge_stack(part, v, vname, cases, results):
    cnt = part["counters"]
    for t, obs in zip(cases, results):
        ename = "%s.%s" % (ALG_NAMES[t["alg"]], "hex" if t["hex"] else "oneshot")
        w = {"variant": vname, "build": v["spec"], "case": {"alg": t["alg"], "hex": t["hex"], "n": t["n"], "msg": t["msg"], "scan": True},
             "seed": common.seed()}
        if isinstance(obs, common.Crash):
            part["violations"].append((common.crash_key(obs, ename + ".stackscan"), dict(w, observed="crash %s" % obs.kind, report=obs.report[-2000:])))
            continue
        r = common.R(obs)
        st = r.u8()
        if st == 3:
            continue
        if st != 0:
            part["violations"].append(("harness:%s:stackscan-status" % ename, dict(w, observed="status %d" % st)))
            continue
        out = r.blob()
        tail_at, head_at = r.i64(), r.i64()
        part["evaluations"] += 1
        cnt["stack_scans"] = cnt.get("stack_scans", 0) + 1
        got = bytes.fromhex(out[:-1].decode()) if t["hex"] else out
        if got != t["expect"]:
            part["violations"].append(("oracle:%s:wrong-digest:on-private-stack" % ename, dict(w, expected=t["expect"].hex(), observed=got.hex())))
        if tail_at >= 0 and "-O0" in (v["spec"].get("flags") or []):
            # unoptimised code keeps every temporary in memory (vector registers holding the block are spilled by the
            # transform): such a copy is not the context and is not judged
            k = "stack:%s:message-bytes-on-stack-in-O0-build" % ename
            part["observations"][k] = part["observations"].get(k, 0) + 1
        elif tail_at >= 0:
            part["violations"].append(("stack:%s:context-buffer-left-on-stack" % ename,
                                       dict(w, observed="32 bytes of the message tail (what the context buffered) found %d bytes below the "
                                            "top of the private stack after the call returned" % tail_at)))
        if head_at >= 0 and t["n"] >= BLOCK[t["alg"]]:
            k = "stack:%s:copy-of-a-full-block-left-on-stack" % ename
            part["observations"][k] = part["observations"].get(k, 0) + 1


OP_HUGE_ONESHOT = 12
HUGE_N = (1 << 32) + 100
_huge_ref = {}


def huge_ref(alg):
    """digest of HUGE_N zero octets, hashlib fed in 64 MiB pieces"""
    if alg not in _huge_ref:
        h = hashlib.new(ALG_NAMES[alg])
        z = bytes(1 << 26)
        left = HUGE_N
        while left:
            k = min(left, len(z))
            h.update(z[:k])
            left -= k
        _huge_ref[alg] = h.digest()
    return _huge_ref[alg]


def huge_cases(part, job):
    """one call carrying more than 2^32 bytes (size arithmetic of a single update): SHA-2 only, on one optimised build
    (quick: SHA-256 through SHA-NI if compiled in, and SHA-512; thorough: all four, one-shot and hex)"""
    alg = job["alg"]
    if alg not in (2, 3, 4, 5) or (job["tier"] == "quick" and alg not in (3, 5)):
        return
    names = [n for n in sorted(job["variants"]) if job["variants"][n]["spec"].get("san") == "plain"
             and ("-O2" in job["variants"][n]["spec"].get("flags", []) or "-O3" in job["variants"][n]["spec"].get("flags", []))]
    pref = [n for n in names if "sha" in n] or names
    if not pref:
        return
    vname = pref[0]
    v = job["variants"][vname]
    for hexe in ((0,) if job["tier"] == "quick" else (0, 1)):
        pay = bytes((OP_HUGE_ONESHOT, alg, hexe)) + struct.pack("<Q", HUGE_N)
        res = common.run_cases(v["exe"], [pay], wall_timeout=900)
        ename = "%s.%s" % (ALG_NAMES[alg], "hex" if hexe else "oneshot")
        w = {"variant": vname, "build": v["spec"], "case": {"alg": alg, "hex": hexe, "n": HUGE_N, "huge": True}, "seed": common.seed()}
        obs = res[0] if res else None
        if obs is None or isinstance(obs, common.Crash):
            if obs is not None and obs.kind == "hang":
                part["inconclusive"].append("huge one-shot %s on %s exceeded its CPU budget" % (ename, vname))
            else:
                part["violations"].append((common.crash_key(obs, ename + ".huge") if obs is not None else "harness:%s:no-observation" % ename,
                                           dict(w, observed=repr(obs))))
            continue
        r = common.R(obs)
        st = r.u8()
        if st != 0:
            part["inconclusive"].append("huge one-shot %s: driver status %d (mapping failed?)" % (ename, st))
            continue
        out = r.blob()
        got = bytes.fromhex(out[:-1].decode()) if hexe else out
        part["evaluations"] += 1
        part["counters"]["huge_single_call_cases"] = part["counters"].get("huge_single_call_cases", 0) + 1
        if got != huge_ref(alg):
            part["violations"].append(("oracle:%s:wrong-digest:single-call-of-2^32+100-bytes" % ename,
                                       dict(w, expected=huge_ref(alg).hex(), observed=got.hex())))


def worker(job):
    """job: kind, alg, params, tier, seed, variants{vname -> v}"""
    part = common.new_part()
    kind = job["kind"]
    alg = job["alg"]
    tier = job["tier"]
    seed = job["seed"]
    if kind == "short":
        tpls = gen_short_templates(alg, job["slice"], job["nslices"], tier, seed)
    elif kind == "long":
        tpls = gen_long_templates(alg, job["n"], tier, seed, job.get("refs"))
    else:
        tpls = gen_inject_templates(alg, tier, seed)
    full = [t["payload"] for t in tpls]
    red_idx = [i for i, t in enumerate(tpls) if t["entry"] in ("stream", "inject") and
               (t["red"] or tier == "thorough")]
    red_tpls = [tpls[i] for i in red_idx]
    for vname in sorted(job["variants"]):
        v = job["variants"][vname]
        if kind == "long" and job["n"] > 100000 and v["flavor"].startswith("small"):
            # bit-serial L transform: ~1 s per MiB; four shapes x twin contents are enough here
            res, storm = run_batched(v["exe"], full[:8])
            judge_run(part, v, vname, F_NATIVE, tpls[:8], res, storm)
            continue
        res, storm = run_batched(v["exe"], full)
        judge_run(part, v, vname, F_NATIVE, tpls, res, storm)
        for f in forced_selectors(v["flavor"], v["info"], alg):
            pl = [with_force(full[i], f) for i in red_idx]
            res, storm = run_batched(v["exe"], pl)
            judge_run(part, v, vname, f, red_tpls, res, storm)
    if kind == "inject":
        huge_cases(part, job)
        for vname in sorted(job["variants"]):
            v = job["variants"][vname]
            if v["spec"].get("san") == "plain":
                sc = stack_cases(alg, seed)
                judge_stack(part, v, vname, sc, common.run_cases(v["exe"], [t["payload"] for t in sc]))
    for t in tpls:      # free memory early in long jobs
        t.pop("payload", None)
    part["counters"]["templates"] = len(tpls)
    return compact(part)


RULE = (
    "One case = (algorithm, message bytes, list of update-chunk lengths incl. zeros, source address residue "
    "mod 64 with the message END flush against the end of its heap block, entry point stream/one-shot/hex, "
    "forced dispatch selector, build variant).  Generated deterministically from VERIF_SEED: every length "
    "0..4 blocks; per length random twins (+0x00/0xff fills); single update, byte-at-a-time, every 2-way split "
    "for lengths <= 2 blocks+2 (boundary and sampled splits above), random k-way splits with empty updates, "
    "splits at block-1/block/block+1; all 64 alignments for lengths adjacent to the padding boundaries, a "
    "random one elsewhere; 64 KiB and 1 MiB+1 messages; thorough adds counter state injection (MD5/SHA byte "
    "count near 2^29, 2^32, 2^61, 2^64(+), GOST 512-bit counter/checksum carry ripples).  Every template runs "
    "in every build variant; the reduced subset additionally with each compiled-in transform forced through "
    "the context's use_sse/use_avx/use_simd fields.  A behaviour class is (algorithm, transform that actually "
    "ran, entry point, length class relative to block and padding boundary, chunking shape, alignment class); "
    "distinct_nontrivial counts the classes observed with a digest compared against the reference."
)


def make_jobs(tier, variants, seed):
    """quick: one job carries every variant, except the MiB-sized messages (3 variants per job, the
    GOST reference alone needs ~5 s per MiB); thorough: 12 variants per job (6 for MiB-sized)."""
    names = sorted(variants)
    base = []
    for alg in range(8):
        for n in LONG_LENGTHS:
            base.append(({"kind": "long", "alg": alg, "n": n},
                         (3 if tier == "quick" else 6) if n > 100000 else 12))
    for alg in range(8):
        ns = (8 if BLOCK[alg] == 128 else 4) * (2 if tier == "thorough" else 1)
        for s in range(ns):
            base.append(({"kind": "short", "alg": alg, "slice": s, "nslices": ns},
                         len(names) if tier == "quick" else 12))
    for alg in range(8):
        base.append(({"kind": "inject", "alg": alg}, len(names)))
    jobs = []
    for j, group in base:
        for i in range(0, len(names), group):
            jj = dict(j)
            jj.update(tier=tier, seed=seed, variants={k: variants[k] for k in names[i:i + group]})
            jobs.append(jj)
    # slowest first: MiB-sized GOST (Python reference), then the other long jobs
    jobs.sort(key=lambda j: 0 if (j["kind"] == "long" and j["alg"] >= 6 and j["n"] > 100000) else
              1 if j["kind"] == "long" else 2)
    return jobs


def run(tier):
    report = common.Report(PROP, tier, "exploration")
    report.rule = RULE
    report.assumptions = [
        "contexts are placed at the alignment their type demands (32 bytes), not more",
        "SHA-1/SHA-224/SHA-256 state injection stays below 2^64 message bits (undefined beyond)",
        "UBSan/MSan reports are observations; the same cases are judged by the oracle in plain builds",
    ]
    vlist = QUICK_VARIANTS if tier == "quick" else thorough_variants()
    variants = build_variants(report, vlist)
    if not variants:
        report.inconclusive.append("no build variant compiled")
        return report.finish()
    slim = {k: {"exe": v["exe"], "spec": v["spec"], "flavor": v["flavor"], "info": v["info"]}
            for k, v in variants.items()}
    refs = dict(common.parallel(long_ref_worker, [(alg, sp) for alg in (7, 6, 5, 4, 3, 2, 1, 0) for n in LONG_LENGTHS[::-1]
                                                  for sp in long_specs(alg, n, common.seed())]))
    jobs = make_jobs(tier, slim, common.seed())
    for j in jobs:
        if j["kind"] == "long":
            j["refs"] = {k: v for k, v in refs.items() if k[0] == j["alg"]}
    for part in common.parallel(worker, jobs):
        report.merge(part)
    # every variant that compiled must have produced digests; every transform must have run
    for vname in variants:
        if not report.extra.get("cases@" + vname):
            report.inconclusive.append("variant %s produced no judged case" % vname)
    for need in ("dispatch_sha1_generic", "dispatch_sha1_sse", "dispatch_sha1_shani", "dispatch_sha256_shani",
                 "dispatch_sha256_generic", "dispatch_gost512_generic", "dispatch_gost512_sse",
                 "dispatch_gost512_avx", "dispatch_gost512_small", "images_compared", "entry_point_agreements"):
        if not report.extra.get(need):
            report.inconclusive.append("monitor saw nothing: " + need)
    report.extra["variants_run"] = sorted(variants)
    report.extra["transforms_seen"] = sorted(k[len("dispatch_"):] for k in report.extra if k.startswith("dispatch_"))
    return report.finish()


def replay(path):
    with open(path) as fh:
        rec = json.load(fh)
    w = rec["witness"]
    kw = dict(w["build"])
    try:
        exe = common.build(**kw)
    except common.BuildError as e:
        print("replay: variant does not build:", e)
        return 2
    t = w["case"]
    if t.get("huge"):
        part = common.new_part()
        huge_cases(part, {"alg": t["alg"], "tier": "thorough" if t["hex"] else "quick", "variants": {w["variant"]: {"exe": exe, "spec": w["build"]}}})
        for k, ww in part["violations"]:
            print(" %s: %s" % (k, str(ww.get("observed"))[:200]))
        print(" verdict: %s" % ("still failing" if part["violations"] else "not reproduced"))
        return 1 if part["violations"] else 0
    if t.get("scan"):
        msg = bytes.fromhex(t["msg"])
        b = BLOCK[t["alg"]]
        tail = msg[(len(msg) // b) * b:]
        pay = (bytes((OP_HASH_STACKSCAN, t["alg"], 0, t["hex"])) + struct.pack("<I", len(msg)) + msg + bytes((2,)) +
               b"".join(struct.pack("<I", len(x)) + x for x in (tail[:32], msg[:32])))
        part = common.new_part()
        judge_stack(part, {"spec": w["build"]}, w["variant"], [dict(t, payload=pay, expect=ref_digest(t["alg"], msg))],
                    common.run_cases(exe, [pay]))
        for k, ww in part["violations"]:
            print(" %s: %s" % (k, ww.get("observed")))
        print(" verdict: %s" % ("still failing" if part["violations"] else "not reproduced"))
        return 1 if part["violations"] else 0
    t["mspec"] = tuple(t["mspec"]) if t["mspec"][0] != "rand" else ("rand", tuple(t["mspec"][1]), t["mspec"][2])
    force = w.get("force", 0)
    payload = rebuild_payload(t, force)
    exp = expected_of(t)
    res = common.run_cases(exe, [payload])
    print("replay %s key=%s" % (rec["property"], rec["key"]))
    print(" case: %s" % json.dumps({k: v for k, v in t.items() if k != "mspec"})[:600])
    print(" expected digest: %s" % exp.hex())
    twin = w.get("twin_case")
    if isinstance(res[0], common.Crash):
        print(" observed: %r\n%s" % (res[0], res[0].report[-2000:]))
        return 1
    st, guard, dg, image, rsz = parse_digest_obs(res[0], OBS_MODE[t["entry"]])
    if t["entry"] == "hex":
        print(" observed text  : %r" % dg)
        bad = dg[:-1].lower() != exp.hex().encode() or dg[-1:] != b"\x00"
    else:
        print(" observed digest: %s" % (dg.hex() if dg is not None else "status %d" % st))
        bad = dg != exp
    if twin and t["entry"] == "stream":
        twin["mspec"] = tuple(twin["mspec"]) if twin["mspec"][0] != "rand" else \
            ("rand", tuple(twin["mspec"][1]), twin["mspec"][2])
        r2 = common.run_cases(exe, [rebuild_payload(twin, force)])
        if not isinstance(r2[0], common.Crash):
            im2 = parse_digest_obs(r2[0], "image")[3]
            print(" context image differs from twin at byte ranges: %s" % diff_ranges(im2, image))
            bad = bad or im2 != image
    if not guard:
        print(" digest buffer canary overwritten")
        bad = True
    print(" verdict: %s" % ("still failing" if bad else "not reproduced"))
    return 1 if bad else 0


if __name__ == "__main__":
    sys.exit(run(sys.argv[1] if len(sys.argv) > 1 else "quick"))
